import sys, json, collections, time
sys.path.insert(0,'tools')
import vlib, gen_c12 as g
db = json.load(open('.build/c12_db.json'))
fe = g.feature_ids(vlib.REPO); fl = g.cpu_flag_bits(vlib.REPO)
qs = g.x86_queries(db)
h = vlib.build_harness("c12")
out, rc, err = vlib.run_lines([str(h)], [q["line"] for q in qs])
rows=[]
for q,a in zip(qs,out):
    if a=="noinst": continue
    an=g.parse_answer(a)
    if an.get("v")!="Ok" or an.get("rw")!="Ok": continue
    rows.append((q, an, g.make_row(q, db["x86"][q["form"]], an, fe, fl)))
mon, rc, err = vlib.run_model("C12", [g.monitor_line(r) for q,an,r in rows])
print(len(rows), len(mon), collections.Counter(m.split(":")[0] if m!="good" else m for m in mon))
cl=collections.defaultdict(list)
for (q,an,r),m in zip(rows,mon):
    if m!="good":
        cl[(m, q["implicit"])].append(q)
for k,v in sorted(cl.items(), key=lambda kv:-len(kv[1])):
    names=collections.Counter(q["line"].split()[2] for q in v)
    print(k, len(v), list(names.items())[:14])
    print("    e.g.", v[0]["line"], "|", v[0]["variant"])
print("=====")
def show(name, why=None, n=3):
    k=0
    for (q,an,r),m in zip(rows,mon):
        if m!="good" and q["line"].split()[2]==name and q["implicit"] and (why is None or why in m):
            f=db["x86"][q["form"]]
            print(m, "|", q["line"], "|", f["prefix"], f["ext"], [o["data"] for o in f["ops"]], f["opcode"])
            print("    db", [(d["read"],d["write"],d["lo"],d["width"],d["memAlt"]) for d in q["dbops"]], "impl", ["%x,rm%d,%x,%x,%x"%(o[0],o[2],o[4],o[5],o[6]) for o in an["oplist"]], "f=",an.get("f"), "e=",an.get("e"))
            k+=1
            if k>=n: break
for nm in ["kmovb","vpslld","vpermq","imul","vcvtpd2dq","bndmov","fld","mov","vmovd"]: show(nm, "op")
fc=collections.Counter()
for (q,an,r),m in zip(rows,mon):
    if m=="BAD features":
        f=db["x86"][q["form"]]
        fc[(f["prefix"], tuple(f["ext"]), q["opts"])]+=1
print(len(fc)); 
for k,v in fc.most_common(40): print(k,v)
print("=====F")
seen=set()
for (q,an,r),m in zip(rows,mon):
    if m=="BAD features":
        f=db["x86"][q["form"]]
        if "APX_F" in f["ext"]: continue
        key=(tuple(f["ext"]), q["opts"], f["l"])
        if key in seen: continue
        seen.add(key)
        print(q["line"], "|", f["ext"], [fe.get(e) for e in f["ext"]], f["opcode"], "| f=", an.get("f"), "e=", an.get("e")[:12])
print("=====R")
nm=collections.Counter()
for (q,an,r),m in zip(rows,mon):
    if "regmem" in m and q["implicit"]:
        nm[q["line"].split()[2]]+=1
print(sorted(nm.items()))
for n in ["xchg","vpermilpd","movq", "vpsraq"]: show(n,"regmem",2)
