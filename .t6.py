import sys
sys.path.insert(0,'tools')
import vlib
h = vlib.build_harness("c12")
ops = ["e add - - 0 6 1 r.gpd.8 r.gpd.9", "e add - - 0 6 1 r.gpq.8 m.8.q5.-", "e add - - 0 6 1 m.4.q5.- r.gpd.9", "e vpaddd - - 0 6 1 r.xmm.1 r.xmm.2 r.xmm.3",
 "e vpaddd - k1 0 6 1 r.zmm.1 r.zmm.2 m.64.q5.-", "e mul - - 0 6 1 r.gpq.2 r.gpq.0 r.gpq.9", "e movss - - 0 6 1 r.xmm.1 m.4.q5.-", "e movss - - 0 6 1 r.xmm.1 r.xmm.2",
 "e div - - 0 6 1 r.gpq.2 r.gpq.0 r.gpq.9", "e cmovz - - 0 8 1 r.gpd.8 r.gpd.9", "e vpgatherdd - k1 0 6 1 r.xmm.1 m.4.q5.x7", "e kaddb - - 0 6 1 r.k.2 r.k.4 r.k.6",
 "e shl - - 0 8 1 r.gpd.8 r.gpbl.1", "e imul - - 0 6 1 r.gpw.0 r.gpbl.8", "e bsf - - 0 8 1 r.gpd.8 r.gpd.9", "e vp2intersectd - - 0 6 1 r.k.2 r.k.3 r.xmm.1 r.xmm.2", "e andn E - 0 6 1 r.gpd.8 r.gpd.9 r.gpd.10", "e punpcklbw - - 0 6 1 r.xmm.1 r.xmm.2"]
out, rc, err = vlib.run_lines([str(h)], ops)
print(rc, err[-1500:])
for o,l in zip(ops,out): print(o, "->", l)
