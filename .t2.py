import sys, json, collections, time
sys.path.insert(0,'tools')
import vlib, gen_c12 as g
t=time.time()
db = json.load(open('.build/c12_db.json'))
fe = g.feature_ids(vlib.REPO); fl = g.cpu_flag_bits(vlib.REPO)
print(len(fe), fl)
qs = g.x86_queries(db)
print("queries", len(qs), time.time()-t)
h = vlib.build_harness("c12")
out, rc, err = vlib.run_lines([str(h)], [q["line"] for q in qs])
print(rc, len(out), err[-500:], time.time()-t)
st = collections.Counter()
rows = {}
valid = []
seenform = {}
for q, a in zip(qs, out):
    if a == "noinst": st["noinst"]+=1; continue
    an = g.parse_answer(a)
    if an.get("v") != "Ok": st["invalid:"+an.get("v","?")]+=1; continue
    if an.get("rw") != "Ok": st["rwerr:"+an.get("rw","?")]+=1; print("RWERR", q["line"], a[:100]); continue
    if an.get("e","").startswith("!"): st["encfail"]+=1
    st["valid"]+=1
    r = g.make_row(q, db["x86"][q["form"]], an, fe, fl)
    rows.setdefault(r, []).append(q)
    valid.append((q, an, r))
    seenform[q["form"]] = 1
print(st)
print("distinct rows", len(rows), "forms covered", len(seenform), "eligible", sum(1 for f in db["x86"] if g.eligible(f)))
json.dump([ (q["line"], r) for q,an,r in valid], open(".build/c12_rows.json","w"))
mon = [g.monitor_line(r) for r in rows]
print(mon[0]); print(g.lean_row(list(rows)[0]))
