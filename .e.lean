import AsmjitVerif.Props.C07
open AsmjitVerif.Frame
def wFrame : Frame :=
  (((Frame.init ((initCallConv .a64 0 false).get (by decide)) (tbl4 0x80000 0x100 0 0) 0).setLocalSize 100).setLocalAlign 64).finalize
theorem w2 : wFrame.hasDA = true ∧ wFrame.saRegId = 29 ∧ wFrame.finalAlign = 64 ∧ wFrame.saOffSp = invalidOff
    ∧ (run .a64 ((a64Prolog wFrame).getD []) (initState .a64 0x40000000)).map
        (fun s1 => (s1.gp 31 % 64, decide (s1.gp 29 = initGp 29))) = some (32, true) := by
  decide
#print axioms w2
