#check @Nat.testBit_two_pow_sub_succ
