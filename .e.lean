#check @List.Nodup.map_on
#check @List.nodup_map_iff
#check @List.Pairwise.map
#check @List.nodup_map_iff_inj_on
example (l : List Nat) (g : Nat) (h : l.Nodup) : (l.map (fun id => (g, id))).Nodup := by
  rw [List.Nodup, List.pairwise_map]
  exact List.Pairwise.imp (fun hab h => hab (Prod.mk.inj h).2) h
