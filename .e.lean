import AsmjitVerif.Props.C07
open AsmjitVerif.Frame
#eval (exFrame.finalize.localOff, exFrame.finalize.daOff, exFrame.finalize.ppSize, exFrame.finalize.stackAdj)
