import sys, collections, random, time
sys.path.insert(0,'/var/tmp/vw/C01/tools')
import vlib, gen_c01, c01_forms
db=gen_c01.load_db()
flines, kept, skipped = gen_c01.form_lines(db)
h=vlib.build_harness("c01")
rng=random.Random(int(sys.argv[1]) if len(sys.argv)>1 else 1)
nvar=int(sys.argv[2]) if len(sys.argv)>2 else 2
emits=[]; meta=[]
for (f,roles) in kept:
    for mode in (64,32):
        for v in range(nvar):
            r=c01_forms.instantiate(f,roles,mode,rng,want_mem=(v%2==1))
            if r is None: continue
            tail,off=r
            base = "%x"%c01_forms.BASE_ADDR
            emits.append("emit %d %s %d %s"%(mode,base,off,tail)); meta.append(f)
t=time.time()
def run_res(cmd, lines):
    out=[]; aborts=[]
    start=0
    while start < len(lines):
        o,rc,err=vlib.run_lines(cmd, lines[start:], env={"VH_FLUSH":"1"})
        if rc==0 and len(o)==len(lines)-start:
            out+=o; break
        # the line that did not answer
        k=len(o)
        if k and not (o[-1].startswith('ok') or o[-1].startswith('err') or o[-1].startswith('bad')): k-=1
        out+=o[:k]
        first=[l for l in err.splitlines() if 'runtime error' in l or 'ERROR: AddressSanitizer' in l][:1]
        aborts.append((lines[start+k], first[0] if first else err[-300:]))
        out.append('abort')
        start+=k+1
    return out, aborts
out,aborts=run_res([str(h)],emits)
rc=0
print("harness",len(emits),len(out),time.time()-t)
ab=collections.Counter(a[1].split('runtime error:')[-1][:60] for a in aborts)
print("ABORTS",len(aborts),ab.most_common(5)); print(aborts[:3])
acc=collections.Counter(o.split()[0]+(" "+o.split()[1] if o.startswith('err') else '') for o in out)
print(acc.most_common(12))
chk=[]; idx=[]
for i,(e,o) in enumerate(zip(emits,out)):
    w=o.split()
    if w[0]=='ok' and len(w)==2:
        chk.append("chk "+e[5:]+" = "+w[1]); idx.append(i)
    elif w[0]=='ok': print("EXTRA",e,o)
t=time.time()
mon,rc,err=vlib.run_model("C01", flines+chk)
print("monitor",len(chk),len(mon),rc,err[-500:],time.time()-t)
bad=collections.Counter(); ex={}
for c,m,i in zip(chk,mon,idx):
    if not m.startswith("good"):
        key=" ".join(m.split()[:6]); bad[key]+=1; ex.setdefault(key,[]).append((c,m,meta[i]['opcodeString']))
print("good",sum(1 for m in mon if m.startswith('good')),"bad",sum(bad.values()))
for k,v in bad.most_common(60):
    print(v,k)
    for c,m,s in ex[k][:2]: print("     ",c,"|",m,"|",s)
# rejected forms summary
rej=collections.Counter()
for e,o,f in zip(emits,out,meta):
    if o.startswith('err'): rej[(o,f['name'])]+=1
print(len(rej),"rejected (err,name) pairs;", collections.Counter(k[0] for k in rej).most_common(10))
