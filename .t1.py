import sys
sys.path.insert(0,'tools')
import vlib
h = vlib.build_harness("c12")
print(h)
ops = ["x x64 add - - r.gpd.1 r.gpd.2", "x x64 add - - r.gpq.1 m.8.q3.-", "x x64 vpaddd - - r.xmm.1 r.xmm.2 r.xmm.3", "x x64 vpaddd E k1 r.zmm.1 r.zmm.2 m.64.q3.-",
 "x x64 mul - - r.gpq.2 r.gpq.0 r.gpq.5", "x x64 mul - - r.gpq.5", "x x64 movss - - r.xmm.1 m.4.q3.-", "x x64 vp2intersectd - - r.k.2 r.k.3 r.zmm.1 r.zmm.2", "x x64 v4fmaddps - k1 r.zmm.0 r.zmm.4 r.zmm.5 r.zmm.6 r.zmm.7 m.16.q1.-",
 "a ld2 v.0.16b v.1.16b m.2", "a tbl v.0.16b v.1.16b v.2.16b v.3.16b", "a ld1 v.0.b.3 m.2", "a st4 v.0.4s v.1.4s v.2.4s v.3.4s m.2.post.i64","a casp x.0 x.1 x.2 x.3 m.4", "tables"]
out, rc, err = vlib.run_lines([str(h)], ops)
print(rc, err[-2000:])
for l in out[:14]: print(l)
print(len(out))
for l in out[14:]:
    if l.split()[1] in ("sizes","reg") or l.split()[2] in ("0","1","2"): print(l)
