import sys; sys.path.insert(0,'tools'); import vlib
vlib.lake_build(["vdriver"])
h=vlib.build_harness("c07")
ops=open(sys.argv[1] if len(sys.argv)>1 else '.t1.ops').read().splitlines()
impl,rc,err=vlib.run_lines([str(h)],ops)
print(rc,err[-2000:])
model,rc2,err2=vlib.run_model("C07",ops)
print(rc2,err2[-500:])
mon,_,_=vlib.run_model("C07",["mon "+a[3:] if a.startswith("ok") else "x" for a in impl])
for o,a,b,m in zip(ops,impl,model,mon):
    print(o); print(" I",a); print(" M",b if a!=b else "same"); print(" ",m)
