// Shared helpers for the C++ side of the line protocol (one op per line in, one result per line out).
#pragma once
#include <sys/time.h>
#include <signal.h>
#include <unistd.h>
#include <string.h>
#include <cstdint>
#include <cstdio>
#include <cstdlib>
#include <cstring>
#include <string>
#include <vector>
#include <functional>

namespace vh {

static inline std::vector<std::string> words(const std::string& line) {
  std::vector<std::string> out;
  size_t i = 0, n = line.size();
  while (i < n) {
    while (i < n && (line[i] == ' ' || line[i] == '\t' || line[i] == '\r' || line[i] == '\n')) i++;
    size_t j = i;
    while (j < n && !(line[j] == ' ' || line[j] == '\t' || line[j] == '\r' || line[j] == '\n')) j++;
    if (j > i) out.emplace_back(line.substr(i, j - i));
    i = j;
  }
  return out;
}

static inline bool parse_hex(const std::string& s, uint64_t& v) {
  if (s.empty() || s.size() > 16) return false;
  v = 0;
  for (char c : s) {
    unsigned d;
    if (c >= '0' && c <= '9') d = c - '0';
    else if (c >= 'a' && c <= 'f') d = c - 'a' + 10;
    else if (c >= 'A' && c <= 'F') d = c - 'A' + 10;
    else return false;
    v = (v << 4) | d;
  }
  return true;
}

static inline bool parse_u64(const std::string& s, uint64_t& v) {
  if (s.empty()) return false;
  char* e = nullptr;
  v = strtoull(s.c_str(), &e, 10);
  return e && *e == 0;
}

static inline bool parse_i64(const std::string& s, int64_t& v) {
  if (s.empty()) return false;
  char* e = nullptr;
  v = strtoll(s.c_str(), &e, 10);
  return e && *e == 0;
}

static inline std::string to_hex(uint64_t v) {
  char buf[32];
  snprintf(buf, sizeof(buf), "%llx", (unsigned long long)v);
  return buf;
}

static inline std::string bytes_to_hex(const uint8_t* p, size_t n) {
  static const char* d = "0123456789abcdef";
  std::string s;
  s.reserve(n * 2);
  for (size_t i = 0; i < n; i++) { s.push_back(d[p[i] >> 4]); s.push_back(d[p[i] & 15]); }
  return s;
}

static inline bool hex_to_bytes(const std::string& s, std::vector<uint8_t>& out) {
  out.clear();
  if (s == "-") return true;
  if (s.size() % 2) return false;
  for (size_t i = 0; i < s.size(); i += 2) {
    uint64_t v;
    if (!parse_hex(s.substr(i, 2), v)) return false;
    out.push_back(uint8_t(v));
  }
  return true;
}

struct Fnv {
  uint64_t h = 14695981039346656037ull;
  void add(const std::string& s) { for (unsigned char c : s) { h ^= c; h *= 1099511628211ull; } }
};

// Runs `step` for every non-empty, non-comment line of stdin; prints each non-empty result.
static inline int line_loop(const std::function<std::string(const std::string&)>& step) {
  char* line = nullptr;
  size_t cap = 0;
  ssize_t n;
  const bool flush_each = getenv("VH_FLUSH") != nullptr;   // used to locate the op a sanitizer abort happened in
  while ((n = getline(&line, &cap, stdin)) >= 0) {
    std::string l(line, size_t(n));
    while (!l.empty() && (l.back() == '\n' || l.back() == '\r' || l.back() == ' ')) l.pop_back();
    size_t b = 0;
    while (b < l.size() && l[b] == ' ') b++;
    l = l.substr(b);
    if (l.empty() || l[0] == '#') continue;
    std::string o = step(l);
    if (!o.empty()) { fputs(o.c_str(), stdout); fputc('\n', stdout); }
    if (flush_each) fflush(stdout);
  }
  free(line);
  fflush(stdout);
  return 0;
}

// CPU-time watchdog (SIGPROF after `sec` seconds of user+system time of this process) with a generous wall-clock backstop
// (SIGALRM after 40x as long): a machine under heavy load must not turn into a TIMEOUT verdict.
static inline void cpu_alarm(unsigned sec, void (*handler)(int)) {
  signal(SIGPROF, handler);
  signal(SIGALRM, handler);
  struct itimerval it;
  memset(&it, 0, sizeof(it));
  it.it_value.tv_sec = sec;
  setitimer(ITIMER_PROF, &it, nullptr);
  alarm(sec ? sec * 40u : 0u);
}

} // namespace vh
