// C01 harness: the real x86::Assembler (strict validation on) behind the line protocol of lean/Driver/C01.lean.
//
//   emit <mode 32|64> <base hex|-> <off> <inst name> <opts|-> <k id|-> <operand>*     ->  ok <hex bytes> | err <ErrorName>
//   row  <inst name>                                                                  ->  row <id> <encoding> <main opcode hex> <alt opcode hex> <inst flags hex> <avx512 flags hex>
//   consts                                                                            ->  the numeric values of the enums the Lean model spells out
//
// operand syntax:   R:<regtype>:<id>      regtype = gpb gpbhi gpw gpd gpq xmm ymm zmm k mm st sreg creg dreg bnd tmm rip
//                   M:<size>:<btype>:<bid>:<itype>:<iid>:<shift>:<off hex64>:<seg>:<bcst>:<addrtype 0 default|1 abs|2 rel>
//                        btype/itype = regtype or `none`, or `label` (base only; bid = position of the bound label)
//                   I:<hex64>             immediate
//                   L:<pos>               label bound at byte position <pos> <= off of the filler in front of the instruction
// opts: comma separated  lock rep repne xacquire xrelease short long rex vex vex3 evex modmr modrm z er sae rn rd ru rz
//
// Every emit runs on a fresh CodeHolder (base address given or unknown), with <off> bytes of 0x90 in front so that
// the instruction is not at offset 0; the answer is exactly the bytes between the offsets before and after the call
// (the property's observation point). On error the buffer must not have grown (reported as err-partial otherwise).
#include <asmjit/core.h>
#include <asmjit/x86.h>
#include <asmjit/x86/x86instdb_p.h>
#include <asmjit/x86/x86opcode_p.h>
#include "vh.h"
#include <map>

using namespace asmjit;

static bool split(const std::string& s, char sep, std::vector<std::string>& out) {
  out.clear();
  size_t b = 0;
  for (;;) {
    size_t e = s.find(sep, b);
    if (e == std::string::npos) { out.push_back(s.substr(b)); break; }
    out.push_back(s.substr(b, e - b));
    b = e + 1;
  }
  return true;
}

struct SilentHandler : public ErrorHandler {
  void handle_error(Error, const char*, BaseEmitter*) override {}
};

static const struct { const char* n; RegType t; } kRegTypes[] = {
  {"none", RegType::kNone}, {"label", RegType::kLabelTag}, {"gpb", RegType::kGp8Lo}, {"gpbhi", RegType::kGp8Hi}, {"gpw", RegType::kGp16},
  {"gpd", RegType::kGp32}, {"gpq", RegType::kGp64}, {"xmm", RegType::kVec128}, {"ymm", RegType::kVec256}, {"zmm", RegType::kVec512},
  {"k", RegType::kMask}, {"tmm", RegType::kTile}, {"sreg", RegType::kSegment}, {"creg", RegType::kControl}, {"dreg", RegType::kDebug},
  {"mm", RegType::kX86_Mm}, {"st", RegType::kX86_St}, {"bnd", RegType::kX86_Bnd}, {"rip", RegType::kPC}};

static bool reg_type_of(const std::string& s, RegType& t) {
  for (auto& r : kRegTypes) if (s == r.n) { t = r.t; return true; }
  return false;
}

static const struct { const char* n; InstOptions o; } kOpts[] = {
  {"lock", InstOptions::kX86_Lock}, {"rep", InstOptions::kX86_Rep}, {"repne", InstOptions::kX86_Repne},
  {"xacquire", InstOptions::kX86_XAcquire}, {"xrelease", InstOptions::kX86_XRelease}, {"short", InstOptions::kShortForm},
  {"long", InstOptions::kLongForm}, {"rex", InstOptions::kX86_Rex}, {"vex", InstOptions::kX86_Vex}, {"vex3", InstOptions::kX86_Vex3},
  {"evex", InstOptions::kX86_Evex}, {"modmr", InstOptions::kX86_ModMR}, {"modrm", InstOptions::kX86_ModRM}, {"z", InstOptions::kX86_ZMask},
  {"er", InstOptions::kX86_ER}, {"sae", InstOptions::kX86_SAE}, {"rn", InstOptions::kX86_RN_SAE}, {"rd", InstOptions::kX86_RD_SAE},
  {"ru", InstOptions::kX86_RU_SAE}, {"rz", InstOptions::kX86_RZ_SAE}};

static bool parse_opts(const std::string& s, InstOptions& out) {
  out = InstOptions::kNone;
  if (s == "-") return true;
  std::vector<std::string> f;
  split(s, ',', f);
  for (auto& x : f) {
    bool ok = false;
    for (auto& o : kOpts) if (x == o.n) { out |= o.o; ok = true; }
    if (!ok) return false;
  }
  return true;
}

static bool make_operand(const std::string& txt, x86::Assembler& a, std::map<uint64_t, Label>& labels, Operand& out) {
  std::vector<std::string> f;
  split(txt, ':', f);
  uint64_t v;
  RegType t;
  if (f[0] == "R") {
    if (f.size() != 3 || !reg_type_of(f[1], t) || !vh::parse_u64(f[2], v)) return false;
    out = Reg::from_type_and_id(t, uint32_t(v));
    return true;
  }
  if (f[0] == "I") {
    if (f.size() != 2 || !vh::parse_hex(f[1], v)) return false;
    out = Imm(int64_t(v));
    return true;
  }
  if (f[0] == "L") {
    if (f.size() != 2 || !vh::parse_u64(f[1], v) || !labels.count(v)) return false;
    out = labels[v];
    return true;
  }
  if (f[0] == "M") {
    if (f.size() != 11) return false;
    uint64_t size, bid, iid, shift, off, seg, bcst, at;
    RegType bt, it;
    if (!vh::parse_u64(f[1], size) || !reg_type_of(f[2], bt) || !vh::parse_u64(f[3], bid) || !reg_type_of(f[4], it) ||
        !vh::parse_u64(f[5], iid) || !vh::parse_u64(f[6], shift) || !vh::parse_hex(f[7], off) || !vh::parse_u64(f[8], seg) ||
        !vh::parse_u64(f[9], bcst) || !vh::parse_u64(f[10], at)) return false;
    if (shift > 3 || seg > 6 || bcst > 6 || at > 2 || size > 255) return false;
    x86::Mem m;
    bool has_index = it != RegType::kNone;
    Reg index = Reg::from_type_and_id(it, uint32_t(iid));
    if (bt == RegType::kNone) {
      m = has_index ? x86::Mem(off, index, uint32_t(shift), uint32_t(size)) : x86::Mem(off, uint32_t(size));
    }
    else {
      int64_t soff = int64_t(off);
      if (soff < INT32_MIN || soff > INT32_MAX) return false;
      if (bt == RegType::kLabelTag) {
        if (!labels.count(bid)) return false;
        m = has_index ? x86::Mem(labels[bid], index, uint32_t(shift), int32_t(soff), uint32_t(size)) : x86::Mem(labels[bid], int32_t(soff), uint32_t(size));
      }
      else {
        Reg base = Reg::from_type_and_id(bt, uint32_t(bid));
        m = has_index ? x86::Mem(base, index, uint32_t(shift), int32_t(soff), uint32_t(size)) : x86::Mem(base, int32_t(soff), uint32_t(size));
      }
    }
    if (seg) m.set_segment(uint32_t(seg));
    if (bcst) m.set_broadcast(x86::Mem::Broadcast(bcst));
    if (at == 1) m.set_addr_abs();
    if (at == 2) m.set_addr_rel();
    out = m;
    return true;
  }
  return false;
}

static std::string do_emit(const std::vector<std::string>& w) {
  uint64_t mode, base = 0, off, kid = 0;
  if (w.size() < 7 || w.size() > 7 + 6) return "bad-op";
  if (!vh::parse_u64(w[1], mode) || (mode != 32 && mode != 64)) return "bad-op";
  bool has_base = w[2] != "-";
  if (has_base && !vh::parse_hex(w[2], base)) return "bad-op";
  if (!vh::parse_u64(w[3], off) || off > 4096) return "bad-op";
  InstOptions opts;
  if (!parse_opts(w[5], opts)) return "bad-op";
  bool has_k = w[6] != "-";
  if (has_k && !vh::parse_u64(w[6], kid)) return "bad-op";

  Arch arch = mode == 32 ? Arch::kX86 : Arch::kX64;
  InstId id = InstAPI::string_to_inst_id(arch, w[4].data(), w[4].size());
  if (id == 0) return "err NoSuchInstruction";

  CodeHolder code;
  Environment env(arch);
  SilentHandler eh;
  if (code.init(env, has_base ? base : Globals::kNoBaseAddress) != Error::kOk) return "err InitFailed";
  code.set_error_handler(&eh);
  x86::Assembler a(&code);
  a.add_diagnostic_options(DiagnosticOptions::kValidateAssembler);

  // filler; labels referenced by the operands are bound inside it
  std::map<uint64_t, Label> labels;
  for (size_t i = 7; i < w.size(); i++) {
    std::vector<std::string> f;
    split(w[i], ':', f);
    uint64_t pos;
    if (f[0] == "L" && f.size() == 2 && vh::parse_u64(f[1], pos)) labels[pos] = Label();
    if (f[0] == "M" && f.size() == 11 && f[2] == "label" && vh::parse_u64(f[3], pos)) labels[pos] = Label();
  }
  for (auto& kv : labels) { if (kv.first > off) return "bad-op"; kv.second = a.new_label(); }
  for (uint64_t i = 0; i <= off; i++) {
    auto it = labels.find(i);
    if (it != labels.end()) a.bind(it->second);
    if (i < off) a.db(0x90);
  }

  Operand ops[6];
  size_t n = w.size() - 7;
  for (size_t i = 0; i < n; i++)
    if (!make_operand(w[7 + i], a, labels, ops[i])) return "bad-op";

  size_t before = a.offset();
  size_t relocs_before = code.reloc_entries().size();
  a.set_inst_options(opts);
  if (has_k) a.set_extra_reg(Reg::from_type_and_id(RegType::kMask, uint32_t(kid)));
  Error e = a.emit_op_array(id, ops, n);
  size_t after = a.offset();
  Section* text = code.text_section();
  // the one-shot state must be consumed by the emit, whatever its outcome
  bool state_clean = a.inst_options() == InstOptions::kNone && !a.extra_reg().is_reg();
  if (e != Error::kOk) {
    std::string r = std::string("err ") + std::to_string(uint32_t(e));
    if (after != before || text->buffer_size() != before) r += " partial";
    if (!state_clean) r += " state-kept";
    return r;
  }
  if (text->buffer_size() != after || after < before) return "err-cursor";
  std::string r = "ok " + (after > before ? vh::bytes_to_hex(text->data() + before, after - before) : std::string("-"));
  if (!state_clean) r += " state-kept";
  // relocations created by this instruction (absolute addresses without known base, 32-bit label references)
  for (size_t i = relocs_before; i < code.reloc_entries().size(); i++) {
    const RelocEntry* re = code.reloc_entries()[i];
    r += " reloc:" + std::to_string(uint32_t(re->reloc_type())) + ":" + std::to_string(re->source_offset() - before) + ":" +
         std::to_string(re->format().value_offset()) + ":" + std::to_string(re->format().value_size()) + ":" + vh::to_hex(re->payload());
  }
  // filler must be untouched
  for (size_t i = 0; i < before; i++) if (text->data()[i] != 0x90) return "err-filler-modified";
  return r;
}

static std::string do_row(const std::vector<std::string>& w) {
  if (w.size() != 2) return "bad-op";
  InstId id = InstAPI::string_to_inst_id(Arch::kX64, w[1].data(), w[1].size());
  if (id == 0 || id >= x86::Inst::_kIdCount) return "row none";
  const x86::InstDB::InstInfo& ii = x86::InstDB::_inst_info_table[id];
  const x86::InstDB::CommonInfo& ci = ii.common_info();
  uint32_t main_op = x86::InstDB::main_opcode_table[ii._main_opcode_index] | ii._main_opcode_value;
  uint32_t alt_op = x86::InstDB::alt_opcode_table[ii._alt_opcode_index];
  char buf[160];
  snprintf(buf, sizeof(buf), "row %u %u %x %x %x %x", unsigned(id), unsigned(ii._encoding), main_op, alt_op, unsigned(ci._flags), unsigned(ci._avx512_flags));
  return buf;
}

static std::string do_consts() {
  std::string r = "consts";
  auto add = [&](const char* n, uint64_t v) { r += std::string(" ") + n + "=" + vh::to_hex(v); };
  using namespace x86;
  add("fRep", uint32_t(InstDB::InstFlags::kRep)); add("fLock", uint32_t(InstDB::InstFlags::kLock));
  add("fXAcquire", uint32_t(InstDB::InstFlags::kXAcquire)); add("fXRelease", uint32_t(InstDB::InstFlags::kXRelease));
  add("fVsib", uint32_t(InstDB::InstFlags::kVsib)); add("fTsib", uint32_t(InstDB::InstFlags::kTsib));
  add("fVex", uint32_t(InstDB::InstFlags::kVex)); add("fEvex", uint32_t(InstDB::InstFlags::kEvex));
  add("fPreferEvex", uint32_t(InstDB::InstFlags::kPreferEvex));
  add("aER", uint32_t(InstDB::Avx512Flags::kER)); add("aSAE", uint32_t(InstDB::Avx512Flags::kSAE));
  add("aB16", uint32_t(InstDB::Avx512Flags::kB16)); add("aB32", uint32_t(InstDB::Avx512Flags::kB32)); add("aB64", uint32_t(InstDB::Avx512Flags::kB64));
  for (auto& o : kOpts) add((std::string("o_") + o.n).c_str(), uint32_t(o.o));
  add("o_invalidrex", uint32_t(InstOptions::kX86_InvalidRex));
  for (auto& t : kRegTypes) add((std::string("rt_") + t.n).c_str(), uint32_t(t.t));
  add("idLea", Inst::kIdLea); add("idJmp", Inst::kIdJmp); add("idCall", Inst::kIdCall); add("idCount", Inst::_kIdCount);
#define ENC(x) add("enc" #x, InstDB::kEncoding##x)
  ENC(None); ENC(X86Op); ENC(X86M); ENC(X86M_NoSize); ENC(X86M_Only); ENC(X86Rm); ENC(X86Mr); ENC(X86Arith); ENC(X86Lea);
  ENC(ExtRm); ENC(ExtRm_P); ENC(ExtRmi); ENC(ExtRmi_P); ENC(ExtRm_Wx); ENC(ExtRm_Wx_GpqOnly);
  ENC(VexOp); ENC(VexM); ENC(VexMr_Lx); ENC(VexMr_VM); ENC(VexMri); ENC(VexMri_Lx); ENC(VexRm); ENC(VexRm_Lx); ENC(VexRm_VM); ENC(VexRm_Wx);
  ENC(VexRmi); ENC(VexRmi_Lx); ENC(VexRmi_Wx); ENC(VexRvm); ENC(VexRvm_Lx); ENC(VexRvm_Lx_KEvex); ENC(VexRvm_Wx);
  ENC(VexRvmi); ENC(VexRvmi_Lx); ENC(VexRvmi_KEvex); ENC(VexRvmi_Lx_KEvex); ENC(VexRmv); ENC(VexRmv_Wx); ENC(VexRmv_VM); ENC(VexRmvRm_VM);
  ENC(VexRvmr); ENC(VexRvmr_Lx); ENC(VexMvr_Wx); ENC(VexRmvi); ENC(VexVm); ENC(VexVm_Wx); ENC(VexVmi); ENC(VexVmi_Lx); ENC(VexVmi_Lx_MEvex);
  ENC(VexRmMr); ENC(VexRmMr_Lx); ENC(VexRvmRmi); ENC(VexRvmRmi_Lx); ENC(VexRvmMr); ENC(VexRvmMvr); ENC(VexRvmMvr_Lx);
  ENC(VexRvmVmi); ENC(VexRvmVmi_Lx); ENC(VexRvmVmi_Lx_MEvex); ENC(VexKmov); ENC(VexRm_Lx_Narrow); ENC(VexRm_Lx_Bcst);
  ENC(X86Set); ENC(X86Bswap); ENC(X86IncDec); ENC(X86Rot); ENC(X86Test); ENC(X86Mov); ENC(X86Push); ENC(X86Pop); ENC(X86Imul); ENC(X86Jcc); ENC(X86Jmp); ENC(X86Call);
  ENC(X86MovsxMovzx); ENC(X86Xchg); ENC(X86Bt); ENC(X86ShldShrd); ENC(X86Cmpxchg); ENC(X86Xadd); ENC(X86Crc); ENC(X86MovntiMovdiri);
  ENC(ExtMov); ENC(ExtMovd); ENC(ExtMovq); ENC(ExtRmRi); ENC(ExtRmRi_P); ENC(ExtRm_XMM0); ENC(ExtExtract); ENC(ExtPextrw);
  ENC(VexMovdMovq); ENC(VexMovssMovsd); ENC(VexOpMod); ENC(VexR_Wx); ENC(VexRvm_ZDX_Wx); ENC(VexRvmRmv); ENC(VexRvrmRvmr); ENC(VexRvrmRvmr_Lx);
  ENC(VexRvrmiRvmri_Lx); ENC(VexRvm_Lx_2xK); ENC(VexMri_Vpextrw); ENC(VexVmi4_Wx); ENC(Fma4); ENC(Fma4_Lx);
  ENC(FpuOp); ENC(FpuArith); ENC(FpuCom); ENC(FpuFldFst); ENC(FpuM); ENC(FpuR); ENC(FpuRDef); ENC(FpuStsw);
#undef ENC
  return r;
}

static std::string step(const std::string& line) {
  std::vector<std::string> w = vh::words(line);
  if (w.empty()) return "bad-op";
  if (w[0] == "emit") return do_emit(w);
  if (w[0] == "row") return do_row(w);
  if (w[0] == "consts") return do_consts();
  return "bad-op";
}

int main() { return vh::line_loop(step); }
