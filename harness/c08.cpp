// C08 harness: the real Builder / Compiler / Assembler behind the line protocol of lean/Driver/C08.lean.
//
// A program is the lines between `begin <arch> <emitter> <encopts hex>` and `end`.
//   arch    : x86 | x64 | a64            emitter : builder | compiler | asm | compilerfn (Compiler with `func` / `fret` / `endfunc`)
// Emitter calls (all emitters):
//   newlabel | newsection | opts <hex> | extra <sig>:<id> | icomment <tok> | inst <id> <o0> .. <o5>
//   bind L<n> | align <mode> <n> | embed <hex> | data <typeid> <items> <repeat> <hex> | elabel L<n> <size>
//   edelta L<n> L<m> <size> | comment <tok> | section S<n> | cpool L<n> <itemsize> <hex>
//   gconst <itemsize> <hex>   (emitter compiler: constant into the GLOBAL pool)   | cpoolnode L<n> <align> <hex>   (asm: a ConstPoolNode replayed)
// Node-list editing (builder/compiler; nodes are named by creation ordinal, n0 = the initial section node):
//   cursor <n|-> | remove <n> | removerange <a> <b> | addnode <n> | addafter <n> <ref> | addbefore <n> <ref>
// finalize:
//   builder/compiler: serialize_to(recorder) -> `C <call>` lines, then finalize() -> `F <err>`, then `D ...` dump of the CodeHolder
//   asm             : `F <first stopping error>` + `D ...` dump.  In asm mode an op prefixed with `~` never stops the
//                     program; any other failing op stops it (later ops answer `R skipped`), which is what
//                     serialize_to does at the first failing node.
// Every op is answered with one `R ...` line: builder `R <ok|err X|pre> cur=<n|-> fwd=<n,..> bwd=<n,..>`, asm `R <ok|err X|skipped>`.
// Operand tokens: `-` none, `L<n>` label, `M<n>` [label], `N<n>` dword [label+4] (x86), `I<int64>` immediate, `w0:w1:w2:w3` raw words (hex).
// `menu <arch>` prints `M <name> <instid> <tokens>` lines for the generator (built with the public operand constructors).
#include <asmjit/core.h>
#include <asmjit/x86.h>
#include <asmjit/a64.h>
#include <map>
#include <memory>
#include <algorithm>
#include "vh.h"
#include <csignal>
#include <unistd.h>

using namespace asmjit;

// a corrupted node list can make the real code loop for ever: every program gets 20 s, then the harness gives up
// (the output so far is flushed so that the caller can name the program)
static void on_alarm(int) { fflush(stdout); fputs("TIMEOUT: a program ran for more than 20 s of CPU time\n", stderr); _exit(97); }

static std::string err_str(Error e) {
  if (e == Error::kOk) return "ok";
  const char* s = DebugUtils::error_as_string(e);
  return std::string("err ") + (s ? s : "?");
}

static Arch g_arch = Arch::kX64;

static Operand_ raw_op(uint32_t w0, uint32_t w1, uint32_t w2, uint32_t w3) {
  Operand_ o;
  o._signature = OperandSignature::from_bits(w0);
  o._base_id = w1;
  o._data[0] = w2;
  o._data[1] = w3;
  return o;
}

static bool same_op(const Operand_& a, const Operand_& b) {
  return a._signature.bits() == b._signature.bits() && a._base_id == b._base_id && a._data[0] == b._data[0] && a._data[1] == b._data[1];
}

static Operand_ label_mem(uint32_t id) {
  Label l; l.set_id(id);
  Operand_ o;
  if (g_arch == Arch::kAArch64) { a64::Mem m = a64::ptr(l); o.copy_from(m); }
  else { x86::Mem m = x86::ptr(l); o.copy_from(m); }
  return o;
}

// `N<id>` = dword [label + 4] (x86 only): a label reference with a displacement
static Operand_ label_mem4(uint32_t id) {
  Label l; l.set_id(id);
  Operand_ o;
  x86::Mem m = x86::dword_ptr(l, 4); o.copy_from(m);
  return o;
}

static std::string op_tok(const Operand_& o) {
  if (o._signature.bits() == 0 && o._base_id == 0 && o._data[0] == 0 && o._data[1] == 0) return "-";
  if (o.is_label()) {
    Label l; l.set_id(o._base_id);
    if (same_op(o, l)) return "L" + std::to_string(o._base_id);
  }
  if (o.is_imm()) {
    Imm im(o.as<Imm>().value());
    if (same_op(o, im)) return "I" + std::to_string((long long)o.as<Imm>().value());
  }
  if (o.is_mem() && o.as<BaseMem>().has_base_label()) {
    if (same_op(o, label_mem(o._base_id))) return "M" + std::to_string(o._base_id);
    if (g_arch != Arch::kAArch64 && same_op(o, label_mem4(o._base_id))) return "N" + std::to_string(o._base_id);
  }
  return vh::to_hex(o._signature.bits()) + ":" + vh::to_hex(o._base_id) + ":" + vh::to_hex(o._data[0]) + ":" + vh::to_hex(o._data[1]);
}

static bool parse_label(const std::string& s, uint32_t& id) {
  if (s.size() < 2 || s[0] != 'L') return false;
  uint64_t v; if (!vh::parse_u64(s.substr(1), v)) return false;
  id = uint32_t(v); return true;
}

static bool parse_op(const std::string& s, Operand_& o) {
  o.reset();
  if (s == "-") return true;
  uint64_t v;
  if (s[0] == 'L') { if (!vh::parse_u64(s.substr(1), v)) return false; Label l; l.set_id(uint32_t(v)); o.copy_from(l); return true; }
  if (s[0] == 'N') { if (!vh::parse_u64(s.substr(1), v)) return false; o = label_mem4(uint32_t(v)); return true; }
  if (s[0] == 'M') { if (!vh::parse_u64(s.substr(1), v)) return false; o = label_mem(uint32_t(v)); return true; }
  if (s[0] == 'I') { int64_t i; if (!vh::parse_i64(s.substr(1), i)) return false; Imm im(i); o.copy_from(im); return true; }
  uint32_t w[4]; size_t p = 0;
  for (int k = 0; k < 4; k++) {
    size_t q = s.find(':', p);
    std::string part = s.substr(p, q == std::string::npos ? std::string::npos : q - p);
    if (!vh::parse_hex(part, v)) return false;
    w[k] = uint32_t(v);
    if (q == std::string::npos) { if (k != 3) return false; } else p = q + 1;
  }
  o = raw_op(w[0], w[1], w[2], w[3]);
  return true;
}

static std::string extra_tok(const RegOnly& r) {
  if (r.signature().bits() == 0 && r.id() == 0) return "-";
  return vh::to_hex(r.signature().bits()) + ":" + vh::to_hex(r.id());
}

// ---------------------------------------------------------------------------------------------------------------
// Recorder: an emitter that writes down every call serialize_to() makes, with the one-shot state it sees.
// ---------------------------------------------------------------------------------------------------------------
class Recorder : public BaseEmitter {
public:
  std::vector<std::string> calls;
  Recorder() : BaseEmitter(EmitterType::kNone) {}

  Error _emit(InstId inst_id, const Operand_& o0, const Operand_& o1, const Operand_& o2, const Operand_* op_ext) override {
    std::string s = "inst " + std::to_string(inst_id) + " " + vh::to_hex(uint32_t(inst_options())) + " " + extra_tok(extra_reg()) + " " +
                    (inline_comment() ? inline_comment() : "-");
    s += " " + op_tok(o0) + " " + op_tok(o1) + " " + op_tok(o2) + " " + op_tok(op_ext[0]) + " " + op_tok(op_ext[1]) + " " + op_tok(op_ext[2]);
    calls.push_back(s);
    reset_state();
    return Error::kOk;
  }
  Error bind(const Label& label) override { calls.push_back("bind L" + std::to_string(label.id())); return Error::kOk; }
  Error section(Section* s) override { calls.push_back("section S" + std::to_string(s->section_id())); return Error::kOk; }
  Error align(AlignMode m, uint32_t a) override { calls.push_back("align " + std::to_string(uint32_t(m)) + " " + std::to_string(a)); return Error::kOk; }
  Error embed(const void* data, size_t size) override {
    calls.push_back("embed " + (size ? vh::bytes_to_hex((const uint8_t*)data, size) : std::string("-"))); return Error::kOk;
  }
  Error embed_data_array(TypeId t, const void* data, size_t items, size_t repeat) override {
    uint32_t sz = TypeUtils::size_of(TypeUtils::deabstract(t, TypeUtils::deabstract_delta_of_size(g_arch == Arch::kX86 ? 4 : 8)));
    size_t n = items * sz;
    calls.push_back("data " + std::to_string(uint32_t(t)) + " " + std::to_string(items) + " " + std::to_string(repeat) + " " +
                    (n ? vh::bytes_to_hex((const uint8_t*)data, n) : std::string("-")));
    return Error::kOk;
  }
  Error embed_const_pool(const Label& label, const ConstPool& pool) override {
    std::vector<uint8_t> buf(pool.size());
    if (!buf.empty()) pool.fill(buf.data());
    calls.push_back("cpoolnode L" + std::to_string(label.id()) + " " + std::to_string(pool.alignment()) + " " +
                    (buf.empty() ? std::string("-") : vh::bytes_to_hex(buf.data(), buf.size())));
    return Error::kOk;
  }
  Error embed_label(const Label& label, size_t size) override { calls.push_back("elabel L" + std::to_string(label.id()) + " " + std::to_string(size)); return Error::kOk; }
  Error embed_label_delta(const Label& label, const Label& base, size_t size) override {
    calls.push_back("edelta L" + std::to_string(label.id()) + " L" + std::to_string(base.id()) + " " + std::to_string(size)); return Error::kOk;
  }
  Error comment(const char* data, size_t size) override { (void)size; calls.push_back(std::string("comment ") + (data ? data : "-")); return Error::kOk; }
};

// ---------------------------------------------------------------------------------------------------------------
// Program state
// ---------------------------------------------------------------------------------------------------------------
struct Prog {
  CodeHolder code;
  std::unique_ptr<BaseEmitter> em;
  BaseBuilder* bb = nullptr;       // non-null for builder/compiler
  bool is_asm = false;
  bool stopped = false;
  Error first_err = Error::kOk;
  std::vector<BaseNode*> nodes;    // creation ordinal -> node
  std::map<BaseNode*, size_t> ord;
  std::vector<std::string> keep;   // inline comment strings must outlive the call
  std::vector<std::vector<uint8_t>> pools;
  BaseCompiler* comp = nullptr;    // non-null for emitter `compiler`: `gconst` adds to its global constant pool
  uint64_t gpool_isz = 0;          // item size of the global pool (all items of one program have one size)
  BaseNode* gpool_node = nullptr;  // the pending global ConstPoolNode: GlobalConstPoolPass links it - the user must not (precondition)
  // emitter `compilerfn`: a Compiler with function nodes (physical registers only); no node-list dump, the code is compared with an
  // Assembler that is given bind(func) + emit_prolog(frame) + the same calls + bind(exit) + emit_epilog(frame)
  bool fn_mode = false;
  BaseCompiler* cc = nullptr;
  std::vector<std::string> fn_lines;
  std::vector<FuncNode*> funcs;
  uint32_t enc = 0;
};

static std::unique_ptr<Prog> P;

static void reg_node(BaseNode* n) {
  if (!n || P->ord.count(n)) return;
  P->ord[n] = P->nodes.size();
  P->nodes.push_back(n);
}

static std::string ord_str(BaseNode* n) {
  if (!n) return "-";
  auto it = P->ord.find(n);
  return it == P->ord.end() ? "?" : std::to_string(it->second);
}

static void sweep_new_nodes() {
  size_t guard = 0;
  for (BaseNode* n = P->bb->first_node(); n && guard < 100000; n = n->next(), guard++) reg_node(n);
}

static std::string state_str() {
  std::string f, b;
  size_t guard = 0;
  for (BaseNode* n = P->bb->first_node(); n && guard < 100000; n = n->next(), guard++) { if (!f.empty()) f += ","; f += ord_str(n); }
  if (guard >= 100000) f = "CYCLE";
  guard = 0;
  for (BaseNode* n = P->bb->last_node(); n && guard < 100000; n = n->prev(), guard++) { if (!b.empty()) b += ","; b += ord_str(n); }
  if (guard >= 100000) b = "CYCLE";
  return " cur=" + ord_str(P->bb->cursor()) + " fwd=" + (f.empty() ? "-" : f) + " bwd=" + (b.empty() ? "-" : b);
}

static BaseNode* node_arg(const std::string& s) {
  uint64_t v;
  if (!vh::parse_u64(s, v) || v >= P->nodes.size()) return nullptr;
  return P->nodes[size_t(v)];
}

static void dump_code(std::vector<std::string>& out) {
  CodeHolder& c = P->code;
  for (Section* s : c.sections())
    out.push_back("D sec " + std::to_string(s->section_id()) + " " + (s->buffer_size() ? vh::bytes_to_hex(s->data(), s->buffer_size()) : std::string("-")));
  for (uint32_t i = 0; i < c.label_count(); i++) {
    const LabelEntry& le = c.label_entry_of(i);
    if (le.is_bound()) out.push_back("D label " + std::to_string(i) + " " + std::to_string(le.section_id()) + " " + std::to_string(le.offset()));
    else out.push_back("D label " + std::to_string(i) + " unbound");
  }
  std::vector<std::string> rl;
  for (RelocEntry* re : c.reloc_entries()) {
    char key[64];
    snprintf(key, sizeof(key), "%08u %016llu ", re->source_section_id(), (unsigned long long)re->source_offset());
    std::string s = std::string(key) + "D reloc t" + std::to_string(uint32_t(re->reloc_type())) + " src=" + std::to_string(re->source_section_id()) + "+" +
                    std::to_string(re->source_offset()) + " fmt=" + std::to_string(uint32_t(re->format().type())) + "/" + std::to_string(re->format().value_size()) +
                    "/" + std::to_string(re->format().imm_bit_count()) + "/" + std::to_string(re->format().imm_bit_shift()) + "/" + std::to_string(re->format().imm_discard_lsb());
    if (re->reloc_type() == RelocType::kExpression) {
      Expression* e = re->payload_as_expression();
      s += " expr";
      if (e) {
        s += " op" + std::to_string(uint32_t(e->op_type));
        for (int k = 0; k < 2; k++) {
          s += " v" + std::to_string(uint32_t(e->value_type[k])) + ":";
          if (e->value_type[k] == ExpressionValueType::kLabel) s += "L" + std::to_string(e->value[k].label_id);
          else if (e->value_type[k] == ExpressionValueType::kConstant) s += std::to_string(e->value[k].constant);
          else s += "_";
        }
      }
    }
    else {
      s += " tgt=" + std::to_string(re->target_section_id()) + " payload=" + vh::to_hex(re->payload());
    }
    rl.push_back(s);
  }
  std::sort(rl.begin(), rl.end());
  for (auto& s : rl) out.push_back(s.substr(26));
  out.push_back("D unresolved " + std::to_string(c.unresolved_fixup_count()));
}

// The image after flatten + resolve_cross_section_fixups + relocate_to_base: what is finally executed / stored.
// (Destroys the relocation state, so it is taken after `dump_code`.)
static void dump_image(std::vector<std::string>& out) {
  CodeHolder& c = P->code;
  Error e = c.flatten();
  if (e != Error::kOk) { out.push_back("I err flatten " + err_str(e)); return; }
  e = c.resolve_cross_section_fixups();
  if (e != Error::kOk) { out.push_back("I err resolve " + err_str(e)); return; }
  e = c.relocate_to_base(0x10000000u);
  // which record fails first depends on the order of the relocation records, and that order legitimately differs between a
  // Builder (grouped by section) and an Assembler: only the fact that relocation fails is part of the image
  if (e != Error::kOk) { out.push_back("I err relocate"); return; }
  for (Section* s : c.sections())
    out.push_back("I sec " + std::to_string(s->section_id()) + " @" + std::to_string(s->offset()) + " " +
                  (s->buffer_size() ? vh::bytes_to_hex(s->data(), s->buffer_size()) : std::string("-")));
}

// ---------------------------------------------------------------------------------------------------------------
// Instruction menu for the generator
// ---------------------------------------------------------------------------------------------------------------
static void menu_line(std::vector<std::string>& out, const char* name, InstId id, std::initializer_list<Operand_> ops) {
  std::string s = std::string("M ") + name + " " + std::to_string(id);
  for (const Operand_& o : ops) s += " " + op_tok(o);
  out.push_back(s);
}

static void menu(const std::string& arch, std::vector<std::string>& out) {
  if (arch == "a64") {
    using namespace a64;
    g_arch = Arch::kAArch64;
    Label l; l.set_id(0);   // printed as L0 / M0: the generator substitutes its own label numbers
    menu_line(out, "ret", Inst::kIdRet, { x30 });
    menu_line(out, "nop", Inst::kIdNop, {});
    menu_line(out, "add", Inst::kIdAdd, { x0, x1, x2 });
    menu_line(out, "addi", Inst::kIdAdd, { w3, w4, Imm(17) });
    menu_line(out, "adds", Inst::kIdAdd, { x0, x1, x2, Imm(lsl(3)) });
    menu_line(out, "sub", Inst::kIdSub, { x5, x6, x7 });
    menu_line(out, "mov", Inst::kIdMov, { x8, x9 });
    menu_line(out, "movi", Inst::kIdMov, { x8, Imm(0x12345678) });
    menu_line(out, "madd", Inst::kIdMadd, { x0, x1, x2, x3 });
    menu_line(out, "ccmp", Inst::kIdCcmp, { x0, x1, Imm(2), Imm(uint32_t(CondCode::kEQ)) });
    menu_line(out, "ldr", Inst::kIdLdr, { x0, ptr(x1, 8) });
    menu_line(out, "str", Inst::kIdStr, { w0, ptr(x2, 4) });
    menu_line(out, "ldp", Inst::kIdLdp, { x0, x1, ptr(sp, 16) });
    menu_line(out, "casp", Inst::kIdCasp, { x0, x1, x2, x3, ptr(x4) });
    menu_line(out, "ext", Inst::kIdExt_v, { v0.b16(), v1.b16(), v2.b16(), Imm(3) });
    menu_line(out, "fmla", Inst::kIdFmla_v, { v0.s4(), v1.s4(), v2.s4() });
    menu_line(out, "b", Inst::kIdB, { l });
    menu_line(out, "bl", Inst::kIdBl, { l });
    menu_line(out, "cbz", Inst::kIdCbz, { x0, l });
    menu_line(out, "tbz", Inst::kIdTbz, { x0, Imm(3), l });
    menu_line(out, "adr", Inst::kIdAdr, { x0, l });
    menu_line(out, "ldrlit", Inst::kIdLdr, { x0, ptr(l) });
    menu_line(out, "badreg", Inst::kIdAdd, { x0, v1.s4(), x2 });
    out.push_back("M end");
    return;
  }
  using namespace x86;
  g_arch = arch == "x86" ? Arch::kX86 : Arch::kX64;
  bool x64 = arch == "x64";
  Label l; l.set_id(0);
  menu_line(out, "nop", Inst::kIdNop, {});
  menu_line(out, "ret", Inst::kIdRet, {});
  menu_line(out, "cdq", Inst::kIdCdq, {});
  menu_line(out, "inc", Inst::kIdInc, { eax });
  menu_line(out, "push", Inst::kIdPush, { x64 ? Operand_(rbx) : Operand_(ebx) });
  menu_line(out, "mov", Inst::kIdMov, { eax, ecx });
  menu_line(out, "movi", Inst::kIdMov, { edx, Imm(0x11223344) });
  menu_line(out, "movm", Inst::kIdMov, { eax, dword_ptr(x64 ? rcx : ecx, 16) });
  menu_line(out, "movs", Inst::kIdMov, { dword_ptr(x64 ? rsp : esp, x64 ? rdx : edx, 2, 128), esi });
  menu_line(out, "add", Inst::kIdAdd, { ecx, edx });
  menu_line(out, "addm", Inst::kIdAdd, { dword_ptr(x64 ? rdi : edi), eax });
  menu_line(out, "xchg", Inst::kIdXchg, { dword_ptr(x64 ? rsi : esi, 4), edx });
  menu_line(out, "lea", Inst::kIdLea, { x64 ? Operand_(rax) : Operand_(eax), ptr(l) });
  menu_line(out, "movlbl", Inst::kIdMov, { eax, dword_ptr(l, 4) });
  menu_line(out, "imul3", Inst::kIdImul, { eax, ecx, Imm(100) });
  menu_line(out, "shld", Inst::kIdShld, { eax, edx, Imm(3) });
  menu_line(out, "movaps", Inst::kIdMovaps, { xmm1, xmm2 });
  menu_line(out, "vaddps", Inst::kIdVaddps, { ymm1, ymm2, ymm3 });
  menu_line(out, "vaddpsz", Inst::kIdVaddps, { zmm1, zmm2, zmm3 });
  menu_line(out, "vaddpsm", Inst::kIdVaddps, { zmm1, zmm2, zmmword_ptr(x64 ? rax : eax, 64) });
  menu_line(out, "vblendvps", Inst::kIdVblendvps, { xmm1, xmm2, xmm3, xmm4 });
  menu_line(out, "vpternlogd", Inst::kIdVpternlogd, { xmm1, xmm2, xmm3, Imm(0x55) });
  menu_line(out, "vfmaddps", Inst::kIdVfmaddps, { xmm0, xmm1, xmm2, xmm3 });
  menu_line(out, "vpermil2ps", Inst::kIdVpermil2ps, { xmm0, xmm1, xmm2, xmm3, Imm(1) });
  menu_line(out, "cmpxchg8b", Inst::kIdCmpxchg8b, { qword_ptr(x64 ? rsi : esi), edx, eax, ecx, ebx });
  menu_line(out, "pcmpestri", Inst::kIdPcmpestri, { xmm1, xmm2, Imm(4), ecx, eax, edx });
  menu_line(out, "pcmpestrm", Inst::kIdPcmpestrm, { xmm3, xmm4, Imm(9), xmm0, eax, edx });
  menu_line(out, "movsb", Inst::kIdMovs, { byte_ptr(x64 ? rdi : edi), byte_ptr(x64 ? rsi : esi) });
  menu_line(out, "stosd", Inst::kIdStos, { dword_ptr(x64 ? rdi : edi), eax });
  menu_line(out, "jmp", Inst::kIdJmp, { l });
  menu_line(out, "jz", Inst::kIdJz, { l });
  menu_line(out, "call", Inst::kIdCall, { l });
  menu_line(out, "jmpr", Inst::kIdJmp, { x64 ? Operand_(rax) : Operand_(eax) });
  menu_line(out, "jecxz", Inst::kIdJecxz, { ecx, l });
  menu_line(out, "bad", Inst::kIdAdd, { eax, xmm1 });
  menu_line(out, "gap", Inst::kIdMov, { eax, Operand_(), Operand_(), Operand_(), ecx });
  if (x64) {
    menu_line(out, "mov64", Inst::kIdMov, { rax, Imm(0x1122334455667788ll) });
    menu_line(out, "movr8", Inst::kIdMov, { r8, r15 });
    menu_line(out, "cmpxchg16b", Inst::kIdCmpxchg16b, { ptr(rsi), rdx, rax, rcx, rbx });
  }
  // extra registers / options worth naming (the generator also draws random option bits)
  out.push_back("M %extra k " + extra_tok(RegOnly{ k1.signature(), 1 }) + " " + extra_tok(RegOnly{ k7.signature(), 7 }));
  out.push_back("M %extra rep " + (x64 ? extra_tok(RegOnly{ rcx.signature(), rcx.id() }) : extra_tok(RegOnly{ ecx.signature(), ecx.id() })));
  out.push_back("M end");
}

// ---------------------------------------------------------------------------------------------------------------
// One op
// ---------------------------------------------------------------------------------------------------------------
static bool is_edit(const std::string& k) {
  return k == "cursor" || k == "remove" || k == "removerange" || k == "addnode" || k == "addafter" || k == "addbefore";
}

static std::string do_call(BaseEmitter* e, const std::vector<std::string>& w, bool& pre) {
  // returns "ok..." / "err X"; `pre` = malformed line or precondition not met (nothing executed)
  pre = false;
  const std::string& k = w[0];
  Error err = Error::kOk;
  uint32_t a, b; uint64_t v, v2, v3;
  if (k == "newlabel") {
    Label l = e->new_label();
    if (P->bb && l.is_valid()) { LabelNode* n = nullptr; if (P->bb->label_node_of(Out(n), l.id()) == Error::kOk) reg_node(n); }
    return l.is_valid() ? "ok" : "err newlabel";
  }
  if (k == "newsection") {
    Section* s = nullptr;
    std::string name = ".s" + std::to_string(P->code.section_count());
    err = P->code.new_section(Out(s), name.c_str(), SIZE_MAX, SectionFlags::kNone, 8);
    return err_str(err);
  }
  if (k == "opts" && w.size() == 2 && vh::parse_hex(w[1], v)) { e->add_inst_options(InstOptions(uint32_t(v))); return "ok"; }
  if (k == "extra" && w.size() == 2) {
    size_t q = w[1].find(':');
    if (q == std::string::npos || !vh::parse_hex(w[1].substr(0, q), v) || !vh::parse_hex(w[1].substr(q + 1), v2)) { pre = true; return "pre"; }
    RegOnly r; r.init(OperandSignature::from_bits(uint32_t(v)), uint32_t(v2));
    e->set_extra_reg(r);
    return "ok";
  }
  if (k == "icomment" && w.size() == 2) { P->keep.push_back(w[1]); e->set_inline_comment(P->keep.back().c_str()); return "ok"; }
  if (k == "inst" && w.size() == 8 && vh::parse_u64(w[1], v)) {
    Operand_ o[6];
    for (int i = 0; i < 6; i++) if (!parse_op(w[2 + i], o[i])) { pre = true; return "pre"; }
    err = e->_emit(InstId(v), o[0], o[1], o[2], o + 3);
    return err_str(err);
  }
  if (k == "bind" && w.size() == 2 && parse_label(w[1], a)) {
    Label l; l.set_id(a);
    if (P->bb && a < P->code.label_count()) {     // a ConstPoolNode is linked by GlobalConstPoolPass, not by bind (precondition)
      LabelNode* ln = nullptr;
      if (P->bb->label_node_of(Out(ln), l) == Error::kOk && ln && ln->is_const_pool()) { pre = true; return "pre"; }
    }
    return err_str(e->bind(l));
  }
  if (k == "align" && w.size() == 3 && vh::parse_u64(w[1], v) && vh::parse_u64(w[2], v2)) return err_str(e->align(AlignMode(uint8_t(v)), uint32_t(v2)));
  if (k == "embed" && w.size() == 2) {
    std::vector<uint8_t> d; if (!vh::hex_to_bytes(w[1], d)) { pre = true; return "pre"; }
    d.push_back(0);
    return err_str(e->embed(d.data(), d.size() - 1));
  }
  if (k == "data" && w.size() == 5 && vh::parse_u64(w[1], v) && vh::parse_u64(w[2], v2) && vh::parse_u64(w[3], v3)) {
    std::vector<uint8_t> d; if (!vh::hex_to_bytes(w[4], d) || v2 > 4096) { pre = true; return "pre"; }
    d.resize(std::max<size_t>(d.size(), size_t(v2) * 64 + 1));   // never read past the line's data, whatever the type size is
    return err_str(e->embed_data_array(TypeId(uint8_t(v)), d.data(), size_t(v2), size_t(v3)));
  }
  if (k == "elabel" && w.size() == 3 && parse_label(w[1], a) && vh::parse_u64(w[2], v)) { Label l; l.set_id(a); return err_str(e->embed_label(l, size_t(v))); }
  if (k == "edelta" && w.size() == 4 && parse_label(w[1], a) && parse_label(w[2], b) && vh::parse_u64(w[3], v)) {
    Label l, m; l.set_id(a); m.set_id(b); return err_str(e->embed_label_delta(l, m, size_t(v)));
  }
  if (k == "comment" && w.size() == 2) { return err_str(e->comment(w[1].c_str())); }
  if (k == "section" && w.size() == 2 && w[1].size() > 1 && w[1][0] == 'S' && vh::parse_u64(w[1].substr(1), v)) {
    if (v >= P->code.section_count()) {
      // a Section* cannot be made for an id CodeHolder does not have: the call is not expressible
      pre = true; return "pre";
    }
    return err_str(e->section(P->code.section_by_id(uint32_t(v))));
  }
  if (k == "cpool" && w.size() == 4 && parse_label(w[1], a) && vh::parse_u64(w[2], v)) {
    std::vector<uint8_t> d; if (!vh::hex_to_bytes(w[3], d) || (v != 1 && v != 2 && v != 4 && v != 8 && v != 16) || d.size() % v) { pre = true; return "pre"; }
    Arena arena(4096);
    ConstPool pool(arena);
    for (size_t i = 0; i < d.size(); i += v) { size_t off; if (pool.add(d.data() + i, size_t(v), Out(off)) != Error::kOk) return "err cpooladd"; }
    Label l; l.set_id(a);
    return err_str(e->embed_const_pool(l, pool));
  }
  // Compiler only: one constant (size 1/2/4/8/16, all constants of a program the same size) added to the GLOBAL constant pool
  // (BaseCompiler::_new_const); the pool node is created by the first one and linked by GlobalConstPoolPass at finalize
  if (k == "gconst" && w.size() == 3 && vh::parse_u64(w[1], v)) {
    std::vector<uint8_t> d;
    if (!P->comp || !vh::hex_to_bytes(w[2], d) || (v != 1 && v != 2 && v != 4 && v != 8 && v != 16) || d.size() != v ||
        (P->gpool_isz && P->gpool_isz != v)) { pre = true; return "pre"; }
    P->gpool_isz = v;
    BaseMem m;
    err = P->comp->_new_const(Out(m), ConstPoolScope::kGlobal, d.data(), d.size());
    if (err == Error::kOk) {
      LabelNode* n = nullptr; Label l; l.set_id(m.base_id());
      if (P->bb->label_node_of(Out(n), l) == Error::kOk) { reg_node(n); P->gpool_node = n; }
    }
    return err_str(err);
  }
  // asm mode: what serialize_to issues for a ConstPoolNode - embed_const_pool(label, pool of items of size `align`)
  if (k == "cpoolnode" && w.size() == 4 && parse_label(w[1], a) && vh::parse_u64(w[2], v)) {
    std::vector<uint8_t> d; if (!vh::hex_to_bytes(w[3], d) || (v != 1 && v != 2 && v != 4 && v != 8 && v != 16) || d.size() % v) { pre = true; return "pre"; }
    Arena arena(4096);
    ConstPool pool(arena);
    for (size_t i = 0; i < d.size(); i += v) { size_t off; if (pool.add(d.data() + i, size_t(v), Out(off)) != Error::kOk) return "err cpooladd"; }
    Label l; l.set_id(a);
    return err_str(e->embed_const_pool(l, pool));
  }
  pre = true;
  return "pre";
}

static std::string do_edit(const std::vector<std::string>& w) {
  BaseBuilder* bb = P->bb;
  const std::string& k = w[0];
  if (k == "cursor" && w.size() == 2) {
    if (w[1] == "-") { bb->set_cursor(nullptr); return "ok"; }
    BaseNode* n = node_arg(w[1]);
    if (!n || !n->is_active()) return "pre";
    bb->set_cursor(n); return "ok";
  }
  if (k == "remove" && w.size() == 2) {
    BaseNode* n = node_arg(w[1]); if (!n) return "pre";
    bb->remove_node(n); return "ok";
  }
  if (k == "removerange" && w.size() == 3) {
    BaseNode* a = node_arg(w[1]); BaseNode* b = node_arg(w[2]);
    if (!a || !b) return "pre";
    if (a != b && a->is_active()) {   // documented precondition: b is reachable from a
      bool found = false; size_t guard = 0;
      for (BaseNode* n = a; n && guard < 100000; n = n->next(), guard++) if (n == b) { found = true; break; }
      if (!found) return "pre";
    }
    bb->remove_nodes(a, b); return "ok";
  }
  if (k == "addnode" && w.size() == 2) {
    BaseNode* n = node_arg(w[1]);
    if (!n || n->is_active() || n == P->gpool_node) return "pre";
    bb->add_node(n); return "ok";
  }
  if ((k == "addafter" || k == "addbefore") && w.size() == 3) {
    BaseNode* n = node_arg(w[1]); BaseNode* r = node_arg(w[2]);
    if (!n || !r || n->is_active() || !r->is_active() || n == P->gpool_node) return "pre";
    if (k == "addafter") bb->add_after(n, r); else bb->add_before(n, r);
    return "ok";
  }
  return "pre";
}

static void step(const std::string& line, std::vector<std::string>& out) {
  std::vector<std::string> w = vh::words(line);
  if (w.empty()) return;
  if (w[0] == "menu" && w.size() == 2) { menu(w[1], out); return; }
  if (w[0] == "begin" && w.size() == 4) {
    P.reset(new Prog());
    vh::cpu_alarm(20, on_alarm);
    uint64_t enc = 0; vh::parse_hex(w[3], enc);
    Arch arch = w[1] == "x86" ? Arch::kX86 : w[1] == "a64" ? Arch::kAArch64 : Arch::kX64;
    g_arch = arch;
    P->code.init(Environment(arch));
    bool a64 = arch == Arch::kAArch64;
    P->enc = uint32_t(enc);
    if (w[2] == "compilerfn") {
      P->fn_mode = true;
      if (a64) { auto* c = new a64::Compiler(); P->em.reset(c); P->cc = c; } else { auto* c = new x86::Compiler(); P->em.reset(c); P->cc = c; }
      Error err = P->code.attach(P->em.get());
      P->em->add_encoding_options(EncodingOptions(uint32_t(enc)));
      out.push_back("R " + err_str(err));
      return;
    }
    if (w[2] == "asm") { P->is_asm = true; if (a64) P->em.reset(new a64::Assembler()); else P->em.reset(new x86::Assembler()); }
    else if (w[2] == "compiler") { if (a64) { auto* c = new a64::Compiler(); P->em.reset(c); P->bb = c; P->comp = c; } else { auto* c = new x86::Compiler(); P->em.reset(c); P->bb = c; P->comp = c; } }
    else { if (a64) { auto* c = new a64::Builder(); P->em.reset(c); P->bb = c; } else { auto* c = new x86::Builder(); P->em.reset(c); P->bb = c; } }
    Error err = P->code.attach(P->em.get());
    P->em->add_encoding_options(EncodingOptions(uint32_t(enc)));
    if (P->bb) sweep_new_nodes();
    out.push_back("R " + err_str(err) + (P->bb ? state_str() : std::string()));
    return;
  }
  if (!P) { out.push_back("R pre"); return; }
  if (w[0] == "end") { P.reset(); out.push_back("R end"); return; }

  if (P->fn_mode) {
    if (w[0] == "finalize") {
      Error e = P->em->finalize();
      out.push_back("F " + err_str(e));
      dump_code(out);
      // the same program on an Assembler
      Arch arch = g_arch;
      uint32_t nlabels = uint32_t(P->code.label_count());
      std::vector<std::string> lines = P->fn_lines;
      std::vector<FuncNode*> funcs = P->funcs;
      std::unique_ptr<Prog> keep = std::move(P);       // do_call works on the global program state
      P.reset(new Prog());
      P->code.init(Environment(arch));
      P->is_asm = true;
      if (arch == Arch::kAArch64) P->em.reset(new a64::Assembler()); else P->em.reset(new x86::Assembler());
      P->code.attach(P->em.get());
      P->em->add_encoding_options(EncodingOptions(keep->enc));
      for (uint32_t i = 0; i < nlabels; i++) P->em->new_label();
      Error first = Error::kOk;
      size_t fi = 0;
      FuncNode* curf = nullptr;
      for (const std::string& l : lines) {
        std::vector<std::string> v = vh::words(l);
        Error err = Error::kOk;
        if (v[0] == "newlabel") continue;
        if (v[0] == "func") { curf = fi < funcs.size() ? funcs[fi++] : nullptr; if (curf) { err = P->em->bind(curf->label()); if (err == Error::kOk) err = P->em->emit_prolog(curf->frame()); } }
        else if (v[0] == "fret") { }
        else if (v[0] == "endfunc") { if (curf) { err = P->em->bind(curf->exit_label()); if (err == Error::kOk) err = P->em->emit_epilog(curf->frame()); } curf = nullptr; }
        else { bool pre; std::string r = do_call(P->em.get(), v, pre); if (r.compare(0, 3, "err") == 0) { for (uint32_t i = 1; i < 200; i++) if (err_str(Error(i)) == r) { err = Error(i); break; } } }
        if (err != Error::kOk) { first = err; break; }
      }
      std::vector<std::string> x;
      x.push_back("F " + err_str(first));
      dump_code(x);
      for (auto& l : x) out.push_back("X " + l);
      P = std::move(keep);
      return;
    }
    P->fn_lines.push_back(line);
    std::string r;
    if (w[0] == "func") {
      FuncNode* f = P->cc->add_func(FuncSignature::build<void>());
      if (f) P->funcs.push_back(f);
      r = f ? "ok" : "err func";
    }
    else if (w[0] == "fret") {
      FuncRetNode* n = nullptr;
      r = err_str(P->cc->add_func_ret_node(Out(n), Operand(), Operand()));
    }
    else if (w[0] == "endfunc") r = err_str(P->cc->end_func());
    else if (is_edit(w[0])) r = "pre";
    else { bool pre; r = do_call(P->em.get(), w, pre); }
    out.push_back("R " + r);
    return;
  }

  if (P->is_asm) {
    bool cont = false;
    if (w[0][0] == '~') { cont = true; w[0] = w[0].substr(1); }
    if (w[0] == "finalize") {
      out.push_back("F " + err_str(P->first_err));
      dump_code(out);
      dump_image(out);
      return;
    }
    // label / section creation is not an emitter call that serialize_to replays: it happens whatever was refused before
    if (P->stopped && w[0] != "newlabel" && w[0] != "newsection") { out.push_back("R skipped"); return; }
    if (is_edit(w[0])) { out.push_back("R pre"); return; }
    bool pre;
    std::string r = do_call(P->em.get(), w, pre);
    if (r.compare(0, 3, "err") == 0 && !cont) {
      P->stopped = true;
      // recover the error code from the emitter-independent text
      P->first_err = Error::kOk;
      for (uint32_t i = 1; i < 200; i++) if (err_str(Error(i)) == r) { P->first_err = Error(i); break; }
    }
    out.push_back("R " + r);
    return;
  }

  // builder / compiler
  if (w[0] == "finalize") {
    // a corrupted (cyclic) node list would make serialize_to run for ever: report it instead
    size_t guard = 0;
    for (BaseNode* n = P->bb->first_node(); n && guard <= 100000; n = n->next()) guard++;
    if (guard > 100000) { out.push_back("C end CYCLE"); out.push_back("F CYCLE"); return; }
    // the passes first (Compiler: GlobalConstPoolPass links the global pool behind the last node; the register allocator has no
    // function to work on), so that the list and the calls shown are what finalize() serialises; finalize() runs them again (no-ops)
    Error e0 = P->bb->run_passes();
    sweep_new_nodes();
    out.push_back("R " + err_str(e0) + state_str());
    Recorder rec;
    Error e1 = Error::kOk;
    e1 = P->bb->serialize_to(&rec);
    for (auto& c : rec.calls) out.push_back("C " + c);
    out.push_back("C end " + err_str(e1));
    Error e2 = P->em->finalize();
    out.push_back("F " + err_str(e2));
    dump_code(out);
    dump_image(out);
    return;
  }
  std::string r;
  if (is_edit(w[0])) r = do_edit(w);
  else { bool pre; r = do_call(P->em.get(), w, pre); }
  sweep_new_nodes();
  out.push_back("R " + r + state_str());
}

int main() {
  return vh::line_loop([](const std::string& line) -> std::string {
    std::vector<std::string> out;
    step(line, out);
    std::string s;
    for (size_t i = 0; i < out.size(); i++) { if (i) s += "\n"; s += out[i]; }
    return s;
  });
}
