// C19 harness: the real asmjit::ConstPool (add / fill / reset), BaseAssembler::embed_const_pool and
// BaseBuilder::embed_const_pool behind the line protocol of lean/Driver/C19.lean.
#include <asmjit/core.h>
#include <asmjit/x86.h>
#include <asmjit/a64.h>
#include <memory>
#include "vh.h"

using namespace asmjit;

struct State {
  std::unique_ptr<Arena> arena;
  std::unique_ptr<ConstPool> pool;
  void fresh() {
    pool.reset();
    arena.reset(new Arena(8192));
    pool.reset(new ConstPool(*arena));
  }
};
static State S;

static std::string hex_or_dash(const uint8_t* p, size_t n) { return n ? vh::bytes_to_hex(p, n) : std::string("-"); }

static std::string tail3() {
  return std::to_string(S.pool->size()) + " " + std::to_string(S.pool->alignment()) + " " + std::to_string(S.pool->min_item_size());
}

struct DumpVisitor {
  std::string out;
  size_t data_size;
  void operator()(const ConstPool::Node* n) {
    if (!out.empty()) out += ",";
    out += vh::bytes_to_hex(static_cast<const uint8_t*>(n->data()), data_size) + "@" + std::to_string(n->_offset) + (n->_shared ? "s" : "n");
  }
};

static std::string dump() {
  std::string o = "st size=" + std::to_string(S.pool->size()) + " align=" + std::to_string(S.pool->alignment()) +
                  " min=" + std::to_string(S.pool->min_item_size());
  for (size_t i = 0; i < ConstPool::kIndexCount; i++) {
    o += " g" + std::to_string(i) + "=[";
    bool first = true;
    for (ConstPool::Gap* g = S.pool->_gaps[i]; g; g = g->_next) {
      if (!first) o += ",";
      first = false;
      o += std::to_string(g->_offset) + ":" + std::to_string(g->_size);
    }
    o += "]";
  }
  for (size_t i = 0; i < ConstPool::kIndexCount; i++) {
    DumpVisitor v{std::string(), size_t(1) << i};
    S.pool->_tree[i].for_each(v);
    o += " t" + std::to_string(i) + "=[" + v.out + "]";
  }
  return o;
}

// fill into a guarded buffer: bytes outside [0, size) must stay untouched
static bool guarded_fill(std::vector<uint8_t>& img) {
  size_t n = S.pool->size();
  std::vector<uint8_t> g(n + 128, 0xA5);
  S.pool->fill(g.data() + 64);
  for (size_t i = 0; i < 64; i++) if (g[i] != 0xA5 || g[64 + n + i] != 0xA5) return false;
  img.assign(g.begin() + 64, g.begin() + 64 + n);
  return true;
}

template<typename AsmT, typename BldT>
static std::string embed_with(Arch arch, bool builder, const std::vector<uint8_t>& pre) {
  Environment env(arch);
  CodeHolder code;
  if (code.init(env) != Error::kOk) return "err init";
  Label L;
  Error e = Error::kOk;
  if (!builder) {
    AsmT a(&code);
    if (!pre.empty()) e = a.embed(pre.data(), pre.size());
    if (e != Error::kOk) return "err embed-pre";
    L = a.new_label();
    e = a.embed_const_pool(L, *S.pool);
    if (e != Error::kOk) return std::string("err ") + DebugUtils::error_as_string(e);
  }
  else {
    BldT b(&code);
    if (!pre.empty()) e = b.embed(pre.data(), pre.size());
    if (e != Error::kOk) return "err embed-pre";
    L = b.new_label();
    e = b.embed_const_pool(L, *S.pool);
    if (e != Error::kOk) return std::string("err ") + DebugUtils::error_as_string(e);
    e = b.finalize();
    if (e != Error::kOk) return std::string("err finalize ") + DebugUtils::error_as_string(e);
  }
  if (!code.is_label_bound(L)) return "err label-not-bound";
  Section* text = code.text_section();
  return "emb " + std::to_string(code.label_offset(L)) + " " + std::to_string(S.pool->size()) + " " +
         std::to_string(S.pool->alignment()) + " " + hex_or_dash(text->data(), text->buffer_size());
}

// `cc <arch> item...` with items F (add_func void()), E (end_func), d:<hex> (embed data), l:<hex> / g:<hex>
// (BaseCompiler::_new_const local / global), then finalize().
// Output: `cc <answer> | <answer> ... || p0 <label offset|unbound> <size> <align> | p1 ... || <text section hex>`;
// pool nodes are numbered in creation order (p0, p1, ...); answers: `ok` / `err Name` for F, E, d;
// `ok p<k> <disp> <size> <align> <min>` / `err Name p<k> <size> <align> <min>` for constants.
template<typename CompT>
static std::string compile_with(Arch arch, const std::vector<std::string>& w) {
  Environment env(arch);
  CodeHolder code;
  if (code.init(env) != Error::kOk) return "err init";
  CompT cc(&code);
  std::vector<ConstPoolNode*> pools;
  auto ordinal_of = [&](ConstPoolNode* pn) -> size_t {
    for (size_t k = 0; k < pools.size(); k++) if (pools[k] == pn) return k;
    pools.push_back(pn);
    return pools.size() - 1;
  };
  auto err_name = [](Error e) -> std::string {
    return e == Error::kInvalidArgument ? "InvalidArgument" : e == Error::kInvalidState ? "InvalidState" : DebugUtils::error_as_string(e);
  };
  std::string out = "cc";
  for (size_t i = 2; i < w.size(); i++) {
    if (i > 2) out += " |";
    out += " ";
    const std::string& it = w[i];
    if (it == "F") {
      FuncNode* f = nullptr;
      Error e = cc.add_func_node(Out(f), FuncSignature::build<void>());
      out += e == Error::kOk ? "ok" : "err " + err_name(e);
      continue;
    }
    if (it == "E") {
      Error e = cc.end_func();
      out += e == Error::kOk ? "ok" : "err " + err_name(e);
      continue;
    }
    if (it.size() < 3 || it[1] != ':') return "bad-op";
    std::vector<uint8_t> d;
    if (!vh::hex_to_bytes(it.substr(2), d)) return "bad-op";
    if (it[0] == 'd') {
      Error e = cc.embed(d.data(), d.size());
      out += e == Error::kOk ? "ok" : "err " + err_name(e);
      continue;
    }
    if (it[0] != 'l' && it[0] != 'g') return "bad-op";
    uint32_t scope = it[0] == 'g';
    std::unique_ptr<uint8_t[]> copy(new uint8_t[d.size() ? d.size() : 1]);
    if (!d.empty()) memcpy(copy.get(), d.data(), d.size());
    BaseMem m;
    Error e = cc._new_const(Out<BaseMem>(m), ConstPoolScope(scope), copy.get(), d.size());
    ConstPoolNode* pn = cc._const_pools[scope];
    if (!pn) { out += "err " + err_name(e) + " nopool"; continue; }
    size_t k = ordinal_of(pn);
    std::string t3 = std::to_string(pn->size()) + " " + std::to_string(pn->alignment()) + " " + std::to_string(pn->const_pool().min_item_size());
    if (e == Error::kOk) {
      if (m.base_id() != pn->label_id()) return "err const-mem-does-not-name-the-pool-label";
      if (m.signature().size() != d.size()) return "err const-mem-size";
      out += "ok p" + std::to_string(k) + " " + std::to_string(m.offset()) + " " + t3;
    }
    else
      out += "err " + err_name(e) + " p" + std::to_string(k) + " " + t3;
  }
  Error e = cc.finalize();
  if (e != Error::kOk) return out + " || err finalize " + DebugUtils::error_as_string(e);
  Section* text = code.text_section();
  out += " ||";
  for (size_t k = 0; k < pools.size(); k++) {
    ConstPoolNode* pn = pools[k];
    if (k) out += " |";
    out += " p" + std::to_string(k) + " ";
    if (!code.is_label_bound(pn->label_id())) out += "unbound";
    else out += std::to_string(code.label_offset(pn->label_id()));
    out += " " + std::to_string(pn->size()) + " " + std::to_string(pn->alignment());
  }
  out += " || " + hex_or_dash(text->data(), text->buffer_size());
  return out;
}

// `es <arch> <asm|bld> item...`: n (new label), d:<hex> (embed data), b<k> (bind label k), p<k> (embed_const_pool at
// label k; k beyond the created labels = an invalid label id).  Errors do not stop the sequence.
// Output: `es <answers> || L0=<off|unbound> ... || <pool size> <pool align> <text hex>`.
template<typename EmT>
static std::string es_run(EmT& em, CodeHolder& code, bool builder, const std::vector<std::string>& w) {
  std::vector<Label> labels;
  std::string out = "es";
  auto name = [](Error e) -> std::string {
    return e == Error::kInvalidLabel ? "InvalidLabel" : e == Error::kLabelAlreadyBound ? "LabelAlreadyBound" : DebugUtils::error_as_string(e);
  };
  for (size_t i = 3; i < w.size(); i++) {
    const std::string& it = w[i];
    if (i > 3) out += " |";
    out += " ";
    Error e = Error::kOk;
    if (it == "n") labels.push_back(em.new_label());
    else if (it.size() >= 2 && it[0] == 'd' && it[1] == ':') {
      std::vector<uint8_t> d;
      if (!vh::hex_to_bytes(it.substr(2), d)) return "bad-op";
      if (!d.empty()) e = em.embed(d.data(), d.size());
    }
    else if (it.size() >= 2 && (it[0] == 'b' || it[0] == 'p')) {
      uint64_t k;
      if (!vh::parse_u64(it.substr(1), k)) return "bad-op";
      Label L = k < labels.size() ? labels[size_t(k)] : Label(uint32_t(0x00FFFF00u + k));
      size_t before = code.text_section()->buffer_size();
      e = it[0] == 'b' ? em.bind(L) : em.embed_const_pool(L, *S.pool);
      if (e != Error::kOk && !builder && code.text_section()->buffer_size() != before) return "err refused-embed-changed-the-section";
    }
    else return "bad-op";
    out += e == Error::kOk ? "ok" : "err " + name(e);
  }
  if (builder) {
    Error e = em.finalize();
    if (e != Error::kOk) return out + " || err finalize " + DebugUtils::error_as_string(e);
  }
  out += " ||";
  for (size_t k = 0; k < labels.size(); k++) {
    out += " L" + std::to_string(k) + "=";
    out += code.is_label_bound(labels[k]) ? std::to_string(code.label_offset(labels[k])) : std::string("unbound");
  }
  Section* text = code.text_section();
  out += " || " + std::to_string(S.pool->size()) + " " + std::to_string(S.pool->alignment()) + " " + hex_or_dash(text->data(), text->buffer_size());
  return out;
}

template<typename AsmT, typename BldT>
static std::string es_with(Arch arch, bool builder, const std::vector<std::string>& w) {
  Environment env(arch);
  CodeHolder code;
  if (code.init(env) != Error::kOk) return "err init";
  if (!builder) { AsmT a(&code); return es_run(a, code, false, w); }
  BldT b(&code);
  return es_run(b, code, true, w);
}

static std::string step(const std::string& line) {
  std::vector<std::string> w = vh::words(line);
  if (w.empty()) return "bad-op";
  if (w[0] == "new" && w.size() == 1) { S.fresh(); return "ok"; }
  if (w[0] == "reset" && w.size() == 1) { S.pool->reset(); return "ok"; }
  if (w[0] == "add" && w.size() == 2) {
    std::vector<uint8_t> d;
    if (!vh::hex_to_bytes(w[1], d)) return "bad-op";
    // exact-size heap copy so that ASan sees any read beyond `size`
    std::unique_ptr<uint8_t[]> copy(new uint8_t[d.size() ? d.size() : 1]);
    if (!d.empty()) memcpy(copy.get(), d.data(), d.size());
    size_t off = ~size_t(0);
    Error e = S.pool->add(copy.get(), d.size(), Out(off));
    if (e == Error::kOk) return "ok " + std::to_string(off) + " " + tail3();
    return std::string("err ") + (e == Error::kInvalidArgument ? "InvalidArgument" : DebugUtils::error_as_string(e)) + " " + tail3();
  }
  if (w[0] == "fill" && w.size() == 1) {
    std::vector<uint8_t> img;
    if (!guarded_fill(img)) return "guard-overwritten";
    return "img " + std::to_string(S.pool->size()) + " " + std::to_string(S.pool->alignment()) + " " + hex_or_dash(img.data(), img.size());
  }
  if (w[0] == "dump" && w.size() == 1) return dump();
  if (w[0] == "embed" && w.size() == 4) {
    std::vector<uint8_t> pre;
    if (!vh::hex_to_bytes(w[3], pre)) return "bad-op";
    bool bld = w[2] == "bld";
    if (!bld && w[2] != "asm") return "bad-op";
    if (w[1] == "x86") return embed_with<x86::Assembler, x86::Builder>(Arch::kX64, bld, pre);
    if (w[1] == "a64") return embed_with<a64::Assembler, a64::Builder>(Arch::kAArch64, bld, pre);
    return "bad-op";
  }
  if (w[0] == "es" && w.size() >= 3) {
    bool bld = w[2] == "bld";
    if (!bld && w[2] != "asm") return "bad-op";
    if (w[1] == "x86") return es_with<x86::Assembler, x86::Builder>(Arch::kX64, bld, w);
    if (w[1] == "a64") return es_with<a64::Assembler, a64::Builder>(Arch::kAArch64, bld, w);
    return "bad-op";
  }
  if (w[0] == "cc" && w.size() >= 2) {
    if (w[1] == "x86") return compile_with<x86::Compiler>(Arch::kX64, w);
    if (w[1] == "a64") return compile_with<a64::Compiler>(Arch::kAArch64, w);
    return "bad-op";
  }
  return "bad-op";
}

int main() {
  S.fresh();
  int rc = vh::line_loop(step);
  S.pool.reset();
  S.arena.reset();
  return rc;
}
