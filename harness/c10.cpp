// C10 harness: the real CodeHolder section table / flatten / code_size / copy_* / relocate_to_base / JitRuntime::_add
// behind the line protocol of lean/Driver/C10.lean.
//
//   init                              -> ok                       (fresh CodeHolder, x64 environment, x86::Assembler attached)
//   reinit | reset soft|hard          -> ok                       (CodeHolder::reinit(); reset(policy) + init + attach)
//   sec <name|-> <align> <order>      -> ok <id> | err <Error>
//   data <id> <hex>                   -> ok <bufsize> | err InvalidSection      (Assembler::section + embed)
//   vsize <id> <hex64>                -> ok | err InvalidSection               (Section::set_virtual_size)
//   addr <hex64>                      -> ok                                    (add_address_to_address_table)
//   call|jmp <id> <hex64>             -> ok <bufsize> | err InvalidSection     (x86 call/jmp abs -> kX64AddressEntry)
//   flatten                           -> ok | err <Error>
//   state                             -> cs=<hex> at=<id|-> n=<k> | id:order:align:off:vsize:data | ...   (by order)
//   reloc <hex64 base>                -> ok red=<hex> | err <Error>
//   copy <dstsize> <flags>            -> ok <rle> | err <Error> | GUARD-BROKEN
//   copysec <id> <dstsize> <flags>    -> ok <rle> | err <Error> | GUARD-BROKEN
//   names                             -> <id>=<hex of name()>,...   (by id)
//   find <name>                       -> <id> | none                             (section_by_name)
//   jitadd                            -> ok <rle of the first code_size() bytes> | err <Error>
//
// Destination buffers are pre-filled with the pattern 0xC1 + (k % 13) (never zero) and surrounded by 256 guard bytes.
#include <asmjit/x86.h>
#include "vh.h"
#include <memory>

using namespace asmjit;

static std::unique_ptr<CodeHolder> g_code;
static std::unique_ptr<x86::Assembler> g_asm;

static std::string err_name(Error e) { return std::string("err ") + DebugUtils::error_as_string(e); }

static void do_init() {
  g_asm.reset();
  g_code.reset(new CodeHolder());
  Environment env;
  env.init(Arch::kX64);
  g_code->init(env);
  g_asm.reset(new x86::Assembler(g_code.get()));
}

static std::string rle(const uint8_t* p, size_t n) {
  if (n == 0) return "-";
  std::string s;
  size_t i = 0;
  char buf[40];
  while (i < n) {
    size_t j = i + 1;
    while (j < n && p[j] == p[i]) j++;
    if (!s.empty()) s.push_back('.');
    if (j - i == 1) snprintf(buf, sizeof(buf), "%02x", p[i]);
    else snprintf(buf, sizeof(buf), "%02xx%zu", p[i], j - i);
    s += buf;
    i = j;
  }
  return s;
}

static const size_t kGuard = 256;
static const size_t kMaxDst = size_t(1) << 22;

struct Dst {
  std::vector<uint8_t> mem;
  size_t n;
  explicit Dst(size_t n_) : mem(n_ + 2 * kGuard, 0x5A), n(n_) {
    for (size_t k = 0; k < n; k++) mem[kGuard + k] = uint8_t(0xC1 + (k % 13));
  }
  uint8_t* p() { return mem.data() + kGuard; }
  bool guards_ok() const {
    for (size_t k = 0; k < kGuard; k++) if (mem[k] != 0x5A || mem[kGuard + n + k] != 0x5A) return false;
    return true;
  }
};

static std::string state() {
  CodeHolder& c = *g_code;
  std::string s = "cs=" + vh::to_hex(uint64_t(c.code_size()));
  s += " at=";
  s += c.address_table_section() ? std::to_string(c.address_table_section()->section_id()) : std::string("-");
  s += " n=" + std::to_string(c.sections_by_order().size());
  for (Section* sec : c.sections_by_order()) {
    s += " | " + std::to_string(sec->section_id()) + ":" + std::to_string(sec->order()) + ":" + std::to_string(sec->alignment()) + ":" +
         vh::to_hex(sec->offset()) + ":" + vh::to_hex(sec->virtual_size()) + ":" +
         (sec->buffer_size() ? vh::bytes_to_hex(sec->data(), sec->buffer_size()) : std::string("-"));
  }
  return s;
}

static std::string step(const std::string& line) {
  std::vector<std::string> w = vh::words(line);
  if (w.empty()) return "bad-op";
  if (w[0] == "init") { do_init(); return "ok"; }
  if (!g_code) do_init();
  CodeHolder& c = *g_code;

  if (w[0] == "reinit") {
    Error e = c.reinit();
    return e == Error::kOk ? "ok" : err_name(e);
  }
  if (w[0] == "reset" && w.size() == 2) {
    // reset(kSoft|kHard) detaches the assembler and forgets the environment: init and attach again
    c.reset(w[1] == "hard" ? ResetPolicy::kHard : ResetPolicy::kSoft);
    Environment env;
    env.init(Arch::kX64);
    Error e = c.init(env);
    if (e != Error::kOk) return err_name(e);
    e = c.attach(g_asm.get());
    return e == Error::kOk ? "ok" : err_name(e);
  }
  if (w[0] == "sec" && w.size() == 4) {
    uint64_t al; int64_t ord;
    if (!vh::parse_u64(w[2], al) || !vh::parse_i64(w[3], ord) || al > 0xFFFFFFFFull) return "bad-op";
    std::string name = w[1] == "-" ? std::string() : w[1];
    Section* s = nullptr;
    Error e = c.new_section(Out(s), name.c_str(), (name.size() % 2) ? SIZE_MAX : name.size(), SectionFlags::kNone, uint32_t(al), int32_t(ord));
    if (e != Error::kOk) return err_name(e);
    return "ok " + std::to_string(s->section_id());
  }
  if (w[0] == "data" && w.size() == 3) {
    uint64_t id; std::vector<uint8_t> b;
    if (!vh::parse_u64(w[1], id) || !vh::hex_to_bytes(w[2], b)) return "bad-op";
    if (!c.is_section_valid(uint32_t(id)) || id > 0xFFFFFFFFull) return "err InvalidSection";
    Error e = g_asm->section(c.section_by_id(uint32_t(id)));
    if (e != Error::kOk) return err_name(e);
    e = g_asm->embed(b.data(), b.size());
    if (e != Error::kOk) return err_name(e);
    return "ok " + std::to_string(c.section_by_id(uint32_t(id))->buffer_size());
  }
  if (w[0] == "vsize" && w.size() == 3) {
    uint64_t id, v;
    if (!vh::parse_u64(w[1], id) || !vh::parse_hex(w[2], v)) return "bad-op";
    if (!c.is_section_valid(uint32_t(id)) || id > 0xFFFFFFFFull) return "err InvalidSection";
    c.section_by_id(uint32_t(id))->set_virtual_size(v);
    return "ok";
  }
  if (w[0] == "addr" && w.size() == 2) {
    uint64_t a;
    if (!vh::parse_hex(w[1], a)) return "bad-op";
    Error e = c.add_address_to_address_table(a);
    return e == Error::kOk ? "ok" : err_name(e);
  }
  if ((w[0] == "call" || w[0] == "jmp") && w.size() == 3) {
    uint64_t id, a;
    if (!vh::parse_u64(w[1], id) || !vh::parse_hex(w[2], a)) return "bad-op";
    if (!c.is_section_valid(uint32_t(id)) || id > 0xFFFFFFFFull) return "err InvalidSection";
    Error e = g_asm->section(c.section_by_id(uint32_t(id)));
    if (e != Error::kOk) return err_name(e);
    e = w[0] == "call" ? g_asm->call(Imm(a)) : g_asm->jmp(Imm(a));
    if (e != Error::kOk) return err_name(e);
    return "ok " + std::to_string(c.section_by_id(uint32_t(id))->buffer_size());
  }
  if (w[0] == "flatten") {
    Error e = c.flatten();
    return e == Error::kOk ? "ok" : err_name(e);
  }
  if (w[0] == "state") return state();
  if (w[0] == "reloc" && w.size() == 2) {
    uint64_t base;
    if (!vh::parse_hex(w[1], base)) return "bad-op";
    CodeHolder::RelocationSummary sum;
    sum.code_size_reduction = 0;
    Error e = c.relocate_to_base(base, &sum);
    if (e != Error::kOk) return err_name(e);
    return "ok red=" + vh::to_hex(uint64_t(sum.code_size_reduction));
  }
  if (w[0] == "copy" && w.size() == 3) {
    uint64_t n, fl;
    if (!vh::parse_u64(w[1], n) || !vh::parse_u64(w[2], fl) || n > kMaxDst) return "bad-op";
    Dst d{size_t(n)};
    Error e = c.copy_flattened_data(d.p(), size_t(n), CopySectionFlags(uint32_t(fl)));
    if (!d.guards_ok()) return "GUARD-BROKEN";
    if (e != Error::kOk) return err_name(e);
    return "ok " + rle(d.p(), size_t(n));
  }
  if (w[0] == "copysec" && w.size() == 4) {
    uint64_t id, n, fl;
    if (!vh::parse_u64(w[1], id) || !vh::parse_u64(w[2], n) || !vh::parse_u64(w[3], fl) || n > kMaxDst || id > 0xFFFFFFFFull) return "bad-op";
    Dst d{size_t(n)};
    Error e = c.copy_section_data(d.p(), size_t(n), uint32_t(id), CopySectionFlags(uint32_t(fl)));
    if (!d.guards_ok()) return "GUARD-BROKEN";
    if (e != Error::kOk) return err_name(e);
    return "ok " + rle(d.p(), size_t(n));
  }
  if (w[0] == "names") {
    std::string s;
    for (uint32_t i = 0; i < c.section_count(); i++) {
      const char* nm = c.section_by_id(i)->name();
      size_t len = strnlen(nm, Globals::kMaxSectionNameSize + 1);
      if (i) s += ",";
      s += std::to_string(i) + "=" + (len ? vh::bytes_to_hex(reinterpret_cast<const uint8_t*>(nm), len) : std::string("-"));
    }
    return s;
  }
  if (w[0] == "find" && w.size() == 2) {
    std::string name = w[1] == "-" ? std::string() : w[1];
    Section* s = c.section_by_name(name.c_str(), name.size());
    return s ? std::to_string(s->section_id()) : std::string("none");
  }
  if (w[0] == "jitadd") {
    // the allocator pre-fills its memory with a non-zero pattern, so that the zero fill of virtual tails is observable
    JitAllocator::CreateParams params;
    params.options = JitAllocatorOptions::kFillUnusedMemory;
    params.fill_pattern = 0xA7A7A7A7u;
    JitRuntime rt(&params);
    void* fn = nullptr;
    Error e = rt.add(&fn, &c);
    if (e != Error::kOk) return err_name(e);
    size_t n = c.code_size();
    std::string out = "ok " + rle(static_cast<const uint8_t*>(fn), n);
    rt.release(fn);
    return out;
  }
  return "bad-op";
}

int main() { return vh::line_loop(step); }
