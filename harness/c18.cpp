// C18 harness: the real Arena, ArenaVector, ArenaHash, ArenaTree, ArenaList, ArenaPool, ArenaBitSet, String behind the
// line protocol of lean/Driver/C18.lean.  All arena-backed containers share ONE arena.  Outputs are canonical:
// pointers -> "b<chain position>:<block size>+<offset>" / "dyn", errors -> ok|oom|inval, contents as lists or FNV hashes.
#include <asmjit/core.h>
#include <asmjit/support/arena.h>
#include <asmjit/support/arenavector.h>
#include <asmjit/support/arenatree.h>
#include <asmjit/support/arenalist.h>
#include <asmjit/support/arenapool.h>
#include <asmjit/support/arenabitset_p.h>
#include <asmjit/support/arenastring.h>
#include <asmjit/core/string.h>
// file-static prime table: include the .cpp (this TU then replaces the archive member)
#include <asmjit/support/arenahash.cpp>
#include "vh.h"
#include <map>
#include <memory>

using namespace asmjit;

struct Item12 { uint32_t a, b, c; bool operator==(const Item12& o) const { return a == o.a && b == o.b && c == o.c; }
                bool operator!=(const Item12& o) const { return !(*this == o); } };
static_assert(sizeof(Item12) == 12, "");

struct HNode : public ArenaHashNode {
  HNode(uint32_t key, uint32_t hash) : ArenaHashNode(hash), key(key) {}
  uint32_t key;
};
struct HMatcher {
  uint32_t key, hash;
  uint32_t hash_code() const { return hash; }
  bool matches(const HNode* n) const { return n->key == key; }
};
struct TNode : public ArenaTreeNodeT<TNode> {
  explicit TNode(uint32_t k) : key(k) {}
  uint32_t key;
  bool operator<(const TNode& o) const { return key < o.key; }
  bool operator>(const TNode& o) const { return key > o.key; }
  bool operator<(uint32_t k) const { return key < k; }
  bool operator>(uint32_t k) const { return key > k; }
};
struct LNode : public ArenaListNode<LNode> {
  explicit LNode(uint32_t v) : val(v) {}
  uint32_t val;
};
static_assert(sizeof(HNode) == 24 && sizeof(TNode) == 24 && sizeof(LNode) == 24, "node sizes assumed by the model");

struct VecAny { int item; ArenaVector<uint32_t> v4; ArenaVector<Item12> v12; ArenaVector<uint8_t> v1; };

static std::unique_ptr<Arena> g_arena;
alignas(16) static uint8_t g_static[1 << 16];
static std::map<uint64_t, std::pair<void*, size_t>> g_handles;
static std::map<uint64_t, VecAny> g_vec;
static std::map<uint64_t, ArenaHash<HNode>> g_hash;
static std::map<uint64_t, ArenaTree<TNode>> g_tree;
static std::map<uint64_t, ArenaList<LNode>> g_list;
static std::map<uint64_t, ArenaBitSet> g_bits;
static std::map<uint64_t, std::shared_ptr<String>> g_str;
static ArenaPool<TNode> g_pool;
struct AStrAny { int n; ArenaString<16> s16; ArenaString<40> s40; };
static std::map<uint64_t, AStrAny> g_astr;

static std::string U(uint64_t v) { return std::to_string(v); }

static std::string loc_of(const void* p) {
  if (!p) return "none";
  const uint8_t* q = static_cast<const uint8_t*>(p);
  size_t pos = 0;
  for (Arena::ManagedBlock* b = g_arena->_first_block; b; b = b->next, pos++) {
    if (b->size && q >= b->data() && q <= b->end())
      return "b" + U(pos) + ":" + U(b->size) + "+" + U(size_t(q - b->data()));
  }
  for (Arena::DynamicBlock* d = g_arena->_dynamic_blocks; d; d = d->next) {
    if (q == reinterpret_cast<const uint8_t*>(d) + 24) return "dyn";
  }
  return "?";
}

static void drop_containers() {
  // the arena memory is gone: forget every arena-backed container (no release)
  for (auto& kv : g_vec) { kv.second.v4.reset(); kv.second.v12.reset(); kv.second.v1.reset(); }
  g_vec.clear();
  g_hash.clear(); g_tree.clear(); g_list.clear();
  for (auto& kv : g_bits) kv.second.reset();
  g_bits.clear();
  g_handles.clear();
  g_astr.clear();
  g_pool.reset();
}

static const char* err_name(Error e) {
  return e == Error::kOk ? "ok" : e == Error::kOutOfMemory ? "oom" : e == Error::kInvalidArgument ? "inval" : "err";
}

template<typename F> static std::string list_or_hash(size_t n, F item) {
  if (n <= 48) {
    std::string s = "items=";
    for (size_t i = 0; i < n; i++) { if (i) s += ","; s += item(i); }
    if (!n) s += "-";
    return s;
  }
  vh::Fnv h;
  for (size_t i = 0; i < n; i++) { h.add(item(i)); h.add(","); }
  return "hash=" + vh::to_hex(h.h);
}

// ---- Arena ------------------------------------------------------------------------------------------------------
static std::string arena_op(const std::vector<std::string>& w) {
  uint64_t a = 0, b = 0;
  if (w.size() >= 3) vh::parse_u64(w[2], a);
  if (w.size() >= 4) vh::parse_u64(w[3], b);
  if (w[1] == "new") {
    if (w.size() != 4 || a < 1024 || a > (1u << 26) || b > sizeof(g_static) || (b && b < 64)) return "bad-op";
    drop_containers();
    g_arena.reset();
    if (b) g_arena.reset(new Arena(size_t(a), Span<uint8_t>(g_static, size_t(b))));
    else g_arena.reset(new Arena(size_t(a)));
    return "ok";
  }
  if (!g_arena) return "bad-op";
  if (w[1] == "one") {
    if (w.size() != 3 || (a & 7) || a == 0) return "bad-op";
    void* p = g_arena->alloc_oneshot(size_t(a));
    return p ? "ok loc=" + loc_of(p) + " bytes=" + U(a) : "null";
  }
  if (w[1] == "get") {
    if (w.size() != 4 || b == 0 || g_handles.count(a)) return "bad-op";
    size_t allocated = 0;
    void* p = g_arena->alloc_reusable(size_t(b), Out(allocated));
    if (!p) return "null";
    g_handles[a] = {p, allocated};
    return "ok loc=" + loc_of(p) + " bytes=" + U(allocated);
  }
  if (w[1] == "put") {
    auto it = g_handles.find(a);
    if (w.size() != 3 || it == g_handles.end()) return "bad-op";
    g_arena->free_reusable(it->second.first, it->second.second);
    g_handles.erase(it);
    return "ok loc=none";
  }
  if (w[1] == "dup") {
    // A dup <hex> <null_terminate>
    std::vector<uint8_t> bytes;
    if (w.size() != 4 || !vh::hex_to_bytes(w[2], bytes)) return "bad-op";
    bool nt = w[3] == "1";
    uint8_t* m = static_cast<uint8_t*>(g_arena->dup(bytes.data(), bytes.size(), nt));
    if (!m) return "null";
    size_t alloc = Support::align_up(bytes.size() + size_t(nt), size_t(8));
    bool zero = true;
    for (size_t i = bytes.size(); i < alloc; i++) zero = zero && m[i] == 0;
    return "ok loc=" + loc_of(m) + " bytes=" + U(alloc) + " s=" + vh::bytes_to_hex(m, bytes.size()) + " pad0=" + (zero ? "1" : "0");
  }
  if (w[1] == "pool") {
    // A pool count | A pool reset   (the ArenaPool that serves the tree nodes)
    if (w.size() != 3) return "bad-op";
    if (w[2] == "reset") g_pool.reset();
    else if (w[2] != "count") return "bad-op";
    return "ok r=" + U(g_pool.pooled_item_count());
  }
  if (w[1] == "reset") {
    if (w.size() != 3) return "bad-op";
    drop_containers();
    g_arena->reset(w[2] == "hard" ? ResetPolicy::kHard : ResetPolicy::kSoft);
    return "ok";
  }
  if (w[1] == "stats") {
    ArenaStatistics st = g_arena->statistics();
    return "blocks=" + U(st.block_count()) + " used=" + U(st.used_size()) + " reserved=" + U(st.reserved_size()) + " overhead=" + U(st.overhead_size());
  }
  return "bad-op";
}

// ---- Vector -----------------------------------------------------------------------------------------------------
template<typename T> static T mk(uint64_t x);
template<> uint32_t mk<uint32_t>(uint64_t x) { return uint32_t(x); }
template<> uint8_t mk<uint8_t>(uint64_t x) { return uint8_t(x); }
template<> Item12 mk<Item12>(uint64_t x) { return Item12{uint32_t(x), uint32_t(x), uint32_t(x)}; }
static uint32_t val(uint32_t x) { return x; }
static uint32_t val(const Item12& x) { return x.a; }

template<typename T> static std::string vec_state(ArenaVector<T>& v) {
  return " n=" + U(v.size()) + " cap=" + U(v.capacity()) + " loc=" + loc_of(v.data()) + " bytes=" + U(v.capacity() * sizeof(T)) + " " +
         list_or_hash(v.size(), [&](size_t i) { return U(val(v[i])); });
}

template<typename T> static std::string vec_op(ArenaVector<T>& v, ArenaVector<T>* other, const std::vector<std::string>& w) {
  Arena& ar = *g_arena;
  const std::string& op = w[2];
  uint64_t a = 0, b = 0;
  if (w.size() >= 4) vh::parse_u64(w[3], a);
  if (w.size() >= 5) vh::parse_u64(w[4], b);
  Error e = Error::kOk;
  std::string r;
  if (op == "append") e = v.append(ar, mk<T>(a));
  else if (op == "prepend") e = v.prepend(ar, mk<T>(a));
  else if (op == "insert") { if (a > v.size()) return "precond" + vec_state(v); e = v.insert(ar, size_t(a), mk<T>(b)); }
  else if (op == "remove_at") { if (a >= v.size()) return "precond" + vec_state(v); v.remove_at(size_t(a)); }
  else if (op == "pop") { if (v.is_empty()) return "precond" + vec_state(v); r = " r=" + U(val(v.pop())); }
  else if (op == "clear") v.clear();
  else if (op == "truncate") v.truncate(size_t(a));
  else if (op == "reserve_fit") e = v.reserve_fit(ar, size_t(a));
  else if (op == "reserve_grow") e = v.reserve_grow(ar, size_t(a));
  else if (op == "reserve_add") e = v.reserve_additional(ar, size_t(a));
  else if (op == "resize_fit") e = v.resize_fit(ar, size_t(a));
  else if (op == "resize_grow") e = v.resize_grow(ar, size_t(a));
  else if (op == "concat") { if (!other) return "bad-op"; e = v.concat(ar, *other); }
  else if (op == "swap") { if (!other) return "bad-op"; v.swap(*other); }
  else if (op == "move_from") {
    if (!other) return "bad-op";
#ifdef C18_HAVE_MOVE_ASSIGN
    v = std::move(*other);                       // operator=(ArenaVector&&): other is reset
#else
    // operator=(ArenaVector&&) of this tree cannot be instantiated (see harness/c18_move_probe.cpp): same effect by hand
    ArenaVector<T> tmp(std::move(*other)); v.reset(); v.swap(tmp);
#endif
  }
  else if (op == "move_ctor") { if (!other) return "bad-op"; ArenaVector<T> tmp(std::move(*other)); v.reset(); v.swap(tmp); }
  else if (op == "release") v.release(ar);
  else if (op == "index_of") { size_t i = v.index_of(mk<T>(a)); r = " r=" + (i == SIZE_MAX ? std::string("none") : U(i)); }
  else if (op == "last_index_of") { size_t i = v.last_index_of(mk<T>(a)); r = " r=" + (i == SIZE_MAX ? std::string("none") : U(i)); }
  else if (op == "contains") r = std::string(" r=") + (v.contains(mk<T>(a)) ? "1" : "0");
  else if (op == "iter" || op == "riter") {
    // Span iteration adaptors (iterate / iterate_reverse) and range-for over the vector
    std::vector<uint32_t> out;
    if (op == "iter") { for (T& x : v.iterate()) out.push_back(val(x)); }
    else { for (T& x : v.iterate_reverse()) out.push_back(val(x)); }
    r = " r:" + list_or_hash(out.size(), [&](size_t i) { return U(out[i]); });
  }
  else if (op == "first_last") {
    if (v.is_empty()) return "precond" + vec_state(v);
    Span<T> sp = v.as_span();
    r = " r=" + U(val(sp.first())) + "," + U(val(sp.last()));
  }
  else if (op == "span_eq") {
    if (!other) return "bad-op";
    Span<T> x = v.as_span(), y = other->as_span();
    bool e1 = x.equals(y);
    x.swap(y);                      // Span::swap exchanges the two views, not the contents
    bool e2 = x.size() == other->size() && y.size() == v.size() && x.data() == other->data();
    r = std::string(" r=") + (e1 ? "1" : "0") + (e2 ? "" : " spanswap=broken");
  }
  else if (op == "info") {}
  else return "bad-op";
  return std::string(err_name(e)) + r + vec_state(v);
}

// ---- Hash -------------------------------------------------------------------------------------------------------
static std::string hash_state(ArenaHash<HNode>& h) {
  return " n=" + U(h.size()) + " buckets=" + U(h._buckets_count) + " grow=" + U(h._buckets_grow) + " pi=" + U(h._prime_index) +
         " loc=" + (h._data == h._embedded ? std::string("none") : loc_of(h._data)) + " bytes=" + U(size_t(h._buckets_count) * 8);
}
static std::string hash_dump(ArenaHash<HNode>& h) {
  std::vector<std::string> cells;
  for (uint32_t i = 0; i < h._buckets_count; i++) {
    if (!h._data[i]) continue;
    std::string s = U(i) + ":";
    bool first = true;
    for (ArenaHashNode* n = h._data[i]; n; n = n->_hash_next) {
      if (!first) s += ",";
      first = false;
      s += U(static_cast<HNode*>(n)->key) + "/" + U(n->_hash_code);
    }
    cells.push_back(s);
  }
  if (cells.size() <= 512) {
    std::string s = "chains=";
    for (size_t i = 0; i < cells.size(); i++) { if (i) s += ";"; s += cells[i]; }
    if (cells.empty()) s += "-";
    return s;
  }
  vh::Fnv f;
  for (auto& c : cells) { f.add(c); f.add(";"); }
  return "chash=" + vh::to_hex(f.h);
}

// ---- Tree -------------------------------------------------------------------------------------------------------
static void tree_dump(TNode* n, std::string& s) {
  if (!n) { s += "."; return; }
  s += "(" + U(n->key) + (n->is_red() ? "R" : "B");
  tree_dump(n->left(), s);
  tree_dump(n->right(), s);
  s += ")";
}
static size_t tree_count(TNode* n) { return n ? 1 + tree_count(n->left()) + tree_count(n->right()) : 0; }
static std::string tree_state(ArenaTree<TNode>& t) {
  size_t n = tree_count(t.root());
  std::string s;
  tree_dump(t.root(), s);
  if (n > 400) { vh::Fnv f; f.add(s); s = "#" + vh::to_hex(f.h); }
  return " n=" + U(n) + " tree=" + s;
}

// ---- List -------------------------------------------------------------------------------------------------------
static LNode* list_find(ArenaList<LNode>& l, uint32_t v) {
  for (LNode* n = l.first(); n; n = n->next()) if (n->val == v) return n;
  return nullptr;
}
static std::string list_state(ArenaList<LNode>& l) {
  std::vector<uint32_t> f, b;
  for (LNode* n = l.first(); n; n = n->next()) f.push_back(n->val);
  for (LNode* n = l.last(); n; n = n->prev()) b.push_back(n->val);
  return " n=" + U(f.size()) + " fwd:" + list_or_hash(f.size(), [&](size_t i) { return U(f[i]); }) +
         " bwd:" + list_or_hash(b.size(), [&](size_t i) { return U(b[i]); });
}

// ---- BitSet -----------------------------------------------------------------------------------------------------
static std::string bits_state(ArenaBitSet& b) {
  size_t nw = b.size_in_bit_words();
  std::string s = " n=" + U(b.size()) + " cap=" + U(b.capacity()) + " loc=" + loc_of(b.data()) + " bytes=" + U(b.capacity() / 8) + " ";
  if (nw > (size_t(1) << 20)) s += "whash=skipped";
  else if (nw <= 24) {
    s += "w=";
    for (size_t i = 0; i < nw; i++) { if (i) s += ","; s += vh::to_hex(b.data()[i]); }
    if (!nw) s += "-";
  }
  else {
    vh::Fnv f;
    for (size_t i = 0; i < nw; i++) { f.add(vh::to_hex(b.data()[i])); f.add(","); }
    s += "whash=" + vh::to_hex(f.h);
  }
  return s;
}

// ---- String -----------------------------------------------------------------------------------------------------
static std::string str_state(String& s) {
  const char* kind = s.is_external() ? "ext" : s.is_large_or_external() ? "large" : "small";
  size_t n = s.size();
  std::string out = std::string(" kind=") + kind + " n=" + U(n) + " cap=" + U(s.capacity()) + " nul=" + (s.data()[n] == 0 ? "1" : "0") + " ";
  if (n <= 100000) out += "s=" + (n ? vh::bytes_to_hex(reinterpret_cast<const uint8_t*>(s.data()), n) : std::string("-"));
  else { vh::Fnv f; f.add(vh::bytes_to_hex(reinterpret_cast<const uint8_t*>(s.data()), n)); out += "shash=" + vh::to_hex(f.h); }
  return out;
}

static std::string step(const std::string& line) {
  std::vector<std::string> w = vh::words(line);
  if (w.size() < 2) return "bad-op";
  const std::string& c = w[0];
  if (c == "A") return arena_op(w);
  uint64_t id = 0, id2 = 0, a = 0, b = 0, x = 0, y = 0;
  if (c == "H" && w[1] == "primes") {
    // the table the compiler sees, for the translator cross-check
    vh::Fnv f;
    size_t n = ASMJIT_ARRAY_SIZE(ArenaHash_prime_array);
    for (size_t i = 0; i < n; i++) {
      uint32_t p = ArenaHash_prime_array[i].prime;
      f.add(U(p) + "," + U(ArenaHash_prime_array[i].rcp) + "," + U(ArenaHash_prime_shift[i]) + "," + U(uint32_t(p * 0.9)) + ";");
    }
    return "rows=" + U(n) + " hash=" + vh::to_hex(f.h);
  }
  if (w[1] == "new") {
    if (w.size() < 3 || !vh::parse_u64(w[2], id)) return "bad-op";
    if (c == "S") {
      uint64_t n = 0;
      if (w.size() == 5 && w[3] == "tmp" && vh::parse_u64(w[4], n)) {
        if (n == 32) g_str[id] = std::shared_ptr<StringTmp<32>>(new StringTmp<32>());
        else if (n == 100) g_str[id] = std::shared_ptr<StringTmp<100>>(new StringTmp<100>());
        else return "bad-op";
      }
      else g_str[id] = std::shared_ptr<String>(new String());
      return "ok" + str_state(*g_str[id]);
    }
    if (!g_arena) return "bad-op";
    if (c == "V") {
      if (w.size() != 4 || !vh::parse_u64(w[3], a) || (a != 4 && a != 12 && a != 1) || g_vec.count(id)) return "bad-op";
      g_vec[id].item = int(a);
      return "ok";
    }
    if (c == "H") { if (g_hash.count(id)) return "bad-op"; g_hash[id]; return "ok"; }
    if (c == "T") { if (g_tree.count(id)) return "bad-op"; g_tree[id]; return "ok"; }
    if (c == "L") { if (g_list.count(id)) return "bad-op"; g_list[id]; return "ok"; }
    if (c == "B") { if (g_bits.count(id)) return "bad-op"; g_bits[id]; return "ok"; }
    if (c == "Z") {
      if (w.size() != 4 || !vh::parse_u64(w[3], a) || (a != 16 && a != 40) || g_astr.count(id)) return "bad-op";
      g_astr[id].n = int(a);
      return "ok";
    }
    return "bad-op";
  }
  if (w.size() < 3 || !vh::parse_u64(w[1], id)) return "bad-op";
  const std::string& op = w[2];
  if (w.size() >= 4) { vh::parse_u64(w[3], a); id2 = a; }
  if (w.size() >= 5) vh::parse_u64(w[4], b);
  if (w.size() >= 6) vh::parse_u64(w[5], x);
  if (w.size() >= 7) vh::parse_u64(w[6], y);

  if (c == "V") {
    auto it = g_vec.find(id);
    if (it == g_vec.end()) return "bad-op";
    VecAny* o = nullptr;
    if (op == "concat" || op == "swap" || op == "move_from" || op == "move_ctor" || op == "span_eq") {
      auto jt = g_vec.find(id2);
      if (jt == g_vec.end() || jt->second.item != it->second.item || id2 == id) return "bad-op";
      o = &jt->second;
    }
    if (it->second.item == 4) return vec_op(it->second.v4, o ? &o->v4 : nullptr, w);
    if (it->second.item == 1) return vec_op(it->second.v1, o ? &o->v1 : nullptr, w);
    return vec_op(it->second.v12, o ? &o->v12 : nullptr, w);
  }
  if (c == "H") {
    auto it = g_hash.find(id);
    if (it == g_hash.end()) return "bad-op";
    ArenaHash<HNode>& h = it->second;
    if (op == "insert") {
      HNode* n = g_arena->new_oneshot<HNode>(uint32_t(a), uint32_t(b));
      if (!n) return "oom" + hash_state(h);
      h.insert(*g_arena, n);
      return "ok node=" + loc_of(n) + hash_state(h);
    }
    if (op == "get") { HNode* n = h.get(HMatcher{uint32_t(a), uint32_t(b)}); return std::string("ok found=") + (n ? "1" : "0") + hash_state(h); }
    if (op == "remove") {
      HNode* n = h.get(HMatcher{uint32_t(a), uint32_t(b)});
      if (!n) return "ok found=0" + hash_state(h);
      HNode* r = h.remove(*g_arena, n);
      return std::string("ok found=1 removed=") + (r == n ? "1" : "0") + hash_state(h);
    }
    if (op == "swap") { auto jt = g_hash.find(id2); if (jt == g_hash.end() || id2 == id) return "bad-op"; h.swap(jt->second); return "ok" + hash_state(h); }
    if (op == "release") { h.release(*g_arena); return "ok" + hash_state(h); }
    if (op == "reset") { h.reset(); return "ok" + hash_state(h); }
    if (op == "move_from") {
      auto jt = g_hash.find(id2);
      if (jt == g_hash.end() || id2 == id) return "bad-op";
#ifdef C18_HAVE_HASH_MOVE
      ArenaHash<HNode> tmp(std::move(jt->second));     // ArenaHash(ArenaHash&&): the source is left empty
#else
      // the move constructor of this tree cannot be instantiated (see harness/c18_move_probe.cpp): same effect by swaps
      ArenaHash<HNode> tmp; tmp.swap(jt->second);
#endif
      h.reset(); h.swap(tmp);
      return "ok" + hash_state(h);
    }
    if (op == "dump") return "ok" + hash_state(h) + " " + hash_dump(h);
    return "bad-op";
  }
  if (c == "T") {
    auto it = g_tree.find(id);
    if (it == g_tree.end()) return "bad-op";
    ArenaTree<TNode>& t = it->second;
    if (op == "insert") {
      if (t.get(uint32_t(a))) return "ok dup=1" + tree_state(t);
      TNode* n = g_pool.alloc(*g_arena);
      if (!n) return "oom" + tree_state(t);
      n = new (n) TNode(uint32_t(a));
      t.insert(n);
      return "ok dup=0 node=" + loc_of(n) + " bytes=24" + tree_state(t);
    }
    if (op == "remove") {
      TNode* n = t.get(uint32_t(a));
      if (!n) return "ok found=0" + tree_state(t);
      t.remove(n);
      std::string l = loc_of(n);
      g_pool.release(n);
      return "ok found=1 freed=" + l + tree_state(t);
    }
    if (op == "get") { TNode* n = t.get(uint32_t(a)); return std::string("ok found=") + (n ? "1" : "0") + tree_state(t); }
    if (op == "swap") { auto jt = g_tree.find(id2); if (jt == g_tree.end() || id2 == id) return "bad-op"; t.swap(jt->second); return "ok" + tree_state(t); }
    return "bad-op";
  }
  if (c == "L") {
    auto it = g_list.find(id);
    if (it == g_list.end()) return "bad-op";
    ArenaList<LNode>& l = it->second;
    std::string r;
    if (op == "append" || op == "prepend") {
      LNode* n = g_arena->new_oneshot<LNode>(uint32_t(a));
      if (!n) return "oom" + list_state(l);
      if (op == "append") l.append(n); else l.prepend(n);
      r = " node=" + loc_of(n) + " bytes=24";
    }
    else if (op == "insert_after" || op == "insert_before") {
      LNode* ref = list_find(l, uint32_t(a));
      if (!ref) return "precond" + list_state(l);
      LNode* n = g_arena->new_oneshot<LNode>(uint32_t(b));
      if (!n) return "oom" + list_state(l);
      if (op == "insert_after") l.insert_after(ref, n); else l.insert_before(ref, n);
      r = " node=" + loc_of(n) + " bytes=24";
    }
    else if (op == "unlink") {
      LNode* n = list_find(l, uint32_t(a));
      if (!n) return "precond" + list_state(l);
      LNode* u = l.unlink(n);
      r = std::string(" r=") + U(u->val) + " clean=" + ((u->prev() || u->next()) ? "0" : "1");
    }
    else if (op == "pop" || op == "pop_first") {
      if (l.is_empty()) return "precond" + list_state(l);
      LNode* n = op == "pop" ? l.pop() : l.pop_first();
      r = " r=" + U(n->val) + " clean=" + ((n->prev() || n->next()) ? "0" : "1");
    }
    else if (op == "swap") { auto jt = g_list.find(id2); if (jt == g_list.end() || id2 == id) return "bad-op"; l.swap(jt->second); }
    else if (op == "dump") {}
    else return "bad-op";
    return "ok" + r + list_state(l);
  }
  if (c == "B") {
    auto it = g_bits.find(id);
    if (it == g_bits.end()) return "bad-op";
    ArenaBitSet& bs = it->second;
    ArenaBitSet* o = nullptr;
    if (op == "and" || op == "or_" || op == "andnot" || op == "copy_from" || op == "equals" || op == "swap") {
      auto jt = g_bits.find(id2);
      if (jt == g_bits.end() || id2 == id) return "bad-op";
      o = &jt->second;
    }
    Error e = Error::kOk;
    std::string r;
    size_t n = bs.size();
    if (op == "resize") e = bs.resize(*g_arena, size_t(a), b != 0);
    else if (op == "append") e = bs.append(*g_arena, a != 0);
    else if (op == "set") { if (a >= n) return "precond" + bits_state(bs); bs.set_bit(size_t(a), b != 0); }
    else if (op == "get") { if (a >= n) return "precond" + bits_state(bs); r = std::string(" r=") + (bs.bit_at(size_t(a)) ? "1" : "0"); }
    else if (op == "or") { if (a >= n) return "precond" + bits_state(bs); bs.add_bit(size_t(a), b != 0); }
    else if (op == "xor") { if (a >= n) return "precond" + bits_state(bs); bs.xor_bit(size_t(a), b != 0); }
    else if (op == "clear_bit") { if (a >= n) return "precond" + bits_state(bs); bs.clear_bit(size_t(a)); }
    else if (op == "fill") { if (a > n || n - a < b) return "precond" + bits_state(bs); bs.fill_bits(size_t(a), size_t(b)); }
    else if (op == "clear_bits") { if (a > n || n - a < b) return "precond" + bits_state(bs); bs.clear_bits(size_t(a), size_t(b)); }
    else if (op == "truncate") { if (!bs.data()) return "precond" + bits_state(bs); bs.truncate(uint32_t(a)); }
    else if (op == "clear") bs.clear();
    else if (op == "fill_all") { if (!bs.data()) return "precond" + bits_state(bs); bs.fill_all(); }
    else if (op == "clear_all") { if (!bs.data()) return "precond" + bits_state(bs); bs.clear_all(); }
    else if (op == "and") bs.and_(*o);
    else if (op == "or_") { if (!bs.data() || !o->data()) return "precond" + bits_state(bs); bs.or_(*o); }
    else if (op == "andnot") bs.and_not(*o);
    else if (op == "copy_from") e = bs.copy_from(*g_arena, *o);
    else if (op == "equals") r = std::string(" r=") + (bs.equals(*o) ? "1" : "0");
    else if (op == "swap") bs.swap(*o);
    else if (op == "release") bs.release(*g_arena);
    else if (op == "index_of") {
      // bit_vector_index_of has no end: only legal when a matching bit exists at or after `a` inside the used words
      bool want = b != 0, exists = false;
      size_t lim = bs.size_in_bit_words() * 64;
      for (size_t i = size_t(a); i < lim && !exists; i++) exists = Support::bit_vector_get_bit(bs.data(), i) == want;
      if (a >= lim || !exists) return "precond" + bits_state(bs);
      r = " r=" + U(Support::bit_vector_index_of(bs.data(), size_t(a), want));
    }
    else if (op == "iter") {
      std::vector<size_t> v;
      ArenaBitSet::ForEachBitSet itb(bs);
      while (itb.has_next()) v.push_back(itb.next());
      r = " r:" + list_or_hash(v.size(), [&](size_t i) { return U(v[i]); });
    }
    else if (op == "info") {}
    else return "bad-op";
    return std::string(err_name(e)) + r + bits_state(bs);
  }
  if (c == "Z") {
    auto it = g_astr.find(id);
    if (it == g_astr.end()) return "bad-op";
    std::vector<uint8_t> bytes;
    auto state = [&](auto& z, size_t whole) {
      size_t n = z.size();
      const char* d = z.data();
      return " n=" + U(n) + " emb=" + (z.is_embedded() ? "1" : "0") + " loc=" + (z.is_embedded() ? std::string("none") : loc_of(d)) +
             " bytes=" + U(Support::align_up(n + 1, size_t(8))) + " nul=" + ((n == 0 && !z.is_embedded()) ? "?" : (d[n] == 0 ? "1" : "0")) +
             " s=" + (n ? vh::bytes_to_hex(reinterpret_cast<const uint8_t*>(d), n) : std::string("-")) + " whole=" + U(whole);
    };
    if (op == "set") {
      if (w.size() != 4 || !vh::hex_to_bytes(w[3], bytes)) return "bad-op";
      bytes.push_back(0);
      Error e = it->second.n == 16 ? it->second.s16.set_data(*g_arena, (const char*)bytes.data(), bytes.size() - 1)
                                   : it->second.s40.set_data(*g_arena, (const char*)bytes.data(), bytes.size() - 1);
      return std::string(err_name(e)) + (it->second.n == 16 ? state(it->second.s16, sizeof(it->second.s16)) : state(it->second.s40, sizeof(it->second.s40)));
    }
    if (op == "reset") {
      if (it->second.n == 16) it->second.s16.reset(); else it->second.s40.reset();
      return "ok" + (it->second.n == 16 ? state(it->second.s16, sizeof(it->second.s16)) : state(it->second.s40, sizeof(it->second.s40)));
    }
    return "bad-op";
  }
  if (c == "S") {
    auto it = g_str.find(id);
    if (it == g_str.end()) return "bad-op";
    String& s = *it->second;
    std::vector<uint8_t> bytes;
    Error e = Error::kOk;
    std::string r;
    auto hexarg = [&](size_t i) { return w.size() > i && vh::hex_to_bytes(w[i], bytes); };
    const char* bp = nullptr;
    if (op == "assign") { if (!hexarg(3)) return "bad-op"; bp = (const char*)bytes.data(); e = s.assign(bp ? bp : "", bytes.size()); }
    else if (op == "assign_span") { if (!hexarg(3)) return "bad-op"; e = s.assign(Span<const char>((const char*)bytes.data(), bytes.size())); }
    else if (op == "append") { if (!hexarg(3)) return "bad-op"; e = s.append((const char*)bytes.data(), bytes.size()); }
    else if (op == "append_char") e = s.append(char(a));
    else if (op == "assign_char") e = s.assign(char(a));
    else if (op == "append_chars") e = s.append_chars(char(a), size_t(b));
    else if (op == "assign_chars") e = s.assign_chars(char(a), size_t(b));
    else if (op == "append_uint") e = s.append_uint(a, uint32_t(b), size_t(x), StringFormatFlags(uint32_t(y)));
    else if (op == "assign_uint") e = s.assign_uint(a, uint32_t(b), size_t(x), StringFormatFlags(uint32_t(y)));
    else if (op == "append_int") e = s.append_int(int64_t(a), uint32_t(b), size_t(x), StringFormatFlags(uint32_t(y)));
    else if (op == "append_hex") { if (!hexarg(3)) return "bad-op"; e = s.append_hex(bytes.data(), bytes.size(), char(b)); }
    else if (op == "assign_hex") { if (!hexarg(3)) return "bad-op"; e = s.assign_hex(bytes.data(), bytes.size(), char(b)); }
    else if (op == "append_format" || op == "assign_format") {
      // only the non-format part is under test: the format is "%s", vsnprintf is trusted to produce the argument bytes
      if (!hexarg(3)) return "bad-op";
      std::string z((const char*)bytes.data(), bytes.size());
      if (z.find('\0') != std::string::npos) return "bad-op";
      e = op == "append_format" ? s.append_format("%s", z.c_str()) : s.assign_format("%s", z.c_str());
    }
    else if (op == "append_format_w") {
      // "%*s": `a` = field width; used to provoke an output far larger than the capacity without a large input
      if (!hexarg(4) || a > 0x7FFFFFFF) return "bad-op";
      std::string z((const char*)bytes.data(), bytes.size());
      e = s.append_format("%*s", int(a), z.c_str());
    }
    else if (op == "pad_end") e = s.pad_end(size_t(a), char(b));
    else if (op == "truncate") e = s.truncate(size_t(a));
    else if (op == "clear") e = s.clear();
    else if (op == "reset") e = s.reset();
    else if (op == "swap") {
      auto jt = g_str.find(id2);
      if (jt == g_str.end() || id2 == id || s.is_external() || jt->second->is_external()) return "bad-op";
      s.swap(*jt->second);
    }
    else if (op == "move_from" || op == "move_ctor") {
      auto jt = g_str.find(id2);
      if (jt == g_str.end() || id2 == id || s.is_external() || jt->second->is_external()) return "bad-op";
      if (op == "move_from") s = std::move(*jt->second);                 // operator=(String&&): swap + other.reset()
      else { String tmp(std::move(*jt->second)); s = std::move(tmp); }    // String(String&&)
    }
    else if (op == "eq") { if (!hexarg(3)) return "bad-op"; r = std::string(" r=") + (s.equals((const char*)bytes.data(), bytes.size()) ? "1" : "0"); }
    else return "bad-op";
    return std::string(err_name(e)) + r + str_state(s);
  }
  return "bad-op";
}

int main() {
  setvbuf(stdout, nullptr, _IOLBF, 0);   // answers given before a sanitizer abort must not be lost
  int rc = vh::line_loop(step);
  drop_containers();
  g_str.clear();
  g_arena.reset();
  return rc;
}
