// C11 harness: N threads hammer ONE JitAllocator / JitRuntime (alloc, write, shrink, query, statistics, release,
// add/release of code) and, independently, each thread assembles/compiles with its OWN CodeHolder/emitters.
// Output (after all threads joined): one `span` line per allocation with its real-time lifetime, one `code` line per thread.
// Line protocol:  run <threads> <ops per thread> <seed> <options hex> <granularity>
#include <asmjit/core.h>
#include <asmjit/x86.h>
#include <atomic>
#include <thread>
#include <random>
#include "vh.h"

using namespace asmjit;

static std::atomic<uint64_t> g_clock{1};
static inline uint64_t now() { return g_clock.fetch_add(1, std::memory_order_relaxed); }

struct SpanRec { uint32_t tid; uint64_t rx, rw, size, requested, t0, t1; uint32_t ok; };

static uint64_t gen_code_hash(uint32_t variant, bool use_compiler) {
  // deterministic program; returns FNV of the flattened code
  Environment env(Arch::kX64);
  CodeHolder code;
  code.init(env);
  vh::Fnv h;
  if (!use_compiler) {
    x86::Assembler a(&code);
    Label l = a.new_label();
    for (uint32_t i = 0; i < 40 + variant; i++) {
      a.mov(x86::rax, i * 17 + variant);
      a.add(x86::rax, x86::ptr(x86::rdi, int32_t(i * 8)));
      if (i == 7) a.jmp(l);
      if (i == 30) a.bind(l);
      a.vaddps(x86::ymm0, x86::ymm1, x86::ptr(x86::rsi, x86::rcx, 2, 64));
    }
    a.ret();
  }
  else {
    x86::Compiler cc(&code);
    FuncNode* f = cc.add_func(FuncSignature::build<int, int, int>());
    x86::Gp a0 = cc.new_gp32(), a1 = cc.new_gp32();
    f->set_arg(0, a0); f->set_arg(1, a1);
    std::vector<x86::Gp> regs;
    for (uint32_t i = 0; i < 24; i++) { x86::Gp r = cc.new_gp32(); cc.mov(r, a0); cc.add(r, int(i + variant)); regs.push_back(r); }
    for (auto& r : regs) cc.add(a1, r);
    cc.ret(a1);
    cc.end_func();
    if (cc.finalize() != Error::kOk) return 0;
  }
  code.flatten();
  for (Section* s : code.sections()) h.add(vh::bytes_to_hex(s->data(), s->buffer_size()));
  return h.h;
}

static std::string step(const std::string& line) {
  auto w = vh::words(line);
  uint64_t nthreads, nops, seed, opts, gran;
  if (w.size() != 6 || w[0] != "run" || !vh::parse_u64(w[1], nthreads) || !vh::parse_u64(w[2], nops) || !vh::parse_u64(w[3], seed) ||
      !vh::parse_hex(w[4], opts) || !vh::parse_u64(w[5], gran) || nthreads < 1 || nthreads > 64) return "bad-op";

  JitAllocator::CreateParams params;
  params.options = JitAllocatorOptions(uint32_t(opts));
  params.granularity = uint32_t(gran);
  params.block_size = 65536;
  JitRuntime rt(&params);
  JitAllocator& alloc = rt.allocator();

  uint64_t expect_asm = gen_code_hash(3, false), expect_cc = gen_code_hash(5, true);
  std::vector<std::vector<SpanRec>> recs(nthreads);
  std::vector<std::string> code_lines(nthreads);
  std::vector<uint64_t> errors(nthreads, 0);
  std::vector<std::thread> ths;
  for (uint32_t tid = 0; tid < nthreads; tid++) {
    ths.emplace_back([&, tid]() {
      std::mt19937_64 rng(seed * 1000003 + tid);
      struct Live { JitAllocator::Span span; size_t rec; uint8_t tag; uint64_t size; };
      std::vector<Live> live;
      uint64_t h_asm = 0, h_cc = 0;
      uint32_t code_runs = 0;
      for (uint64_t i = 0; i < nops; i++) {
        uint32_t k = uint32_t(rng() % 100);
        if (k < 40 || live.empty()) {
          size_t req = 1 + size_t(rng() % (k < 5 ? 70000 : 900));
          JitAllocator::Span span;
          Error e = alloc.alloc(Out(span), req);
          uint64_t t0 = now();
          if (e != Error::kOk) { errors[tid]++; continue; }
          uint8_t tag = uint8_t(rng());
          alloc.write(span, 0, std::string(span.size(), char(tag)).data(), span.size());
          recs[tid].push_back({tid, uint64_t(uintptr_t(span.rx())), uint64_t(uintptr_t(span.rw())), span.size(), req, t0, 0, 1});
          live.push_back({span, recs[tid].size() - 1, tag, span.size()});
        }
        else if (k < 70) {
          size_t j = rng() % live.size();
          Live l = live[j];
          // contents must be intact until released
          const uint8_t* p = static_cast<const uint8_t*>(l.span.rx());
          for (size_t b = 0; b < l.size; b += 37) if (p[b] != l.tag) { recs[tid][l.rec].ok = 0; break; }
          recs[tid][l.rec].t1 = now();
          if (alloc.release(l.span.rx()) != Error::kOk) errors[tid]++;
          live[j] = live.back(); live.pop_back();
        }
        else if (k < 80) {
          size_t j = rng() % live.size();
          size_t ns = 1 + rng() % live[j].size;
          if (alloc.shrink(live[j].span, ns) == Error::kOk) {
            live[j].size = live[j].span.size();
            recs[tid][live[j].rec].size = live[j].span.size();   // shrinking only ever frees the tail: still a sound lifetime record
            recs[tid][live[j].rec].requested = ns;
          }
        }
        else if (k < 90) {
          size_t j = rng() % live.size();
          JitAllocator::Span q;
          if (alloc.query(Out(q), live[j].span.rx()) != Error::kOk || q.rx() != live[j].span.rx() || q.size() != live[j].size) recs[tid][live[j].rec].ok = 0;
          (void)alloc.statistics();
        }
        else if (k < 95) {
          // independent code generation + installation through the shared runtime
          CodeHolder code; code.init(rt.environment());
          x86::Assembler a(&code);
          a.mov(x86::eax, int(tid * 1000 + i)); a.ret();
          int (*fn)() = nullptr;
          if (rt.add(&fn, &code) == Error::kOk) {
            if (fn() != int(tid * 1000 + i)) errors[tid] += 1000000;
            rt.release(fn);
          }
        }
        else {
          h_asm ^= gen_code_hash(3, false) ^ expect_asm;   // 0 when identical
          h_cc ^= gen_code_hash(5, true) ^ expect_cc;
          code_runs++;
        }
      }
      for (auto& l : live) { recs[tid][l.rec].t1 = now(); alloc.release(l.span.rx()); }
      code_lines[tid] = "code " + std::to_string(tid) + " runs=" + std::to_string(code_runs) + " asm_diff=" + vh::to_hex(h_asm) + " cc_diff=" + vh::to_hex(h_cc);
    });
  }
  for (auto& t : ths) t.join();
  std::string out;
  // canonical: addresses relative to the lowest rx address seen
  uint64_t base = ~uint64_t(0);
  for (auto& v : recs) for (auto& r : v) base = std::min(base, r.rx);
  base &= ~uint64_t(0xFFFF);   // keep the alignment information of the absolute addresses
  size_t n = 0;
  for (auto& v : recs) for (auto& r : v) {
    out += "span " + std::to_string(r.tid) + " " + vh::to_hex(r.rx - base) + " " + std::to_string(r.size) + " " + std::to_string(r.requested) + " " +
           std::to_string(r.t0) + " " + std::to_string(r.t1) + " " + std::to_string(r.ok) + "\n";
    n++;
  }
  uint64_t errs = 0;
  for (auto e : errors) errs += e;
  for (auto& c : code_lines) out += c + "\n";
  JitAllocator::Statistics st = alloc.statistics();
  out += "end spans=" + std::to_string(n) + " errors=" + std::to_string(errs) + " final_allocations=" + std::to_string(st.allocation_count()) + " used=" + std::to_string(st.used_size());
  return out;
}

int main() { return vh::line_loop(step); }
