// C11 harness: N threads hammer ONE JitAllocator / JitRuntime (alloc, write, shrink, write-with-truncation, query, statistics,
// release, add/release of code) and, independently, each thread uses its OWN JitAllocator and generates code with its OWN CodeHolder/emitters
// (x86-64 and AArch64; Assembler, Builder, Compiler; with a logger) and compares it with the single-threaded result.
//
// Line protocol:  run <threads> <ops per thread> <seed> <options hex> <granularity> [<yield level 0..3>]
// Output (after all threads joined):
//   hook <0|1>                       was verification hook H2 (asmjit_verif_jit_event) compiled in and used?
//   span <tid> <addr> <size> <req> <t0> <t1> <ok>   one per allocation: real-time lifetime (trace monitor, Spec/JitTrace.lean)
//   code <tid> runs=<n> asm_diff=<x> cc_diff=<x> [first=<kind>:<seed>]
//   L <tid> <seq> <sig> | <C09 op> => <C09 answer> ; <statistics>      (only with the hook)
//        the LINEARISATION: one line per critical section in lock order (recorded by the hook callback while the
//        allocator's lock is held), exactly in the protocol of harness/c09.cpp, so that C09's model and monitor can replay it.
//        Operations that take no lock (the caller's own write / read of its span) are inserted just before the thread's next
//        critical section (sig `u`).  Quiescent observations after the join (sweep, dump, blocks, reset) have tid `-`.
//   P <tid> <seq> <sig>              per-thread program order with the result the CALLER saw (only with the hook)
//   end spans=<n> errors=<n> final_allocations=<n> used=<n>
// Second op:  nomemfd <threads> <iterations>   threads that each create their OWN dual-mapped JitAllocator while the kernel
//   "does not know" memfd_create (the harness is linked with -Wl,--wrap=syscall and answers ENOSYS): the first use of the
//   fallback path by several allocators at once (finding C11-1: `memfd_create_not_supported`).  -> `nomemfd errors=<n> blocks=<n>`
//
// With -DC11_H2 the TU includes jitallocator.cpp (private block state for the callback and the final dump; the archive member is
// then not pulled in).  The callback relies on the allocator's own lock only - it adds no synchronisation of its own, so TSan
// still sees every unsynchronised access inside the library.
#include <asmjit/core.h>
#include <asmjit/x86.h>
#include <asmjit/a64.h>
#ifdef C11_H2
#include <asmjit/core/jitallocator.cpp>
#endif
#include <algorithm>
#include <atomic>
#include <cerrno>
#include <cstdarg>
#include <sys/syscall.h>
#include <map>
#include <random>
#include <sched.h>
#include <thread>
#include <unistd.h>
#include "vh.h"

using namespace asmjit;

static std::atomic<uint64_t> g_clock{1};
static inline uint64_t now() { return g_clock.fetch_add(1, std::memory_order_relaxed); }

struct SpanRec { uint32_t tid; uint64_t rx, rw, size, requested, t0, t1; uint32_t ok; };

// ---------------------------------------------------------------------------------------------------------------------
// independent code generation: programs through the generic emitter interface
// ---------------------------------------------------------------------------------------------------------------------
namespace {

struct Rng {
  uint64_t s;
  explicit Rng(uint64_t seed) : s(seed * 0x9E3779B97F4A7C15ull + 0x1234567ull) {}
  uint64_t next() { s ^= s << 13; s ^= s >> 7; s ^= s << 17; return s; }
  uint32_t below(uint32_t n) { return uint32_t(next() % n); }
};

// x86-64 instruction stream (Assembler or Builder); includes instructions with 4 and more operands
Error prog_asmx(BaseEmitter* be, uint64_t seed, uint32_t n) {
  x86::Emitter* e = be->as<x86::Emitter>();
  Rng r(seed);
  static const x86::Gp regs[] = { x86::rax, x86::rcx, x86::rdx, x86::rbx, x86::rsi, x86::rdi, x86::r8, x86::r9, x86::r12, x86::r13 };
  auto reg = [&]() { return regs[r.below(10)]; };
  auto xm = [&]() { return x86::xmm(r.below(16)); };
  auto ym = [&]() { return x86::ymm(r.below(16)); };
  std::vector<Label> pending, bound;
  Error first = Error::kOk;
  auto note = [&](Error err) { if (err != Error::kOk && first == Error::kOk) first = err; };
  for (uint32_t i = 0; i < n; i++) {
    switch (r.below(18)) {
      case 0: note(e->mov(reg(), Imm(int64_t(r.next() >> r.below(60))))); break;
      case 1: note(e->add(reg(), reg())); break;
      case 2: note(e->lea(reg(), x86::ptr(reg(), regs[r.below(4)], r.below(4), int32_t(r.below(4096)) - 2048))); break;
      case 3: note(e->xor_(reg().r32(), reg().r32())); break;
      case 4: { Label l = e->new_label(); pending.push_back(l); note(e->jz(l)); break; }
      case 5: { Label l = e->new_label(); pending.push_back(l); note(e->jmp(l)); break; }
      case 6: if (!bound.empty()) { note(e->jnz(bound[r.below(uint32_t(bound.size()))])); } break;
      case 7: if (!pending.empty()) { Label l = pending.back(); pending.pop_back(); note(e->bind(l)); bound.push_back(l); } break;
      case 8: { uint64_t v = r.next(); note(e->embed(&v, 1 + r.below(8))); break; }
      case 9: note(e->align(AlignMode::kCode, 1u << r.below(5))); break;
      case 10: if (!bound.empty()) { note(e->lea(reg(), x86::ptr(bound[r.below(uint32_t(bound.size()))]))); } break;
      case 11: { Label l = e->new_label(); pending.push_back(l); note(e->mov(reg(), x86::ptr(l))); break; }
      case 12: note(e->vshufps(xm(), xm(), xm(), Imm(r.below(256)))); break;                       // 4 operands
      case 13: note(e->vblendvps(ym(), ym(), ym(), ym())); break;                                  // 4 operands
      case 14: note(e->vinsertf128(ym(), ym(), x86::ptr(reg(), int32_t(r.below(256))), Imm(r.below(2)))); break;
      case 15: note(e->vpblendvb(xm(), xm(), xm(), xm())); break;
      case 16: note(e->vaddps(ym(), ym(), x86::ptr(reg(), regs[r.below(4)], 2, 64))); break;
      case 17: note(e->shld(reg(), reg(), Imm(r.below(63) + 1))); break;
    }
  }
  while (!pending.empty()) { Label l = pending.back(); pending.pop_back(); note(e->bind(l)); note(e->nop()); }
  note(e->ret());
  return first;
}

// One x86 Compiler function: virtual registers (more than there are physical ones), forward branches, constants from
// both pools, a stack slot, vector registers with 4-operand instructions.
Error prog_func(x86::Compiler* cc, uint64_t seed, uint32_t n) {
  Rng r(seed);
  Error first = Error::kOk;
  auto note = [&](Error err) { if (err != Error::kOk && first == Error::kOk) first = err; };
  FuncNode* fn = cc->add_func(FuncSignature::build<int, int, int>());
  if (!fn) return Error::kOutOfMemory;
  uint32_t nv = 3 + r.below(20);
  std::vector<x86::Gp> v;
  for (uint32_t i = 0; i < nv; i++) v.push_back(r.below(3) ? cc->new_gp32() : cc->new_gp64());
  fn->set_arg(0, v[0].r32());
  fn->set_arg(1, v[1].r32());
  for (uint32_t i = 2; i < nv; i++) note(cc->mov(v[i].r32(), Imm(int32_t(r.below(1000)))));
  std::vector<x86::Vec> y;
  for (uint32_t i = 0; i < 4; i++) { y.push_back(cc->new_ymm()); note(cc->vpxor(y[i], y[i], y[i])); }
  x86::Mem slot = cc->new_stack(16, 4);
  Label exit_l = cc->new_label();
  std::vector<Label> fwd;
  for (uint32_t i = 0; i < n; i++) {
    x86::Gp a = v[r.below(nv)], b = v[r.below(nv)];
    switch (r.below(12)) {
      case 0: note(cc->add(a.r32(), b.r32())); break;
      case 1: note(cc->imul(a.r32(), b.r32())); break;
      case 2: note(cc->mov(slot, a.r32())); break;
      case 3: note(cc->add(a.r32(), slot)); break;
      case 4: note(cc->add(a.r32(), cc->new_int32_const(ConstPoolScope::kLocal, int32_t(r.below(50))))); break;
      case 5: note(cc->xor_(a.r32(), cc->new_int32_const(ConstPoolScope::kGlobal, int32_t(r.below(50))))); break;
      case 6: { Label l = cc->new_label(); fwd.push_back(l); note(cc->cmp(a.r32(), Imm(int32_t(r.below(100))))); note(cc->jl(l)); break; }
      case 7: if (!fwd.empty()) { note(cc->bind(fwd.back())); fwd.pop_back(); } break;
      case 8: note(cc->test(a.r32(), b.r32())); note(cc->jz(exit_l)); break;
      case 9: note(cc->lea(a.r32(), x86::ptr(b.r64(), int32_t(r.below(64))))); break;
      case 10: note(cc->vblendvps(y[r.below(4)], y[r.below(4)], y[r.below(4)], y[r.below(4)])); break;
      case 11: note(cc->vshufps(y[r.below(4)], y[r.below(4)], y[r.below(4)], Imm(r.below(256)))); break;
    }
  }
  while (!fwd.empty()) { note(cc->bind(fwd.back())); fwd.pop_back(); }
  note(cc->bind(exit_l));
  for (uint32_t i = 1; i < nv; i++) note(cc->add(v[0].r32(), v[i].r32()));
  note(cc->ret(v[0].r32()));
  note(cc->end_func());
  return first;
}

// AArch64 instruction stream (Assembler or Builder)
Error prog_asma(BaseEmitter* be, uint64_t seed, uint32_t n) {
  a64::Emitter* e = be->as<a64::Emitter>();
  Rng r(seed);
  auto xr = [&]() { return a64::x(r.below(16)); };
  auto wr = [&]() { return a64::w(r.below(16)); };
  std::vector<Label> pending, bound;
  Error first = Error::kOk;
  auto note = [&](Error err) { if (err != Error::kOk && first == Error::kOk) first = err; };
  for (uint32_t i = 0; i < n; i++) {
    switch (r.below(14)) {
      case 0: note(e->mov(xr(), Imm(int64_t(r.next() >> r.below(60))))); break;
      case 1: note(e->add(xr(), xr(), xr())); break;
      case 2: note(e->add(wr(), wr(), Imm(r.below(4096)))); break;
      case 3: note(e->ldr(xr(), a64::ptr(xr(), int32_t(r.below(512)) * 8))); break;
      case 4: { Label l = e->new_label(); pending.push_back(l); note(e->cbz(xr(), l)); break; }
      case 5: { Label l = e->new_label(); pending.push_back(l); note(e->b(l)); break; }
      case 6: if (!bound.empty()) { note(e->b_ne(bound[r.below(uint32_t(bound.size()))])); } break;
      case 7: if (!pending.empty()) { Label l = pending.back(); pending.pop_back(); note(e->bind(l)); bound.push_back(l); } break;
      case 8: { uint32_t v = uint32_t(r.next()); note(e->embed(&v, 4)); break; }
      case 9: if (!bound.empty()) { note(e->adr(xr(), bound[r.below(uint32_t(bound.size()))])); } break;
      case 10: { Label l = e->new_label(); pending.push_back(l); note(e->adr(xr(), l)); break; }
      case 11: note(e->madd(xr(), xr(), xr(), xr())); break;                                       // 4 operands
      case 12: note(e->ubfx(wr(), wr(), Imm(r.below(16)), Imm(1 + r.below(16)))); break;         // 4 operands
      case 13: note(e->csel(xr(), xr(), xr(), a64::CondCode(r.below(14)))); break;
    }
  }
  while (!pending.empty()) { Label l = pending.back(); pending.pop_back(); note(e->bind(l)); note(e->nop()); }
  note(e->ret(a64::x30));
  return first;
}

// One AArch64 Compiler function through the register allocator
Error prog_funca(a64::Compiler* cc, uint64_t seed, uint32_t n) {
  Rng r(seed);
  Error first = Error::kOk;
  auto note = [&](Error err) { if (err != Error::kOk && first == Error::kOk) first = err; };
  FuncNode* fn = cc->add_func(FuncSignature::build<int, int, int>());
  if (!fn) return Error::kOutOfMemory;
  uint32_t nv = 3 + r.below(36);
  std::vector<a64::Gp> v;
  for (uint32_t i = 0; i < nv; i++) v.push_back(r.below(3) ? cc->new_gp32() : cc->new_gp64());
  fn->set_arg(0, v[0].w());
  fn->set_arg(1, v[1].w());
  for (uint32_t i = 2; i < nv; i++) note(cc->mov(v[i].w(), Imm(int32_t(r.below(1000)))));
  Label exit_l = cc->new_label();
  std::vector<Label> fwd;
  for (uint32_t i = 0; i < n; i++) {
    a64::Gp a = v[r.below(nv)], b = v[r.below(nv)], c = v[r.below(nv)], d = v[r.below(nv)];
    switch (r.below(8)) {
      case 0: note(cc->add(a.w(), b.w(), c.w())); break;
      case 1: note(cc->mul(a.w(), b.w(), c.w())); break;
      case 2: note(cc->eor(a.w(), b.w(), c.w())); break;
      case 3: { Label l = cc->new_label(); fwd.push_back(l); note(cc->cmp(a.w(), Imm(int32_t(r.below(100))))); note(cc->b_lt(l)); break; }
      case 4: if (!fwd.empty()) { note(cc->bind(fwd.back())); fwd.pop_back(); } break;
      case 5: note(cc->cbz(a.w(), exit_l)); break;
      case 6: note(cc->add(a.w(), b.w(), Imm(r.below(64)))); break;
      case 7: note(cc->madd(a.w(), b.w(), c.w(), d.w())); break;                                   // 4 operands
    }
  }
  while (!fwd.empty()) { note(cc->bind(fwd.back())); fwd.pop_back(); }
  note(cc->bind(exit_l));
  for (uint32_t i = 1; i < nv; i++) note(cc->add(v[0].w(), v[0].w(), v[i].w()));
  note(cc->ret(v[0].w()));
  note(cc->end_func());
  return first;
}

constexpr uint32_t kGenKinds = 6;      // x86 asm, x86 builder, x86 compiler, a64 asm, a64 builder, a64 compiler
constexpr uint32_t kGenSeeds = 4;

// One complete generation with private CodeHolder, emitter and logger; returns FNV of (error, section bytes, logger text).
uint64_t gen_code_hash(uint32_t kind, uint32_t seed) {
  bool is_a64 = kind >= 3;
  Environment env(is_a64 ? Arch::kAArch64 : Arch::kX64);
  CodeHolder code;
  StringLogger logger;
  logger.add_flags(FormatFlags::kMachineCode | FormatFlags::kRegCasts | FormatFlags::kExplainImms);
  code.init(env);
  code.set_logger(&logger);
  vh::Fnv h;
  Error err = Error::kOk;
  uint32_t n = 60 + seed * 25;
  switch (kind) {
    case 0: { x86::Assembler a(&code); err = prog_asmx(&a, seed + 11, n); break; }
    case 1: { x86::Builder b(&code); err = prog_asmx(&b, seed + 11, n); Error e2 = b.finalize(); if (err == Error::kOk) err = e2; break; }
    case 2: {
      x86::Compiler cc(&code);
      cc.add_diagnostic_options(DiagnosticOptions::kRAAnnotate);
      err = prog_func(&cc, seed + 5, n);
      Error e2 = prog_func(&cc, seed + 77, n / 2); if (err == Error::kOk) err = e2;
      e2 = cc.finalize(); if (err == Error::kOk) err = e2;
      break;
    }
    case 3: { a64::Assembler a(&code); err = prog_asma(&a, seed + 11, n); break; }
    case 4: { a64::Builder b(&code); err = prog_asma(&b, seed + 11, n); Error e2 = b.finalize(); if (err == Error::kOk) err = e2; break; }
    default: {
      a64::Compiler cc(&code);
      err = prog_funca(&cc, seed + 5, n);
      Error e2 = prog_funca(&cc, seed + 77, n / 2); if (err == Error::kOk) err = e2;
      e2 = cc.finalize(); if (err == Error::kOk) err = e2;
      break;
    }
  }
  h.add(std::to_string(uint32_t(err)));
  Error fe = code.flatten();
  h.add(std::to_string(uint32_t(fe)));
  for (Section* s : code.sections()) h.add(vh::bytes_to_hex(s->data(), s->buffer_size()));
  h.add(std::string(logger.data(), logger.data_size()));
  return h.h;
}

} // namespace

// ---------------------------------------------------------------------------------------------------------------------
// linearisation through hook H2
// ---------------------------------------------------------------------------------------------------------------------
enum CtxKind : int { kNone = 0, kAlloc, kRelease, kShrink, kShrink0, kWtrunc, kQuery, kStats, kRt };

struct Ctx {
  uint32_t tid = 0;
  int kind = kNone;
  uint64_t req = 0;
  uint32_t byte = 0;
  std::vector<std::string> pending;     // C09 lines of lock-free operations not yet placed into the linearisation
  std::vector<std::string> po;          // program order: signatures as the caller saw them
  uint64_t last_handle = 0;             // handle given to the last alloc event of this thread
  uint64_t last_alloc_rx = 0;
  uint32_t yield_level = 0;
  uint64_t yrng = 88172645463325252ull;
  uint32_t rnd() { yrng ^= yrng << 13; yrng ^= yrng >> 7; yrng ^= yrng << 17; return uint32_t(yrng >> 11); }
};

static thread_local Ctx* tl = nullptr;
static bool g_hook_on = false;

static std::string sig_alloc(const void* rx, size_t size) { return "A:" + vh::to_hex(uint64_t(uintptr_t(rx))) + ":" + std::to_string(size); }
static std::string sig_release(const void* rx) { return "R:" + vh::to_hex(uint64_t(uintptr_t(rx))); }
static std::string sig_shrink(const void* rx, size_t size) { return "S:" + vh::to_hex(uint64_t(uintptr_t(rx))) + ":" + std::to_string(size); }
static std::string sig_query(const void* asked, const void* rx, size_t size) {
  return "Q:" + vh::to_hex(uint64_t(uintptr_t(asked))) + ":" + vh::to_hex(uint64_t(uintptr_t(rx))) + ":" + std::to_string(size);
}
static std::string sig_stats(const JitAllocator::Statistics& s) {
  return "T:" + std::to_string(s.block_count()) + ":" + std::to_string(s.allocation_count()) + ":" + std::to_string(s.used_size()) + ":" +
         std::to_string(s.reserved_size()) + ":" + std::to_string(s.overhead_size());
}

// random scheduling noise (seeded): yields and short sleeps; `where` 0 = between operations, 1 = inside a critical section
static inline void noise(Ctx& c, uint32_t where) {
  if (!c.yield_level) return;
  uint32_t r = c.rnd();
  uint32_t m = r % 1000;
  uint32_t py = (where ? 25u : 40u) * c.yield_level;
  if (m < py) sched_yield();
  else if (c.yield_level >= 2 && m < py + 4u * (c.yield_level - 1)) usleep((r >> 10) % (c.yield_level >= 3 ? 200 : 40));
}

#ifdef C11_H2
extern "C" void (*asmjit_verif_jit_event)(unsigned kind, const void* a, const void* b, size_t c);

// everything below is protected by the allocator's own lock (the callback runs inside the critical section)
static JitAllocatorPrivateImpl* g_impl = nullptr;
static std::vector<std::string> g_lin;
static std::string g_last_stats;
static std::map<uintptr_t, uint64_t> g_handle_of;      // rx address of a live span -> handle (index of its alloc in the history)
static uint64_t g_next_handle = 0;
static std::map<JitAllocatorBlock*, uint32_t> ORD;     // live blocks -> creation ordinal (as harness/c09.cpp)
static uint32_t g_next_ord = 0;
static std::string g_lin_problem;

static void refresh_blocks() {
  std::map<JitAllocatorBlock*, uint32_t> nowm;
  std::vector<JitAllocatorBlock*> fresh;
  for (size_t p = 0; p < g_impl->pool_count; p++)
    for (JitAllocatorBlock* b = g_impl->pools[p].blocks.first(); b; b = b->next()) {
      auto it = ORD.find(b);
      if (it != ORD.end()) nowm[b] = it->second; else fresh.push_back(b);
    }
  for (JitAllocatorBlock* b : fresh) nowm[b] = g_next_ord++;
  ORD.swap(nowm);
}

static std::string stats_of_pools() {
  size_t blocks = 0, reserved = 0, used = 0, ovh = 0;
  for (size_t p = 0; p < g_impl->pool_count; p++) {
    const JitAllocatorPool& pool = g_impl->pools[p];
    blocks += size_t(pool.block_count);
    reserved += size_t(pool.total_area_size[0] + pool.total_area_size[1]) * pool.granularity;
    used += size_t(pool.total_area_used[0] + pool.total_area_used[1]) * pool.granularity;
    ovh += size_t(pool.total_overhead_bytes);
  }
  char buf[160];
  snprintf(buf, sizeof(buf), " ; %zu %zu %zu %zu %zu", blocks, size_t(g_impl->allocation_count), used, reserved, ovh - blocks * sizeof(JitAllocatorBlock));
  return buf;
}

static std::string stats_of_answer(const JitAllocator::Statistics& s) {
  char buf[160];
  snprintf(buf, sizeof(buf), " ; %zu %zu %zu %zu %zu", s.block_count(), s.allocation_count(), s.used_size(), s.reserved_size(),
           s.overhead_size() - s.block_count() * sizeof(JitAllocatorBlock));
  return buf;
}

static std::string span_str(const JitAllocator::Span& s) {
  JitAllocatorBlock* b = static_cast<JitAllocatorBlock*>(s._block);
  auto it = ORD.find(b);
  if (it == ORD.end()) return "unknown-block";
  size_t pool = size_t(b->pool() - g_impl->pools);
  size_t off = size_t((uint8_t*)s.rx() - b->rx_ptr());
  size_t rwoff = size_t((uint8_t*)s.rw() - b->rw_ptr());
  char buf[200];
  snprintf(buf, sizeof(buf), "b%u p%zu bs%zu %zu %zu rw%zu d%d", it->second, pool, b->block_size(), off, s.size(), rwoff, int(s.rx() != s.rw()));
  return buf;
}

static std::string blocks_str() {
  std::vector<std::pair<uint32_t, JitAllocatorBlock*>> v;
  for (auto& x : ORD) v.emplace_back(x.second, x.first);
  std::sort(v.begin(), v.end());
  std::string out = "blocks";
  for (auto& x : v) {
    JitAllocatorBlock* blk = x.second;
    out += " b" + std::to_string(x.first) + ":p" + std::to_string(size_t(blk->pool() - g_impl->pools)) + ":" + std::to_string(blk->block_size()) +
           ":" + ((blk->_flags & JitAllocatorBlock::kFlagInitialPadding) ? "1" : "0");
  }
  return out;
}

static void on_event(unsigned kind, const void* a, const void* b, size_t c) {
  Ctx* t = tl;
  if (!t || a != g_impl) return;          // not inside a run (e.g. the destructor's reset)
  noise(*t, 1);                            // widen the critical section at random: unlocked accesses elsewhere get a chance to overlap
  std::string pre = "L " + std::to_string(t->tid) + " ";
  for (auto& p : t->pending) g_lin.push_back(pre + "- u | " + p + g_last_stats);
  t->pending.clear();
  refresh_blocks();
  std::string stats = kind == 5 ? stats_of_answer(*static_cast<const JitAllocator::Statistics*>(b)) : stats_of_pools();
  std::string sig, op, ans;
  auto handle_at = [&](uintptr_t addr, uint64_t& h, uintptr_t& base) -> bool {
    auto it = g_handle_of.upper_bound(addr);
    if (it == g_handle_of.begin()) return false;
    --it; h = it->second; base = it->first;
    return true;
  };
  switch (kind) {
    case 1: {
      const JitAllocator::Span& s = *static_cast<const JitAllocator::Span*>(b);
      uint64_t h = g_next_handle++;
      g_handle_of[uintptr_t(s.rx())] = h;
      t->last_handle = h;
      t->last_alloc_rx = uint64_t(uintptr_t(s.rx()));
      sig = sig_alloc(s.rx(), s.size());
      op = "alloc " + std::to_string(t->kind == kAlloc ? t->req : uint64_t(c));
      ans = "ok " + span_str(s);
      break;
    }
    case 2: {
      uint64_t h = 0; uintptr_t base = 0;
      if (!handle_at(uintptr_t(b), h, base) || base != uintptr_t(b)) { g_lin_problem = "release of an address no alloc event handed out"; h = 999999999; }
      else g_handle_of.erase(base);
      sig = sig_release(b);
      if (t->kind == kShrink0) { op = "shrink " + std::to_string(h) + " 0"; ans = "ok 0"; }
      else if (t->kind == kWtrunc) { op = "wtrunc " + std::to_string(h) + " " + vh::to_hex(t->byte) + " 0"; ans = "ok 0"; }
      else { op = "release " + std::to_string(h); ans = "ok"; }
      break;
    }
    case 3: {
      const JitAllocator::Span& s = *static_cast<const JitAllocator::Span*>(b);
      uint64_t h = 0; uintptr_t base = 0;
      if (!handle_at(uintptr_t(s.rx()), h, base) || base != uintptr_t(s.rx())) { g_lin_problem = "shrink of a span no alloc event handed out"; h = 999999999; }
      sig = sig_shrink(s.rx(), s.size());
      if (t->kind == kWtrunc) op = "wtrunc " + std::to_string(h) + " " + vh::to_hex(t->byte) + " " + std::to_string(c);
      else op = "shrink " + std::to_string(h) + " " + std::to_string(c);
      ans = "ok " + std::to_string(s.size());
      break;
    }
    case 4: {
      const JitAllocator::Span& s = *static_cast<const JitAllocator::Span*>(b);
      uint64_t h = 0; uintptr_t base = 0;
      if (!handle_at(uintptr_t(c), h, base)) { g_lin_problem = "query of an address below every span"; h = 999999999; }
      sig = sig_query((const void*)uintptr_t(c), s.rx(), s.size());
      op = "query " + std::to_string(h) + " " + std::to_string(uintptr_t(c) - base);
      ans = "ok " + span_str(s);
      break;
    }
    case 5: {
      sig = sig_stats(*static_cast<const JitAllocator::Statistics*>(b));
      op = "blocks";
      ans = blocks_str();
      break;
    }
    case 6: {
      sig = "X:" + std::to_string(c);
      op = c == size_t(ResetPolicy::kHard) ? "reset hard" : "reset soft";
      ans = blocks_str();
      g_handle_of.clear();
      break;
    }
    default: return;
  }
  if (t->kind == kRt) t->po.push_back(sig);         // operations made by JitRuntime on the caller's behalf: program order = event order
  size_t seq = t->kind == kRt ? t->po.size() - 1 : t->po.size();
  g_lin.push_back(pre + std::to_string(seq) + " " + sig + " | " + op + " => " + ans + stats);
  g_last_stats = stats;
}

// ---- quiescent observations (single-threaded, after the join): the same answers harness/c09.cpp gives ----
static std::string colour(const uint8_t* p, size_t gran, uint32_t pattern) {
  bool uni = true;
  for (size_t i = 1; i < gran; i++) if (p[i] != p[0]) { uni = false; break; }
  if (uni) { char b[8]; snprintf(b, sizeof(b), "U%02x", p[0]); return b; }
  bool pat = true;
  for (size_t i = 0; i < gran; i += 4) { uint32_t w; memcpy(&w, p + i, 4); if (w != pattern) { pat = false; break; } }
  return pat ? "P" : "X";
}

static std::string colours(const uint8_t* p, size_t n_gran, size_t gran, uint32_t pattern) {
  std::string out, cur;
  size_t run = 0;
  for (size_t g = 0; g < n_gran; g++) {
    std::string c = colour(p + g * gran, gran, pattern);
    if (c == cur) { run++; continue; }
    if (run) { if (!out.empty()) out += ","; out += cur + "*" + std::to_string(run); }
    cur = c; run = 1;
  }
  if (run) { if (!out.empty()) out += ","; out += cur + "*" + std::to_string(run); }
  return out;
}

static std::string bits_runs(const Support::BitWord* v, uint32_t n) {
  std::string out;
  uint32_t i = 0;
  while (i < n) {
    if (!Support::bit_vector_get_bit(const_cast<Support::BitWord*>(v), i)) { i++; continue; }
    uint32_t j = i;
    while (j < n && Support::bit_vector_get_bit(const_cast<Support::BitWord*>(v), j)) j++;
    if (!out.empty()) out += ",";
    out += std::to_string(i) + "-" + std::to_string(j);
    i = j;
  }
  return out.empty() ? "-" : out;
}

static std::vector<std::pair<uint32_t, JitAllocatorBlock*>> blocks_sorted() {
  std::vector<std::pair<uint32_t, JitAllocatorBlock*>> v;
  for (auto& x : ORD) v.emplace_back(x.second, x.first);
  std::sort(v.begin(), v.end());
  return v;
}

static std::string dump_str() {
  std::string out = "dump";
  JitAllocatorPrivateImpl* I = g_impl;
  for (size_t p = 0; p < I->pool_count; p++) {
    JitAllocatorPool& pool = I->pools[p];
    auto it = pool.cursor ? ORD.find(pool.cursor) : ORD.end();
    out += " p" + std::to_string(p) + ":cur=" + (it == ORD.end() ? std::string("-") : "b" + std::to_string(it->second)) +
           ":ec=" + std::to_string(pool.empty_block_count) + ":bc=" + std::to_string(pool.block_count);
    for (JitAllocatorBlock* blk = pool.blocks.first(); blk; blk = blk->next()) {
      char buf[256];
      uint32_t f = blk->_flags;
      snprintf(buf, sizeof(buf), " b%u:sz=%zu:area=%u:fl=%s%s%s%s:used=%u:lu=%u:ss=%u:se=%u", ORD[blk], blk->block_size(), blk->area_size(),
               (f & JitAllocatorBlock::kFlagInitialPadding) ? "P" : "", (f & JitAllocatorBlock::kFlagEmpty) ? "E" : "",
               (f & JitAllocatorBlock::kFlagDirty) ? "D" : "", (f & JitAllocatorBlock::kFlagIncremental) ? "I" : "",
               blk->area_used(), blk->largest_unused_area(), blk->_search_start, blk->_search_end);
      out += buf;
      out += ":u=" + bits_runs(blk->_used_bit_vector, blk->area_size()) + ":s=" + bits_runs(blk->_stop_bit_vector, blk->area_size());
    }
  }
  return out;
}

static std::string sweep_str(JitAllocator& A) {     // query() at every granule of every block (the caller has tl == nullptr: no events)
  std::string out = "sweep";
  for (auto& x : blocks_sorted()) {
    JitAllocatorBlock* blk = x.second;
    size_t gran = blk->pool()->granularity;
    out += " b" + std::to_string(x.first) + "=";
    std::string items;
    size_t cur_start = SIZE_MAX, cur_size = 0;
    for (uint32_t g = 0; g < blk->area_size(); g++) {
      JitAllocator::Span s;
      Error e = A.query(Out(s), blk->rx_ptr() + size_t(g) * gran + (g % 3));
      if (e != Error::kOk) { cur_start = SIZE_MAX; continue; }
      size_t st = size_t((uint8_t*)s.rx() - blk->rx_ptr()) / gran, sz = s.size() / gran;
      if (s._block != blk || size_t((uint8_t*)s.rw() - blk->rw_ptr()) != st * gran || s.size() % gran) { items += "!bad@" + std::to_string(g); continue; }
      if (st == cur_start && sz == cur_size) continue;
      cur_start = st; cur_size = sz;
      if (!items.empty()) items += ",";
      items += std::to_string(st) + "+" + std::to_string(sz);
      if (st != g) items += "!late@" + std::to_string(g);
    }
    out += items.empty() ? "-" : items;
  }
  return out;
}

static void quiescent(const std::string& op, const std::string& ans) {
  g_last_stats = stats_of_pools();
  g_lin.push_back("L - - q | " + op + " => " + ans + g_last_stats);
}
#endif // C11_H2

// ---------------------------------------------------------------------------------------------------------------------
// memfd_create answering ENOSYS (linked with -Wl,--wrap=syscall)
static int g_fail_memfd = 0;        // set before the threads are started
extern "C" long __real_syscall(long n, ...);
extern "C" long __wrap_syscall(long n, ...) {
  va_list ap;
  va_start(ap, n);
  long a[6];
  for (int i = 0; i < 6; i++) a[i] = va_arg(ap, long);
  va_end(ap);
#ifdef __NR_memfd_create
  if (n == __NR_memfd_create && g_fail_memfd) { errno = ENOSYS; return -1; }
#endif
  return __real_syscall(n, a[0], a[1], a[2], a[3], a[4], a[5]);
}

static std::string step_nomemfd(const std::vector<std::string>& w) {
  uint64_t nthreads, iters;
  if (w.size() != 3 || !vh::parse_u64(w[1], nthreads) || !vh::parse_u64(w[2], iters) || nthreads < 1 || nthreads > 64) return "bad-op";
  { JitRuntime warm; (void)warm; }                 // host information (CpuInfo::host, VirtMem::info) initialised on one thread first
  g_fail_memfd = 1;
  std::atomic<uint32_t> ready{0};
  std::vector<uint64_t> errors(nthreads, 0), blocks(nthreads, 0);
  std::vector<std::thread> ths;
  for (uint32_t tid = 0; tid < nthreads; tid++) {
    ths.emplace_back([&, tid]() {
      JitAllocator::CreateParams params;
      params.options = JitAllocatorOptions::kUseDualMapping;
      for (uint64_t i = 0; i < iters; i++) {
        JitAllocator a(&params);
        if (i == 0) {                                          // the very first block of every thread's allocator is mapped at the same moment
          ready.fetch_add(1);
          while (ready.load() < nthreads) {}
        }
        JitAllocator::Span sp;
        if (a.alloc(Out(sp), 100 + tid) != Error::kOk) { errors[tid]++; continue; }
        if (sp.rx() == sp.rw()) errors[tid] += 1000;          // not dual mapped
        a.write(sp, 0, std::string(sp.size(), char(tid + 1)).data(), sp.size());
        if (static_cast<const uint8_t*>(sp.rx())[sp.size() - 1] != uint8_t(tid + 1)) errors[tid] += 1000000;
        blocks[tid] += a.statistics().block_count();
        if (a.release(sp.rx()) != Error::kOk) errors[tid]++;
      }
    });
  }
  for (auto& t : ths) t.join();
  g_fail_memfd = 0;
  uint64_t e = 0, b = 0;
  for (auto x : errors) e += x;
  for (auto x : blocks) b += x;
  return "nomemfd errors=" + std::to_string(e) + " blocks=" + std::to_string(b);
}

static std::string step(const std::string& line) {
  auto w = vh::words(line);
  if (!w.empty() && w[0] == "nomemfd") return step_nomemfd(w);
  uint64_t nthreads, nops, seed, opts, gran, ylevel = 0;
  if ((w.size() != 6 && w.size() != 7) || w[0] != "run" || !vh::parse_u64(w[1], nthreads) || !vh::parse_u64(w[2], nops) || !vh::parse_u64(w[3], seed) ||
      !vh::parse_hex(w[4], opts) || !vh::parse_u64(w[5], gran) || nthreads < 1 || nthreads > 64) return "bad-op";
  if (w.size() == 7 && !vh::parse_u64(w[6], ylevel)) return "bad-op";

  JitAllocator::CreateParams params;
  params.options = JitAllocatorOptions(uint32_t(opts));
  params.granularity = uint32_t(gran);
  params.block_size = 65536;
  JitRuntime rt(&params);
  JitAllocator& alloc = rt.allocator();
  std::string out;

#ifdef C11_H2
  g_hook_on = true;
  g_impl = static_cast<JitAllocatorPrivateImpl*>(alloc._impl);
  g_lin.clear(); g_handle_of.clear(); ORD.clear(); g_next_handle = 0; g_next_ord = 0; g_lin_problem.clear();
  {
    char buf[256];
    snprintf(buf, sizeof(buf), "L - - q | cfg %x %u %u 0 => ok init=%d opts=%x gran=%u block=%u fill=%x pools=%zu", uint32_t(opts), uint32_t(gran), 65536u,
             int(alloc.is_initialized()), uint32_t(alloc.options()), alloc.granularity(), alloc.block_size(), alloc.fill_pattern(), g_impl->pool_count);
    g_last_stats = stats_of_pools();
    g_lin.push_back(std::string(buf) + g_last_stats);
  }
  asmjit_verif_jit_event = on_event;
#endif
  out += std::string("hook ") + (g_hook_on ? "1" : "0") + "\n";

  // single-threaded reference results of the code generators (also initialises every init-once static of the library)
  uint64_t expect[kGenKinds][kGenSeeds];
  for (uint32_t k = 0; k < kGenKinds; k++) for (uint32_t s = 0; s < kGenSeeds; s++) expect[k][s] = gen_code_hash(k, s);

  std::vector<std::vector<SpanRec>> recs(nthreads + 1);
  std::vector<std::string> code_lines(nthreads);
  std::vector<uint64_t> errors(nthreads + 1, 0);
  std::vector<Ctx> ctxs(nthreads + 1);
  struct Live { JitAllocator::Span span; size_t rec; uint8_t tag; uint64_t size; uint64_t h; uint32_t owner; };
  std::vector<std::vector<Live>> leftovers(nthreads);
  std::vector<std::thread> ths;
  for (uint32_t tid = 0; tid < nthreads; tid++) {
    ths.emplace_back([&, tid]() {
      std::mt19937_64 rng(seed * 1000003 + tid);
      Ctx& cx = ctxs[tid];
      cx.tid = tid; cx.yield_level = uint32_t(ylevel); cx.yrng ^= (seed + 1) * 0x9E3779B97F4A7C15ull + tid * 7919;
      tl = &cx;
      const bool H = g_hook_on;
      std::vector<Live> live;
      // a thread-private allocator (never shared): must not interfere with anything either
      JitAllocator::CreateParams pparams;
      pparams.options = JitAllocatorOptions((uint32_t(opts) ^ 0x2u) & ~0x20u);
      pparams.granularity = uint32_t(gran);
      JitAllocator priv(&pparams);
      std::vector<JitAllocator::Span> priv_live;
      uint64_t h_asm = 0, h_cc = 0;
      uint32_t code_runs = 0;
      std::string first_diff;
      auto granule_of = [&](const JitAllocator::Span& s) -> size_t {
#ifdef C11_H2
        return static_cast<JitAllocatorBlock*>(s._block)->pool()->granularity;     // immutable after construction
#else
        (void)s; return size_t(gran);
#endif
      };
      auto read_line = [&](const Live& l) {
#ifdef C11_H2
        if (H) cx.pending.push_back("read " + std::to_string(l.h) + " => ok " + colours((const uint8_t*)l.span.rx(), l.size / granule_of(l.span), granule_of(l.span), alloc.fill_pattern()));
#else
        (void)l;
#endif
      };
      for (uint64_t i = 0; i < nops; i++) {
        noise(cx, 0);
        uint32_t k = uint32_t(rng() % 100);
        if (k < 38 || live.empty()) {
          size_t req = 1 + size_t(rng() % (k < 5 ? 70000 : 900));
          JitAllocator::Span span;
          cx.kind = kAlloc; cx.req = req;
          Error e = alloc.alloc(Out(span), req);
          cx.kind = kNone;
          uint64_t t0 = now();
          if (e != Error::kOk) { errors[tid]++; continue; }
          if (H) cx.po.push_back(sig_alloc(span.rx(), span.size()));
          uint8_t tag = uint8_t(rng());
          noise(cx, 0);
          alloc.write(span, 0, std::string(span.size(), char(tag)).data(), span.size());
          if (H) cx.pending.push_back("write " + std::to_string(cx.last_handle) + " " + vh::to_hex(tag) + " => ok");
          recs[tid].push_back({tid, uint64_t(uintptr_t(span.rx())), uint64_t(uintptr_t(span.rw())), span.size(), req, t0, 0, 1});
          live.push_back({span, recs[tid].size() - 1, tag, span.size(), cx.last_handle, tid});
        }
        else if (k < 66) {
          size_t j = rng() % live.size();
          Live l = live[j];
          // contents must be intact until released
          const uint8_t* p = static_cast<const uint8_t*>(l.span.rx());
          for (size_t b = 0; b < l.size; b += 37) if (p[b] != l.tag) { recs[tid][l.rec].ok = 0; break; }
          read_line(l);
          recs[tid][l.rec].t1 = now();
          cx.kind = kRelease;
          if (alloc.release(l.span.rx()) != Error::kOk) errors[tid]++;
          cx.kind = kNone;
          if (H) cx.po.push_back(sig_release(l.span.rx()));
          live[j] = live.back(); live.pop_back();
        }
        else if (k < 78) {
          size_t j = rng() % live.size();
          uint32_t mode = uint32_t(rng() % 16);
          void* rx = live[j].span.rx();
          if (mode == 0) {            // shrink to nothing = release
            recs[tid][live[j].rec].t1 = now();
            cx.kind = kShrink0;
            if (alloc.shrink(live[j].span, 0) != Error::kOk) errors[tid]++;
            cx.kind = kNone;
            if (H) cx.po.push_back(sig_release(rx));
            live[j] = live.back(); live.pop_back();
          }
          else if (mode < 4 && live[j].size > 1) {   // write through the callback variant and truncate inside the callback
            size_t ns = 1 + rng() % (live[j].size - 1);
            uint8_t tag = uint8_t(rng());
            struct TC { uint8_t byte; size_t ns; } tc{tag, ns};
            cx.kind = kWtrunc; cx.byte = tag;
            Error e = alloc.write(live[j].span, [](JitAllocator::Span& s, void* ud) noexcept -> Error {
              TC* t = static_cast<TC*>(ud);
              memset(s.rw(), t->byte, s.size());
              s.shrink(t->ns);
              return Error::kOk;
            }, &tc);
            cx.kind = kNone;
            if (e != Error::kOk) { errors[tid]++; continue; }
            if (H) cx.po.push_back(sig_shrink(rx, live[j].span.size()));
            live[j].tag = tag;
            live[j].size = live[j].span.size();
            recs[tid][live[j].rec].size = live[j].span.size();
            recs[tid][live[j].rec].requested = ns;
          }
          else {
            size_t ns = 1 + rng() % live[j].size;
            cx.kind = kShrink;
            Error e = alloc.shrink(live[j].span, ns);
            cx.kind = kNone;
            if (e == Error::kOk) {
              if (H) cx.po.push_back(sig_shrink(rx, live[j].span.size()));
              live[j].size = live[j].span.size();
              recs[tid][live[j].rec].size = live[j].span.size();   // shrinking only ever frees the tail: still a sound lifetime record
              recs[tid][live[j].rec].requested = ns;
            }
            else errors[tid]++;
          }
        }
        else if (k < 88) {
          size_t j = rng() % live.size();
          JitAllocator::Span q;
          uint8_t* asked = static_cast<uint8_t*>(live[j].span.rx()) + (rng() % 3 ? rng() % live[j].size : 0);
          cx.kind = kQuery;
          Error e = alloc.query(Out(q), asked);
          cx.kind = kNone;
          if (e != Error::kOk || q.rx() != live[j].span.rx() || q.size() != live[j].size) recs[tid][live[j].rec].ok = 0;
          if (H && e == Error::kOk) cx.po.push_back(sig_query(asked, q.rx(), q.size()));
          if (e != Error::kOk) errors[tid]++;
          if (rng() % 2) {
            cx.kind = kStats;
            JitAllocator::Statistics st = alloc.statistics();
            cx.kind = kNone;
            if (H) cx.po.push_back(sig_stats(st));
          }
        }
        else if (k < 93) {
          // independent code generation + installation through the shared runtime
          CodeHolder code; code.init(rt.environment());
          x86::Assembler a(&code);
          uint32_t pad = uint32_t(rng() % 40);
          a.mov(x86::eax, int(tid * 1000 + i));
          a.ret();
          for (uint32_t q = 0; q < pad; q++) a.int3();
          int (*fn)() = nullptr;
          cx.kind = kRt;
          Error e = rt.add(&fn, &code);
          if (e == Error::kOk) {
            if (H && cx.last_alloc_rx != uint64_t(uintptr_t(fn))) errors[tid] += 1000000;
            if (fn() != int(tid * 1000 + i)) errors[tid] += 1000000;
            noise(cx, 0);
            rt.release(fn);
          }
          else errors[tid]++;
          cx.kind = kNone;
        }
        else if (k < 96) {
          // the private allocator: a burst of allocations of assorted sizes, contents checked, most released again
          for (uint32_t q = 0; q < 6; q++) {
            JitAllocator::Span sp;
            size_t req = 1 + size_t(rng() % 3000);
            if (priv.alloc(Out(sp), req) != Error::kOk || sp.size() < req) { errors[tid]++; continue; }
            priv.write(sp, 0, std::string(sp.size(), char(0x40 + q)).data(), sp.size());
            priv_live.push_back(sp);
          }
          while (priv_live.size() > 8) {
            size_t j = rng() % priv_live.size();
            JitAllocator::Span q;
            const uint8_t* p = static_cast<const uint8_t*>(priv_live[j].rx());
            if (priv.query(Out(q), priv_live[j].rx()) != Error::kOk || q.size() != priv_live[j].size() || p[0] != p[priv_live[j].size() - 1]) errors[tid] += 1000;
            if (priv.release(priv_live[j].rx()) != Error::kOk) errors[tid]++;
            priv_live[j] = priv_live.back(); priv_live.pop_back();
          }
        }
        else {
          uint32_t kind = uint32_t(rng() % kGenKinds), s = uint32_t(rng() % kGenSeeds);
          uint64_t d = gen_code_hash(kind, s) ^ expect[kind][s];   // 0 when identical
          if (d && first_diff.empty()) first_diff = " first=" + std::to_string(kind) + ":" + std::to_string(s);
          if (kind == 2 || kind == 5) h_cc |= d; else h_asm |= d;
          code_runs++;
        }
      }
#ifdef C11_H2
      if (H) {       // place the remaining lock-free operations: one more critical section of this thread
        cx.kind = kStats;
        JitAllocator::Statistics st = alloc.statistics();
        cx.kind = kNone;
        cx.po.push_back(sig_stats(st));
      }
#endif
      for (auto& sp : priv_live) if (priv.release(sp.rx()) != Error::kOk) errors[tid]++;
      if (priv.statistics().allocation_count() != 0) errors[tid] += 1000;
      leftovers[tid] = live;
      code_lines[tid] = "code " + std::to_string(tid) + " runs=" + std::to_string(code_runs) + " asm_diff=" + vh::to_hex(h_asm) + " cc_diff=" + vh::to_hex(h_cc) + first_diff;
      tl = nullptr;
    });
  }
  for (auto& t : ths) t.join();

  // ---- quiescent part: observe the whole state, then give everything back from the main thread ----
  Ctx& mx = ctxs[nthreads];
  mx.tid = uint32_t(nthreads);
#ifdef C11_H2
  refresh_blocks();
  quiescent("sweep", sweep_str(alloc));
  quiescent("dump", dump_str());
  tl = &mx;
#endif
  for (uint32_t tid = 0; tid < nthreads; tid++)
    for (auto& l : leftovers[tid]) {
      const uint8_t* p = static_cast<const uint8_t*>(l.span.rx());
      for (size_t b = 0; b < l.size; b += 37) if (p[b] != l.tag) { recs[tid][l.rec].ok = 0; break; }
      recs[tid][l.rec].t1 = now();
      mx.kind = kRelease;
      if (alloc.release(l.span.rx()) != Error::kOk) errors[nthreads]++;
      mx.kind = kNone;
      if (g_hook_on) mx.po.push_back(sig_release(l.span.rx()));
    }
  JitAllocator::Statistics st;
  {
    mx.kind = kStats;
    st = alloc.statistics();
    mx.kind = kNone;
    if (g_hook_on) mx.po.push_back(sig_stats(st));
  }
#ifdef C11_H2
  tl = nullptr;
  refresh_blocks();
  quiescent("sweep", sweep_str(alloc));
  quiescent("dump", dump_str());
  tl = &mx;
  mx.kind = kNone;
  alloc.reset(ResetPolicy::kSoft);
  mx.po.push_back("X:" + std::to_string(size_t(ResetPolicy::kSoft)));
  tl = nullptr;
  refresh_blocks();
  quiescent("dump", dump_str());
  asmjit_verif_jit_event = nullptr;
#endif

  // canonical: addresses relative to the lowest rx address seen
  uint64_t base = ~uint64_t(0);
  for (auto& v : recs) for (auto& r : v) base = std::min(base, r.rx);
  base &= ~uint64_t(0xFFFF);   // keep the alignment information of the absolute addresses
  size_t n = 0;
  for (auto& v : recs) for (auto& r : v) {
    out += "span " + std::to_string(r.tid) + " " + vh::to_hex(r.rx - base) + " " + std::to_string(r.size) + " " + std::to_string(r.requested) + " " +
           std::to_string(r.t0) + " " + std::to_string(r.t1) + " " + std::to_string(r.ok) + "\n";
    n++;
  }
  uint64_t errs = 0;
  for (auto e : errors) errs += e;
  for (auto& c : code_lines) out += c + "\n";
#ifdef C11_H2
  for (auto& l : g_lin) out += l + "\n";
  for (auto& c : ctxs) for (size_t i = 0; i < c.po.size(); i++) out += "P " + std::to_string(c.tid) + " " + std::to_string(i) + " " + c.po[i] + "\n";
  if (!g_lin_problem.empty()) out += "linproblem " + g_lin_problem + "\n";
  g_lin.clear();
#endif
  out += "end spans=" + std::to_string(n) + " errors=" + std::to_string(errs) + " final_allocations=" + std::to_string(st.allocation_count()) + " used=" + std::to_string(st.used_size());
  return out;
}

int main() { return vh::line_loop(step); }
