// C18 compile probe: the move operations of the arena containers must be instantiable.
#include <asmjit/core.h>
#include <asmjit/support/arenavector.h>
#include <asmjit/support/arenahash.h>
#include <utility>
using namespace asmjit;
struct ProbeNode : public ArenaHashNode { uint32_t key; };
void c18_probe_vector_move_assign(ArenaVector<uint32_t>& a, ArenaVector<uint32_t>& b) { a = std::move(b); }
#ifndef C18_PROBE_VECTOR_ONLY
void c18_probe_hash_move_ctor(ArenaHash<ProbeNode>& a) { ArenaHash<ProbeNode> b(std::move(a)); (void)b; }
#endif
