// C12 harness: InstAPI::validate / query_rw_info / query_features (+ the x86 assembler's encoding) of the real code behind a
// line protocol, and a dump of the generated RW / flags / feature tables as the compiler sees them.
//
//   tables                                   -> many "T ..." lines, terminated by "T end"
//   x <arch> <name> <opts> <extra> <op>*     -> one answer line (arch: x64|x86; opts: letters z e s d u o (rd/ru/rz rounding) E V 3 or '-'; extra: '-' or k<id>)
//   a <name> <op>*                           -> one answer line (AArch64 query_rw_info)
//
// x86 operand tokens:  r.<kind>.<id>   kind in gpbl gpbh gpw gpd gpq xmm ymm zmm k tmm sreg creg dreg mm st bnd
//                      m.<size>.<base>.<index>[.abs]   base: - | q<id> | d<id>;  index: - | q<id> | d<id> | x<id> | y<id> | z<id>
//                      i.<unsigned decimal>
// a64 operand tokens:  v.<id>.<elem>[.<idx>]  elem in 8b 16b 4h 8h 2s 4s 1d 2d b h s d (idx = element index) ; x.<id> ; w.<id>
//                      m.<baseid>[.post.x<id>|.post.i<imm>|.off.i<imm>]
#include <asmjit/core.h>
#include <asmjit/x86.h>
#include <asmjit/a64.h>
// the generated tables are file-visible only through the private header; including the TU gives their sizes as well
#include <asmjit/x86/x86instdb.cpp>
#include "vh.h"

using namespace asmjit;

struct RegKind { const char* name; RegType type; };
static const RegKind reg_kinds[] = {
  {"gpbl", RegType::kGp8Lo}, {"gpbh", RegType::kGp8Hi}, {"gpw", RegType::kGp16}, {"gpd", RegType::kGp32}, {"gpq", RegType::kGp64},
  {"xmm", RegType::kVec128}, {"ymm", RegType::kVec256}, {"zmm", RegType::kVec512}, {"k", RegType::kMask}, {"tmm", RegType::kTile},
  {"sreg", RegType::kSegment}, {"creg", RegType::kControl}, {"dreg", RegType::kDebug}, {"mm", RegType::kX86_Mm},
  {"st", RegType::kX86_St}, {"bnd", RegType::kX86_Bnd}
};

static bool reg_by_kind(const std::string& kind, uint32_t id, Reg& out) {
  for (const RegKind& k : reg_kinds) {
    if (kind == k.name) { out = Reg::from_type_and_id(k.type, id); return true; }
  }
  return false;
}

static std::vector<std::string> split(const std::string& s, char sep) {
  std::vector<std::string> out;
  size_t b = 0;
  for (;;) {
    size_t e = s.find(sep, b);
    if (e == std::string::npos) { out.push_back(s.substr(b)); break; }
    out.push_back(s.substr(b, e - b));
    b = e + 1;
  }
  return out;
}

static bool parse_short_reg(const std::string& t, Reg& out) {   // q3 d3 x5 y5 z5
  if (t.size() < 2) return false;
  uint64_t id;
  if (!vh::parse_u64(t.substr(1), id)) return false;
  switch (t[0]) {
    case 'q': out = Reg::from_type_and_id(RegType::kGp64, uint32_t(id)); return true;
    case 'd': out = Reg::from_type_and_id(RegType::kGp32, uint32_t(id)); return true;
    case 'x': out = Reg::from_type_and_id(RegType::kVec128, uint32_t(id)); return true;
    case 'y': out = Reg::from_type_and_id(RegType::kVec256, uint32_t(id)); return true;
    case 'z': out = Reg::from_type_and_id(RegType::kVec512, uint32_t(id)); return true;
  }
  return false;
}

static bool parse_x86_op(const std::string& tok, Operand& out) {
  std::vector<std::string> p = split(tok, '.');
  if (p.empty()) return false;
  uint64_t v;
  if (p[0] == "r" && p.size() == 3) {
    Reg r;
    if (!vh::parse_u64(p[2], v) || !reg_by_kind(p[1], uint32_t(v), r)) return false;
    out = r;
    return true;
  }
  if (p[0] == "i" && p.size() == 2) {
    if (!vh::parse_u64(p[1], v)) return false;
    out = Imm(v);
    return true;
  }
  if (p[0] == "m" && (p.size() == 4 || p.size() == 5)) {
    if (!vh::parse_u64(p[1], v)) return false;
    uint32_t size = uint32_t(v);
    bool abs64 = p.size() == 5 && p[4] == "abs";
    Reg base, index;
    bool hb = p[2] != "-", hi = p[3] != "-";
    if (hb && !parse_short_reg(p[2], base)) return false;
    if (hi && !parse_short_reg(p[3], index)) return false;
    x86::Mem m;
    if (abs64) { m = x86::Mem(uint64_t(0x1122334455667788ull), size); m.set_addr_abs(); }
    else if (hb && hi) m = x86::Mem(base, index, 0, 16, size);
    else if (hb) m = x86::Mem(base, 16, size);
    else if (hi) m = x86::Mem(uint64_t(0x1000), index, 0, size);
    else m = x86::Mem(uint64_t(0x1000), size);
    out = m;
    return true;
  }
  return false;
}

static std::string rw_ops_out(const InstRWInfo& rw, size_t n) {
  std::string s;
  char buf[160];
  for (size_t i = 0; i < n; i++) {
    const OpRWInfo& o = rw._operands[i];
    snprintf(buf, sizeof(buf), "%s%x,%u,%u,%u,%llx,%llx,%llx", i ? "|" : "", unsigned(o._op_flags), unsigned(o._phys_id), unsigned(o._rm_size),
             unsigned(o._consecutive_lead_count), (unsigned long long)o._read_byte_mask, (unsigned long long)o._write_byte_mask,
             (unsigned long long)o._extend_byte_mask);
    s += buf;
  }
  if (n == 0) s = "-";
  return s;
}

static std::string features_out(const CpuFeatures& f) {
  std::string s;
  CpuFeatures::Iterator it = f.iterator();
  while (it.has_next()) {
    if (!s.empty()) s += ",";
    s += std::to_string(unsigned(it.next()));
  }
  return s.empty() ? "-" : s;
}

static std::string x86_query(const std::vector<std::string>& w) {
  if (w.size() < 5) return "bad-line";
  Arch arch = w[1] == "x64" ? Arch::kX64 : w[1] == "x86" ? Arch::kX86 : Arch::kUnknown;
  if (arch == Arch::kUnknown) return "bad-arch";
  InstId id = InstAPI::string_to_inst_id(arch, w[2].data(), w[2].size());
  if (id == 0) return "noinst";
  InstOptions opts = InstOptions::kNone;
  if (w[3] != "-") {
    for (char c : w[3]) {
      switch (c) {
        case 'z': opts |= InstOptions::kX86_ZMask; break;
        case 'e': opts |= InstOptions::kX86_ER; break;
        case 's': opts |= InstOptions::kX86_SAE; break;
        case 'd': opts |= InstOptions::kX86_RD_SAE; break;
        case 'u': opts |= InstOptions::kX86_RU_SAE; break;
        case 'o': opts |= InstOptions::kX86_RZ_SAE; break;
        case 'E': opts |= InstOptions::kX86_Evex; break;
        case 'V': opts |= InstOptions::kX86_Vex; break;
        case '3': opts |= InstOptions::kX86_Vex3; break;
        default: return "bad-opts";
      }
    }
  }
  BaseInst inst(id, opts);
  if (w[4] != "-") {
    uint64_t kid;
    if (w[4][0] != 'k' || !vh::parse_u64(w[4].substr(1), kid)) return "bad-extra";
    inst = BaseInst(id, opts, Reg::from_type_and_id(RegType::kMask, uint32_t(kid)));
  }
  Operand ops[Globals::kMaxOpCount];
  size_t n = w.size() - 5;
  if (n > Globals::kMaxOpCount) return "bad-opcount";
  for (size_t i = 0; i < n; i++) {
    if (!parse_x86_op(w[5 + i], ops[i])) return "bad-op";
  }

  std::string out = "id=" + std::to_string(id);
  Error verr = InstAPI::validate(arch, inst, ops, n, ValidationFlags::kNone);
  out += std::string(" v=") + DebugUtils::error_as_string(verr);

  // encoding through the real assembler (tells VEX from EVEX, i.e. which database form the operands select)
  {
    CodeHolder code;
    Environment env(arch);
    code.init(env);
    x86::Assembler a(&code);
    a.set_inst_options(opts);
    if (inst.has_extra_reg()) a.set_extra_reg(inst.extra_reg());
    Error e = a._emit_op_array(id, ops, n);
    if (e != Error::kOk) out += std::string(" e=!") + DebugUtils::error_as_string(e);
    else {
      CodeBuffer& b = code.text_section()->buffer();
      out += " e=" + vh::bytes_to_hex(b.data(), b.size());
    }
  }

  InstRWInfo rw;
  memset(&rw, 0, sizeof(rw));
  Error rerr = InstAPI::query_rw_info(arch, inst, ops, n, &rw);
  out += std::string(" rw=") + DebugUtils::error_as_string(rerr);
  if (rerr == Error::kOk) {
    char buf[200];
    snprintf(buf, sizeof(buf), " if=%x rf=%x wf=%x rmf=%u x=%x,%llx,%llx", unsigned(rw._inst_flags), unsigned(rw._read_flags), unsigned(rw._write_flags),
             unsigned(rw._rm_feature), unsigned(rw._extra_reg._op_flags), (unsigned long long)rw._extra_reg._read_byte_mask,
             (unsigned long long)rw._extra_reg._write_byte_mask);
    out += buf;
    out += " ops=" + rw_ops_out(rw, n);
  }
  CpuFeatures f;
  Error ferr = InstAPI::query_features(arch, inst, ops, n, &f);
  out += std::string(" qf=") + DebugUtils::error_as_string(ferr);
  if (ferr == Error::kOk) out += " f=" + features_out(f);
  for (char& c : out) if (c == '\n') c = ' ';
  return out;
}

// ---- AArch64 ---------------------------------------------------------------------------------------------------------------

static bool parse_a64_op(const std::string& tok, Operand& out) {
  std::vector<std::string> p = split(tok, '.');
  uint64_t v;
  if (p.size() >= 2 && (p[0] == "x" || p[0] == "w")) {
    if (!vh::parse_u64(p[1], v)) return false;
    out = p[0] == "x" ? a64::Gp::make_r64(uint32_t(v)) : a64::Gp::make_r32(uint32_t(v));
    return true;
  }
  if (p[0] == "i" && p.size() == 2) {
    if (!vh::parse_u64(p[1], v)) return false;
    out = Imm(v);
    return true;
  }
  if (p[0] == "v" && p.size() >= 3) {
    if (!vh::parse_u64(p[1], v)) return false;
    uint32_t id = uint32_t(v);
    a64::Vec r;
    const std::string& e = p[2];
    if (e == "8b") r = a64::Vec::make_v64(id).b8();
    else if (e == "16b") r = a64::Vec::make_v128(id).b16();
    else if (e == "4h") r = a64::Vec::make_v64(id).h4();
    else if (e == "8h") r = a64::Vec::make_v128(id).h8();
    else if (e == "2s") r = a64::Vec::make_v64(id).s2();
    else if (e == "4s") r = a64::Vec::make_v128(id).s4();
    else if (e == "1d") r = a64::Vec::make_v64(id);
    else if (e == "2d") r = a64::Vec::make_v128(id).d2();
    else if (e == "b") r = a64::Vec::make_v128(id).b();
    else if (e == "h") r = a64::Vec::make_v128(id).h();
    else if (e == "s") r = a64::Vec::make_v128(id).s();
    else if (e == "d") r = a64::Vec::make_v128(id).d();
    else return false;
    if (p.size() == 4) {
      if (!vh::parse_u64(p[3], v)) return false;
      r = r.at(uint32_t(v));
    }
    out = r;
    return true;
  }
  if (p[0] == "m" && p.size() >= 2) {
    if (!vh::parse_u64(p[1], v)) return false;
    a64::Gp base = a64::Gp::make_r64(uint32_t(v));
    a64::Mem m = a64::ptr(base);
    if (p.size() == 4) {
      if (p[3].size() < 2) return false;
      if (!vh::parse_u64(p[3].substr(1), v)) return false;
      bool reg = p[3][0] == 'x';
      if (p[2] == "post") m = reg ? a64::ptr_post(base, a64::Gp::make_r64(uint32_t(v))) : a64::ptr_post(base, int32_t(v));
      else if (p[2] == "off") m = a64::ptr(base, int32_t(v));
      else return false;
    }
    out = m;
    return true;
  }
  return false;
}

static std::string a64_query(const std::vector<std::string>& w) {
  if (w.size() < 2) return "bad-line";
  InstId id = InstAPI::string_to_inst_id(Arch::kAArch64, w[1].data(), w[1].size());
  if (id == 0) {
    // section 7 #16: the name lookup fails for many AArch64 names; `<name>_v` ids are found by scanning the names
    for (InstId i = 1; i < a64::Inst::_kIdCount; i++) {
      String s;
      InstAPI::inst_id_to_string(Arch::kAArch64, i, InstStringifyOptions::kNone, s);
      if (w[1] == s.data()) { id = i; break; }
    }
    if (id == 0) return "noinst";
  }
  Operand ops[Globals::kMaxOpCount];
  size_t n = w.size() - 2;
  if (n > Globals::kMaxOpCount) return "bad-opcount";
  for (size_t i = 0; i < n; i++) if (!parse_a64_op(w[2 + i], ops[i])) return "bad-op";
  BaseInst inst(id);
  std::string out = "id=" + std::to_string(id);
  Error verr = InstAPI::validate(Arch::kAArch64, inst, ops, n, ValidationFlags::kNone);
  out += std::string(" v=") + DebugUtils::error_as_string(verr);
  {
    CodeHolder code;
    Environment env(Arch::kAArch64);
    code.init(env);
    a64::Assembler a(&code);
    Error e = a._emit_op_array(id, ops, n);
    if (e != Error::kOk) out += std::string(" e=!") + DebugUtils::error_as_string(e);
    else {
      CodeBuffer& b = code.text_section()->buffer();
      out += " e=" + vh::bytes_to_hex(b.data(), b.size());
    }
  }
  InstRWInfo rw;
  memset(&rw, 0, sizeof(rw));
  Error rerr = InstAPI::query_rw_info(Arch::kAArch64, inst, ops, n, &rw);
  out += std::string(" rw=") + DebugUtils::error_as_string(rerr);
  if (rerr == Error::kOk) out += " ops=" + rw_ops_out(rw, n);
  for (char& c : out) if (c == '\n') c = ' ';
  return out;
}


// ---- host execution differ (SEARCH SUPPORT / TESTING, never the deciding step) ---------------------------------------------------
//   e <name> <opts> <extra> <undefined-flags eflags-bits hex> <nstates> <seed> <op>*
// Encodes the instruction with the real assembler between a register/flag/memory load and store sequence, runs it in a forked
// child on random states and compares what changed with what query_rw_info reports as written (W:), what query_rw_info claims is
// zero-extended (Z:), and whether results depend on anything not reported as read (R:).  Memory operands must use base rbp.
#include <csetjmp>
#include <csignal>
#include <sys/wait.h>
#include <unistd.h>

struct alignas(64) ExecState {
  uint64_t gp[16];
  uint64_t flags;
  uint64_t k[8];
  uint8_t vec[32][64];
  uint8_t mem[256];
};
static const uint64_t kArithFlags = 0x8D5;   // OF SF ZF AF PF CF
static sigjmp_buf exec_jmp;
static volatile sig_atomic_t exec_sig;
static void exec_handler(int sig) { exec_sig = sig; siglongjmp(exec_jmp, 1); }

struct Xs { uint64_t s; uint64_t next() { s ^= s << 13; s ^= s >> 7; s ^= s << 17; return s; } };

static uint64_t eflags_of(uint32_t rwflags) {
  uint64_t e = 0;
  if (rwflags & 0x1) e |= 0x800;   // OF
  if (rwflags & 0x2) e |= 0x1;     // CF
  if (rwflags & 0x4) e |= 0x40;    // ZF
  if (rwflags & 0x8) e |= 0x80;    // SF
  if (rwflags & 0x100) e |= 0x10;  // AF
  if (rwflags & 0x200) e |= 0x4;   // PF
  if (rwflags & 0x400) e |= 0x400; // DF
  return e;
}

struct ExecPlan {
  uint64_t gpW[16] = {0}, gpR[16] = {0}, gpZ[16] = {0};
  uint64_t vecW[32] = {0}, vecR[32] = {0}, vecZ[32] = {0};
  uint64_t kW[8] = {0}, kR[8] = {0};
  uint64_t flagsW = 0, flagsR = 0;
  bool memW = false, memR = false, hasMem = false;
  uint32_t memSize = 0;
  int vsibIndex = -1;
};

typedef void (*ExecFn)(ExecState* in, ExecState* out);

static std::string exec_child(ExecFn fn, const ExecPlan& pl, uint64_t undefFlags, int nstates, uint64_t seed) {
  static ExecState in1, in2, out1, out2;
  static ExecState work;   // memory the instruction really touches lives in work.mem
  Xs rng{seed * 0x9E3779B97F4A7C15ull + 12345};
  struct sigaction sa;
  memset(&sa, 0, sizeof(sa));
  sa.sa_handler = exec_handler;
  sa.sa_flags = SA_NODEFER;
  for (int sg : {SIGSEGV, SIGBUS, SIGFPE, SIGILL, SIGTRAP, SIGALRM}) sigaction(sg, &sa, nullptr);
  alarm(60);   // wall clock (an instruction may block); generous because the machine may be heavily loaded
  uint64_t cur_flags = __builtin_ia32_readeflags_u64() & ~(kArithFlags | 0x400);
  int faults = 0, done = 0;
  std::string issues;
  auto add_issue = [&](const std::string& s) { if (issues.find(s) == std::string::npos && issues.size() < 400) issues += " " + s; };
  auto fill = [&](ExecState& st) {
    for (auto& g : st.gp) g = rng.next();
    // a few small / boundary values make shifts, divides and compares take their ordinary paths too
    for (auto& g : st.gp) { uint64_t r = rng.next() % 8; if (r == 0) g &= 0xFF; else if (r == 1) g = 0; else if (r == 2) g = ~0ull; }
    st.flags = cur_flags | (rng.next() & kArithFlags);
    for (auto& k : st.k) k = rng.next();
    for (auto& v : st.vec) for (int b = 0; b < 64; b += 8) { uint64_t x = rng.next(); memcpy(v + b, &x, 8); }
    for (int b = 0; b < 256; b += 8) { uint64_t x = rng.next(); memcpy(st.mem + b, &x, 8); }
  };
  auto fix = [&](ExecState& st) {
    st.gp[5] = uint64_t(uintptr_t(&work.mem[64])) - 16;     // [rbp+16] = work.mem[64]
    if (pl.vsibIndex >= 0) for (int b = 0; b < 64; b += 8) { uint64_t x = (rng.next() % 4) * 8; memcpy(st.vec[pl.vsibIndex] + b, &x, 8); }
  };
  auto run = [&](ExecState& in, ExecState& out) -> bool {
    memcpy(work.mem, in.mem, 256);
    exec_sig = 0;
    if (sigsetjmp(exec_jmp, 1) == 0) { fn(&in, &out); memcpy(out.mem, work.mem, 256); return true; }
    return false;
  };
  for (int st = 0; st < nstates; st++) {
    fill(in1); fix(in1);
    if (!run(in1, out1)) {
      if (exec_sig == SIGILL) return "skip SIGILL";
      if (exec_sig == SIGALRM) return "skip timeout";
      faults++;
      continue;
    }
    done++;
    char buf[96];
    // A: everything that changed is reported as written; claimed zero extension is zero
    for (int r = 0; r < 16; r++) {
      if (r == 4 || r == 15 || r == 5) continue;
      uint64_t ch = 0;
      for (int b = 0; b < 8; b++) if (((in1.gp[r] ^ out1.gp[r]) >> (8 * b)) & 0xFF) ch |= 1ull << b;
      if (ch & ~(pl.gpW[r] | pl.gpZ[r])) { snprintf(buf, sizeof(buf), "W:gp%d:%llx", r, (unsigned long long)(ch & ~(pl.gpW[r] | pl.gpZ[r]))); add_issue(buf); }
      for (int b = 0; b < 8; b++) if (((pl.gpZ[r] & ~pl.gpW[r]) >> b) & 1) if ((out1.gp[r] >> (8 * b)) & 0xFF) { snprintf(buf, sizeof(buf), "Z:gp%d", r); add_issue(buf); }
    }
    for (int r = 0; r < 32; r++) {
      uint64_t ch = 0;
      for (int b = 0; b < 64; b++) if (in1.vec[r][b] != out1.vec[r][b]) ch |= 1ull << b;
      if (ch & ~(pl.vecW[r] | pl.vecZ[r])) { snprintf(buf, sizeof(buf), "W:vec%d:%llx", r, (unsigned long long)(ch & ~(pl.vecW[r] | pl.vecZ[r]))); add_issue(buf); }
      for (int b = 0; b < 64; b++) if (((pl.vecZ[r] & ~pl.vecW[r]) >> b) & 1) if (out1.vec[r][b]) { snprintf(buf, sizeof(buf), "Z:vec%d", r); add_issue(buf); break; }
    }
    for (int r = 0; r < 8; r++) {
      uint64_t ch = 0;
      for (int b = 0; b < 8; b++) if (((in1.k[r] ^ out1.k[r]) >> (8 * b)) & 0xFF) ch |= 1ull << b;
      if (ch & ~pl.kW[r]) { snprintf(buf, sizeof(buf), "W:k%d:%llx", r, (unsigned long long)(ch & ~pl.kW[r])); add_issue(buf); }
    }
    if ((in1.flags ^ out1.flags) & (kArithFlags | 0x400) & ~pl.flagsW) { snprintf(buf, sizeof(buf), "W:flags:%llx", (unsigned long long)((in1.flags ^ out1.flags) & (kArithFlags | 0x400) & ~pl.flagsW)); add_issue(buf); }
    for (int b = 0; b < 256; b++) if (in1.mem[b] != out1.mem[b]) {
      bool inside = pl.hasMem && pl.memW && b >= 64 && uint32_t(b) < 64 + (pl.memSize ? pl.memSize : 64);
      if (!inside) { snprintf(buf, sizeof(buf), "W:mem+%d", b - 64); add_issue(buf); break; }
    }
    // B: re-randomise everything not reported as read; whatever was really written must come out the same
    in2 = in1;
    ExecState rnd;
    fill(rnd);
    for (int r = 0; r < 16; r++) {
      if (r == 4 || r == 15 || r == 5) continue;
      uint64_t keep = 0;
      for (int b = 0; b < 8; b++) if ((pl.gpR[r] >> b) & 1) keep |= 0xFFull << (8 * b);
      in2.gp[r] = (in1.gp[r] & keep) | (rnd.gp[r] & ~keep);
    }
    for (int r = 0; r < 32; r++) if (r != pl.vsibIndex) for (int b = 0; b < 64; b++) if (!((pl.vecR[r] >> b) & 1)) in2.vec[r][b] = rnd.vec[r][b];
    for (int r = 0; r < 8; r++) {
      uint64_t keep = 0;
      for (int b = 0; b < 8; b++) if ((pl.kR[r] >> b) & 1) keep |= 0xFFull << (8 * b);
      in2.k[r] = (in1.k[r] & keep) | (rnd.k[r] & ~keep);
    }
    in2.flags = (in1.flags & ~kArithFlags) | (in1.flags & pl.flagsR & kArithFlags) | (rnd.flags & kArithFlags & ~pl.flagsR);
    for (int b = 0; b < 256; b++) {
      bool rd = pl.hasMem && pl.memR && b >= 64 && uint32_t(b) < 64 + (pl.memSize ? pl.memSize : 64);
      if (!rd) in2.mem[b] = rnd.mem[b];
    }
    if (!run(in2, out2)) { add_issue("R:fault-depends-on-unreported-input"); continue; }
    for (int r = 0; r < 16; r++) {
      if (r == 4 || r == 15 || r == 5) continue;
      for (int b = 0; b < 8; b++) {
        if (!(((pl.gpW[r] | pl.gpZ[r]) >> b) & 1)) continue;
        uint8_t a = uint8_t(out1.gp[r] >> (8 * b)), c = uint8_t(out2.gp[r] >> (8 * b));
        bool written = a != uint8_t(in1.gp[r] >> (8 * b)) || c != uint8_t(in2.gp[r] >> (8 * b));
        if (written && a != c) { snprintf(buf, sizeof(buf), "R:gp%d", r); add_issue(buf); break; }
      }
    }
    for (int r = 0; r < 32; r++) for (int b = 0; b < 64; b++) {
      if (!(((pl.vecW[r] | pl.vecZ[r]) >> b) & 1)) continue;
      bool written = out1.vec[r][b] != in1.vec[r][b] || out2.vec[r][b] != in2.vec[r][b];
      if (written && out1.vec[r][b] != out2.vec[r][b]) { snprintf(buf, sizeof(buf), "R:vec%d", r); add_issue(buf); break; }
    }
    for (int r = 0; r < 8; r++) for (int b = 0; b < 8; b++) {
      if (!((pl.kW[r] >> b) & 1)) continue;
      uint8_t a = uint8_t(out1.k[r] >> (8 * b)), c = uint8_t(out2.k[r] >> (8 * b));
      bool written = a != uint8_t(in1.k[r] >> (8 * b)) || c != uint8_t(in2.k[r] >> (8 * b));
      if (written && a != c) { snprintf(buf, sizeof(buf), "R:k%d", r); add_issue(buf); break; }
    }
    if ((out1.flags ^ out2.flags) & pl.flagsW & kArithFlags & ~undefFlags) { snprintf(buf, sizeof(buf), "R:flags:%llx", (unsigned long long)((out1.flags ^ out2.flags) & pl.flagsW & kArithFlags & ~undefFlags)); add_issue(buf); }
    if (pl.hasMem && pl.memW) for (uint32_t b = 64; b < 64 + (pl.memSize ? pl.memSize : 64); b++) {
      bool written = out1.mem[b] != in1.mem[b] || out2.mem[b] != in2.mem[b];
      if (written && out1.mem[b] != out2.mem[b]) { add_issue("R:mem"); break; }
    }
  }
  char head[64];
  snprintf(head, sizeof(head), "ok n=%d faults=%d", done, faults);
  return std::string(head) + (issues.empty() ? " clean" : issues);
}

static std::string x86_exec(const std::vector<std::string>& w) {
  if (w.size() < 7) return "bad-line";
  InstId id = InstAPI::string_to_inst_id(Arch::kX64, w[1].data(), w[1].size());
  if (id == 0) return "skip noinst";
  InstOptions opts = InstOptions::kNone;
  if (w[2] != "-") for (char c : w[2]) {
    if (c == 'z') opts |= InstOptions::kX86_ZMask; else if (c == 'E') opts |= InstOptions::kX86_Evex;
    else if (c == 'e') opts |= InstOptions::kX86_ER; else if (c == 's') opts |= InstOptions::kX86_SAE;
    else if (c == 'd') opts |= InstOptions::kX86_RD_SAE; else if (c == 'u') opts |= InstOptions::kX86_RU_SAE;
    else if (c == 'o') opts |= InstOptions::kX86_RZ_SAE; else return "skip opts";
  }
  uint64_t undef, nst, seed;
  if (!vh::parse_hex(w[4], undef) || !vh::parse_u64(w[5], nst) || !vh::parse_u64(w[6], seed)) return "bad-line";
  BaseInst inst(id, opts);
  ExecPlan pl;
  if (w[3] != "-") {
    uint64_t kid;
    if (w[3][0] != 'k' || !vh::parse_u64(w[3].substr(1), kid) || kid > 7) return "bad-extra";
    inst = BaseInst(id, opts, Reg::from_type_and_id(RegType::kMask, uint32_t(kid)));
    pl.kR[kid] = 0xFF;
  }
  Operand ops[Globals::kMaxOpCount];
  size_t n = w.size() - 7;
  if (n > Globals::kMaxOpCount) return "bad-opcount";
  for (size_t i = 0; i < n; i++) if (!parse_x86_op(w[7 + i], ops[i])) return "bad-op";
  if (InstAPI::validate(Arch::kX64, inst, ops, n, ValidationFlags::kNone) != Error::kOk) return "skip invalid";
  InstRWInfo rw;
  memset(&rw, 0, sizeof(rw));
  if (InstAPI::query_rw_info(Arch::kX64, inst, ops, n, &rw) != Error::kOk) return "skip rw-error";
  pl.flagsW = eflags_of(uint32_t(rw._write_flags));
  pl.flagsR = eflags_of(uint32_t(rw._read_flags));
  for (size_t i = 0; i < n; i++) {
    const OpRWInfo& o = rw._operands[i];
    uint64_t fl = uint64_t(o._op_flags);
    if (ops[i].is_reg()) {
      const Reg& r = ops[i].as<Reg>();
      uint32_t rid = r.id();
      uint64_t wm = (fl & 2) ? o._write_byte_mask : 0, rm = (fl & 1) ? o._read_byte_mask : 0, zm = o._extend_byte_mask;
      if (r.is_gp()) {
        if (rid == 4 || rid == 15 || rid == 5) return "skip reserved-register";
        unsigned sh = r.reg_type() == RegType::kGp8Hi ? 1 : 0;
        pl.gpW[rid] |= (wm << sh) & 0xFF; pl.gpR[rid] |= (rm << sh) & 0xFF; pl.gpZ[rid] |= (zm << sh) & 0xFF;
      }
      else if (r.is_vec()) { if (rid > 31) return "skip reg"; pl.vecW[rid] |= wm; pl.vecR[rid] |= rm; pl.vecZ[rid] |= zm; }
      else if (r.reg_type() == RegType::kMask) { if (rid > 7) return "skip reg"; pl.kW[rid] |= (wm | zm) & 0xFF; pl.kR[rid] |= rm & 0xFF; }
      else return "skip operand-kind";
    }
    else if (ops[i].is_mem()) {
      const x86::Mem& m = ops[i].as<x86::Mem>();
      if (pl.hasMem || !m.has_base_reg() || m.base_id() != 5) return "skip memory-form";
      pl.hasMem = true;
      pl.memW = (fl & 2) != 0;
      pl.memR = (fl & 1) != 0;
      pl.memSize = m.size();
      if (m.has_index_reg()) {
        if (!Reg::from_type_and_id(m.index_type(), 0).is_vec()) return "skip index";
        pl.vsibIndex = int(m.index_id());
        pl.vecR[pl.vsibIndex] = ~0ull;
      }
    }
  }
  // code: load state, instruction, store state
  JitRuntime rt;
  CodeHolder code;
  code.init(rt.environment());
  x86::Assembler a(&code);
  using namespace x86;
  for (const Gp& r : {rbx, rbp, r12, r13, r14, r15}) a.push(r);
  a.push(rsi);
  a.mov(r15, rdi);
  for (uint32_t i = 0; i < 8; i++) a.kmovq(KReg(i), qword_ptr(r15, int32_t(offsetof(ExecState, k) + 8 * i)));
  for (uint32_t i = 0; i < 32; i++) a.vmovdqu64(Vec::make_v512(i), zmmword_ptr(r15, int32_t(offsetof(ExecState, vec) + 64 * i)));
  a.push(qword_ptr(r15, int32_t(offsetof(ExecState, flags))));
  a.popfq();
  for (uint32_t i = 0; i < 15; i++) if (i != 4) a.mov(Gp::make_r64(i), qword_ptr(r15, int32_t(offsetof(ExecState, gp) + 8 * i)));
  a.set_inst_options(opts);
  if (inst.has_extra_reg()) a.set_extra_reg(inst.extra_reg());
  if (a._emit_op_array(id, ops, n) != Error::kOk) return "skip not-encodable";
  a.mov(r15, qword_ptr(rsp));
  for (uint32_t i = 0; i < 15; i++) if (i != 4) a.mov(qword_ptr(r15, int32_t(offsetof(ExecState, gp) + 8 * i)), Gp::make_r64(i));
  a.pushfq();
  a.pop(qword_ptr(r15, int32_t(offsetof(ExecState, flags))));
  a.cld();
  for (uint32_t i = 0; i < 8; i++) a.kmovq(qword_ptr(r15, int32_t(offsetof(ExecState, k) + 8 * i)), KReg(i));
  for (uint32_t i = 0; i < 32; i++) a.vmovdqu64(zmmword_ptr(r15, int32_t(offsetof(ExecState, vec) + 64 * i)), Vec::make_v512(i));
  a.add(rsp, 8);
  for (const Gp& r : {r15, r14, r13, r12, rbp, rbx}) a.pop(r);
  a.ret();
  ExecFn fn = nullptr;
  if (rt.add(&fn, &code) != Error::kOk) return "skip jit";
  int fds[2];
  if (pipe(fds) != 0) return "skip pipe";
  fflush(stdout);
  pid_t pid = fork();
  if (pid == 0) {
    close(fds[0]);
    std::string r = exec_child(fn, pl, undef, int(nst), seed);
    ssize_t wr = write(fds[1], r.data(), r.size());
    (void)wr;
    _exit(0);
  }
  close(fds[1]);
  std::string out;
  char buf[512];
  ssize_t k;
  while ((k = read(fds[0], buf, sizeof(buf))) > 0) out.append(buf, size_t(k));
  close(fds[0]);
  int status = 0;
  waitpid(pid, &status, 0);
  rt.release(fn);
  if (out.empty()) return "skip child-died status=" + std::to_string(status);
  return out;
}

// ---- table dump ------------------------------------------------------------------------------------------------------------

static void dump_tables() {
  using namespace asmjit::x86;
  printf("T sizes idcount=%u rwa=%zu rwb=%zu op=%zu rm=%zu rwflags=%zu addl=%zu instflags=%zu\n", unsigned(Inst::_kIdCount),
         size_t(ASMJIT_ARRAY_SIZE(InstDB::rw_info_a_table)), size_t(ASMJIT_ARRAY_SIZE(InstDB::rw_info_b_table)),
         size_t(ASMJIT_ARRAY_SIZE(InstDB::rw_info_op_table)), size_t(ASMJIT_ARRAY_SIZE(InstDB::rw_info_rm_table)),
         size_t(ASMJIT_ARRAY_SIZE(InstDB::rw_flags_info_table)), size_t(ASMJIT_ARRAY_SIZE(InstDB::additional_info_table)),
         size_t(ASMJIT_ARRAY_SIZE(InstDB::inst_flags_table)));
  for (const RegKind& k : reg_kinds) {
    Reg r = Reg::from_type_and_id(k.type, 1);
    printf("T reg %s %u %u %u\n", k.name, unsigned(k.type), unsigned(r.reg_group()), unsigned(r.size()));
  }
  for (uint32_t id = 0; id < Inst::_kIdCount; id++) {
    String name;
    InstAPI::inst_id_to_string(Arch::kX64, id, InstStringifyOptions::kNone, name);
    const InstDB::InstInfo& ii = InstDB::_inst_info_table[id];
    const InstDB::CommonInfo& ci = InstDB::_inst_common_info_table[ii._common_info_index];
    printf("T inst %u %s %u %u %u %u %u\n", id, id ? name.data() : "<none>", unsigned(InstDB::rw_info_index_a_table[id]),
           unsigned(InstDB::rw_info_index_b_table[id]), unsigned(ii._additional_info_index),
           unsigned(ci.has_avx512_flag(InstDB::Avx512Flags::kImplicitZ)), unsigned(ci.prefer_evex()));
  }
  for (int t = 0; t < 2; t++) {
    size_t n = t == 0 ? ASMJIT_ARRAY_SIZE(InstDB::rw_info_a_table) : ASMJIT_ARRAY_SIZE(InstDB::rw_info_b_table);
    for (size_t i = 0; i < n; i++) {
      const InstDB::RWInfo& r = t == 0 ? InstDB::rw_info_a_table[i] : InstDB::rw_info_b_table[i];
      printf("T rw%c %zu %u %u %u %u %u %u %u %u\n", t == 0 ? 'a' : 'b', i, unsigned(r.category), unsigned(r.rm_info), unsigned(r.op_info_index[0]),
             unsigned(r.op_info_index[1]), unsigned(r.op_info_index[2]), unsigned(r.op_info_index[3]), unsigned(r.op_info_index[4]),
             unsigned(r.op_info_index[5]));
    }
  }
  for (size_t i = 0; i < ASMJIT_ARRAY_SIZE(InstDB::rw_info_op_table); i++) {
    const InstDB::RWInfoOp& o = InstDB::rw_info_op_table[i];
    printf("T op %zu %llx %llx %u %u %x\n", i, (unsigned long long)o.r_byte_mask, (unsigned long long)o.w_byte_mask, unsigned(o.phys_id),
           unsigned(o.consecutive_lead_count), unsigned(o.flags));
  }
  for (size_t i = 0; i < ASMJIT_ARRAY_SIZE(InstDB::rw_info_rm_table); i++) {
    const InstDB::RWInfoRm& r = InstDB::rw_info_rm_table[i];
    printf("T rm %zu %u %u %u %u %u\n", i, unsigned(r.category), unsigned(r.rm_ops_mask), unsigned(r.fixed_size), unsigned(r.flags), unsigned(r.rm_feature));
  }
  for (size_t i = 0; i < ASMJIT_ARRAY_SIZE(InstDB::rw_flags_info_table); i++) {
    printf("T rwflags %zu %x %x\n", i, unsigned(InstDB::rw_flags_info_table[i].read_flags), unsigned(InstDB::rw_flags_info_table[i].write_flags));
  }
  for (size_t i = 0; i < ASMJIT_ARRAY_SIZE(InstDB::additional_info_table); i++) {
    const InstDB::AdditionalInfo& a = InstDB::additional_info_table[i];
    printf("T addl %zu %u %u %u %u %u %u %u %u\n", i, unsigned(a._inst_flags_index), unsigned(a._rw_flags_index), unsigned(a._features[0]),
           unsigned(a._features[1]), unsigned(a._features[2]), unsigned(a._features[3]), unsigned(a._features[4]), unsigned(a._features[5]));
  }
  for (size_t i = 0; i < ASMJIT_ARRAY_SIZE(InstDB::inst_flags_table); i++) {
    printf("T instflags %zu %x\n", i, unsigned(InstDB::inst_flags_table[i]));
  }
  printf("T end\n");
}

int main() {
  return vh::line_loop([](const std::string& line) -> std::string {
    std::vector<std::string> w = vh::words(line);
    if (w.empty()) return "";
    if (w[0] == "tables") { dump_tables(); return ""; }
    if (w[0] == "x") return x86_query(w);
    if (w[0] == "a") return a64_query(w);
    if (w[0] == "e") return x86_exec(w);
    return "bad-line";
  });
}
