// C12 harness: InstAPI::validate / query_rw_info / query_features (+ the x86 assembler's encoding) of the real code behind a
// line protocol, and a dump of the generated RW / flags / feature tables as the compiler sees them.
//
//   tables                                   -> many "T ..." lines, terminated by "T end"
//   x <arch> <name> <opts> <extra> <op>*     -> one answer line (arch: x64|x86; opts: letters z e s E V 3 or '-'; extra: '-' or k<id>)
//   a <name> <op>*                           -> one answer line (AArch64 query_rw_info)
//
// x86 operand tokens:  r.<kind>.<id>   kind in gpbl gpbh gpw gpd gpq xmm ymm zmm k tmm sreg creg dreg mm st bnd
//                      m.<size>.<base>.<index>[.abs]   base: - | q<id> | d<id>;  index: - | q<id> | d<id> | x<id> | y<id> | z<id>
//                      i.<unsigned decimal>
// a64 operand tokens:  v.<id>.<elem>[.<idx>]  elem in 8b 16b 4h 8h 2s 4s 1d 2d b h s d (idx = element index) ; x.<id> ; w.<id>
//                      m.<baseid>[.post.x<id>|.post.i<imm>|.off.i<imm>]
#include <asmjit/core.h>
#include <asmjit/x86.h>
#include <asmjit/a64.h>
// the generated tables are file-visible only through the private header; including the TU gives their sizes as well
#include <asmjit/x86/x86instdb.cpp>
#include "vh.h"

using namespace asmjit;

struct RegKind { const char* name; RegType type; };
static const RegKind reg_kinds[] = {
  {"gpbl", RegType::kGp8Lo}, {"gpbh", RegType::kGp8Hi}, {"gpw", RegType::kGp16}, {"gpd", RegType::kGp32}, {"gpq", RegType::kGp64},
  {"xmm", RegType::kVec128}, {"ymm", RegType::kVec256}, {"zmm", RegType::kVec512}, {"k", RegType::kMask}, {"tmm", RegType::kTile},
  {"sreg", RegType::kSegment}, {"creg", RegType::kControl}, {"dreg", RegType::kDebug}, {"mm", RegType::kX86_Mm},
  {"st", RegType::kX86_St}, {"bnd", RegType::kX86_Bnd}
};

static bool reg_by_kind(const std::string& kind, uint32_t id, Reg& out) {
  for (const RegKind& k : reg_kinds) {
    if (kind == k.name) { out = Reg::from_type_and_id(k.type, id); return true; }
  }
  return false;
}

static std::vector<std::string> split(const std::string& s, char sep) {
  std::vector<std::string> out;
  size_t b = 0;
  for (;;) {
    size_t e = s.find(sep, b);
    if (e == std::string::npos) { out.push_back(s.substr(b)); break; }
    out.push_back(s.substr(b, e - b));
    b = e + 1;
  }
  return out;
}

static bool parse_short_reg(const std::string& t, Reg& out) {   // q3 d3 x5 y5 z5
  if (t.size() < 2) return false;
  uint64_t id;
  if (!vh::parse_u64(t.substr(1), id)) return false;
  switch (t[0]) {
    case 'q': out = Reg::from_type_and_id(RegType::kGp64, uint32_t(id)); return true;
    case 'd': out = Reg::from_type_and_id(RegType::kGp32, uint32_t(id)); return true;
    case 'x': out = Reg::from_type_and_id(RegType::kVec128, uint32_t(id)); return true;
    case 'y': out = Reg::from_type_and_id(RegType::kVec256, uint32_t(id)); return true;
    case 'z': out = Reg::from_type_and_id(RegType::kVec512, uint32_t(id)); return true;
  }
  return false;
}

static bool parse_x86_op(const std::string& tok, Operand& out) {
  std::vector<std::string> p = split(tok, '.');
  if (p.empty()) return false;
  uint64_t v;
  if (p[0] == "r" && p.size() == 3) {
    Reg r;
    if (!vh::parse_u64(p[2], v) || !reg_by_kind(p[1], uint32_t(v), r)) return false;
    out = r;
    return true;
  }
  if (p[0] == "i" && p.size() == 2) {
    if (!vh::parse_u64(p[1], v)) return false;
    out = Imm(v);
    return true;
  }
  if (p[0] == "m" && (p.size() == 4 || p.size() == 5)) {
    if (!vh::parse_u64(p[1], v)) return false;
    uint32_t size = uint32_t(v);
    bool abs64 = p.size() == 5 && p[4] == "abs";
    Reg base, index;
    bool hb = p[2] != "-", hi = p[3] != "-";
    if (hb && !parse_short_reg(p[2], base)) return false;
    if (hi && !parse_short_reg(p[3], index)) return false;
    x86::Mem m;
    if (abs64) { m = x86::Mem(uint64_t(0x1122334455667788ull), size); m.set_addr_abs(); }
    else if (hb && hi) m = x86::Mem(base, index, 0, 16, size);
    else if (hb) m = x86::Mem(base, 16, size);
    else if (hi) m = x86::Mem(uint64_t(0x1000), index, 0, size);
    else m = x86::Mem(uint64_t(0x1000), size);
    out = m;
    return true;
  }
  return false;
}

static std::string rw_ops_out(const InstRWInfo& rw, size_t n) {
  std::string s;
  char buf[160];
  for (size_t i = 0; i < n; i++) {
    const OpRWInfo& o = rw._operands[i];
    snprintf(buf, sizeof(buf), "%s%x,%u,%u,%u,%llx,%llx,%llx", i ? "|" : "", unsigned(o._op_flags), unsigned(o._phys_id), unsigned(o._rm_size),
             unsigned(o._consecutive_lead_count), (unsigned long long)o._read_byte_mask, (unsigned long long)o._write_byte_mask,
             (unsigned long long)o._extend_byte_mask);
    s += buf;
  }
  if (n == 0) s = "-";
  return s;
}

static std::string features_out(const CpuFeatures& f) {
  std::string s;
  CpuFeatures::Iterator it = f.iterator();
  while (it.has_next()) {
    if (!s.empty()) s += ",";
    s += std::to_string(unsigned(it.next()));
  }
  return s.empty() ? "-" : s;
}

static std::string x86_query(const std::vector<std::string>& w) {
  if (w.size() < 5) return "bad-line";
  Arch arch = w[1] == "x64" ? Arch::kX64 : w[1] == "x86" ? Arch::kX86 : Arch::kUnknown;
  if (arch == Arch::kUnknown) return "bad-arch";
  InstId id = InstAPI::string_to_inst_id(arch, w[2].data(), w[2].size());
  if (id == 0) return "noinst";
  InstOptions opts = InstOptions::kNone;
  if (w[3] != "-") {
    for (char c : w[3]) {
      switch (c) {
        case 'z': opts |= InstOptions::kX86_ZMask; break;
        case 'e': opts |= InstOptions::kX86_ER; break;
        case 's': opts |= InstOptions::kX86_SAE; break;
        case 'E': opts |= InstOptions::kX86_Evex; break;
        case 'V': opts |= InstOptions::kX86_Vex; break;
        case '3': opts |= InstOptions::kX86_Vex3; break;
        default: return "bad-opts";
      }
    }
  }
  BaseInst inst(id, opts);
  if (w[4] != "-") {
    uint64_t kid;
    if (w[4][0] != 'k' || !vh::parse_u64(w[4].substr(1), kid)) return "bad-extra";
    inst = BaseInst(id, opts, Reg::from_type_and_id(RegType::kMask, uint32_t(kid)));
  }
  Operand ops[Globals::kMaxOpCount];
  size_t n = w.size() - 5;
  if (n > Globals::kMaxOpCount) return "bad-opcount";
  for (size_t i = 0; i < n; i++) {
    if (!parse_x86_op(w[5 + i], ops[i])) return "bad-op";
  }

  std::string out = "id=" + std::to_string(id);
  Error verr = InstAPI::validate(arch, inst, ops, n, ValidationFlags::kNone);
  out += std::string(" v=") + DebugUtils::error_as_string(verr);

  // encoding through the real assembler (tells VEX from EVEX, i.e. which database form the operands select)
  {
    CodeHolder code;
    Environment env(arch);
    code.init(env);
    x86::Assembler a(&code);
    a.set_inst_options(opts);
    if (inst.has_extra_reg()) a.set_extra_reg(inst.extra_reg());
    Error e = a._emit_op_array(id, ops, n);
    if (e != Error::kOk) out += std::string(" e=!") + DebugUtils::error_as_string(e);
    else {
      CodeBuffer& b = code.text_section()->buffer();
      out += " e=" + vh::bytes_to_hex(b.data(), b.size());
    }
  }

  InstRWInfo rw;
  memset(&rw, 0, sizeof(rw));
  Error rerr = InstAPI::query_rw_info(arch, inst, ops, n, &rw);
  out += std::string(" rw=") + DebugUtils::error_as_string(rerr);
  if (rerr == Error::kOk) {
    char buf[200];
    snprintf(buf, sizeof(buf), " if=%x rf=%x wf=%x rmf=%u x=%x,%llx,%llx", unsigned(rw._inst_flags), unsigned(rw._read_flags), unsigned(rw._write_flags),
             unsigned(rw._rm_feature), unsigned(rw._extra_reg._op_flags), (unsigned long long)rw._extra_reg._read_byte_mask,
             (unsigned long long)rw._extra_reg._write_byte_mask);
    out += buf;
    out += " ops=" + rw_ops_out(rw, n);
  }
  CpuFeatures f;
  Error ferr = InstAPI::query_features(arch, inst, ops, n, &f);
  out += std::string(" qf=") + DebugUtils::error_as_string(ferr);
  if (ferr == Error::kOk) out += " f=" + features_out(f);
  for (char& c : out) if (c == '\n') c = ' ';
  return out;
}

// ---- AArch64 ---------------------------------------------------------------------------------------------------------------

static bool parse_a64_op(const std::string& tok, Operand& out) {
  std::vector<std::string> p = split(tok, '.');
  uint64_t v;
  if (p.size() >= 2 && (p[0] == "x" || p[0] == "w")) {
    if (!vh::parse_u64(p[1], v)) return false;
    out = p[0] == "x" ? a64::Gp::make_r64(uint32_t(v)) : a64::Gp::make_r32(uint32_t(v));
    return true;
  }
  if (p[0] == "i" && p.size() == 2) {
    if (!vh::parse_u64(p[1], v)) return false;
    out = Imm(v);
    return true;
  }
  if (p[0] == "v" && p.size() >= 3) {
    if (!vh::parse_u64(p[1], v)) return false;
    uint32_t id = uint32_t(v);
    a64::Vec r;
    const std::string& e = p[2];
    if (e == "8b") r = a64::Vec::make_v64(id).b8();
    else if (e == "16b") r = a64::Vec::make_v128(id).b16();
    else if (e == "4h") r = a64::Vec::make_v64(id).h4();
    else if (e == "8h") r = a64::Vec::make_v128(id).h8();
    else if (e == "2s") r = a64::Vec::make_v64(id).s2();
    else if (e == "4s") r = a64::Vec::make_v128(id).s4();
    else if (e == "1d") r = a64::Vec::make_v64(id);
    else if (e == "2d") r = a64::Vec::make_v128(id).d2();
    else if (e == "b") r = a64::Vec::make_v128(id).b();
    else if (e == "h") r = a64::Vec::make_v128(id).h();
    else if (e == "s") r = a64::Vec::make_v128(id).s();
    else if (e == "d") r = a64::Vec::make_v128(id).d();
    else return false;
    if (p.size() == 4) {
      if (!vh::parse_u64(p[3], v)) return false;
      r = r.at(uint32_t(v));
    }
    out = r;
    return true;
  }
  if (p[0] == "m" && p.size() >= 2) {
    if (!vh::parse_u64(p[1], v)) return false;
    a64::Gp base = a64::Gp::make_r64(uint32_t(v));
    a64::Mem m = a64::ptr(base);
    if (p.size() == 4) {
      if (p[3].size() < 2) return false;
      if (!vh::parse_u64(p[3].substr(1), v)) return false;
      bool reg = p[3][0] == 'x';
      if (p[2] == "post") m = reg ? a64::ptr_post(base, a64::Gp::make_r64(uint32_t(v))) : a64::ptr_post(base, int32_t(v));
      else if (p[2] == "off") m = a64::ptr(base, int32_t(v));
      else return false;
    }
    out = m;
    return true;
  }
  return false;
}

static std::string a64_query(const std::vector<std::string>& w) {
  if (w.size() < 2) return "bad-line";
  InstId id = InstAPI::string_to_inst_id(Arch::kAArch64, w[1].data(), w[1].size());
  if (id == 0) {
    // section 7 #16: the name lookup fails for many AArch64 names; `<name>_v` ids are found by scanning the names
    for (InstId i = 1; i < a64::Inst::_kIdCount; i++) {
      String s;
      InstAPI::inst_id_to_string(Arch::kAArch64, i, InstStringifyOptions::kNone, s);
      if (w[1] == s.data()) { id = i; break; }
    }
    if (id == 0) return "noinst";
  }
  Operand ops[Globals::kMaxOpCount];
  size_t n = w.size() - 2;
  if (n > Globals::kMaxOpCount) return "bad-opcount";
  for (size_t i = 0; i < n; i++) if (!parse_a64_op(w[2 + i], ops[i])) return "bad-op";
  BaseInst inst(id);
  std::string out = "id=" + std::to_string(id);
  Error verr = InstAPI::validate(Arch::kAArch64, inst, ops, n, ValidationFlags::kNone);
  out += std::string(" v=") + DebugUtils::error_as_string(verr);
  {
    CodeHolder code;
    Environment env(Arch::kAArch64);
    code.init(env);
    a64::Assembler a(&code);
    Error e = a._emit_op_array(id, ops, n);
    if (e != Error::kOk) out += std::string(" e=!") + DebugUtils::error_as_string(e);
    else {
      CodeBuffer& b = code.text_section()->buffer();
      out += " e=" + vh::bytes_to_hex(b.data(), b.size());
    }
  }
  InstRWInfo rw;
  memset(&rw, 0, sizeof(rw));
  Error rerr = InstAPI::query_rw_info(Arch::kAArch64, inst, ops, n, &rw);
  out += std::string(" rw=") + DebugUtils::error_as_string(rerr);
  if (rerr == Error::kOk) out += " ops=" + rw_ops_out(rw, n);
  for (char& c : out) if (c == '\n') c = ' ';
  return out;
}

// ---- table dump ------------------------------------------------------------------------------------------------------------

static void dump_tables() {
  using namespace asmjit::x86;
  printf("T sizes idcount=%u rwa=%zu rwb=%zu op=%zu rm=%zu rwflags=%zu addl=%zu instflags=%zu\n", unsigned(Inst::_kIdCount),
         size_t(ASMJIT_ARRAY_SIZE(InstDB::rw_info_a_table)), size_t(ASMJIT_ARRAY_SIZE(InstDB::rw_info_b_table)),
         size_t(ASMJIT_ARRAY_SIZE(InstDB::rw_info_op_table)), size_t(ASMJIT_ARRAY_SIZE(InstDB::rw_info_rm_table)),
         size_t(ASMJIT_ARRAY_SIZE(InstDB::rw_flags_info_table)), size_t(ASMJIT_ARRAY_SIZE(InstDB::additional_info_table)),
         size_t(ASMJIT_ARRAY_SIZE(InstDB::inst_flags_table)));
  for (const RegKind& k : reg_kinds) {
    Reg r = Reg::from_type_and_id(k.type, 1);
    printf("T reg %s %u %u %u\n", k.name, unsigned(k.type), unsigned(r.reg_group()), unsigned(r.size()));
  }
  for (uint32_t id = 0; id < Inst::_kIdCount; id++) {
    String name;
    InstAPI::inst_id_to_string(Arch::kX64, id, InstStringifyOptions::kNone, name);
    const InstDB::InstInfo& ii = InstDB::_inst_info_table[id];
    const InstDB::CommonInfo& ci = InstDB::_inst_common_info_table[ii._common_info_index];
    printf("T inst %u %s %u %u %u %u %u\n", id, id ? name.data() : "<none>", unsigned(InstDB::rw_info_index_a_table[id]),
           unsigned(InstDB::rw_info_index_b_table[id]), unsigned(ii._additional_info_index),
           unsigned(ci.has_avx512_flag(InstDB::Avx512Flags::kImplicitZ)), unsigned(ci.prefer_evex()));
  }
  for (int t = 0; t < 2; t++) {
    size_t n = t == 0 ? ASMJIT_ARRAY_SIZE(InstDB::rw_info_a_table) : ASMJIT_ARRAY_SIZE(InstDB::rw_info_b_table);
    for (size_t i = 0; i < n; i++) {
      const InstDB::RWInfo& r = t == 0 ? InstDB::rw_info_a_table[i] : InstDB::rw_info_b_table[i];
      printf("T rw%c %zu %u %u %u %u %u %u %u %u\n", t == 0 ? 'a' : 'b', i, unsigned(r.category), unsigned(r.rm_info), unsigned(r.op_info_index[0]),
             unsigned(r.op_info_index[1]), unsigned(r.op_info_index[2]), unsigned(r.op_info_index[3]), unsigned(r.op_info_index[4]),
             unsigned(r.op_info_index[5]));
    }
  }
  for (size_t i = 0; i < ASMJIT_ARRAY_SIZE(InstDB::rw_info_op_table); i++) {
    const InstDB::RWInfoOp& o = InstDB::rw_info_op_table[i];
    printf("T op %zu %llx %llx %u %u %x\n", i, (unsigned long long)o.r_byte_mask, (unsigned long long)o.w_byte_mask, unsigned(o.phys_id),
           unsigned(o.consecutive_lead_count), unsigned(o.flags));
  }
  for (size_t i = 0; i < ASMJIT_ARRAY_SIZE(InstDB::rw_info_rm_table); i++) {
    const InstDB::RWInfoRm& r = InstDB::rw_info_rm_table[i];
    printf("T rm %zu %u %u %u %u %u\n", i, unsigned(r.category), unsigned(r.rm_ops_mask), unsigned(r.fixed_size), unsigned(r.flags), unsigned(r.rm_feature));
  }
  for (size_t i = 0; i < ASMJIT_ARRAY_SIZE(InstDB::rw_flags_info_table); i++) {
    printf("T rwflags %zu %x %x\n", i, unsigned(InstDB::rw_flags_info_table[i].read_flags), unsigned(InstDB::rw_flags_info_table[i].write_flags));
  }
  for (size_t i = 0; i < ASMJIT_ARRAY_SIZE(InstDB::additional_info_table); i++) {
    const InstDB::AdditionalInfo& a = InstDB::additional_info_table[i];
    printf("T addl %zu %u %u %u %u %u %u %u %u\n", i, unsigned(a._inst_flags_index), unsigned(a._rw_flags_index), unsigned(a._features[0]),
           unsigned(a._features[1]), unsigned(a._features[2]), unsigned(a._features[3]), unsigned(a._features[4]), unsigned(a._features[5]));
  }
  for (size_t i = 0; i < ASMJIT_ARRAY_SIZE(InstDB::inst_flags_table); i++) {
    printf("T instflags %zu %x\n", i, unsigned(InstDB::inst_flags_table[i]));
  }
  printf("T end\n");
}

int main() {
  return vh::line_loop([](const std::string& line) -> std::string {
    std::vector<std::string> w = vh::words(line);
    if (w.empty()) return "";
    if (w[0] == "tables") { dump_tables(); return ""; }
    if (w[0] == "x") return x86_query(w);
    if (w[0] == "a") return a64_query(w);
    return "bad-line";
  });
}
