// C03 / C04 harness: the real CodeHolder + x86::Assembler / a64::Assembler behind the line protocol of
// lean/Driver/C03.lean (same op lines, same answers: "<Error> <size of current section> <unresolved count>").
#include <asmjit/core.h>
#include <asmjit/x86.h>
#include <asmjit/a64.h>
#include <memory>
#include "vh.h"

using namespace asmjit;

static const char* err_name(Error e) {
  switch (e) {
    case Error::kOk: return "Ok";
    case Error::kInvalidArgument: return "InvalidArgument";
    case Error::kInvalidState: return "InvalidState";
    case Error::kTooLarge: return "TooLarge";
    case Error::kInvalidLabel: return "InvalidLabel";
    case Error::kLabelAlreadyBound: return "LabelAlreadyBound";
    case Error::kInvalidSection: return "InvalidSection";
    case Error::kInvalidRelocEntry: return "InvalidRelocEntry";
    case Error::kRelocOffsetOutOfRange: return "RelocOffsetOutOfRange";
    case Error::kInvalidInstruction: return "InvalidInstruction";
    case Error::kInvalidAddress: return "InvalidAddress";
    case Error::kInvalidDisplacement: return "InvalidDisplacement";
    case Error::kInvalidOperandSize: return "InvalidOperandSize";
    case Error::kExpressionLabelNotBound: return "ExpressionLabelNotBound";
    case Error::kInvalidAddress64Bit: return "InvalidAddress64Bit";
    case Error::kNoCodeGenerated: return "NoCodeGenerated";
    case Error::kInvalidLabelName: return "InvalidLabelName";
    case Error::kLabelNameTooLong: return "LabelNameTooLong";
    case Error::kLabelAlreadyDefined: return "LabelAlreadyDefined";
    default: break;
  }
  static char buf[32];
  snprintf(buf, sizeof(buf), "E%u", unsigned(e));
  return buf;
}

struct Prog {
  CodeHolder code;
  std::unique_ptr<x86::Assembler> xa;
  std::unique_ptr<a64::Assembler> aa;
  BaseAssembler* a = nullptr;
  int arch = 0;  // 0 = x86, 1 = x64, 2 = a64
  uint32_t nsec = 1;
  std::unique_ptr<JitRuntime> rt;   // `jitadd`: a fresh runtime per program (fill pattern 0xCC so that untouched span bytes are known)
  void* fn = nullptr;
};

static std::unique_ptr<Prog> P;

static std::string answer(Error e) {
  return std::string(err_name(e)) + " " + std::to_string(P->a->offset()) + " " + std::to_string(P->code.unresolved_fixup_count());
}

static Label lab(uint64_t id) {
  Label l;
  l.set_id(uint32_t(id));
  return l;
}

static std::string step(const std::string& line) {
  std::vector<std::string> w = vh::words(line);
  if (w.empty()) return "bad-op";
  const std::string& op = w[0];
  uint64_t u0 = 0, u1 = 0, u2 = 0;

  if (op == "init") {
    if (w.size() != 3) return "bad-op";
    P.reset(new Prog());
    Environment env;
    if (w[1] == "x86") { env.init(Arch::kX86); P->arch = 0; }
    else if (w[1] == "x64") { env.init(Arch::kX64); P->arch = 1; }
    else if (w[1] == "a64") { env.init(Arch::kAArch64); P->arch = 2; }
    else return "bad-op";
    uint64_t base = Globals::kNoBaseAddress;
    if (w[2] != "-" && !vh::parse_hex(w[2], base)) return "bad-op";
    if (P->code.init(env, base) != Error::kOk) return "init-failed";
    if (P->arch == 2) { P->aa.reset(new a64::Assembler(&P->code)); P->a = P->aa.get(); }
    else { P->xa.reset(new x86::Assembler(&P->code)); P->a = P->xa.get(); }
    return "Ok 0 0";
  }
  if (!P) return "no-program";
  CodeHolder& code = P->code;
  BaseAssembler* a = P->a;

  if (op == "newlabel" && w.size() == 1) {
    a->new_label();
    return answer(Error::kOk);
  }
  if ((op == "newnamed" || op == "byname") && w.size() == 2) {
    // `-` = the empty name, `@n` = a name of n letters
    std::string name = w[1];
    if (name == "-") name.clear();
    else if (name[0] == '@') name = std::string(size_t(atoi(name.c_str() + 1)), 'a');
    if (op == "newnamed") {
      uint32_t id = Globals::kInvalidId;
      return answer(code.new_named_label_id(Out(id), name.data(), name.size(), LabelType::kGlobal));
    }
    uint32_t id = code.label_id_by_name(name.data(), name.size());
    return id == Globals::kInvalidId ? std::string("id=invalid") : "id=" + std::to_string(id);
  }
  if (op == "newsection" && w.size() == 3) {
    int64_t order;
    if (!vh::parse_u64(w[1], u0) || !vh::parse_i64(w[2], order)) return "bad-op";
    Section* s = nullptr;
    std::string name = ".s" + std::to_string(P->nsec);
    Error e = code.new_section(Out(s), name.c_str(), SIZE_MAX, SectionFlags::kNone, uint32_t(u0), int32_t(order));
    if (e == Error::kOk) P->nsec++;
    return answer(e);
  }
  if (op == "section" && w.size() == 2) {
    if (!vh::parse_u64(w[1], u0)) return "bad-op";
    if (!code.is_section_valid(uint32_t(u0)) || u0 > 0xFFFFFFFFull) return answer(Error::kInvalidSection);
    // restriction of the op language (same in the model): user code never emits into the implicit .addrtab section
    if (code.section_by_id(uint32_t(u0)) == code.address_table_section()) return answer(Error::kInvalidSection);
    return answer(a->section(code.section_by_id(uint32_t(u0))));
  }
  if (op == "bind" && w.size() == 2) {
    if (!vh::parse_u64(w[1], u0)) return "bad-op";
    return answer(a->bind(lab(u0)));
  }
  if (op == "align" && w.size() == 2) {
    if (!vh::parse_u64(w[1], u0)) return "bad-op";
    return answer(a->align(AlignMode::kZero, uint32_t(u0)));
  }
  if (op == "embed" && w.size() == 2) {
    std::vector<uint8_t> b;
    if (!vh::hex_to_bytes(w[1], b)) return "bad-op";
    return answer(a->embed(b.data(), b.size()));
  }
  if (op == "zeros" && w.size() == 2) {
    if (!vh::parse_u64(w[1], u0)) return "bad-op";
    std::vector<uint8_t> b(size_t(u0), 0);
    return answer(a->embed(b.data(), b.size()));
  }
  if ((op == "jmp" || op == "jmpabs") && w.size() == 4) {
    if (P->arch == 2) return answer(Error::kInvalidInstruction);
    x86::Assembler* x = P->xa.get();
    bool abs = op == "jmpabs";
    if (abs ? !vh::parse_hex(w[3], u0) : !vh::parse_u64(w[3], u0)) return "bad-op";
    if (w[2] == "s") x->short_();
    else if (w[2] == "l") x->long_();
    else if (w[2] != "d") return "bad-op";
    Label L = lab(u0);
    Imm I(u0);
    Error e;
    if (w[1] == "jmp") e = abs ? x->jmp(I) : x->jmp(L);
    else if (w[1] == "jz") e = abs ? x->jz(I) : x->jz(L);
    else if (w[1] == "call") e = abs ? x->call(I) : x->call(L);
    else if (w[1] == "jecxz") e = abs ? x->jecxz(x86::ecx, I) : x->jecxz(x86::ecx, L);
    else if (w[1] == "loop") e = abs ? x->loop(x->zcx(), I) : x->loop(x->zcx(), L);
    else return "bad-op";
    return answer(e);
  }
  if (op == "mem" && w.size() == 4) {
    if (P->arch == 2) return answer(Error::kInvalidInstruction);
    x86::Assembler* x = P->xa.get();
    if (!vh::parse_u64(w[2], u0) || !vh::parse_hex(w[3], u1)) return "bad-op";
    // defect #4 (C14): an invalid label id in a 32-bit memory operand dereferences a bad LabelEntry; not C03's subject
    if (!code.is_label_valid(uint32_t(u0))) return answer(Error::kInvalidLabel);
    Label L = lab(u0);
    int32_t d = int32_t(uint32_t(u1));
    Error e;
    if (w[1] == "lea") e = x->lea(x->zax(), x86::ptr(L, d));
    else if (w[1] == "mov") e = x->mov(x86::ecx, x86::dword_ptr(L, d));
    else if (w[1] == "addi8") e = x->add(x86::dword_ptr(L, d), 0x12);
    else if (w[1] == "movi32") e = x->mov(x86::dword_ptr(L, d), 0x11223344);
    else if (w[1] == "cmpi16") e = x->cmp(x86::word_ptr(L, d), 0x1234);
    else if (w[1] == "ldeax") e = x->mov(x86::eax, x86::dword_ptr(L, d));
    else if (w[1] == "steax") e = x->mov(x86::dword_ptr(L, d), x86::eax);
    else if (w[1] == "ldrax") e = x->mov(x->zax(), x86::ptr(L, d));
    else if (w[1] == "fsmov") { x86::Mem m = x86::dword_ptr(L, d); m.set_segment(x86::fs); e = x->mov(x86::ecx, m); }
    else if (w[1] == "gsldeax") { x86::Mem m = x86::dword_ptr(L, d); m.set_segment(x86::gs); e = x->mov(x86::eax, m); }
    else if (w[1] == "fsaddi8") { x86::Mem m = x86::dword_ptr(L, d); m.set_segment(x86::fs); e = x->add(m, 0x12); }
    else return "bad-op";
    return answer(e);
  }
  if (op == "memabs" && w.size() == 4) {
    if (P->arch == 2) return answer(Error::kInvalidInstruction);
    x86::Assembler* x = P->xa.get();
    if (!vh::parse_hex(w[3], u0)) return "bad-op";
    auto M = [&](uint32_t size) {
      x86::Mem m = x86::ptr(u0, size);
      if (w[2] == "a") m.set_addr_abs();
      else if (w[2] == "r") m.set_addr_rel();
      return m;
    };
    if (w[2] != "d" && w[2] != "a" && w[2] != "r") return "bad-op";
    Error e;
    if (w[1] == "lea") e = x->lea(x->zax(), M(0));
    else if (w[1] == "mov") e = x->mov(x86::ecx, M(4));
    else if (w[1] == "addi8") e = x->add(M(4), 0x12);
    else if (w[1] == "movi32") e = x->mov(M(4), 0x11223344);
    else if (w[1] == "cmpi16") e = x->cmp(M(2), 0x1234);
    else if (w[1] == "ldeax") e = x->mov(x86::eax, M(4));
    else if (w[1] == "steax") e = x->mov(M(4), x86::eax);
    else if (w[1] == "ldrax") e = x->mov(x->zax(), M(0));
    else if (w[1] == "fsmov") { x86::Mem m = M(4); m.set_segment(x86::fs); e = x->mov(x86::ecx, m); }
    else if (w[1] == "gsldeax") { x86::Mem m = M(4); m.set_segment(x86::gs); e = x->mov(x86::eax, m); }
    else if (w[1] == "fsaddi8") { x86::Mem m = M(4); m.set_segment(x86::fs); e = x->add(m, 0x12); }
    else return "bad-op";
    return answer(e);
  }
  if ((op == "a64" && w.size() == 4) || (op == "a64abs" && w.size() == 3)) {
    if (P->arch != 2) return answer(Error::kInvalidInstruction);
    a64::Assembler* x = P->aa.get();
    bool abs = op == "a64abs";
    Error e;
    if (abs) {
      if (!vh::parse_hex(w[2], u0)) return "bad-op";
      Imm I(u0);
      if (w[1] == "b") e = x->b(I);
      else if (w[1] == "bl") e = x->bl(I);
      else if (w[1] == "bcond") e = x->b_eq(I);
      else if (w[1] == "bc") e = x->bc_eq(I);
      else if (w[1] == "cbz") e = x->cbz(a64::x1, I);
      else if (w[1] == "tbz") e = x->tbz(a64::w2, 3, I);
      else if (w[1] == "adr") e = x->adr(a64::x3, I);
      else if (w[1] == "adrp") e = x->adrp(a64::x4, I);
      else return "bad-op";
    }
    else {
      if (!vh::parse_u64(w[2], u0) || !vh::parse_hex(w[3], u1)) return "bad-op";
      Label L = lab(u0);
      if (w[1] == "b") e = x->b(L);
      else if (w[1] == "bl") e = x->bl(L);
      else if (w[1] == "bcond") e = x->b_eq(L);
      else if (w[1] == "bc") e = x->bc_eq(L);
      else if (w[1] == "cbz") e = x->cbz(a64::x1, L);
      else if (w[1] == "tbz") e = x->tbz(a64::w2, 3, L);
      else if (w[1] == "adr") e = x->adr(a64::x3, L);
      else if (w[1] == "adrp") e = x->adrp(a64::x4, L);
      else if (w[1] == "ldr") e = x->ldr(a64::x5, a64::ptr(L, int32_t(int64_t(u1))));
      else return "bad-op";
    }
    return answer(e);
  }
  if (op == "elabel" && w.size() == 3) {
    if (!vh::parse_u64(w[1], u0) || !vh::parse_u64(w[2], u1)) return "bad-op";
    return answer(a->embed_label(lab(u0), size_t(u1)));
  }
  if (op == "edelta" && w.size() == 4) {
    if (!vh::parse_u64(w[1], u0) || !vh::parse_u64(w[2], u1) || !vh::parse_u64(w[3], u2)) return "bad-op";
    return answer(a->embed_label_delta(lab(u0), lab(u1), size_t(u2)));
  }
  if (op == "vsize" && w.size() == 3) {
    if (!vh::parse_u64(w[1], u0) || !vh::parse_hex(w[2], u1)) return "bad-op";
    if (!code.is_section_valid(uint32_t(u0)) || u0 > 0xFFFFFFFFull) return answer(Error::kInvalidSection);
    code.section_by_id(uint32_t(u0))->set_virtual_size(u1);
    return answer(Error::kOk);
  }
  if (op == "setoffset" && w.size() == 2) {
    // BaseAssembler::set_offset - NOT part of the modelled op language (notes/C03.md, round 10): witness runs only
    if (!vh::parse_u64(w[1], u0)) return "bad-op";
    return answer(a->set_offset(size_t(u0)));
  }
  if (op == "flatten" && w.size() == 1) return answer(code.flatten());
  if (op == "resolve" && w.size() == 1) return answer(code.resolve_cross_section_fixups());
  if (op == "relocate" && w.size() == 2) {
    if (!vh::parse_hex(w[1], u0)) return "bad-op";
    CodeHolder::RelocationSummary sum;
    sum.code_size_reduction = 0;
    Error e = code.relocate_to_base(u0, &sum);
    return answer(e) + " " + std::to_string(e == Error::kOk ? sum.code_size_reduction : 0);
  }
  if (op == "jitadd" && (w.size() == 1 || w.size() == 2)) {
    // the real JitRuntime::add(): flatten, resolve, allocate, relocate_to_base(rx), copy through rw. `jitadd <mask>` selects
    // JitAllocatorOptions (1 = kUseDualMapping: rx != rw, 2 = kUseMultiplePools, 8 = kImmediateRelease, 0x10 =
    // kDisableInitialPadding); kFillUnusedMemory with pattern 0xCC is always on. Answer: the rx pointer, the final code size,
    // the bytes read through rx, the writable address of the span and CodeHolder::base_address(). On failure the span was
    // released again: `probe=` is the executable address the (deterministic) allocator hands out for the same request.
    uint64_t mask = 0;
    if (w.size() == 2 && !vh::parse_hex(w[1], mask)) return "bad-op";
    JitAllocator::CreateParams params;
    params.options = JitAllocatorOptions::kFillUnusedMemory | JitAllocatorOptions::kCustomFillPattern | JitAllocatorOptions(uint32_t(mask) & 0x1Bu);
    params.fill_pattern = 0xCCCCCCCCu;
    P->rt.reset(new JitRuntime(&params));
    P->fn = nullptr;
    Error e = P->rt->add(&P->fn, &code);
    if (e == Error::kOk) {
      size_t n = code.code_size();
      JitAllocator::Span span;
      uint64_t rw = 0;
      if (P->rt->allocator().query(Out(span), P->fn) == Error::kOk) rw = uint64_t(uintptr_t(span.rw()));
      return answer(e) + " " + vh::to_hex(uint64_t(uintptr_t(P->fn))) + " " + std::to_string(n) + " " +
             (n ? vh::bytes_to_hex(static_cast<const uint8_t*>(P->fn), n) : std::string("-")) +
             " rw=" + vh::to_hex(rw) + " base=" + vh::to_hex(code.base_address());
    }
    uint64_t probe = 0;
    size_t est = code.code_size();
    if (est != 0 && est < (size_t(1) << 28)) {
      JitAllocator::Span span;
      if (P->rt->allocator().alloc(Out(span), est) == Error::kOk) {
        probe = uint64_t(uintptr_t(span.rx()));
        P->rt->allocator().release(span.rx());
      }
    }
    return answer(e) + " probe=" + vh::to_hex(probe);
  }
  if (op == "jitrelease" && w.size() == 1) {
    if (!P->rt) return "no-runtime";
    Error e = P->rt->release(P->fn);
    P->fn = nullptr;
    return answer(e) + " live=" + std::to_string(P->rt->allocator().statistics().allocation_count());
  }
  if (op == "dump" && w.size() == 1) {
    std::string o = "dump cnt=" + std::to_string(code.unresolved_fixup_count());
    for (Section* s : code.sections()) {
      o += " S " + vh::to_hex(s->offset()) + " " + vh::to_hex(s->virtual_size()) + " ";
      o += s->buffer_size() ? vh::bytes_to_hex(s->data(), s->buffer_size()) : std::string("-");
    }
    for (uint32_t i = 0; i < code.label_count(); i++) {
      const LabelEntry& le = code.label_entry_of(i);
      if (le.is_bound()) o += " L " + std::to_string(le.section_id()) + ":" + vh::to_hex(le.offset());
      else o += " L u";
    }
    return o;
  }
  return "bad-op";
}

int main() { return vh::line_loop(step); }
