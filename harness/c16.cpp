// C16 harness: one CodeHolder + four x86 emitters (two Assemblers, a Builder, a Compiler) driven by protocol lines.
// Every line answers with one line; `dump` prints a canonical, address-free description of everything the property
// calls output (sections with names and bytes, labels, fixups, relocations, attachment list, per-emitter state) in a
// `code|...` part and of the state that may legitimately depend on history (retained capacity, logging) in `|aux|...`.
// The Lean side (lean/Driver/C16.lean) runs Model/Reuse.lean on the same lines; `prog` lines (real instruction streams,
// Compiler functions through the register allocator) are outside the model and only judged differentially.
#include <asmjit/x86.h>
#include <asmjit/a64.h>
#include <memory>
#include "vh.h"

using namespace asmjit;

namespace {

extern JitRuntime g_rt;

struct World {
  std::vector<uint8_t> static_mem;
  std::unique_ptr<CodeHolder> code;
  std::unique_ptr<BaseAssembler> a0, a1;
  std::unique_ptr<BaseBuilder> b0;
  std::unique_ptr<BaseCompiler> c0;
  bool a64 = false;                 // emitter family of this world
  StringLogger hlog;
  StringLogger elog[4];
  std::vector<std::vector<uint8_t>*> noise;
  std::vector<void*> jit_ptrs;            // what `jitadd` got from the JitRuntime (released with the world)
  std::vector<uint32_t> func_labels;      // entry labels of the functions added by `prog … func*`, in order

  BaseEmitter* em(size_t i) {
    switch (i) {
      case 0: return a0.get();
      case 1: return a1.get();
      case 2: return b0.get();
      case 3: return c0.get();
    }
    return nullptr;
  }

  void destroy() {
    // emitters first (their destructors detach), then the holder
    c0.reset(); b0.reset(); a1.reset(); a0.reset();
    code.reset();
    for (auto* p : noise) delete p;
    noise.clear();
    static_mem.clear();
    func_labels.clear();
    for (void* p : jit_ptrs) g_rt.release(p);
    jit_ptrs.clear();
  }

  void create(bool use_static, size_t static_size, bool use_a64) {
    destroy();
    a64 = use_a64;
    if (use_static) {
      static_mem.assign(static_size, 0xCD);           // deliberately not zero
      code.reset(new CodeHolder(Span<uint8_t>(static_mem.data(), static_mem.size())));
    }
    else {
      code.reset(new CodeHolder());
    }
    if (use_a64) {
      a0.reset(new a64::Assembler());
      a1.reset(new a64::Assembler());
      b0.reset(new a64::Builder());
      c0.reset(new a64::Compiler());
    }
    else {
      a0.reset(new x86::Assembler());
      a1.reset(new x86::Assembler());
      b0.reset(new x86::Builder());
      c0.reset(new x86::Compiler());
    }
    hlog.clear();
    for (auto& l : elog) l.clear();
  }
};

JitRuntime g_rt;
World W;
const char* kComment = "verif-inline-comment";

std::string err_name(Error e) { return e == Error::kOk ? std::string("ok") : std::string(DebugUtils::error_as_string(e)); }

std::string name_hex(const char* p, size_t n) {
  while (n && p[n - 1] == 0) n--;
  return n ? vh::bytes_to_hex(reinterpret_cast<const uint8_t*>(p), n) : std::string("-");
}

std::string num(uint64_t v) { return std::to_string((unsigned long long)v); }

constexpr uint32_t kFormOpts = uint32_t(InstOptions::kShortForm) | uint32_t(InstOptions::kLongForm);

// ---- dump -------------------------------------------------------------------------------------------------------

std::string node_summary(BaseBuilder* b, int& cursor_index, size_t& count) {
  std::string s;
  cursor_index = -1;
  count = 0;
  size_t guard = 0;
  for (BaseNode* n = b->first_node(); n && guard < 100000; n = n->next(), guard++) {
    if (n == b->cursor()) cursor_index = int(count);
    count++;
    if (!s.empty()) s += ".";
    if (n->is_section()) s += "s" + num(n->as<SectionNode>()->section_id());
    else if (n->type() == NodeType::kFunc) s += "F";
    else if (n->is_label()) s += (n->is_const_pool() ? "c" : "l") + num(n->as<LabelNode>()->label_id());
    else if (n->is_embed_data()) {
      EmbedDataNode* d = n->as<EmbedDataNode>();
      s += "d" + vh::bytes_to_hex(d->data(), d->data_size());
    }
    else if (n->is_embed_label()) s += "e" + num(n->as<EmbedLabelNode>()->label_id()) + "/" + num(n->as<EmbedLabelNode>()->data_size());
    else if (n->is_inst()) {
      InstNode* in = n->as<InstNode>();
      if (in->inst_id() == (W.a64 ? InstId(a64::Inst::kIdB) : InstId(x86::Inst::kIdJmp)) && in->op_count() == 1 && in->op(0).is_label())
        s += "j" + num(in->op(0).as<Label>().id()) + "o" + num(uint32_t(in->options()) & kFormOpts);
      else
        s += "i" + num(in->inst_id());
    }
    else s += "x" + num(uint32_t(n->type()));
  }
  return s.empty() ? "-" : s;
}

std::string dump() {
  CodeHolder& code = *W.code;
  std::string c = "code|";
  c += code.is_initialized() ? (code.arch() == Arch::kX64 ? "x64" : code.arch() == Arch::kX86 ? "x86" : code.arch() == Arch::kAArch64 ? "a64" : "arch?") : "uninit";
  // base address (a JitRuntime address is not reproducible: it is printed as `jit`)
  {
    bool is_jit = false;
    for (void* p : W.jit_ptrs) is_jit |= uint64_t(uintptr_t(p)) == code.base_address();
    c += ";base=" + (!code.has_base_address() ? std::string("none") : is_jit ? std::string("jit") : num(code.base_address()));
  }
  // sections
  c += ";secs=";
  for (Section* s : code.sections()) {
    c += "[" + num(s->section_id()) + ":" + name_hex(s->_name.str, sizeof(s->_name.str)) + ":" + num(uint32_t(s->flags())) + ":" +
         num(s->alignment()) + ":" + std::to_string((long long)s->order()) + ":" +
         (s->offset() == Globals::kNoSectionOffset ? std::string("none") : num(s->offset())) + ":" + num(s->virtual_size()) + ":" +
         (s->buffer_size() ? vh::bytes_to_hex(s->data(), s->buffer_size()) : std::string("-")) + "]";
  }
  c += ";order=";
  for (Section* s : code.sections_by_order()) c += num(s->section_id()) + ",";
  // labels
  c += ";labels=";
  uint32_t id = 0;
  size_t by_name_bad = 0;
  for (const LabelEntry& le : code.label_entries()) {
    c += "[" + num(id) + ":" + num(uint32_t(le.label_type())) + ":";
    if (le.has_name()) {
      c += name_hex(le.name(), le.name_size());
      if (code.label_id_by_name(le.name(), le.name_size(), le.has_parent() ? le.parent_id() : Globals::kInvalidId) != id) by_name_bad++;
    }
    else c += "-";
    if (le.is_bound()) c += ":b" + num(le.section_id()) + "+" + num(le.offset());
    else {
      c += ":u";
      size_t guard = 0;
      for (Fixup* f = le.unresolved_fixups(); f && guard < 100000; f = f->next, guard++)
        c += "(" + num(f->section_id) + "," + num(f->offset) + "," + std::to_string((long long)f->rel) + "," + num(f->format.value_size()) + "," +
             (f->label_or_reloc_id == Globals::kInvalidId ? std::string("-") : num(f->label_or_reloc_id)) + ")";
    }
    c += "]";
    id++;
  }
  c += ";byname_bad=" + num(by_name_bad);
  // relocations
  c += ";relocs=";
  for (RelocEntry* re : code.reloc_entries()) {
    c += "[" + num(re->id()) + ":" + num(uint32_t(re->reloc_type())) + ":" + num(re->source_section_id()) + ":" + num(re->source_offset()) + ":" +
         (re->target_section_id() == Globals::kInvalidId ? std::string("none") : num(re->target_section_id())) + ":" +
         (re->reloc_type() == RelocType::kExpression ? std::string("expr") : num(re->payload())) + ":" + num(re->format().value_size()) + "]";
  }
  c += ";unres=" + num(code.unresolved_fixup_count());
  c += ";addrtab=" + (code.has_address_table_section() ? "1:" + num(code.address_table_section()->virtual_size()) : std::string("0"));
  // attachment list
  c += ";att=";
  {
    size_t guard = 0;
    for (BaseEmitter* e = code.attached_first(); e && guard < 64; e = e->_attached_next, guard++) {
      int idx = -1;
      for (int i = 0; i < 4; i++) if (W.em(i) == e) idx = i;
      c += std::to_string(idx) + ",";
    }
  }
  std::string aux = "aux|hlog=" + std::string(code.logger() ? "1" : "0") + ";textcap=" + std::string(code._text_section._buffer._capacity ? "1" : "0");
  // emitters
  for (int i = 0; i < 4; i++) {
    BaseEmitter* e = W.em(i);
    uint32_t forced = uint32_t(e->forced_inst_options());
    c += ";E" + std::to_string(i) + "=[" + (e->code() == &code ? "1" : e->code() ? "?" : "0") + ":" + num(uint32_t(e->inst_options())) + ":" +
         (e->has_extra_reg() ? "1" : "0") + ":" + (e->inline_comment() ? "1" : "0") + ":" + num(forced & ~uint32_t(InstOptions::kReserved)) + ":" +
         num(e->instruction_alignment()) + ":" + num(uint32_t(e->arch())) + ":";
    if (e->is_assembler()) {
      BaseAssembler* a = static_cast<BaseAssembler*>(e);
      if (a->_section) c += "sec" + num(a->_section->section_id()) + "@" + num(a->offset());
      else c += "sec-";
    }
    else {
      BaseBuilder* b = static_cast<BaseBuilder*>(e);
      int cur; size_t cnt;
      std::string ns = node_summary(b, cur, cnt);
      c += "nodes" + ns + ":cur" + std::to_string(cur) + ":ln" + num(b->label_nodes().size()) + ":sn" + num(b->section_nodes().size()) +
           ":p" + num(b->passes().size());
      if (e->is_compiler()) {
        BaseCompiler* cc = static_cast<BaseCompiler*>(e);
        // references into the pass arena that must not outlive run_passes(): nodes with pass data, virtual registers
        // still tied to a work register
        size_t pd = 0, wr = 0, guard = 0;
        for (BaseNode* n = b->first_node(); n && guard < 1000000; n = n->next(), guard++) pd += n->has_pass_data() ? 1 : 0;
        for (VirtReg* v : cc->virt_regs()) wr += v->work_reg() ? 1 : 0;
        c += ":vr" + num(cc->virt_regs().size()) + ":ja" + num(cc->jump_annotations().size()) + ":fn" + (cc->func() ? "1" : "0") +
             ":pd" + num(pd) + ":wr" + num(wr);
      }
      aux += ";dirty" + std::to_string(i) + "=" + (b->has_dirty_section_links() ? "1" : "0");
    }
    c += "]";
    aux += ";L" + std::to_string(i) + "=" + (e->logger() ? "1" : "0") + (e->has_own_logger() ? "1" : "0") +
           (e->has_emitter_flag(EmitterFlags::kLogComments) ? "1" : "0") + ((forced & uint32_t(InstOptions::kReserved)) ? "1" : "0") +
           ":" + num(uint32_t(e->diagnostic_options()));
  }
  return c + "|" + aux;
}

// ---- canned programs (outside the Lean model; judged differentially) ----------------------------------------------

struct Rng {
  uint64_t s;
  explicit Rng(uint64_t seed) : s(seed * 0x9E3779B97F4A7C15ull + 0x1234567ull) {}
  uint64_t next() { s ^= s << 13; s ^= s >> 7; s ^= s << 17; return s; }
  uint32_t below(uint32_t n) { return uint32_t(next() % n); }
};

// x86-64 instruction stream through the generic emitter interface (works on Assembler, Builder and Compiler).
Error prog_asmx(BaseEmitter* be, uint64_t seed, uint32_t n) {
  if (!be->code()) return Error::kNotInitialized;
  x86::Emitter* e = be->as<x86::Emitter>();
  Rng r(seed);
  static const x86::Gp regs[] = { x86::rax, x86::rcx, x86::rdx, x86::rbx, x86::rsi, x86::rdi, x86::r8, x86::r9, x86::r12, x86::r13 };
  auto reg = [&]() { return regs[r.below(10)]; };
  std::vector<Label> pending;          // created, not yet bound (forward references)
  std::vector<Label> bound;
  Error first = Error::kOk;
  auto note = [&](Error err) { if (err != Error::kOk && first == Error::kOk) first = err; };
  for (uint32_t i = 0; i < n; i++) {
    switch (r.below(12)) {
      case 0: note(e->mov(reg(), Imm(int64_t(r.next() >> r.below(60))))); break;
      case 1: note(e->add(reg(), reg())); break;
      case 2: note(e->lea(reg(), x86::ptr(reg(), regs[r.below(4)], r.below(4), int32_t(r.below(4096)) - 2048))); break;
      case 3: note(e->xor_(reg().r32(), reg().r32())); break;
      case 4: { Label l = e->new_label(); pending.push_back(l); note(e->jz(l)); break; }
      case 5: { Label l = e->new_label(); pending.push_back(l); note(e->jmp(l)); break; }
      case 6: if (!bound.empty()) { note(e->jnz(bound[r.below(uint32_t(bound.size()))])); } break;
      case 7: if (!pending.empty()) { Label l = pending.back(); pending.pop_back(); note(e->bind(l)); bound.push_back(l); } break;
      case 8: { uint64_t v = r.next(); note(e->embed(&v, 1 + r.below(8))); break; }
      case 9: note(e->align(AlignMode::kCode, 1u << r.below(5))); break;
      case 10: if (!bound.empty()) { note(e->lea(reg(), x86::ptr(bound[r.below(uint32_t(bound.size()))]))); } break;
      case 11: { Label l = e->new_label(); pending.push_back(l); note(e->mov(reg(), x86::ptr(l))); break; }
    }
  }
  while (!pending.empty()) { Label l = pending.back(); pending.pop_back(); note(e->bind(l)); note(e->nop()); }
  return first;
}

// One Compiler function: virtual registers, forward branches, constants from both pools, a stack slot, optionally
// an annotated indirect jump; everything goes through the register allocator at `finalize`.
Error prog_func(x86::Compiler* cc, uint64_t seed, uint32_t n) {
  if (!cc->code()) return Error::kNotInitialized;
  Rng r(seed);
  Error first = Error::kOk;
  auto note = [&](Error err) { if (err != Error::kOk && first == Error::kOk) first = err; };
  FuncNode* fn = cc->add_func(FuncSignature::build<int, int, int>());
  if (!fn) return Error::kOutOfMemory;
  W.func_labels.push_back(fn->label().id());
  uint32_t nv = 3 + r.below(14);       // more live values than registers => spills
  std::vector<x86::Gp> v;
  for (uint32_t i = 0; i < nv; i++) v.push_back(r.below(3) ? cc->new_gp32() : cc->new_gp64());
  fn->set_arg(0, v[0].r32());
  fn->set_arg(1, v[1].r32());
  for (uint32_t i = 2; i < nv; i++) note(cc->mov(v[i].r32(), Imm(int32_t(r.below(1000)))));
  x86::Mem slot = cc->new_stack(16, 4);
  Label exit_l = cc->new_label();
  std::vector<Label> fwd;
  for (uint32_t i = 0; i < n; i++) {
    x86::Gp a = v[r.below(nv)], b = v[r.below(nv)];
    switch (r.below(10)) {
      case 0: note(cc->add(a.r32(), b.r32())); break;
      case 1: note(cc->imul(a.r32(), b.r32())); break;
      case 2: note(cc->mov(slot, a.r32())); break;
      case 3: note(cc->add(a.r32(), slot)); break;
      case 4: note(cc->add(a.r32(), cc->new_int32_const(ConstPoolScope::kLocal, int32_t(r.below(50))))); break;
      case 5: note(cc->xor_(a.r32(), cc->new_int32_const(ConstPoolScope::kGlobal, int32_t(r.below(50))))); break;
      case 6: { Label l = cc->new_label(); fwd.push_back(l); note(cc->cmp(a.r32(), Imm(int32_t(r.below(100))))); note(cc->jl(l)); break; }
      case 7: if (!fwd.empty()) { note(cc->bind(fwd.back())); fwd.pop_back(); } break;
      case 8: note(cc->test(a.r32(), b.r32())); note(cc->jz(exit_l)); break;
      case 9: note(cc->lea(a.r32(), x86::ptr(b.r64(), int32_t(r.below(64))))); break;
    }
  }
  while (!fwd.empty()) { note(cc->bind(fwd.back())); fwd.pop_back(); }
  if (r.below(3) == 0) {
    // annotated indirect jump over two targets
    Label t0 = cc->new_label(), t1 = cc->new_label();
    JumpAnnotation* ann = cc->new_jump_annotation();
    if (ann) {
      ann->add_label(t0);
      ann->add_label(t1);
      x86::Gp target = cc->new_gp64();
      note(cc->lea(target, x86::ptr(t0)));
      note(cc->jmp(target, ann));
      note(cc->bind(t0));
      note(cc->add(v[0].r32(), Imm(1)));
      note(cc->bind(t1));
    }
  }
  note(cc->bind(exit_l));
  for (uint32_t i = 1; i < nv; i++) note(cc->add(v[0].r32(), v[i].r32()));
  note(cc->ret(v[0].r32()));
  note(cc->end_func());
  return first;
}

// AArch64 instruction stream through the generic emitter interface.
Error prog_asma(BaseEmitter* be, uint64_t seed, uint32_t n) {
  if (!be->code()) return Error::kNotInitialized;
  a64::Emitter* e = be->as<a64::Emitter>();
  Rng r(seed);
  auto xr = [&]() { return a64::x(r.below(16)); };
  auto wr = [&]() { return a64::w(r.below(16)); };
  std::vector<Label> pending, bound;
  Error first = Error::kOk;
  auto note = [&](Error err) { if (err != Error::kOk && first == Error::kOk) first = err; };
  for (uint32_t i = 0; i < n; i++) {
    switch (r.below(11)) {
      case 0: note(e->mov(xr(), Imm(int64_t(r.next() >> r.below(60))))); break;
      case 1: note(e->add(xr(), xr(), xr())); break;
      case 2: note(e->add(wr(), wr(), Imm(r.below(4096)))); break;
      case 3: note(e->ldr(xr(), a64::ptr(xr(), int32_t(r.below(512)) * 8))); break;
      case 4: { Label l = e->new_label(); pending.push_back(l); note(e->cbz(xr(), l)); break; }
      case 5: { Label l = e->new_label(); pending.push_back(l); note(e->b(l)); break; }
      case 6: if (!bound.empty()) { note(e->b_ne(bound[r.below(uint32_t(bound.size()))])); } break;
      case 7: if (!pending.empty()) { Label l = pending.back(); pending.pop_back(); note(e->bind(l)); bound.push_back(l); } break;
      case 8: { uint32_t v = uint32_t(r.next()); note(e->embed(&v, 4)); break; }
      case 9: if (!bound.empty()) { note(e->adr(xr(), bound[r.below(uint32_t(bound.size()))])); } break;
      case 10: { Label l = e->new_label(); pending.push_back(l); note(e->adr(xr(), l)); break; }
    }
  }
  while (!pending.empty()) { Label l = pending.back(); pending.pop_back(); note(e->bind(l)); note(e->nop()); }
  return first;
}

// One AArch64 Compiler function through the register allocator.
Error prog_funca(a64::Compiler* cc, uint64_t seed, uint32_t n) {
  if (!cc->code()) return Error::kNotInitialized;
  Rng r(seed);
  Error first = Error::kOk;
  auto note = [&](Error err) { if (err != Error::kOk && first == Error::kOk) first = err; };
  FuncNode* fn = cc->add_func(FuncSignature::build<int, int, int>());
  if (!fn) return Error::kOutOfMemory;
  W.func_labels.push_back(fn->label().id());
  uint32_t nv = 3 + r.below(30);       // more live values than registers => spills
  std::vector<a64::Gp> v;
  for (uint32_t i = 0; i < nv; i++) v.push_back(r.below(3) ? cc->new_gp32() : cc->new_gp64());
  fn->set_arg(0, v[0].w());
  fn->set_arg(1, v[1].w());
  for (uint32_t i = 2; i < nv; i++) note(cc->mov(v[i].w(), Imm(int32_t(r.below(1000)))));
  Label exit_l = cc->new_label();
  std::vector<Label> fwd;
  for (uint32_t i = 0; i < n; i++) {
    a64::Gp a = v[r.below(nv)], b = v[r.below(nv)], c = v[r.below(nv)];
    switch (r.below(7)) {
      case 0: note(cc->add(a.w(), b.w(), c.w())); break;
      case 1: note(cc->mul(a.w(), b.w(), c.w())); break;
      case 2: note(cc->eor(a.w(), b.w(), c.w())); break;
      case 3: { Label l = cc->new_label(); fwd.push_back(l); note(cc->cmp(a.w(), Imm(int32_t(r.below(100))))); note(cc->b_lt(l)); break; }
      case 4: if (!fwd.empty()) { note(cc->bind(fwd.back())); fwd.pop_back(); } break;
      case 5: note(cc->cbz(a.w(), exit_l)); break;
      case 6: note(cc->add(a.w(), b.w(), Imm(r.below(64)))); break;
    }
  }
  while (!fwd.empty()) { note(cc->bind(fwd.back())); fwd.pop_back(); }
  note(cc->bind(exit_l));
  for (uint32_t i = 1; i < nv; i++) note(cc->add(v[0].w(), v[0].w(), v[i].w()));
  note(cc->ret(v[0].w()));
  note(cc->end_func());
  return first;
}

// A plain function with exactly `nv` virtual registers that all stay live to the end (nv large => every callee-saved
// register is used and saved in the prolog; nv small => none is). No constants, no stack slot: position independent.
template<typename CC, typename GP, typename MK32>
Error prog_funcp_t(CC* cc, uint64_t seed, uint32_t n, uint32_t nv, MK32 w32) {
  if (!cc->code()) return Error::kNotInitialized;
  if (nv < 2) nv = 2;
  Rng r(seed);
  Error first = Error::kOk;
  auto note = [&](Error err) { if (err != Error::kOk && first == Error::kOk) first = err; };
  FuncNode* fn = cc->add_func(FuncSignature::build<int, int, int>());
  if (!fn) return Error::kOutOfMemory;
  W.func_labels.push_back(fn->label().id());
  std::vector<GP> v;
  for (uint32_t i = 0; i < nv; i++) v.push_back(cc->new_gp32());
  fn->set_arg(0, w32(v[0]));
  fn->set_arg(1, w32(v[1]));
  for (uint32_t i = 2; i < nv; i++) note(cc->mov(w32(v[i]), Imm(int32_t(1 + r.below(1000)))));
  Label skip = cc->new_label();
  for (uint32_t i = 0; i < n; i++) {
    GP a = v[r.below(nv)], b = v[r.below(nv)];
    switch (r.below(3)) {
      case 0: note(cc->add(w32(a), w32(a), w32(b))); break;
      case 1: note(cc->mul(w32(a), w32(a), w32(b))); break;
      case 2: note(cc->cmp(w32(a), w32(b))); break;
    }
  }
  note(cc->bind(skip));
  for (uint32_t i = 1; i < nv; i++) note(cc->add(w32(v[0]), w32(v[0]), w32(v[i])));
  note(cc->ret(w32(v[0])));
  note(cc->end_func());
  return first;
}

Error prog_funcp(BaseCompiler* bc, uint64_t seed, uint32_t n, uint32_t nv) {
  if (W.a64) {
    a64::Compiler* cc = static_cast<a64::Compiler*>(bc);
    return prog_funcp_t<a64::Compiler, a64::Gp>(cc, seed, n, nv, [](const a64::Gp& g) { return g.w(); });
  }
  // x86 has two-operand forms: wrap them so that the template above can use add(a, a, b)
  struct CC2 {
    x86::Compiler* c;
    const CodeHolder* code() const { return c->code(); }
    FuncNode* add_func(const FuncSignature& s) { return c->add_func(s); }
    x86::Gp new_gp32() { return c->new_gp32(); }
    Label new_label() { return c->new_label(); }
    Error bind(const Label& l) { return c->bind(l); }
    Error mov(const x86::Gp& a, const Imm& i) { return c->mov(a, i); }
    Error add(const x86::Gp& a, const x86::Gp&, const x86::Gp& b) { return c->add(a, b); }
    Error mul(const x86::Gp& a, const x86::Gp&, const x86::Gp& b) { return c->imul(a, b); }
    Error cmp(const x86::Gp& a, const x86::Gp& b) { return c->cmp(a, b); }
    Error ret(const x86::Gp& a) { return c->ret(a); }
    Error end_func() { return c->end_func(); }
  } cc2{static_cast<x86::Compiler*>(bc)};
  return prog_funcp_t<CC2, x86::Gp>(&cc2, seed, n, nv, [](const x86::Gp& g) { return g.r32(); });
}

// ---- protocol -------------------------------------------------------------------------------------------------

std::string step(const std::string& line) {
  std::vector<std::string> w = vh::words(line);
  const std::string& op = w[0];
  uint64_t ei = 0;
  auto emitter = [&](size_t at) -> BaseEmitter* {
    if (w.size() <= at || !vh::parse_u64(w[at], ei) || ei > 3 || !W.code) return nullptr;
    return W.em(size_t(ei));
  };

  if (op == "world") {
    bool st = w.size() > 1 && w[1] == "static";
    uint64_t sz = 4096;
    bool use_a64 = false;
    for (size_t k = 2; k < w.size(); k++) { if (w[k] == "a64") use_a64 = true; else vh::parse_u64(w[k], sz); }
    W.create(st, size_t(sz), use_a64);
    return "ok";
  }
  if (!W.code) return "no-world";
  CodeHolder& code = *W.code;

  if (op == "init") {
    Environment env(w.size() > 1 && w[1] == "x86" ? Arch::kX86 : w.size() > 1 && w[1] == "a64" ? Arch::kAArch64 : Arch::kX64);
    uint64_t base = Globals::kNoBaseAddress;
    if (w.size() > 2 && !vh::parse_hex(w[2], base)) return "bad-op";
    return err_name(code.init(env, base));
  }
  if (op == "reset" || op == "reinit") W.func_labels.clear();
  if (op == "reset") { code.reset(w.size() > 1 && w[1] == "hard" ? ResetPolicy::kHard : ResetPolicy::kSoft); return "ok"; }
  if (op == "reinit") return err_name(code.reinit());
  if (op == "hlogger") { code.set_logger(w.size() > 1 && w[1] == "on" ? &W.hlog : nullptr); return "ok"; }
  if (op == "heap") {
    // perturb the heap: allocate blocks of assorted sizes filled with garbage, free some of them again
    uint64_t seed = 1;
    if (w.size() > 1) vh::parse_u64(w[1], seed);
    Rng r(seed);
    for (int i = 0; i < 24; i++) {
      auto* p = new std::vector<uint8_t>(size_t(16) << r.below(11), uint8_t(0x5A + i));
      if (r.below(2)) W.noise.push_back(p); else delete p;
    }
    return "ok";
  }
  if (op == "dump") return dump();
  if (op == "jitadd") {
    // the documented end of "code generation as usual": JitRuntime::add() flattens, relocates to the address it allocated
    // (which stores that address in the holder) and copies the code
    void* p = nullptr;
    Error err = g_rt.add(&p, &code);
    if (err == Error::kOk && p) W.jit_ptrs.push_back(p);
    return err_name(err);
  }
  if (op == "link") {
    // flatten + resolve + relocate to a base address: the section buffers (and the address table) get their final content
    uint64_t base = 0x10000;
    if (w.size() > 1) vh::parse_hex(w[1], base);
    Error err = code.flatten();
    if (err == Error::kOk) err = code.resolve_cross_section_fixups();
    if (err == Error::kOk) err = code.relocate_to_base(base);
    return err_name(err);
  }

  BaseEmitter* e = emitter(1);
  if (!e) return "bad-emitter";

  if (op == "attach") return err_name(code.attach(e));
  if (op == "detach") return err_name(code.detach(e));
  if (op == "elogger") { e->set_logger(w.size() > 2 && w[2] == "on" ? &W.elog[ei] : nullptr); return "ok"; }
  if (op == "diag") {
    DiagnosticOptions d = DiagnosticOptions::kValidateAssembler | DiagnosticOptions::kValidateIntermediate;
    if (w.size() > 2 && w[2] == "on") e->add_diagnostic_options(d); else e->clear_diagnostic_options(d);
    return "ok";
  }
  if (op == "label") {
    Label l = e->new_label();
    return l.is_valid() ? "L" + num(l.id()) : std::string("L-");
  }
  if (op == "nlabel") {
    if (w.size() < 3) return "bad-op";
    Label l = e->new_named_label(w[2].c_str());
    return l.is_valid() ? "L" + num(l.id()) : std::string("L-");
  }
  if (op == "bind") {
    uint64_t id;
    if (w.size() < 3 || !vh::parse_u64(w[2], id)) return "bad-op";
    Label l; l.set_id(uint32_t(id));
    return err_name(e->bind(l));
  }
  if (op == "raw") {
    std::vector<uint8_t> bytes;
    if (w.size() < 3 || !vh::hex_to_bytes(w[2], bytes)) return "bad-op";
    return err_name(e->embed(bytes.data(), bytes.size()));
  }
  if (op == "opt") {
    if (w.size() < 3) return "bad-op";
    e->add_inst_options(w[2] == "s" ? InstOptions::kShortForm : InstOptions::kLongForm);
    return "ok";
  }
  if (op == "cmt") { e->set_inline_comment(kComment); return "ok"; }
  if (op == "jmp") {
    uint64_t id;
    if (w.size() < 3 || !vh::parse_u64(w[2], id)) return "bad-op";
    Label l; l.set_id(uint32_t(id));
    return err_name(W.a64 ? e->emit(a64::Inst::kIdB, l) : e->emit(x86::Inst::kIdJmp, l));
  }
  if (op == "elabel") {
    uint64_t id, sz;
    if (w.size() < 4 || !vh::parse_u64(w[2], id) || !vh::parse_u64(w[3], sz)) return "bad-op";
    Label l; l.set_id(uint32_t(id));
    return err_name(e->embed_label(l, size_t(sz)));
  }
  if (op == "section") {
    if (w.size() < 3) return "bad-op";
    if (!e->code()) return "NotInitialized";
    Section* s = nullptr;
    Error err = code.new_section(Out(s), w[2].c_str(), SIZE_MAX, SectionFlags::kNone, 8, 0);
    if (err != Error::kOk) return err_name(err);
    err = e->section(s);
    return err == Error::kOk ? "S" + num(s->section_id()) : err_name(err);
  }
  if (op == "switch") {
    uint64_t id;
    if (w.size() < 3 || !vh::parse_u64(w[2], id)) return "bad-op";
    if (!e->code()) return "NotInitialized";
    if (!code.is_section_valid(uint32_t(id))) return "InvalidSection";
    return err_name(e->section(code.section_by_id(uint32_t(id))));
  }
  if (op == "vreg") {
    if (!e->is_compiler()) return "bad-emitter";
    Reg r;
    Error err = static_cast<BaseCompiler*>(e)->_new_reg(Out<Reg>(r), TypeId::kInt32, nullptr);
    return err == Error::kOk ? "v" + num(Operand::virt_id_to_index(r.id())) : err_name(err);
  }
  if (op == "jann") {
    if (!e->is_compiler()) return "bad-emitter";
    JumpAnnotation* ja = static_cast<BaseCompiler*>(e)->new_jump_annotation();
    return ja ? "j" + num(ja->annotation_id()) : std::string("j-");
  }
  if (op == "finalize") return err_name(e->finalize());
  if (op == "jabs") {
    // jmp / call to an absolute address: without a base address x86-64 records an address-table entry + relocation
    uint64_t addr;
    if (w.size() < 3 || !vh::parse_hex(w[2], addr)) return "bad-op";
    bool call = w.size() > 3 && w[3] == "call";
    if (W.a64) return err_name(e->emit(call ? a64::Inst::kIdBl : a64::Inst::kIdB, Imm(addr)));
    return err_name(e->emit(call ? x86::Inst::kIdCall : x86::Inst::kIdJmp, Imm(addr)));
  }
  if (op == "fnbytes") {
    // bytes of every function added by `prog … func*`: from its entry label to the next entry label / end of .text
    std::string out = "fn";
    Section* text = code.text_section();
    for (size_t k = 0; k < W.func_labels.size(); k++) {
      uint32_t id = W.func_labels[k];
      if (!code.is_label_valid(id) || !code.is_label_bound(id)) { out += ":unbound"; continue; }
      uint64_t from = code.label_offset(id), to = text->buffer_size();
      for (size_t m = 0; m < W.func_labels.size(); m++) {
        uint32_t o = W.func_labels[m];
        if (code.is_label_valid(o) && code.is_label_bound(o) && code.label_offset(o) > from && code.label_offset(o) < to) to = code.label_offset(o);
      }
      out += ":" + vh::bytes_to_hex(text->data() + from, size_t(to - from));
    }
    return out;
  }
  if (op == "err") {
    // operations that fail: used to put failures into histories
    uint64_t k = 0;
    if (w.size() > 2) vh::parse_u64(w[2], k);
    Label bad; bad.set_id(0xFFFFu);
    switch (k % 3) {
      case 0: return err_name(e->bind(bad));
      case 1: return err_name(W.a64 ? e->emit(a64::Inst::kIdAdd, a64::w0, a64::x1) : e->emit(x86::Inst::kIdMov, x86::eax, x86::rbx));
      default: return err_name(W.a64 ? e->emit(a64::Inst::kIdB, bad) : e->emit(x86::Inst::kIdJmp, bad));
    }
  }
  if (op == "prog") {
    uint64_t seed, n;
    if (w.size() < 5 || !vh::parse_u64(w[3], seed) || !vh::parse_u64(w[4], n)) return "bad-op";
    if (w[2] == "funcp") {
      uint64_t nv = 2;
      if (w.size() > 5) vh::parse_u64(w[5], nv);
      if (!e->is_compiler()) return "bad-emitter";
      return err_name(prog_funcp(static_cast<BaseCompiler*>(e), seed, uint32_t(n), uint32_t(nv)));
    }
    if (W.a64) {
      if (w[2] == "asmx") return err_name(prog_asma(e, seed, uint32_t(n)));
      if (w[2] == "func") {
        if (!e->is_compiler()) return "bad-emitter";
        return err_name(prog_funca(static_cast<a64::Compiler*>(e), seed, uint32_t(n)));
      }
      return "bad-op";
    }
    if (w[2] == "asmx") return err_name(prog_asmx(e, seed, uint32_t(n)));
    if (w[2] == "func") {
      if (!e->is_compiler()) return "bad-emitter";
      return err_name(prog_func(static_cast<x86::Compiler*>(e), seed, uint32_t(n)));
    }
    return "bad-op";
  }
  return "bad-op";
}

} // namespace

int main() {
  int rc = vh::line_loop(step);
  W.destroy();
  return rc;
}
