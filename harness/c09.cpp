// C09 harness: the real JitAllocator behind the line protocol of lean/Driver/C09.lean.
// The TU includes jitallocator.cpp so that the private block state can be dumped (tie of the model's internal state).
//
// Canonicalisation: a block is named by its creation ordinal (the harness walks the pool lists after every op: blocks that
// disappeared lose their ordinal, a new block gets the next one); pointers become (block ordinal, byte offset).
// Every answer carries the statistics as suffix ` ; <blocks> <allocations> <used> <reserved> <bitvector-overhead>`.
#include <asmjit/core.h>
#include <asmjit/core/jitallocator.cpp>
#include <map>
#include <memory>
#include <sys/mman.h>
#include "vh.h"

using namespace asmjit;

struct Handle {
  JitAllocator::Span span;   // last known span (kept after death for the stale-pointer ops)
  bool live = false;
  uint32_t blk = 0;          // ordinal of the block
};

static std::unique_ptr<JitAllocator> A;
static std::vector<Handle> H;
static std::map<JitAllocatorBlock*, uint32_t> ORD;   // live blocks -> ordinal
static uint32_t next_ord = 0;
static uint8_t static_buf[4096];
static void* foreign_page = nullptr;

static JitAllocatorPrivateImpl* impl() { return static_cast<JitAllocatorPrivateImpl*>(A->_impl); }

static const char* err_name(Error e) {
  switch (e) {
    case Error::kOk: return "Ok";
    case Error::kOutOfMemory: return "OutOfMemory";
    case Error::kInvalidArgument: return "InvalidArgument";
    case Error::kInvalidState: return "InvalidState";
    case Error::kNotInitialized: return "NotInitialized";
    case Error::kTooLarge: return "TooLarge";
    default: return "Other";
  }
}

// Walks the pools; returns "" or a description of a mapping problem (new block overlapping an existing one / misaligned).
static std::string refresh_blocks() {
  std::map<JitAllocatorBlock*, uint32_t> now;
  std::vector<JitAllocatorBlock*> fresh;
  JitAllocatorPrivateImpl* I = impl();
  for (size_t p = 0; p < I->pool_count; p++)
    for (JitAllocatorBlock* b = I->pools[p].blocks.first(); b; b = b->next()) {
      auto it = ORD.find(b);
      if (it != ORD.end()) now[b] = it->second; else fresh.push_back(b);
    }
  std::string bad;
  for (JitAllocatorBlock* b : fresh) {
    now[b] = next_ord++;
  }
  ORD.swap(now);
  // OS assumption of the model (trusted base, only tested here): block ranges are page aligned and pairwise disjoint in both views.
  for (auto& x : ORD) {
    JitAllocatorBlock* b = x.first;
    if ((uintptr_t(b->rx_ptr()) & 4095) || (uintptr_t(b->rw_ptr()) & 4095)) bad = "misaligned-mapping";
    for (auto& y : ORD) {
      JitAllocatorBlock* c = y.first;
      if (b == c) continue;
      if (b->rx_ptr() < c->rx_ptr() + c->block_size() && c->rx_ptr() < b->rx_ptr() + b->block_size()) bad = "overlapping-mapping";
      if (b->rw_ptr() < c->rw_ptr() + c->block_size() && c->rw_ptr() < b->rw_ptr() + b->block_size()) bad = "overlapping-mapping";
    }
  }
  return bad;
}

static JitAllocatorBlock* block_by_ord(uint32_t o) {
  for (auto& x : ORD) if (x.second == o) return x.first;
  return nullptr;
}

static std::string stats_suffix() {
  JitAllocator::Statistics s = A->statistics();
  size_t ovh = s.overhead_size() - s.block_count() * sizeof(JitAllocatorBlock);
  char buf[160];
  snprintf(buf, sizeof(buf), " ; %zu %zu %zu %zu %zu", s.block_count(), s.allocation_count(), s.used_size(), s.reserved_size(), ovh);
  return buf;
}

static std::string span_str(const JitAllocator::Span& s) {
  JitAllocatorBlock* b = static_cast<JitAllocatorBlock*>(s._block);
  auto it = ORD.find(b);
  if (it == ORD.end()) return "unknown-block";
  size_t pool = size_t(b->pool() - impl()->pools);
  size_t off = size_t((uint8_t*)s.rx() - b->rx_ptr());
  size_t rwoff = size_t((uint8_t*)s.rw() - b->rw_ptr());
  char buf[200];
  snprintf(buf, sizeof(buf), "b%u p%zu bs%zu %zu %zu rw%zu d%d", it->second, pool, b->block_size(), off, s.size(), rwoff, int(s.rx() != s.rw()));
  return buf;
}

// Colour of one granule read through the rx view.
static std::string colour(const uint8_t* p, size_t gran, uint32_t pattern) {
  bool uni = true;
  for (size_t i = 1; i < gran; i++) if (p[i] != p[0]) { uni = false; break; }
  if (uni) { char b[8]; snprintf(b, sizeof(b), "U%02x", p[0]); return b; }
  bool pat = true;
  for (size_t i = 0; i < gran; i += 4) { uint32_t w; memcpy(&w, p + i, 4); if (w != pattern) { pat = false; break; } }
  return pat ? "P" : "X";
}

static std::string colours(const uint8_t* p, size_t n_gran, size_t gran, uint32_t pattern) {
  std::string out, cur;
  size_t run = 0;
  for (size_t g = 0; g < n_gran; g++) {
    std::string c = colour(p + g * gran, gran, pattern);
    if (c == cur) { run++; continue; }
    if (run) { if (!out.empty()) out += ","; out += cur + "*" + std::to_string(run); }
    cur = c; run = 1;
  }
  if (run) { if (!out.empty()) out += ","; out += cur + "*" + std::to_string(run); }
  return out;
}

static std::string bits_runs(const Support::BitWord* v, uint32_t n) {
  std::string out;
  uint32_t i = 0;
  while (i < n) {
    if (!Support::bit_vector_get_bit(const_cast<Support::BitWord*>(v), i)) { i++; continue; }
    uint32_t j = i;
    while (j < n && Support::bit_vector_get_bit(const_cast<Support::BitWord*>(v), j)) j++;
    if (!out.empty()) out += ",";
    out += std::to_string(i) + "-" + std::to_string(j);
    i = j;
  }
  return out.empty() ? "-" : out;
}

static std::vector<std::pair<uint32_t, JitAllocatorBlock*>> blocks_sorted() {
  std::vector<std::pair<uint32_t, JitAllocatorBlock*>> v;
  for (auto& x : ORD) v.emplace_back(x.second, x.first);
  std::sort(v.begin(), v.end());
  return v;
}

static void* foreign_ptr(uint64_t k) {
  static int local_anchor;
  switch (k) {
    case 0: return nullptr;
    case 1: return static_buf + 100;
    case 2: return &local_anchor;
    case 3: return (uint8_t*)foreign_page + 64;
    default: return (void*)uintptr_t(64);
  }
}

struct TruncCtx { uint8_t byte; size_t new_size; };

static std::string do_step(const std::vector<std::string>& w) {
  const std::string& op = w[0];
  uint64_t a = 0, b = 0, c = 0;
  if (op == "cfg") {
    uint64_t opts, gran, bs, pat;
    if (w.size() != 5 || !vh::parse_hex(w[1], opts) || !vh::parse_u64(w[2], gran) || !vh::parse_u64(w[3], bs) || !vh::parse_hex(w[4], pat)) return "bad-op";
    A.reset();
    H.clear(); ORD.clear(); next_ord = 0;
    JitAllocator::CreateParams params;
    params.options = JitAllocatorOptions(uint32_t(opts));
    params.granularity = uint32_t(gran);
    params.block_size = uint32_t(bs);
    params.fill_pattern = uint32_t(pat);
    A.reset(new JitAllocator(&params));
    char buf[200];
    snprintf(buf, sizeof(buf), "ok init=%d opts=%x gran=%u block=%u fill=%x pools=%zu", int(A->is_initialized()), uint32_t(A->options()),
             A->granularity(), A->block_size(), A->fill_pattern(), impl()->pool_count);
    return buf;
  }
  if (!A) return "no-allocator";
  if (op == "alloc") {
    if (w.size() != 2 || !vh::parse_u64(w[1], a)) return "bad-op";
    Handle h;
    Error e = A->alloc(Out(h.span), size_t(a));
    std::string bad = refresh_blocks();
    if (e != Error::kOk) { H.push_back(h); return std::string("err ") + err_name(e); }
    if (!bad.empty()) return bad;
    h.live = true;
    auto it = ORD.find(static_cast<JitAllocatorBlock*>(h.span._block));
    h.blk = it == ORD.end() ? ~0u : it->second;
    H.push_back(h);
    if (!h.span.rx() || !h.span.rw()) return "ok null-span";
    return "ok " + span_str(h.span);
  }
  if (op == "release") {
    if (w.size() != 2 || !vh::parse_u64(w[1], a)) return "bad-op";
    if (a >= H.size() || !H[a].live) return "dead";
    Error e = A->release(H[a].span.rx());
    refresh_blocks();
    if (e != Error::kOk) return std::string("err ") + err_name(e);
    H[a].live = false;
    return "ok";
  }
  if (op == "shrink") {
    if (w.size() != 3 || !vh::parse_u64(w[1], a) || !vh::parse_u64(w[2], b)) return "bad-op";
    if (a >= H.size() || !H[a].live) return "dead";
    JitAllocator::Span keep = H[a].span;
    Error e = A->shrink(H[a].span, size_t(b));
    refresh_blocks();
    if (e != Error::kOk) return std::string("err ") + err_name(e);
    if (b == 0) { H[a].span = keep; H[a].live = false; return "ok 0"; }
    return "ok " + std::to_string(H[a].span.size());
  }
  if (op == "query") {
    if (w.size() != 3 || !vh::parse_u64(w[1], a) || !vh::parse_u64(w[2], b)) return "bad-op";
    if (a >= H.size()) return "dead";
    JitAllocatorBlock* blk = block_by_ord(H[a].blk);
    if (!H[a].span.rx() || !blk) return "gone";          // block was deleted: the address may belong to anybody now
    // offsets up to 2^64 - 1 are part of the protocol: decide "outside the block" on integers, never form a wrapped pointer
    size_t span_off = size_t((uint8_t*)H[a].span.rx() - blk->rx_ptr());
    if (b >= blk->block_size() || span_off + b >= blk->block_size()) return "oob";
    uint8_t* p = (uint8_t*)H[a].span.rx() + b;
    JitAllocator::Span s;
    Error e = A->query(Out(s), p);
    if (e != Error::kOk) return std::string("err ") + err_name(e);
    return "ok " + span_str(s);
  }
  if (op == "sstale") {   // shrink through a span whose allocation was released (must be rejected unless the granule was reused)
    if (w.size() != 3 || !vh::parse_u64(w[1], a) || !vh::parse_u64(w[2], b)) return "bad-op";
    if (a >= H.size() || H[a].live || b == 0) return "dead";
    JitAllocatorBlock* blk = block_by_ord(H[a].blk);
    if (!H[a].span.rx() || !blk || blk != H[a].span._block) return "gone";
    JitAllocator::Span s;
    if (A->query(Out(s), H[a].span.rx()) == Error::kOk) return "busy";
    JitAllocator::Span st = H[a].span;
    Error e = A->shrink(st, size_t(b));
    return e == Error::kOk ? "ok" : std::string("err ") + err_name(e);
  }
  if (op == "write") {
    if (w.size() != 3 || !vh::parse_u64(w[1], a) || !vh::parse_hex(w[2], b)) return "bad-op";
    if (a >= H.size() || !H[a].live) return "dead";
    std::vector<uint8_t> buf(H[a].span.size(), uint8_t(b));
    Error e = A->write(H[a].span, 0, buf.data(), buf.size());
    return e == Error::kOk ? "ok" : std::string("err ") + err_name(e);
  }
  if (op == "wtrunc") {   // write through the callback variant and truncate the span inside the callback
    if (w.size() != 4 || !vh::parse_u64(w[1], a) || !vh::parse_hex(w[2], b) || !vh::parse_u64(w[3], c)) return "bad-op";
    if (a >= H.size() || !H[a].live) return "dead";
    TruncCtx ctx{uint8_t(b), size_t(c)};
    JitAllocator::Span keep = H[a].span;
    Error e = A->write(H[a].span, [](JitAllocator::Span& s, void* ud) noexcept -> Error {
      TruncCtx* t = static_cast<TruncCtx*>(ud);
      memset(s.rw(), t->byte, s.size());
      s.shrink(t->new_size);
      return Error::kOk;
    }, &ctx);
    refresh_blocks();
    if (e != Error::kOk) return std::string("err ") + err_name(e);
    if (H[a].span.size() == 0 || !H[a].span.rx()) { H[a].span = keep; H[a].live = false; return "ok 0"; }
    return "ok " + std::to_string(H[a].span.size());
  }
  if (op == "read") {
    if (w.size() != 2 || !vh::parse_u64(w[1], a)) return "bad-op";
    if (a >= H.size() || !H[a].live) return "dead";
    JitAllocatorBlock* blk = static_cast<JitAllocatorBlock*>(H[a].span._block);
    size_t gran = blk->pool()->granularity;
    return "ok " + colours((const uint8_t*)H[a].span.rx(), H[a].span.size() / gran, gran, A->fill_pattern());
  }
  if (op == "mem") {      // colour of every granule of every block, through the rx view
    std::string out = "mem";
    for (auto& x : blocks_sorted()) {
      JitAllocatorBlock* blk = x.second;
      size_t gran = blk->pool()->granularity;
      out += " b" + std::to_string(x.first) + "=" + colours(blk->rx_ptr(), blk->area_size(), gran, A->fill_pattern());
    }
    return out;
  }
  if (op == "sweep") {    // query() at every granule of every block
    std::string out = "sweep";
    for (auto& x : blocks_sorted()) {
      JitAllocatorBlock* blk = x.second;
      size_t gran = blk->pool()->granularity;
      out += " b" + std::to_string(x.first) + "=";
      std::string items;
      size_t cur_start = SIZE_MAX, cur_size = 0;
      for (uint32_t g = 0; g < blk->area_size(); g++) {
        JitAllocator::Span s;
        Error e = A->query(Out(s), blk->rx_ptr() + size_t(g) * gran + (g % 3));   // interior addresses too
        if (e != Error::kOk) { cur_start = SIZE_MAX; continue; }
        size_t st = size_t((uint8_t*)s.rx() - blk->rx_ptr()) / gran, sz = s.size() / gran;
        if (s._block != blk || size_t((uint8_t*)s.rw() - blk->rw_ptr()) != st * gran || s.size() % gran) { items += "!bad@" + std::to_string(g); continue; }
        if (st == cur_start && sz == cur_size) continue;
        cur_start = st; cur_size = sz;
        if (!items.empty()) items += ",";
        items += std::to_string(st) + "+" + std::to_string(sz);
        if (st != g) items += "!late@" + std::to_string(g);
      }
      out += items.empty() ? "-" : items;
    }
    return out;
  }
  if (op == "dump") {     // private state (tie of the model's internal state)
    std::string out = "dump";
    JitAllocatorPrivateImpl* I = impl();
    for (size_t p = 0; p < I->pool_count; p++) {
      JitAllocatorPool& pool = I->pools[p];
      auto it = pool.cursor ? ORD.find(pool.cursor) : ORD.end();
      out += " p" + std::to_string(p) + ":cur=" + (it == ORD.end() ? std::string("-") : "b" + std::to_string(it->second)) +
             ":ec=" + std::to_string(pool.empty_block_count) + ":bc=" + std::to_string(pool.block_count);
      for (JitAllocatorBlock* blk = pool.blocks.first(); blk; blk = blk->next()) {
        char buf[256];
        uint32_t f = blk->_flags;
        snprintf(buf, sizeof(buf), " b%u:sz=%zu:area=%u:fl=%s%s%s%s:used=%u:lu=%u:ss=%u:se=%u", ORD[blk], blk->block_size(), blk->area_size(),
                 (f & JitAllocatorBlock::kFlagInitialPadding) ? "P" : "", (f & JitAllocatorBlock::kFlagEmpty) ? "E" : "",
                 (f & JitAllocatorBlock::kFlagDirty) ? "D" : "", (f & JitAllocatorBlock::kFlagIncremental) ? "I" : "",
                 blk->area_used(), blk->largest_unused_area(), blk->_search_start, blk->_search_end);
        out += buf;
        out += ":u=" + bits_runs(blk->_used_bit_vector, blk->area_size()) + ":s=" + bits_runs(blk->_stop_bit_vector, blk->area_size());
      }
    }
    return out;
  }
  if (op == "reset") {
    if (w.size() != 2) return "bad-op";
    A->reset(w[1] == "hard" ? ResetPolicy::kHard : ResetPolicy::kSoft);
    for (Handle& h : H) { h.live = false; h.span = JitAllocator::Span{}; }
    refresh_blocks();
  }
  if (op == "blocks" || op == "reset") {   // ordinal, pool and size of every block (monitor input)
    std::string out = "blocks";
    for (auto& x : blocks_sorted()) {
      JitAllocatorBlock* blk = x.second;
      out += " b" + std::to_string(x.first) + ":p" + std::to_string(size_t(blk->pool() - impl()->pools)) + ":" + std::to_string(blk->block_size()) +
             ":" + ((blk->_flags & JitAllocatorBlock::kFlagInitialPadding) ? "1" : "0");
    }
    return out;
  }
  if (op == "isinit") return A->is_initialized() ? "1" : "0";
  if (op == "rforeign") {
    if (w.size() != 2 || !vh::parse_u64(w[1], a)) return "bad-op";
    Error e = A->release(foreign_ptr(a));
    refresh_blocks();
    return e == Error::kOk ? "ok" : std::string("err ") + err_name(e);
  }
  if (op == "qforeign") {
    if (w.size() != 2 || !vh::parse_u64(w[1], a)) return "bad-op";
    JitAllocator::Span s;
    Error e = A->query(Out(s), foreign_ptr(a));
    return e == Error::kOk ? "ok " + span_str(s) : std::string("err ") + err_name(e);
  }
  if (op == "sforeign") {
    JitAllocator::Span s;
    Error e = A->shrink(s, 64);
    return e == Error::kOk ? "ok" : std::string("err ") + err_name(e);
  }
  return "bad-op";
}

static std::string step(const std::string& line) {
  std::vector<std::string> w = vh::words(line);
  if (w.empty()) return "bad-op";
  std::string r = do_step(w);
  if (!A) return r;
  return r + stats_suffix();
}

int main() {
  foreign_page = mmap(nullptr, 4096, PROT_READ | PROT_WRITE, MAP_PRIVATE | MAP_ANONYMOUS, -1, 0);
  int rc = vh::line_loop(step);
  A.reset();
  return rc;
}
