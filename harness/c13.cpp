// C13 harness: instruction names (InstAPI::inst_id_to_string / string_to_inst_id), strict validation
// (InstAPI::validate) and the assembler with / without DiagnosticOptions::kValidateAssembler behind the line protocol of
// lean/Driver/C13.lean; `h_c13 dump-names|dump-x86sig` prints the tables the translators tools/gen_names.py and
// tools/gen_x86sig.py turn into lean/AsmjitVerif/Gen/*.lean (read from the compiler, not re-parsed).
#include <asmjit/core.h>
#include <asmjit/x86.h>
#include <asmjit/a64.h>
#include <asmjit/core/instdb_p.h>
#include <asmjit/x86/x86instdb_p.h>
#include <asmjit/arm/a64instdb_p.h>
#include "vh.h"

// fixes/C13-8 adds a name-sorted id table to the AArch64 database; weak so that the harness links against both trees
ASMJIT_BEGIN_SUB_NAMESPACE(a64)
namespace InstDB { extern const uint16_t _inst_name_sorted_id_table[] __attribute__((weak)); }
ASMJIT_END_SUB_NAMESPACE

using namespace asmjit;

static const char* ename(Error e) { return DebugUtils::error_as_string(e); }

// ---------------------------------------------------------------------------------------------------------------------
// dumps
// ---------------------------------------------------------------------------------------------------------------------

template<typename T, size_t N> static constexpr size_t array_size(const T (&)[N]) { return N; }

static void dump_name_set(const char* arch_name, Arch arch, uint32_t count, const InstNameIndex& idx,
                          const uint32_t* name_table, const char* string_table, size_t string_table_size) {
  printf("arch %s\ncount %u\nmaxlen %u\n", arch_name, count, unsigned(idx.max_name_length));
  for (int i = 0; i < 26; i++) printf("span %u %u\n", unsigned(idx.data[i].start), unsigned(idx.data[i].end));
  printf("strtab %s\n", vh::bytes_to_hex(reinterpret_cast<const uint8_t*>(string_table), string_table_size).c_str());
  printf("nametab");
  for (uint32_t i = 0; i < count; i++) printf(" %x", name_table[i]);
  printf("\n");
  // the names as the real inst_id_to_string prints them (plain and with alias formatting)
  for (int o = 0; o < 2; o++) {
    printf(o ? "anames" : "names");
    for (uint32_t i = 0; i < count; i++) {
      String s;
      Error e = InstAPI::inst_id_to_string(arch, i, InstStringifyOptions(o), s);
      printf(" %s", e == Error::kOk ? (s.size() ? vh::bytes_to_hex(reinterpret_cast<const uint8_t*>(s.data()), s.size()).c_str() : "-") : "!");
    }
    printf("\n");
  }
}

// sizes of the tables are not visible through the extern declarations: the string tables are found by the largest
// offset any name value refers to (+ alias format records), which is what the code can ever read.
static size_t strtab_extent(const uint32_t* name_table, uint32_t count, const char* st) {
  size_t ext = 0;
  for (uint32_t i = 0; i < count; i++) {
    uint32_t v = name_table[i];
    if (v & 0x80000000u) continue;
    size_t pb = v & 0xFFFu, ps = (v >> 12) & 0xFu, sb = (v >> 16) & 0xFFFu, ss = (v >> 28) & 0x7u;
    ext = std::max(ext, pb + ps);
    if (sb == 0xFFFu) ext = std::max(ext, pb + ps + 1 + size_t(uint8_t(st[pb + ps])));
    else ext = std::max(ext, sb + ss);
  }
  return ext;
}

static int dump_names() {
  {
    using namespace x86;
    dump_name_set("x86", Arch::kX64, Inst::_kIdCount, InstDB::_inst_name_index, InstDB::_inst_name_index_table,
                  InstDB::_inst_name_string_table, strtab_extent(InstDB::_inst_name_index_table, Inst::_kIdCount, InstDB::_inst_name_string_table));
    uint32_t n = InstDB::kAliasTableSize;
    printf("aliascount %u\n", n);
    printf("aliasstrtab %s\n", vh::bytes_to_hex(reinterpret_cast<const uint8_t*>(InstDB::alias_name_string_table),
                                                 strtab_extent(InstDB::alias_name_index_table, n, InstDB::alias_name_string_table)).c_str());
    printf("aliasnametab");
    for (uint32_t i = 0; i < n; i++) printf(" %x", InstDB::alias_name_index_table[i]);
    printf("\naliasids");
    for (uint32_t i = 0; i < n; i++) printf(" %u", InstDB::alias_index_to_inst_id_table[i]);
    printf("\n");
  }
  {
    using namespace a64;
    dump_name_set("a64", Arch::kAArch64, Inst::_kIdCount, InstDB::_inst_name_index, InstDB::_inst_name_index_table,
                  InstDB::_inst_name_string_table, strtab_extent(InstDB::_inst_name_index_table, Inst::_kIdCount, InstDB::_inst_name_string_table));
    const uint16_t* sorted = InstDB::_inst_name_sorted_id_table;
    if (sorted) {
      unsigned n = 0;
      for (int i = 0; i < 26; i++) n = std::max<unsigned>(n, InstDB::_inst_name_index.data[i].end);
      printf("sortedids");
      for (unsigned i = 0; i < n; i++) printf(" %u", unsigned(sorted[i]));
      printf("\n");
    }
  }
  return 0;
}

static int dump_x86sig() {
  using namespace x86;
  printf("count %u\n", unsigned(Inst::_kIdCount));
  // constants the Lean model spells out (checked there against these values)
  printf("const kRep %x\nconst kRepIgnored %x\nconst kLock %x\nconst kXAcquire %x\nconst kXRelease %x\nconst kEvex %x\n",
         unsigned(InstDB::InstFlags::kRep), unsigned(InstDB::InstFlags::kRepIgnored), unsigned(InstDB::InstFlags::kLock),
         unsigned(InstDB::InstFlags::kXAcquire), unsigned(InstDB::InstFlags::kXRelease), unsigned(InstDB::InstFlags::kEvex));
  printf("const kVex %x\nconst kVsib %x\nconst optEvex %x\n", unsigned(InstDB::InstFlags::kVex), unsigned(InstDB::InstFlags::kVsib), unsigned(InstOptions::kX86_Evex));
  printf("const avxK %x\nconst avxZ %x\nconst avxER %x\nconst avxSAE %x\nconst avxB16 %x\nconst avxB32 %x\nconst avxB64 %x\n",
         unsigned(InstDB::Avx512Flags::kK), unsigned(InstDB::Avx512Flags::kZ), unsigned(InstDB::Avx512Flags::kER), unsigned(InstDB::Avx512Flags::kSAE),
         unsigned(InstDB::Avx512Flags::kB16), unsigned(InstDB::Avx512Flags::kB32), unsigned(InstDB::Avx512Flags::kB64));
  printf("const optLock %x\nconst optRep %x\nconst optRepne %x\nconst optXAcquire %x\nconst optXRelease %x\nconst optER %x\nconst optSAE %x\nconst optZMask %x\nconst optRex %x\n",
         unsigned(InstOptions::kX86_Lock), unsigned(InstOptions::kX86_Rep), unsigned(InstOptions::kX86_Repne), unsigned(InstOptions::kX86_XAcquire),
         unsigned(InstOptions::kX86_XRelease), unsigned(InstOptions::kX86_ER), unsigned(InstOptions::kX86_SAE), unsigned(InstOptions::kX86_ZMask),
         unsigned(InstOptions::kX86_Rex));
  printf("const modeX86 %x\nconst modeX64 %x\nconst kMaxOpCount %x\nconst kVirtIdMin %x\n", unsigned(InstDB::Mode::kX86), unsigned(InstDB::Mode::kX64),
         unsigned(Globals::kMaxOpCount), unsigned(Operand::kVirtIdMin));
  static const struct { const char* n; RegType t; } rts[] = {
    {"rtNone", RegType::kNone}, {"rtLabelTag", RegType::kLabelTag}, {"rtGp8Lo", RegType::kGp8Lo}, {"rtGp8Hi", RegType::kGp8Hi}, {"rtGp16", RegType::kGp16},
    {"rtGp32", RegType::kGp32}, {"rtGp64", RegType::kGp64}, {"rtVec128", RegType::kVec128}, {"rtVec256", RegType::kVec256}, {"rtVec512", RegType::kVec512},
    {"rtMask", RegType::kMask}, {"rtTile", RegType::kTile}, {"rtSegment", RegType::kSegment}, {"rtControl", RegType::kControl}, {"rtDebug", RegType::kDebug},
    {"rtMm", RegType::kX86_Mm}, {"rtSt", RegType::kX86_St}, {"rtBnd", RegType::kX86_Bnd}, {"rtPC", RegType::kPC}};
  for (auto& r : rts) printf("const %s %x\n", r.n, unsigned(r.t));
  // per instruction: flags, avx512 flags, signature index/count
  for (uint32_t id = 0; id < Inst::_kIdCount; id++) {
    const InstDB::CommonInfo& ci = InstDB::_inst_info_table[id].common_info();
    printf("inst %u %x %x %u %u\n", id, unsigned(ci._flags), unsigned(ci._avx512_flags), unsigned(ci._inst_signature_index), unsigned(ci._inst_signature_count));
    {
      uint32_t e = InstDB::_inst_info_table[id]._encoding;
      uint32_t k = (id == Inst::kIdVcvtsi2sd || id == Inst::kIdVcvtusi2sd) ? 7u : (id == Inst::kIdVcmpsd || id == Inst::kIdVcmpss) ? 8u : e == InstDB::kEncodingVexRvm_Lx_2xK ? 1u : e == InstDB::kEncodingX86Op ? 2u : e == InstDB::kEncodingX86Movabs ? 3u :
                   e == InstDB::kEncodingX86EnqcmdMovdir64b ? 4u : e == InstDB::kEncodingX86Imul ? 6u :
                   (e == InstDB::kEncodingX86Arith || e == InstDB::kEncodingX86Bt || e == InstDB::kEncodingX86Crc || e == InstDB::kEncodingX86IncDec ||
                    e == InstDB::kEncodingX86Ins || e == InstDB::kEncodingX86M_GPB || e == InstDB::kEncodingX86M_GPB_MulDiv ||
                    e == InstDB::kEncodingX86Mov || e == InstDB::kEncodingX86Outs || e == InstDB::kEncodingX86Pop || e == InstDB::kEncodingX86Rot ||
                    e == InstDB::kEncodingX86StrMm || e == InstDB::kEncodingX86Test) ? 5u : 0u;
      if (k) printf("enc %u %u\n", id, k);
    }
  }
  // signature rows reachable from any instruction
  uint32_t nsig = 0, nop = 0;
  for (uint32_t id = 0; id < Inst::_kIdCount; id++) {
    const InstDB::CommonInfo& ci = InstDB::_inst_info_table[id].common_info();
    nsig = std::max<uint32_t>(nsig, ci._inst_signature_index + ci._inst_signature_count);
  }
  for (uint32_t i = 0; i < nsig; i++) {
    const InstDB::InstSignature& s = InstDB::_inst_signature_table[i];
    printf("isig %u %u %u %u", i, unsigned(s._op_count), unsigned(s._mode), unsigned(s._implicit_op_count));
    for (uint32_t k = 0; k < Globals::kMaxOpCount; k++) { printf(" %u", unsigned(s._op_signature_indexes[k])); nop = std::max<uint32_t>(nop, s._op_signature_indexes[k] + 1u); }
    printf("\n");
  }
  for (uint32_t i = 0; i < nop; i++) {
    const InstDB::OpSignature& o = InstDB::_op_signature_table[i];
    printf("osig %u %llx %x\n", i, (unsigned long long)(uint64_t(o._flags)), unsigned(o._reg_mask));
  }
  return 0;
}

// ---------------------------------------------------------------------------------------------------------------------
// line protocol
// ---------------------------------------------------------------------------------------------------------------------

static bool split(const std::string& s, char sep, std::vector<std::string>& out) {
  out.clear();
  size_t b = 0;
  for (;;) {
    size_t e = s.find(sep, b);
    if (e == std::string::npos) { out.push_back(s.substr(b)); break; }
    out.push_back(s.substr(b, e - b));
    b = e + 1;
  }
  return true;
}

struct SilentHandler : public ErrorHandler {
  void handle_error(Error, const char*, BaseEmitter*) override {}
};

struct ParsedInst {
  Arch arch;
  InstId id;
  InstOptions options;
  bool has_extra = false;
  RegType extra_type = RegType::kNone;
  uint32_t extra_id = 0;
  std::vector<std::string> ops;
};

// builds one operand; `label` is the operand's label for this assembler (or an unrelated Label for plain validation)
static bool make_operand(const std::string& txt, const Label& label, Operand& out) {
  std::vector<std::string> f;
  split(txt, ':', f);
  uint64_t a, b;
  if (f[0] == "r") {
    if (f.size() != 3 || !vh::parse_u64(f[1], a) || !vh::parse_u64(f[2], b) || a > 31) return false;
    out = Reg::from_type_and_id(RegType(a), uint32_t(b));
    return true;
  }
  if (f[0] == "i") {
    if (f.size() != 2 || !vh::parse_hex(f[1], a)) return false;
    out = Imm(int64_t(a));
    return true;
  }
  if (f[0] == "l") {
    out = label;
    return f.size() == 1;
  }
  if (f[0] == "n") {
    out = Operand();
    return f.size() == 1;
  }
  if (f[0] == "m") {
    // m:<size>:<btype>:<bid>:<itype>:<iid>:<shift>:<off>:<seg>:<bcst>
    uint64_t v[10];
    int64_t off;
    if (f.size() != 10) return false;
    for (int i = 1; i < 10; i++) {
      if (i == 7) { if (!vh::parse_i64(f[7], off)) return false; }
      else if (!vh::parse_u64(f[i], v[i])) return false;
    }
    if (v[2] > 31 || v[4] > 31 || v[6] > 3 || v[8] > 7 || v[9] > 7 || v[1] > 255) return false;
    x86::Mem m;
    if (v[2] == 0) {
      m = v[4] ? x86::Mem(uint64_t(off), Reg::from_type_and_id(RegType(v[4]), uint32_t(v[5])), uint32_t(v[6]), uint32_t(v[1]))
               : x86::Mem(uint64_t(off), uint32_t(v[1]));
    }
    else if (v[2] == uint64_t(RegType::kLabelTag)) {
      if (off < INT32_MIN || off > INT32_MAX) return false;
      m = v[4] ? x86::Mem(label, Reg::from_type_and_id(RegType(v[4]), uint32_t(v[5])), uint32_t(v[6]), int32_t(off), uint32_t(v[1]))
               : x86::Mem(label, int32_t(off), uint32_t(v[1]));
    }
    else {
      if (off < INT32_MIN || off > INT32_MAX) return false;
      Reg base = Reg::from_type_and_id(RegType(v[2]), uint32_t(v[3]));
      m = v[4] ? x86::Mem(base, Reg::from_type_and_id(RegType(v[4]), uint32_t(v[5])), uint32_t(v[6]), int32_t(off), uint32_t(v[1]))
               : x86::Mem(base, int32_t(off), uint32_t(v[1]));
    }
    if (v[8]) m.set_segment(uint32_t(v[8]));
    if (v[9]) m.set_broadcast(x86::Mem::Broadcast(v[9]));
    out = m;
    return true;
  }
  return false;
}

static bool parse_inst(const std::vector<std::string>& w, ParsedInst& pi) {
  uint64_t mode, id, opts;
  if (w.size() < 5 || w.size() > 5 + 6) return false;
  if (!vh::parse_u64(w[1], mode) || !vh::parse_u64(w[2], id) || !vh::parse_hex(w[3], opts)) return false;
  if (mode != 32 && mode != 64) return false;
  pi.arch = mode == 32 ? Arch::kX86 : Arch::kX64;
  pi.id = InstId(id);
  pi.options = InstOptions(uint32_t(opts));
  if (w[4] != "-") {
    std::vector<std::string> f;
    split(w[4], ':', f);
    uint64_t a, b;
    if (f.size() != 3 || f[0] != "r" || !vh::parse_u64(f[1], a) || !vh::parse_u64(f[2], b) || a > 31) return false;
    pi.has_extra = true;
    pi.extra_type = RegType(a);
    pi.extra_id = uint32_t(b);
  }
  pi.ops.assign(w.begin() + 5, w.end());
  return true;
}

// one emit on a fresh CodeHolder; the label operand (if any) is bound at offset 0 in front of the instruction
static std::string emit_once(const ParsedInst& pi, bool validate_on) {
  CodeHolder code;
  Environment env(pi.arch);
  SilentHandler eh;
  // no base address: whether an absolute 64-bit address is reachable is then decided at relocation time, which is also
  // all that validate() can know
  if (code.init(env) != Error::kOk) return "InitFailed:";
  code.set_error_handler(&eh);
  x86::Assembler a(&code);
  if (validate_on) a.add_diagnostic_options(DiagnosticOptions::kValidateAssembler);
  Label L = a.new_label();
  a.bind(L);
  Operand ops[6];
  for (size_t i = 0; i < pi.ops.size(); i++)
    if (!make_operand(pi.ops[i], L, ops[i])) return "bad-op:";
  a.set_inst_options(pi.options);
  if (pi.has_extra) a.set_extra_reg(Reg::from_type_and_id(pi.extra_type, pi.extra_id));
  Error e = a.emit_op_array(pi.id, ops, pi.ops.size());
  std::string out = ename(e);
  out += ":";
  Section* text = code.text_section();
  if (e == Error::kOk) out += text->buffer_size() ? vh::bytes_to_hex(text->data(), text->buffer_size()) : "-";
  else out += text->buffer_size() ? "partial" + vh::bytes_to_hex(text->data(), text->buffer_size()) : "-";   // a failed emit must leave nothing behind
  return out;
}

static std::string do_inst(const std::vector<std::string>& w, bool with_emit) {
  ParsedInst pi;
  if (!parse_inst(w, pi)) return "bad-op";
  // plain validation through the public API (label operands refer to label id 0 of nothing in particular)
  Operand ops[6];
  Label L;
  L._init_reg(OperandSignature::from_op_type(OperandType::kLabel), 0);
  for (size_t i = 0; i < pi.ops.size(); i++)
    if (!make_operand(pi.ops[i], L, ops[i])) return "bad-op";
  BaseInst inst(pi.id, pi.options);
  if (pi.has_extra) inst.set_extra_reg(Reg::from_type_and_id(pi.extra_type, pi.extra_id));
  Error v = InstAPI::validate(pi.arch, inst, ops, pi.ops.size(), ValidationFlags::kNone);
  std::string out = std::string("v=") + ename(v);
  if (with_emit) {
    out += " e0=" + emit_once(pi, false);
    out += " e1=" + emit_once(pi, true);
  }
  return out;
}

static std::string step(const std::string& line) {
  std::vector<std::string> w = vh::words(line);
  if (w.empty()) return "bad-op";
  if (w[0] == "s2i") {
    // s2i <x86|a64> <hex of the name bytes | ->
    std::vector<uint8_t> bytes;
    if (w.size() != 3 || !vh::hex_to_bytes(w[2], bytes)) return "bad-op";
    Arch arch = w[1] == "x86" ? Arch::kX64 : Arch::kAArch64;
    std::vector<char> buf(bytes.begin(), bytes.end());
    buf.push_back('#');   // not NUL terminated on purpose: the length argument is what counts
    InstId id = InstAPI::string_to_inst_id(arch, buf.data(), bytes.size());
    return std::to_string(id);
  }
  if (w[0] == "i2s") {
    // i2s <x86|a64> <id> <0|1 = with alias formatting>
    uint64_t id, o;
    if (w.size() != 4 || !vh::parse_u64(w[2], id) || !vh::parse_u64(w[3], o) || o > 1) return "bad-op";
    Arch arch = w[1] == "x86" ? Arch::kX64 : Arch::kAArch64;
    String s;
    Error e = InstAPI::inst_id_to_string(arch, InstId(id), InstStringifyOptions(uint32_t(o)), s);
    if (e != Error::kOk) return std::string("err ") + ename(e);
    return "ok " + (s.size() ? vh::bytes_to_hex(reinterpret_cast<const uint8_t*>(s.data()), s.size()) : std::string("-"));
  }
  if (w[0] == "val") return do_inst(w, false);
  if (w[0] == "inst") return do_inst(w, true);
  return "bad-op";
}

int main(int argc, char** argv) {
  if (argc > 1 && !strcmp(argv[1], "dump-names")) return dump_names();
  if (argc > 1 && !strcmp(argv[1], "dump-x86sig")) return dump_x86sig();
  return vh::line_loop(step);
}
