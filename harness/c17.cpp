// C17 harness: runs the real CodeWriterUtils::encode_offset32/64 / write_offset and the AArch64 immediate
// helpers on protocol lines (see lean/Driver/C17.lean for the model side).
#include <asmjit/core.h>
#include <asmjit/core/codewriter_p.h>
#include <asmjit/core/emitterutils_p.h>
// file-static helpers (encode_mov_sequence_32/64, encode_lmh) are reached by including the translation unit
#include <asmjit/arm/a64assembler.cpp>
#include <asmjit/arm/armutils.h>
#include "vh.h"

using namespace asmjit;

static bool parse_fmt(const std::vector<std::string>& w, size_t at, OffsetFormat& f) {
  if (w.size() < at + 6) return false;
  uint64_t v[6];
  for (int i = 0; i < 6; i++) if (!vh::parse_u64(w[at + i], v[i])) return false;
  if (v[0] > uint64_t(OffsetType::kMaxValue)) return false;
  f._type = OffsetType(v[0]);
  f._flags = 0;
  f._value_size = uint8_t(v[1]);
  f._value_offset = uint8_t(v[2]);
  f._region_size = uint8_t(v[1] + v[2]);
  f._imm_bit_count = uint8_t(v[3]);
  f._imm_bit_shift = uint8_t(v[4]);
  f._imm_discard_lsb = uint8_t(v[5]);
  return true;
}

static std::string enc_out(const OffsetFormat& f, uint64_t off) {
  if (f.value_size() == 8) {
    uint64_t m = 0;
    if (!CodeWriterUtils::encode_offset64(&m, int64_t(off), f)) return "fail";
    return "ok " + vh::to_hex(m);
  }
  else {
    uint32_t m = 0;
    if (!CodeWriterUtils::encode_offset32(&m, int64_t(off), f)) return "fail";
    return "ok " + vh::to_hex(m);
  }
}

static std::string step(const std::string& line) {
  std::vector<std::string> w = vh::words(line);
  OffsetFormat f;
  if (w.empty()) return "bad-op";
  if (w[0] == "logimm") {
    uint64_t v, width;
    if (w.size() != 3 || !vh::parse_hex(w[1], v) || !vh::parse_u64(w[2], width) || (width != 32 && width != 64)) return "bad-op";
    arm::Utils::LogicalImm li;
    if (!arm::Utils::encode_logical_imm(v, uint32_t(width), Out(li))) return "fail";
    return "ok " + std::to_string(li.n) + " " + std::to_string(li.s) + " " + std::to_string(li.r);
  }
  if (w[0] == "addsub") {
    uint64_t v;
    if (w.size() != 2 || !vh::parse_hex(w[1], v)) return "bad-op";
    return arm::Utils::is_add_sub_imm(v) ? "1" : "0";
  }
  if (w[0] == "fp") {
    uint64_t v;
    if (w.size() != 3 || !vh::parse_hex(w[2], v)) return "bad-op";
    if (w[1] == "16") return arm::Utils::is_fp16_imm8(uint32_t(v)) ? "1 " + std::to_string(arm::Utils::encode_fp_to_imm8_generic<uint32_t, 3, 6, 6>(uint32_t(v))) : "0";
    if (w[1] == "32") return arm::Utils::is_fp32_imm8(uint32_t(v)) ? "1 " + std::to_string(arm::Utils::encode_fp_to_imm8_generic<uint32_t, 6, 6, 19>(uint32_t(v))) : "0";
    if (w[1] == "64") return arm::Utils::is_fp64_imm8(v) ? "1 " + std::to_string(arm::Utils::encode_fp64_to_imm8(v)) : "0";
    return "bad-op";
  }
  if (w[0] == "bytemask") {
    uint64_t v;
    if (w.size() != 2 || !vh::parse_hex(w[1], v)) return "bad-op";
    return arm::Utils::is_byte_mask_imm(v) ? "1 " + std::to_string(arm::Utils::encode_imm64_byte_mask_to_imm8(v)) : "0";
  }
  if (w[0] == "movseq") {
    uint64_t imm, rd, x;
    if (w.size() != 4 || !vh::parse_hex(w[1], imm) || !vh::parse_u64(w[2], rd) || !vh::parse_u64(w[3], x) || rd > 31 || x > 1) return "bad-op";
    uint32_t out[8] = {0xdeadbeef, 0xdeadbeef, 0xdeadbeef, 0xdeadbeef, 0xdeadbeef, 0xdeadbeef, 0xdeadbeef, 0xdeadbeef};
    uint32_t n = a64::encode_mov_sequence_64(out, imm, uint32_t(rd), uint32_t(x));
    std::string r = "seq";
    for (uint32_t i = 0; i < n && i < 8; i++) r += " " + vh::to_hex(out[i]);
    for (uint32_t i = 4; i < 8; i++) if (out[i] != 0xdeadbeef) return "buffer-overrun";
    return r;
  }
  if (w[0] == "lmh") {
    uint64_t sz, idx;
    if (w.size() != 3 || !vh::parse_u64(w[1], sz) || !vh::parse_u64(w[2], idx)) return "bad-op";
    a64::LMHImm o{0, 0, 0};
    if (sz != 1 && sz != 2) return a64::encode_lmh(uint32_t(sz), uint32_t(idx), Out(o)) ? "unexpected-ok" : "fail";
    bool ok = a64::encode_lmh(uint32_t(sz), uint32_t(idx), Out(o));
    return std::string(ok ? "1 " : "0 ") + std::to_string(o.lm) + " " + std::to_string(o.h) + " " + std::to_string(o.max_rm_id);
  }
  if (w[0] == "enc") {
    uint64_t off;
    if (w.size() != 8 || !parse_fmt(w, 1, f) || !vh::parse_hex(w[7], off)) return "bad-op";
    return enc_out(f, off);
  }
  if (w[0] == "write") {
    uint64_t off, pos;
    std::vector<uint8_t> buf;
    if (w.size() != 10 || !parse_fmt(w, 1, f) || !vh::parse_hex(w[7], off) || !vh::parse_u64(w[8], pos) || !vh::hex_to_bytes(w[9], buf)) return "bad-op";
    // The C++ has no bounds check: the harness refuses what the model refuses (region outside the buffer).
    size_t p = size_t(pos) + f.value_offset();
    if (!(f.value_size() == 1 || f.value_size() == 2 || f.value_size() == 4 || f.value_size() == 8)) return "fail";
    if (p + f.value_size() > buf.size()) return "fail";
    // guard bytes around the buffer
    std::vector<uint8_t> g(buf.size() + 32, 0xA5);
    memcpy(g.data() + 16, buf.data(), buf.size());
    if (!CodeWriterUtils::write_offset(g.data() + 16 + pos, int64_t(off), f)) {
      // a refused write must leave the buffer untouched
      if (memcmp(g.data() + 16, buf.data(), buf.size()) != 0) return "fail-but-modified";
      return "fail";
    }
    for (size_t i = 0; i < 16; i++) if (g[i] != 0xA5 || g[16 + buf.size() + i] != 0xA5) return "guard-overwritten";
    return "ok " + vh::bytes_to_hex(g.data() + 16, buf.size());
  }
  if (w[0] == "range") {
    uint64_t lo, cnt, st;
    if (w.size() != 10 || !parse_fmt(w, 1, f) || !vh::parse_hex(w[7], lo) || !vh::parse_u64(w[8], cnt) || !vh::parse_hex(w[9], st)) return "bad-op";
    vh::Fnv h;
    for (uint64_t i = 0; i < cnt; i++) h.add(enc_out(f, lo + i * st));
    return "hash " + vh::to_hex(h.h);
  }
  return "bad-op";
}

int main() { return vh::line_loop(step); }
