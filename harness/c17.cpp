// C17 harness: runs the real CodeWriterUtils::encode_offset32/64 / write_offset and the AArch64 immediate
// helpers on protocol lines (see lean/Driver/C17.lean for the model side).
#include <asmjit/core.h>
#include <asmjit/core/codewriter_p.h>
#include <asmjit/core/emitterutils_p.h>
#include "vh.h"

using namespace asmjit;

static bool parse_fmt(const std::vector<std::string>& w, size_t at, OffsetFormat& f) {
  if (w.size() < at + 6) return false;
  uint64_t v[6];
  for (int i = 0; i < 6; i++) if (!vh::parse_u64(w[at + i], v[i])) return false;
  if (v[0] > uint64_t(OffsetType::kMaxValue)) return false;
  f._type = OffsetType(v[0]);
  f._flags = 0;
  f._value_size = uint8_t(v[1]);
  f._value_offset = uint8_t(v[2]);
  f._region_size = uint8_t(v[1] + v[2]);
  f._imm_bit_count = uint8_t(v[3]);
  f._imm_bit_shift = uint8_t(v[4]);
  f._imm_discard_lsb = uint8_t(v[5]);
  return true;
}

static std::string enc_out(const OffsetFormat& f, uint64_t off) {
  if (f.value_size() == 8) {
    uint64_t m = 0;
    if (!CodeWriterUtils::encode_offset64(&m, int64_t(off), f)) return "fail";
    return "ok " + vh::to_hex(m);
  }
  else {
    uint32_t m = 0;
    if (!CodeWriterUtils::encode_offset32(&m, int64_t(off), f)) return "fail";
    return "ok " + vh::to_hex(m);
  }
}

static std::string step(const std::string& line) {
  std::vector<std::string> w = vh::words(line);
  OffsetFormat f;
  if (w.empty()) return "bad-op";
  if (w[0] == "enc") {
    uint64_t off;
    if (w.size() != 8 || !parse_fmt(w, 1, f) || !vh::parse_hex(w[7], off)) return "bad-op";
    return enc_out(f, off);
  }
  if (w[0] == "write") {
    uint64_t off, pos;
    std::vector<uint8_t> buf;
    if (w.size() != 10 || !parse_fmt(w, 1, f) || !vh::parse_hex(w[7], off) || !vh::parse_u64(w[8], pos) || !vh::hex_to_bytes(w[9], buf)) return "bad-op";
    // The C++ has no bounds check: the harness refuses what the model refuses (region outside the buffer).
    size_t p = size_t(pos) + f.value_offset();
    if (!(f.value_size() == 1 || f.value_size() == 2 || f.value_size() == 4 || f.value_size() == 8)) return "fail";
    if (p + f.value_size() > buf.size()) return "fail";
    // guard bytes around the buffer
    std::vector<uint8_t> g(buf.size() + 32, 0xA5);
    memcpy(g.data() + 16, buf.data(), buf.size());
    if (!CodeWriterUtils::write_offset(g.data() + 16 + pos, int64_t(off), f)) {
      // a refused write must leave the buffer untouched
      if (memcmp(g.data() + 16, buf.data(), buf.size()) != 0) return "fail-but-modified";
      return "fail";
    }
    for (size_t i = 0; i < 16; i++) if (g[i] != 0xA5 || g[16 + buf.size() + i] != 0xA5) return "guard-overwritten";
    return "ok " + vh::bytes_to_hex(g.data() + 16, buf.size());
  }
  if (w[0] == "range") {
    uint64_t lo, cnt, st;
    if (w.size() != 10 || !parse_fmt(w, 1, f) || !vh::parse_hex(w[7], lo) || !vh::parse_u64(w[8], cnt) || !vh::parse_hex(w[9], st)) return "bad-op";
    vh::Fnv h;
    for (uint64_t i = 0; i < cnt; i++) h.add(enc_out(f, lo + i * st));
    return "hash " + vh::to_hex(h.h);
  }
  return "bad-op";
}

int main() { return vh::line_loop(step); }
