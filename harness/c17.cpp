// C17 harness: runs the real CodeWriterUtils::encode_offset32/64 / write_offset and the AArch64 immediate
// helpers on protocol lines (see lean/Driver/C17.lean for the model side).
#include <asmjit/core.h>
#include <asmjit/core/codewriter_p.h>
#include <asmjit/core/emitterutils_p.h>
// file-static helpers (encode_mov_sequence_32/64, encode_lmh) are reached by including the translation unit
#include <asmjit/arm/a64assembler.cpp>
#include <asmjit/arm/armutils.h>
#include "vh.h"

using namespace asmjit;

static bool parse_fmt(const std::vector<std::string>& w, size_t at, OffsetFormat& f) {
  if (w.size() < at + 6) return false;
  uint64_t v[6];
  for (int i = 0; i < 6; i++) if (!vh::parse_u64(w[at + i], v[i])) return false;
  if (v[0] > uint64_t(OffsetType::kMaxValue)) return false;
  f._type = OffsetType(v[0]);
  f._flags = 0;
  f._value_size = uint8_t(v[1]);
  f._value_offset = uint8_t(v[2]);
  f._region_size = uint8_t(v[1] + v[2]);
  f._imm_bit_count = uint8_t(v[3]);
  f._imm_bit_shift = uint8_t(v[4]);
  f._imm_discard_lsb = uint8_t(v[5]);
  return true;
}

// Inputs on which the pinned tree executes undefined behaviour (fixes/C17-2.patch) are answered "skip-ub" unless
// VH_C17_UB=1: (a) a sign-bit format negates INT64_MIN, (b) kAArch32_ADR reaches `Support::ror(v, 0)`.
// tools/props/c17.py probes both once (separate process) and enables them when the tree is repaired.
static bool ub_enabled() { static int v = -1; if (v < 0) { const char* e = getenv("VH_C17_UB"); v = (e && e[0] == '1'); } return v != 0; }

static bool hits_ub(const OffsetFormat& f, uint64_t off) {
  if (!f.has_sign_bit()) return false;
  if (off == 0x8000000000000000ull) return true;
  if (f.type() != OffsetType::kAArch32_ADR) return false;
  uint64_t a = int64_t(off) < 0 ? 0 - off : off;
  if (f.imm_discard_lsb()) { if (a & ((1ull << f.imm_discard_lsb()) - 1)) return false; a >>= f.imm_discard_lsb(); }
  uint64_t m = f.imm_bit_count() >= 32 ? 0xFFFFFFFFull : ((1ull << f.imm_bit_count()) - 1);
  if ((a & m) != a) return false;
  uint32_t v = uint32_t(a);
  if (v <= 0xFF) return false;
  if (v & 0xFF0000FFu) v = (v >> 16) | (v << 16);
  return (v & 3u) != 0;      // ctz(v) & ~1 == 0  ->  ror(v, 0)
}

static std::string enc_out(const OffsetFormat& f, uint64_t off) {
  if (!ub_enabled() && hits_ub(f, off)) return "skip-ub";
  if (f.value_size() == 8) {
    uint64_t m = 0;
    if (!CodeWriterUtils::encode_offset64(&m, int64_t(off), f)) return "fail";
    return "ok " + vh::to_hex(m);
  }
  else {
    uint32_t m = 0;
    if (!CodeWriterUtils::encode_offset32(&m, int64_t(off), f)) return "fail";
    return "ok " + vh::to_hex(m);
  }
}

static std::string step(const std::string& line) {
  std::vector<std::string> w = vh::words(line);
  OffsetFormat f;
  if (w.empty()) return "bad-op";
  if (w[0] == "logimm") {
    uint64_t v, width;
    if (w.size() != 3 || !vh::parse_hex(w[1], v) || !vh::parse_u64(w[2], width) || (width != 32 && width != 64)) return "bad-op";
    arm::Utils::LogicalImm li;
    if (!arm::Utils::encode_logical_imm(v, uint32_t(width), Out(li))) return "fail";
    return "ok " + std::to_string(li.n) + " " + std::to_string(li.s) + " " + std::to_string(li.r);
  }
  if (w[0] == "addsub") {
    uint64_t v;
    if (w.size() != 2 || !vh::parse_hex(w[1], v)) return "bad-op";
    return arm::Utils::is_add_sub_imm(v) ? "1" : "0";
  }
  if (w[0] == "fp") {
    uint64_t v;
    if (w.size() != 3 || !vh::parse_hex(w[2], v)) return "bad-op";
    if (w[1] == "16") return arm::Utils::is_fp16_imm8(uint32_t(v)) ? "1 " + std::to_string(arm::Utils::encode_fp_to_imm8_generic<uint32_t, 3, 6, 6>(uint32_t(v))) : "0";
    if (w[1] == "32") return arm::Utils::is_fp32_imm8(uint32_t(v)) ? "1 " + std::to_string(arm::Utils::encode_fp_to_imm8_generic<uint32_t, 6, 6, 19>(uint32_t(v))) : "0";
    if (w[1] == "64") return arm::Utils::is_fp64_imm8(v) ? "1 " + std::to_string(arm::Utils::encode_fp64_to_imm8(v)) : "0";
    return "bad-op";
  }
  if (w[0] == "bytemask") {
    uint64_t v;
    if (w.size() != 2 || !vh::parse_hex(w[1], v)) return "bad-op";
    return arm::Utils::is_byte_mask_imm(v) ? "1 " + std::to_string(arm::Utils::encode_imm64_byte_mask_to_imm8(v)) : "0";
  }
  if (w[0] == "movseq") {
    uint64_t imm, rd, x;
    if (w.size() != 4 || !vh::parse_hex(w[1], imm) || !vh::parse_u64(w[2], rd) || !vh::parse_u64(w[3], x) || rd > 31 || x > 1) return "bad-op";
    uint32_t out[8] = {0xdeadbeef, 0xdeadbeef, 0xdeadbeef, 0xdeadbeef, 0xdeadbeef, 0xdeadbeef, 0xdeadbeef, 0xdeadbeef};
    uint32_t n = a64::encode_mov_sequence_64(out, imm, uint32_t(rd), uint32_t(x));
    std::string r = "seq";
    for (uint32_t i = 0; i < n && i < 8; i++) r += " " + vh::to_hex(out[i]);
    for (uint32_t i = 4; i < 8; i++) if (out[i] != 0xdeadbeef) return "buffer-overrun";
    return r;
  }
  if (w[0] == "lmh") {
    uint64_t sz, idx;
    if (w.size() != 3 || !vh::parse_u64(w[1], sz) || !vh::parse_u64(w[2], idx)) return "bad-op";
    a64::LMHImm o{0, 0, 0};
    if (sz != 1 && sz != 2) return a64::encode_lmh(uint32_t(sz), uint32_t(idx), Out(o)) ? "unexpected-ok" : "fail";
    bool ok = a64::encode_lmh(uint32_t(sz), uint32_t(idx), Out(o));
    return std::string(ok ? "1 " : "0 ") + std::to_string(o.lm) + " " + std::to_string(o.h) + " " + std::to_string(o.max_rm_id);
  }
  if (w[0] == "direct") {
    // the assembler's direct displacement path (EmitOp_DispImm): absolute target, known base address
    uint64_t off;
    if (w.size() != 3 || !vh::parse_hex(w[2], off)) return "bad-op";
    const uint64_t base = 0x0000100000000000ull;     // page aligned, so that ADRP's pc & ~4095 is the base too
    Environment env(Arch::kAArch64);
    CodeHolder code;
    if (code.init(env, base) != Error::kOk) return "init-failed";
    a64::Assembler a(&code);
    Imm target(base + off);
    Error err;
    if (w[1] == "b") err = a.b(target);
    else if (w[1] == "bl") err = a.bl(target);
    else if (w[1] == "beq") err = a.b(a64::CondCode::kEQ, target);
    else if (w[1] == "cbz") err = a.cbz(a64::x3, target);
    else if (w[1] == "tbz") err = a.tbz(a64::x3, Imm(5), target);
    else if (w[1] == "adr") err = a.adr(a64::x3, target);
    else if (w[1] == "adrp") err = a.adrp(a64::x3, target);
    else return "bad-op";
    if (err != Error::kOk) return std::string("err ") + DebugUtils::error_as_string(err);
    if (code.text_section()->buffer_size() != 4) return "size-not-4";
    uint32_t word; memcpy(&word, code.text_section()->data(), 4);
    return "ok " + vh::to_hex(word);
  }
  if (w[0] == "bf") {
    // bf <alias> <x> <lsb hex> <width hex>: the real assembler on `alias Rd=3, Rn=7, #lsb, #width`
    uint64_t x, lsb, width;
    if (w.size() != 5 || !vh::parse_u64(w[2], x) || x > 1 || !vh::parse_hex(w[3], lsb) || !vh::parse_hex(w[4], width)) return "bad-op";
    Environment env(Arch::kAArch64);
    CodeHolder code;
    if (code.init(env) != Error::kOk) return "init-failed";
    a64::Assembler a(&code);
    a64::Gp rd = x ? a64::Gp(a64::x3) : a64::Gp(a64::w3);
    a64::Gp rn = x ? a64::Gp(a64::x7) : a64::Gp(a64::w7);
    Imm il(lsb), iw(width);
    Error err;
    if (w[1] == "bfc") err = a.bfc(rd, il, iw);
    else if (w[1] == "bfi") err = a.bfi(rd, rn, il, iw);
    else if (w[1] == "sbfiz") err = a.sbfiz(rd, rn, il, iw);
    else if (w[1] == "ubfiz") err = a.ubfiz(rd, rn, il, iw);
    else if (w[1] == "bfxil") err = a.bfxil(rd, rn, il, iw);
    else if (w[1] == "sbfx") err = a.sbfx(rd, rn, il, iw);
    else if (w[1] == "ubfx") err = a.ubfx(rd, rn, il, iw);
    else if (w[1] == "bfm") err = a.bfm(rd, rn, il, iw);
    else if (w[1] == "sbfm") err = a.sbfm(rd, rn, il, iw);
    else if (w[1] == "ubfm") err = a.ubfm(rd, rn, il, iw);
    else return "bad-op";
    if (err != Error::kOk) return std::string("err ") + DebugUtils::error_as_string(err);
    if (code.text_section()->buffer_size() != 4) return "size-not-4";
    uint32_t word; memcpy(&word, code.text_section()->data(), 4);
    return "ok " + vh::to_hex(word);
  }
  if (w[0] == "enc") {
    uint64_t off;
    if (w.size() != 8 || !parse_fmt(w, 1, f) || !vh::parse_hex(w[7], off)) return "bad-op";
    return enc_out(f, off);
  }
  if (w[0] == "write") {
    uint64_t off, pos;
    std::vector<uint8_t> buf;
    if (w.size() != 10 || !parse_fmt(w, 1, f) || !vh::parse_hex(w[7], off) || !vh::parse_u64(w[8], pos) || !vh::hex_to_bytes(w[9], buf)) return "bad-op";
    // The C++ has no bounds check: the harness refuses what the model refuses (region outside the buffer).
    size_t p = size_t(pos) + f.value_offset();
    if (!(f.value_size() == 1 || f.value_size() == 2 || f.value_size() == 4 || f.value_size() == 8)) return "fail";
    if (p + f.value_size() > buf.size()) return "fail";
    if (!ub_enabled() && hits_ub(f, off)) return "skip-ub";
    // guard bytes around the buffer
    std::vector<uint8_t> g(buf.size() + 32, 0xA5);
    memcpy(g.data() + 16, buf.data(), buf.size());
    if (!CodeWriterUtils::write_offset(g.data() + 16 + pos, int64_t(off), f)) {
      // a refused write must leave the buffer untouched
      if (memcmp(g.data() + 16, buf.data(), buf.size()) != 0) return "fail-but-modified";
      return "fail";
    }
    for (size_t i = 0; i < 16; i++) if (g[i] != 0xA5 || g[16 + buf.size() + i] != 0xA5) return "guard-overwritten";
    return "ok " + vh::bytes_to_hex(g.data() + 16, buf.size());
  }
  if (w[0] == "range") {
    uint64_t lo, cnt, st;
    if (w.size() != 10 || !parse_fmt(w, 1, f) || !vh::parse_hex(w[7], lo) || !vh::parse_u64(w[8], cnt) || !vh::parse_hex(w[9], st)) return "bad-op";
    vh::Fnv h;
    for (uint64_t i = 0; i < cnt; i++) h.add(enc_out(f, lo + i * st));
    return "hash " + vh::to_hex(h.h);
  }
  return "bad-op";
}

int main() { return vh::line_loop(step); }
