// C02 harness: drives the real a64::Assembler::_emit on protocol lines (model side: lean/Driver/C02.lean) and dumps
// the instruction / encoding tables of a64instdb.cpp + the file-static tables of a64assembler.cpp (`dump`).
//
//   emit <pos> <instId> <cc> <op>...      ->  ok <hexword>...   |   err <ErrorName>[ moved=<n>]
//
// operands:  r<regType>.<id>[.<elemType>[.<elemIndex>]]      register (RegType numbers of core/operand.h)
//            i<hex64>[.<predicate>]                          integer immediate (+ shift-op predicate)
//            f<hex64>                                        double immediate (bit pattern)
//            m<baseType>.<baseId>.<indexType>.<indexId>.<shiftOp>.<shift>.<mode>.<off32hex>   [base{, index|offset}] mode 0 fixed 1 pre 2 post
//            a<hex64>                                        absolute address memory operand
//            l                                               label bound at section offset 0
//            ml<off64hex>                                    memory operand [label + off]
// Every line runs on a fresh CodeHolder with base address 0x10000000; <pos> bytes of NOPs are emitted first.
#include <asmjit/core.h>
#include <asmjit/a64.h>
#include <asmjit/core/emitterutils_p.h>
// reach the file-static tables (size_op_table, size_op_map, shift_op_to_ld_st_opt_map)
#include <asmjit/arm/a64assembler.cpp>
#include "vh.h"

using namespace asmjit;

static const uint64_t kBase = 0x10000000ull;

struct ParsedOp { Operand_ op; ParsedOp() { op.reset(); } bool is_label = false; bool is_mem_label = false; int64_t label_off = 0; };

static bool split_dots(const std::string& s, std::vector<std::string>& out) {
  out.clear();
  size_t i = 0;
  while (i <= s.size()) {
    size_t j = s.find('.', i);
    if (j == std::string::npos) j = s.size();
    out.push_back(s.substr(i, j - i));
    i = j + 1;
  }
  return true;
}

static bool parse_operand(const std::string& t, ParsedOp& po) {
  std::vector<std::string> p;
  uint64_t v[8] = {0};
  po.op.reset();
  if (t == "-") return true;
  if (t == "l") { po.is_label = true; return true; }
  if (t.size() > 2 && t[0] == 'm' && t[1] == 'l') {
    uint64_t off;
    if (!vh::parse_hex(t.substr(2), off)) return false;
    po.is_mem_label = true; po.label_off = int64_t(off); return true;
  }
  split_dots(t.substr(1), p);
  switch (t[0]) {
    case 'r': {
      if (p.size() < 2 || p.size() > 4) return false;
      for (size_t i = 0; i < p.size(); i++) if (!vh::parse_u64(p[i], v[i])) return false;
      if (v[0] > 31 || v[1] > 255) return false;
      OperandSignature sg = RegUtils::signature_of(RegType(v[0]));
      uint32_t bits = sg.bits();
      if (p.size() >= 3) {
        if (v[2] > 7) return false;
        bits |= uint32_t(v[2]) << a64::Vec::kSignatureRegElementTypeShift;
      }
      if (p.size() == 4) {
        if (v[3] > 15) return false;
        bits |= a64::Vec::kSignatureRegElementFlagMask | (uint32_t(v[3]) << a64::Vec::kSignatureRegElementIndexShift);
      }
      Reg r(OperandSignature{bits}, uint32_t(v[1]));
      po.op = r;
      return true;
    }
    case 'i': {
      if (p.size() < 1 || p.size() > 2) return false;
      if (!vh::parse_hex(p[0], v[0])) return false;
      if (p.size() == 2 && !vh::parse_u64(p[1], v[1])) return false;
      if (v[1] > 15) return false;
      Imm im = Imm(int64_t(v[0]));
      im.set_predicate(uint32_t(v[1]));
      po.op = im;
      return true;
    }
    case 'f': {
      if (p.size() != 1 || !vh::parse_hex(p[0], v[0])) return false;
      double d;
      memcpy(&d, &v[0], 8);
      po.op = Imm(d);
      return true;
    }
    case 'a': {
      if (p.size() != 1 || !vh::parse_hex(p[0], v[0])) return false;
      po.op = a64::Mem(v[0]);
      return true;
    }
    case 'm': {
      if (p.size() != 8) return false;
      for (size_t i = 0; i < 7; i++) if (!vh::parse_u64(p[i], v[i])) return false;
      if (!vh::parse_hex(p[7], v[7])) return false;
      if (v[0] > 31 || v[2] > 31 || v[1] > 255 || v[3] > 255 || v[4] > 15 || v[5] > 31 || v[6] > 2 || v[7] > 0xFFFFFFFFull) return false;
      if (v[0] <= 1) return false;                     // base must be a register here
      a64::Mem m;
      Reg base(RegUtils::signature_of(RegType(v[0])), uint32_t(v[1]));
      m = a64::Mem(base.as<a64::Gp>(), int32_t(uint32_t(v[7])));
      if (v[2] != 0) {
        Reg index(RegUtils::signature_of(RegType(v[2])), uint32_t(v[3]));
        m.set_index(index.as<a64::Gp>());
      }
      m.set_shift_op(arm::ShiftOp(v[4]));
      m.set_shift(uint32_t(v[5]));
      m.set_offset_mode(arm::OffsetMode(v[6]));
      po.op = m;
      return true;
    }
  }
  return false;
}

static std::string do_emit(const std::vector<std::string>& w) {
  uint64_t pos, inst, cc;
  if (w.size() < 4 || w.size() > 10 || !vh::parse_u64(w[1], pos) || !vh::parse_u64(w[2], inst) || !vh::parse_u64(w[3], cc)) return "bad-op";
  if (pos > 4096 || (pos & 3) || inst > 0xFFFF || cc > 15) return "bad-op";
  ParsedOp ops[6];
  size_t n = w.size() - 4;
  for (size_t i = 0; i < n; i++) if (!parse_operand(w[4 + i], ops[i])) return "bad-op";

  Environment env(Arch::kAArch64);
  CodeHolder code;
  if (code.init(env, kBase) != Error::kOk) return "init-failed";
  a64::Assembler a(&code);
  Label L = a.new_label();
  a.bind(L);
  for (uint64_t i = 0; i < pos; i += 4) a.nop();
  for (size_t i = 0; i < n; i++) {
    if (ops[i].is_label) ops[i].op = L;
    if (ops[i].is_mem_label) ops[i].op = a64::Mem(L, ops[i].label_off);
  }
  size_t before = a.offset();
  if (before != pos) return "setup-failed";
  InstId id = BaseInst::compose_arm_inst_id(InstId(inst), arm::CondCode(cc));
  Operand_ ext[3] = { ops[3].op, ops[4].op, ops[5].op };
  Error err = a._emit(id, ops[0].op, ops[1].op, ops[2].op, ext);
  size_t after = a.offset();
  if (err != Error::kOk) {
    std::string r = std::string("err ") + DebugUtils::error_as_string(err);
    if (after != before) r += " moved=" + std::to_string(after - before);
    return r;
  }
  if (after < before || ((after - before) & 3) || after == before) return "ok-but-cursor " + std::to_string(long(after) - long(before));
  std::string r = "ok";
  const uint8_t* d = code.text_section()->buffer().data();
  for (size_t o = before; o < after; o += 4) {
    uint32_t word = uint32_t(d[o]) | (uint32_t(d[o + 1]) << 8) | (uint32_t(d[o + 2]) << 16) | (uint32_t(d[o + 3]) << 24);
    r += " " + vh::to_hex(word);
  }
  // an accepted instruction may not leave unresolved fixups when its target was bound (label at offset 0)
  if (code.unresolved_fixup_count() != 0) r += " fixups=" + std::to_string(code.unresolved_fixup_count());
  return r;
}

// ---------------------------------------------------------------------------------------------------------------
// table dump
// ---------------------------------------------------------------------------------------------------------------

static void kv(std::string& s, const char* k, uint64_t v) { s += " "; s += k; s += "="; s += std::to_string(v); }

#define ROWS(ARR) for (size_t i = 0; i < sizeof(a64::InstDB::EncodingData::ARR) / sizeof(a64::InstDB::EncodingData::ARR[0]); i++)
#define BEGIN(ARR) { const auto& d = a64::InstDB::EncodingData::ARR[i]; std::string s = std::string("row ") + #ARR + " " + std::to_string(i);
#define END puts(s.c_str()); }

static void dump_tables() {
  using namespace a64::InstDB;
  for (uint32_t id = 0; id < a64::Inst::_kIdCount; id++) {
    const InstInfo& ii = _inst_info_table[id];
    String name;
    InstAPI::inst_id_to_string(Arch::kAArch64, id, InstStringifyOptions::kNone, name);
    printf("inst %u %s enc=%u idx=%u flags=%u\n", id, id == 0 ? "<none>" : name.data(), ii._encoding, ii._encoding_data_index, ii._flags);
  }
  ROWS(baseOp) BEGIN(baseOp) kv(s, "opcode", d.opcode); END
  ROWS(baseOpX16) BEGIN(baseOpX16) kv(s, "opcode", d.opcode); END
  ROWS(baseOpImm) BEGIN(baseOpImm) kv(s, "opcode", d.opcode); kv(s, "imm_bits", d.imm_bits); kv(s, "imm_offset", d.imm_offset); END
  ROWS(baseR) BEGIN(baseR) kv(s, "opcode", d.opcode); kv(s, "reg_type", d.reg_type); kv(s, "reg_hi_id", d.reg_hi_id); kv(s, "r_shift", d.r_shift); END
  ROWS(baseRR) BEGIN(baseRR) kv(s, "opcode", d.opcode); kv(s, "a_type", d.a_type); kv(s, "a_hi_id", d.a_hi_id); kv(s, "a_shift", d.a_shift);
    kv(s, "b_type", d.b_type); kv(s, "b_hi_id", d.b_hi_id); kv(s, "b_shift", d.b_shift); kv(s, "uniform", d.uniform); END
  ROWS(baseRRR) BEGIN(baseRRR) kv(s, "opcode", d.opcode()); kv(s, "a_type", d.a_type); kv(s, "a_hi_id", d.a_hi_id); kv(s, "b_type", d.b_type);
    kv(s, "b_hi_id", d.b_hi_id); kv(s, "c_type", d.c_type); kv(s, "c_hi_id", d.c_hi_id); kv(s, "uniform", d.uniform); END
  ROWS(baseRRRR) BEGIN(baseRRRR) kv(s, "opcode", d.opcode()); kv(s, "a_type", d.a_type); kv(s, "a_hi_id", d.a_hi_id); kv(s, "b_type", d.b_type);
    kv(s, "b_hi_id", d.b_hi_id); kv(s, "c_type", d.c_type); kv(s, "c_hi_id", d.c_hi_id); kv(s, "d_type", d.d_type); kv(s, "d_hi_id", d.d_hi_id);
    kv(s, "uniform", d.uniform); END
  ROWS(baseRRII) BEGIN(baseRRII) kv(s, "opcode", d.opcode()); kv(s, "a_type", d.a_type); kv(s, "a_hi_id", d.a_hi_id); kv(s, "b_type", d.b_type);
    kv(s, "b_hi_id", d.b_hi_id); kv(s, "a_imm_size", d.a_imm_size); kv(s, "a_imm_discard_lsb", d.a_imm_discard_lsb); kv(s, "a_imm_offset", d.a_imm_offset);
    kv(s, "b_imm_size", d.b_imm_size); kv(s, "b_imm_discard_lsb", d.b_imm_discard_lsb); kv(s, "b_imm_offset", d.b_imm_offset); END
  ROWS(baseMovKNZ) BEGIN(baseMovKNZ) kv(s, "opcode", d.opcode); END
  ROWS(baseAdr) BEGIN(baseAdr) kv(s, "opcode", d.opcode()); kv(s, "offset_type", uint32_t(d.offset_type)); END
  ROWS(baseAddSub) BEGIN(baseAddSub) kv(s, "shifted_op", d.shifted_op); kv(s, "extended_op", d.extended_op); kv(s, "immediate_op", d.immediate_op); END
  ROWS(baseLogical) BEGIN(baseLogical) kv(s, "shifted_op", d.shifted_op); kv(s, "immediate_op", d.immediate_op); kv(s, "negate_imm", d.negate_imm); END
  ROWS(baseCmpCmn) BEGIN(baseCmpCmn) kv(s, "shifted_op", d.shifted_op); kv(s, "extended_op", d.extended_op); kv(s, "immediate_op", d.immediate_op); END
  ROWS(baseMvnNeg) BEGIN(baseMvnNeg) kv(s, "opcode", d.opcode); END
  ROWS(baseTst) BEGIN(baseTst) kv(s, "shifted_op", d.shifted_op); kv(s, "immediate_op", d.immediate_op); END
  ROWS(baseBfc) BEGIN(baseBfc) kv(s, "opcode", d.opcode); END
  ROWS(baseBfi) BEGIN(baseBfi) kv(s, "opcode", d.opcode); END
  ROWS(baseBfm) BEGIN(baseBfm) kv(s, "opcode", d.opcode); END
  ROWS(baseBfx) BEGIN(baseBfx) kv(s, "opcode", d.opcode); END
  ROWS(baseExtend) BEGIN(baseExtend) kv(s, "opcode", d.opcode()); kv(s, "reg_type", d.reg_type); kv(s, "u", d.u); END
  ROWS(baseExtract) BEGIN(baseExtract) kv(s, "opcode", d.opcode); END
  ROWS(baseShift) BEGIN(baseShift) kv(s, "register_op", d.register_op()); kv(s, "immediate_op", d.immediate_op()); kv(s, "ror", d.ror); END
  ROWS(baseCCmp) BEGIN(baseCCmp) kv(s, "opcode", d.opcode); END
  ROWS(baseCInc) BEGIN(baseCInc) kv(s, "opcode", d.opcode); END
  ROWS(baseCSel) BEGIN(baseCSel) kv(s, "opcode", d.opcode); END
  ROWS(baseCSet) BEGIN(baseCSet) kv(s, "opcode", d.opcode); END
  ROWS(baseMinMax) BEGIN(baseMinMax) kv(s, "register_op", d.register_op); kv(s, "immediate_op", d.immediate_op); END
  ROWS(baseAtDcIcTlbi) BEGIN(baseAtDcIcTlbi) kv(s, "imm_verify_mask", d.imm_verify_mask); kv(s, "imm_verify_data", d.imm_verify_data); kv(s, "mandatory_reg", d.mandatory_reg); END
  ROWS(baseBranchReg) BEGIN(baseBranchReg) kv(s, "opcode", d.opcode); END
  ROWS(baseBranchRel) BEGIN(baseBranchRel) kv(s, "opcode", d.opcode); END
  ROWS(baseBranchCmp) BEGIN(baseBranchCmp) kv(s, "opcode", d.opcode); END
  ROWS(baseBranchTst) BEGIN(baseBranchTst) kv(s, "opcode", d.opcode); END
  ROWS(basePrfm) BEGIN(basePrfm) kv(s, "register_op", d.register_op); kv(s, "s_offset_op", d.s_offset_op); kv(s, "u_offset_op", d.u_offset_op); kv(s, "literal_op", d.literal_op); END
  ROWS(baseLdSt) BEGIN(baseLdSt) kv(s, "u_offset_op", d.u_offset_op); kv(s, "pre_post_op", d.pre_post_op); kv(s, "register_op", d.register_op); kv(s, "literal_op", d.literal_op);
    kv(s, "reg_type", d.reg_type); kv(s, "x_offset", d.x_offset); kv(s, "u_offset_shift", d.u_offset_shift); kv(s, "u_alt_inst_id", d.u_alt_inst_id); END
  ROWS(baseLdpStp) BEGIN(baseLdpStp) kv(s, "offset_op", d.offset_op); kv(s, "pre_post_op", d.pre_post_op); kv(s, "reg_type", d.reg_type); kv(s, "x_offset", d.x_offset);
    kv(s, "offset_shift", d.offset_shift); END
  ROWS(baseStx) BEGIN(baseStx) kv(s, "opcode", d.opcode()); kv(s, "reg_type", d.reg_type); kv(s, "x_offset", d.x_offset); END
  ROWS(baseLdxp) BEGIN(baseLdxp) kv(s, "opcode", d.opcode()); kv(s, "reg_type", d.reg_type); kv(s, "x_offset", d.x_offset); END
  ROWS(baseStxp) BEGIN(baseStxp) kv(s, "opcode", d.opcode()); kv(s, "reg_type", d.reg_type); kv(s, "x_offset", d.x_offset); END
  ROWS(baseRM_NoImm) BEGIN(baseRM_NoImm) kv(s, "opcode", d.opcode()); kv(s, "reg_type", d.reg_type); kv(s, "reg_hi_id", d.reg_hi_id); kv(s, "x_offset", d.x_offset); END
  ROWS(baseRM_SImm9) BEGIN(baseRM_SImm9) kv(s, "offset_op", d.offset_op()); kv(s, "pre_post_op", d.pre_post_op()); kv(s, "reg_type", d.reg_type); kv(s, "reg_hi_id", d.reg_hi_id);
    kv(s, "x_offset", d.x_offset); kv(s, "imm_shift", d.imm_shift); END
  ROWS(baseRM_SImm10) BEGIN(baseRM_SImm10) kv(s, "opcode", d.opcode()); kv(s, "reg_type", d.reg_type); kv(s, "reg_hi_id", d.reg_hi_id); kv(s, "x_offset", d.x_offset);
    kv(s, "imm_shift", d.imm_shift); END
  ROWS(baseAtomicOp) BEGIN(baseAtomicOp) kv(s, "opcode", d.opcode()); kv(s, "reg_type", d.reg_type); kv(s, "x_offset", d.x_offset); kv(s, "zr", d.zr); END
  ROWS(baseAtomicSt) BEGIN(baseAtomicSt) kv(s, "opcode", d.opcode()); kv(s, "reg_type", d.reg_type); kv(s, "x_offset", d.x_offset); END
  ROWS(baseAtomicCasp) BEGIN(baseAtomicCasp) kv(s, "opcode", d.opcode()); kv(s, "reg_type", d.reg_type); kv(s, "x_offset", d.x_offset); END
  // SIMD classes that share the size_op machinery
  ROWS(iSimdVV) BEGIN(iSimdVV) kv(s, "opcode", d.opcode()); kv(s, "vec_op_type", d.vec_op_type); END
  ROWS(iSimdVVV) BEGIN(iSimdVVV) kv(s, "opcode", d.opcode()); kv(s, "vec_op_type", d.vec_op_type); END
  ROWS(iSimdVVx) BEGIN(iSimdVVx) kv(s, "opcode", d.opcode()); kv(s, "op0_signature", d.op0_signature); kv(s, "op1_signature", d.op1_signature); END
  ROWS(iSimdVVVx) BEGIN(iSimdVVVx) kv(s, "opcode", d.opcode()); kv(s, "op0_signature", d.op0_signature); kv(s, "op1_signature", d.op1_signature); kv(s, "op2_signature", d.op2_signature); END
  ROWS(fSimdVV) BEGIN(fSimdVV) kv(s, "scalar_op", d.scalar_op()); kv(s, "scalar_hf", d.scalar_hf()); kv(s, "vector_op", d.vector_op()); kv(s, "vector_hf", d.vector_hf()); END
  ROWS(fSimdVVV) BEGIN(fSimdVVV) kv(s, "scalar_op", d.scalar_op()); kv(s, "scalar_hf", d.scalar_hf()); kv(s, "vector_op", d.vector_op()); kv(s, "vector_hf", d.vector_hf()); END
  ROWS(fSimdVVVV) BEGIN(fSimdVVVV) kv(s, "scalar_op", d.scalar_op()); kv(s, "scalar_hf", d.scalar_hf()); kv(s, "vector_op", d.vector_op()); kv(s, "vector_hf", d.vector_hf()); END
  ROWS(iSimdVVVV) BEGIN(iSimdVVVV) kv(s, "opcode", d.opcode); kv(s, "vec_op_type", d.vec_op_type); END
  ROWS(fSimdSV) BEGIN(fSimdSV) kv(s, "opcode", d.opcode); END
  ROWS(iSimdSV) BEGIN(iSimdSV) kv(s, "opcode", d.opcode()); kv(s, "vec_op_type", d.vec_op_type); END
  ROWS(iSimdWWV) BEGIN(iSimdWWV) kv(s, "opcode", d.opcode()); kv(s, "vec_op_type", d.vec_op_type); END
  ROWS(iSimdVVVI) BEGIN(iSimdVVVI) kv(s, "opcode", d.opcode()); kv(s, "vec_op_type", d.vec_op_type); kv(s, "imm_size", d.imm_size); kv(s, "imm_shift", d.imm_shift);
    kv(s, "imm64_has_one_bit_less", d.imm64_has_one_bit_less); END
  ROWS(simdCmp) BEGIN(simdCmp) kv(s, "register_op", d.register_op); kv(s, "zero_op", d.zero_op); kv(s, "vec_op_type", d.vec_op_type); END
  ROWS(simdSxtlUxtl) BEGIN(simdSxtlUxtl) kv(s, "opcode", d.opcode); kv(s, "vec_op_type", d.vec_op_type); END
  ROWS(simdShiftES) BEGIN(simdShiftES) kv(s, "opcode", d.opcode); kv(s, "vec_op_type", d.vec_op_type); END
  ROWS(simdFcmpFcmpe) BEGIN(simdFcmpFcmpe) kv(s, "opcode", d.opcode()); END
  ROWS(simdFccmpFccmpe) BEGIN(simdFccmpFccmpe) kv(s, "opcode", d.opcode()); END
  ROWS(simdLdSt) BEGIN(simdLdSt) kv(s, "u_offset_op", d.u_offset_op); kv(s, "pre_post_op", d.pre_post_op); kv(s, "register_op", d.register_op); kv(s, "literal_op", d.literal_op); kv(s, "u_alt_inst_id", d.u_alt_inst_id); END
  ROWS(simdLdpStp) BEGIN(simdLdpStp) kv(s, "offset_op", d.offset_op); kv(s, "pre_post_op", d.pre_post_op); END
  ROWS(simdLdurStur) BEGIN(simdLdurStur) kv(s, "opcode", d.opcode); END
  ROWS(simdLdNStN) BEGIN(simdLdNStN) kv(s, "single_op", d.single_op); kv(s, "multiple_op", d.multiple_op); kv(s, "n", d.n); kv(s, "replicate", d.replicate); END
  ROWS(fSimdVVVe) BEGIN(fSimdVVVe) kv(s, "scalar_op", d.scalar_op()); kv(s, "scalar_hf", d.scalar_hf()); kv(s, "vector_op", d.vector_op()); kv(s, "vector_hf", d.vector_hf());
    kv(s, "element_scalar_op", d.element_scalar_op()); kv(s, "element_vector_op", d.element_vector_op()); END
  ROWS(iSimdVVVe) BEGIN(iSimdVVVe) kv(s, "regular_op", d.regular_op); kv(s, "regular_vec_type", d.regular_vec_type); kv(s, "element_op", d.element_op); kv(s, "element_vec_type", d.element_vec_type); END
  ROWS(simdDot) BEGIN(simdDot) kv(s, "vector_op", d.vector_op); kv(s, "element_op", d.element_op); kv(s, "ta", d.ta); kv(s, "tb", d.tb); kv(s, "tElement", d.tElement); END
  ROWS(simdFmlal) BEGIN(simdFmlal) kv(s, "vector_op", d.vector_op()); kv(s, "element_op", d.element_op()); kv(s, "optional_q", d.optional_q()); kv(s, "ta", d.ta); kv(s, "tb", d.tb); kv(s, "tElement", d.tElement); END
  ROWS(simdFcmla) BEGIN(simdFcmla) kv(s, "regular_op", d.regular_op()); kv(s, "element_op", d.element_op()); END
  ROWS(simdFcadd) BEGIN(simdFcadd) kv(s, "opcode", d.opcode()); END
  ROWS(simdMoviMvni) BEGIN(simdMoviMvni) kv(s, "opcode", d.opcode); kv(s, "inverted", d.inverted); END
  ROWS(simdBicOrr) BEGIN(simdBicOrr) kv(s, "register_op", d.register_op); kv(s, "immediate_op", d.immediate_op); END
  ROWS(simdShift) BEGIN(simdShift) kv(s, "register_op", d.register_op); kv(s, "immediate_op", d.immediate_op); kv(s, "inverted_imm", d.inverted_imm); kv(s, "vec_op_type", d.vec_op_type); END
  ROWS(simdFcvtLN) BEGIN(simdFcvtLN) kv(s, "scalar_op", d.scalar_op()); kv(s, "vector_op", d.vector_op()); kv(s, "is_cvtxn", d.is_cvtxn()); kv(s, "has_scalar", d.has_scalar()); END
  ROWS(simdFcvtSV) BEGIN(simdFcvtSV) kv(s, "scalar_int_op", d.scalar_int_op()); kv(s, "vector_int_op", d.vector_int_op()); kv(s, "scalar_fp_op", d.scalar_fp_op()); kv(s, "vector_fp_op", d.vector_fp_op());
    kv(s, "general_op", d.general_op()); kv(s, "is_float_to_int", d.is_float_to_int()); kv(s, "is_fixed_point", d.is_fixed_point()); END
  ROWS(simdFcm) BEGIN(simdFcm) kv(s, "has_register_op", d.has_register_op()); kv(s, "has_zero_op", d.has_zero_op()); kv(s, "register_scalar_op", d.register_scalar_op()); kv(s, "register_vector_op", d.register_vector_op());
    kv(s, "register_hf", d.register_scalar_hf()); kv(s, "zero_scalar_op", d.zero_scalar_op()); kv(s, "zero_vector_op", d.zero_vector_op()); END
  ROWS(fSimdPair) BEGIN(fSimdPair) kv(s, "scalar_op", d.scalar_op()); kv(s, "vector_op", d.vector_op()); END
  ROWS(iSimdPair) BEGIN(iSimdPair) kv(s, "opcode2", d.opcode2); kv(s, "opcode3", d.opcode3); kv(s, "op_type3", d.op_type3); END
  ROWS(simdTblTbx) BEGIN(simdTblTbx) kv(s, "opcode", d.opcode); END
  ROWS(simdSmovUmov) BEGIN(simdSmovUmov) kv(s, "opcode", d.opcode); kv(s, "vec_op_type", d.vec_op_type); kv(s, "is_signed", d.is_signed); END
  ROWS(simdSm3tt) BEGIN(simdSm3tt) kv(s, "opcode", d.opcode); END
  ROWS(iSimdVVVVx) BEGIN(iSimdVVVVx) kv(s, "opcode", d.opcode); kv(s, "op0_signature", d.op0_signature); kv(s, "op1_signature", d.op1_signature); kv(s, "op2_signature", d.op2_signature); kv(s, "op3_signature", d.op3_signature); END
  // file-static tables of a64assembler.cpp
  for (size_t i = 0; i < sizeof(a64::shift_op_to_ld_st_opt_map); i++) printf("row shiftOpToLdStOptMap %zu value=%u\n", i, a64::shift_op_to_ld_st_opt_map[i]);
  for (size_t t = 0; t < a64::SizeOpTable::kCount; t++)
    for (size_t i = 0; i < sizeof(a64::size_op_table[t].array) / sizeof(a64::SizeOp); i++)
      printf("row sizeOpTable %zu table=%zu value=%u\n", t * 40 + i, t, a64::size_op_table[t].array[i].value);
  for (size_t i = 0; i < a64::InstDB::kVO_Count; i++)
    printf("row sizeOpMap %zu table_id=%u size_op_mask=%u accept_mask=%u\n", i, a64::size_op_map[i].table_id, a64::size_op_map[i].size_op_mask, a64::size_op_map[i].accept_mask);
  for (size_t i = 0; i < 32; i++) printf("row commonHiRegId %zu value=%u\n", i, a64::common_hi_reg_id_of_type_table[i]);
  printf("const kIdCount %u\n", a64::Inst::_kIdCount);
  printf("const sig_gp32 %u\n", RegTraits<RegType::kGp32>::kSignature);
  printf("const sig_gp64 %u\n", RegTraits<RegType::kGp64>::kSignature);
  printf("const kVO_V_Any %u\n", uint32_t(a64::InstDB::kVO_V_Any));
  printf("const kVO_V_B %u\n", uint32_t(a64::InstDB::kVO_V_B));
  printf("const kVO_V_HS %u\n", uint32_t(a64::InstDB::kVO_V_HS));
  printf("const kVO_V_B8D1 %u\n", uint32_t(a64::InstDB::kVO_V_B8D1));
  printf("const kVO_V_B16D2 %u\n", uint32_t(a64::InstDB::kVO_V_B16D2));
  for (uint32_t rt = 0; rt < 32; rt++) printf("row regSignature %u value=%u\n", rt, RegUtils::signature_of(RegType(rt)).bits());
}

static std::string step(const std::string& line) {
  std::vector<std::string> w = vh::words(line);
  if (w.empty()) return "bad-op";
  if (w[0] == "emit") return do_emit(w);
  if (w[0] == "dump") { dump_tables(); return "end-of-dump"; }
  return "bad-op";
}

int main() { return vh::line_loop(step); }
