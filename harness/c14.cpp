// C14 harness: arbitrary public-API calls on a *test* emitter and, only when the test accepted them, on a
// *shadow* emitter that therefore has seen the accepted calls only.  After every call one line is printed:
//
//   <err> H <handler errors|-> T <0|1 thrown> O <options> <extraSig> <extraId> <comment 0|1> P <same 4 fields before the call> B <snap> A <snap> S <snap> X <extra>
//   (a non-instruction call may be prefixed by "@<options hex>,<extra type.id|->,<comment 0|1>": one-shot state set right before it)
//
//   snap  = sec=<size,size,..> lab=<n> bnd=<n> rel=<n> fix=<n> adr=<n> nod=<n> cur=<section> off=<offset> h=<fnv of the full dump>
//   extra = what the accepted call did, for the model's oracle part:
//           bytes=<hex>                         bytes appended to the current section (Assembler)
//           nf=<label>:<type>:<valueSize>:<valueOffset>:<bitCount>:<bitShift>:<discard>:<offset>:<rel>:<reloc|-> (new fixup)
//
// B = test before, A = test after, S = shadow after.  The dump that is hashed contains every section (bytes, alignment,
// virtual size, name), every label (bound section/offset or its chain of fixups, name, parent), the global fixup list,
// every relocation entry (expressions resolved to label ids), the address table and, for Builder/Compiler, every node.
// No addresses are printed or hashed.
#include <asmjit/core.h>
#include <asmjit/x86.h>
#include <asmjit/a64.h>
#include <memory>
#include <csignal>
#include <sys/time.h>
#include <unistd.h>
#include <stdexcept>
#include "vh.h"

using namespace asmjit;

namespace {

struct Thrown { Error err; };

struct Handler : public ErrorHandler {
  int kind = 0;                     // 0 returning, 1 recording, 2 throwing
  std::vector<uint32_t> log;
  std::string last_message;
  void handle_error(Error err, const char* message, BaseEmitter*) override {
    log.push_back(uint32_t(err));
    if (kind >= 1) last_message = message ? message : "";
    if (kind == 2) throw Thrown{err};
  }
};

struct Side {
  CodeHolder code;
  std::unique_ptr<BaseEmitter> em;
  Handler h;
  bool has_handler = true;
  std::vector<std::string> data_keep;   // keeps comment strings alive
};

struct Session {
  Arch arch = Arch::kX64;
  int emitter = 0;                  // 0 asm, 1 builder, 2 compiler
  std::unique_ptr<Side> test, shadow;
  std::unique_ptr<CodeHolder> foreign;   // a section of another CodeHolder (invalid `section` argument)
  Section* foreign_section = nullptr;
};

Session S;

const char* kComment = "c14-comment";

// ---- snapshot --------------------------------------------------------------------------------------------------

void dump_format(std::string& d, const OffsetFormat& f) {
  char b[96];
  snprintf(b, sizeof b, "F%u.%u.%u.%u.%u.%u.%u", unsigned(f.type()), unsigned(f.flags()), unsigned(f.region_size()), unsigned(f.value_size()),
           unsigned(f.value_offset()), unsigned(f.imm_bit_count()), unsigned(f.imm_bit_shift()));
  d += b;
  snprintf(b, sizeof b, ".%u", unsigned(f.imm_discard_lsb()));
  d += b;
}

struct Snap {
  std::string sizes;
  size_t lab = 0, bnd = 0, rel = 0, fix = 0, adr = 0, nod = 0, cur = 0, off = 0;
  uint64_t hash = 0, bhash = 0;
  int taint = 0;      // a bound label whose "offset" lies outside its section: DESIGN.md defect #18 (C03) stored a Fixup* there
  std::string dump;
  std::string text() const {
    char b[256];
    snprintf(b, sizeof b, "sec=%s lab=%zu bnd=%zu rel=%zu fix=%zu adr=%zu nod=%zu cur=%zu off=%zu h=%llx bh=%llx taint=%d", sizes.c_str(), lab, bnd, rel, fix, adr,
             nod, cur, off, (unsigned long long)hash, (unsigned long long)bhash, taint);
    return b;
  }
};

void dump_fixups(std::string& d, const Fixup* f) {
  int guard = 0;
  char b[128];
  for (; f && guard < 100000; f = f->next, guard++) {
    snprintf(b, sizeof b, "[s%u i%u o%zu r%lld ", f->section_id, f->label_or_reloc_id, f->offset, (long long)f->rel);
    d += b;
    dump_format(d, f->format);
    d += "]";
  }
  if (f) d += "CYCLE";
}

void dump_operand(std::string& d, const Operand_& o) {
  char b[96];
  snprintf(b, sizeof b, "(%x %x %x %x)", o._signature._bits, o._base_id, o._data[0], o._data[1]);
  d += b;
}

Snap snapshot(Side& s) {
  Snap sn;
  std::string& d = sn.dump;
  CodeHolder& c = s.code;
  char b[256];
  {
    std::string all;
    for (Section* sec : c.sections()) {
      if (sec->section_id()) all += "/";
      all += vh::bytes_to_hex(sec->data(), sec->buffer_size());
    }
    vh::Fnv bf;
    bf.add(all);
    sn.bhash = bf.h;
  }
  for (Section* sec : c.sections()) {
    if (!sn.sizes.empty()) sn.sizes += ",";
    sn.sizes += std::to_string(sec->buffer_size());
    snprintf(b, sizeof b, "S%u a%u f%u v%llu n=%s ", sec->section_id(), sec->alignment(), unsigned(sec->flags()), (unsigned long long)sec->virtual_size(),
             sec->name());
    d += b;
    d += vh::bytes_to_hex(sec->data(), sec->buffer_size());
    d += "\n";
  }
  sn.lab = c.label_count();
  uint32_t id = 0;
  for (const LabelEntry& le : c.label_entries()) {
    snprintf(b, sizeof b, "L%u t%u ", id, unsigned(le.label_type()));
    d += b;
    if (le.has_name()) { d += "n="; d += std::string(le.name(), le.name_size()); d += " "; }
    if (le.has_parent()) { snprintf(b, sizeof b, "p%u ", le.parent_id()); d += b; }
    if (le.is_bound()) {
      sn.bnd++;
      if (le.section_id() < c.section_count() && le.offset() > c.sections()[le.section_id()]->buffer_size()) {
        sn.taint = 1;
        snprintf(b, sizeof b, "B%u+OUTSIDE", le.section_id());
      } else {
        snprintf(b, sizeof b, "B%u+%llu", le.section_id(), (unsigned long long)le.offset());
      }
      d += b;
    } else {
      dump_fixups(d, le.unresolved_fixups());
    }
    d += "\n";
    id++;
  }
  d += "G";
  dump_fixups(d, c._fixups);
  d += "\n";
  sn.fix = c.unresolved_fixup_count();
  sn.rel = c.reloc_entries().size();
  for (const RelocEntry* re : c.reloc_entries()) {
    snprintf(b, sizeof b, "R%u t%u s%u T%u o%llu ", re->id(), unsigned(re->reloc_type()), re->source_section_id(), re->target_section_id(),
             (unsigned long long)re->source_offset());
    d += b;
    dump_format(d, re->format());
    if (re->reloc_type() == RelocType::kExpression) {
      const Expression* e = re->payload_as_expression();
      snprintf(b, sizeof b, " E%u %u:%llx %u:%llx", unsigned(e->op_type), unsigned(e->value_type[0]),
               (unsigned long long)(e->value_type[0] == ExpressionValueType::kLabel ? e->value[0].label_id : e->value[0].constant),
               unsigned(e->value_type[1]),
               (unsigned long long)(e->value_type[1] == ExpressionValueType::kLabel ? e->value[1].label_id : e->value[1].constant));
      d += b;
    } else {
      snprintf(b, sizeof b, " P%llx", (unsigned long long)re->payload());
      d += b;
    }
    d += "\n";
  }
  sn.adr = (c._address_table_section ? size_t(c._address_table_section->virtual_size()) : 0);
  snprintf(b, sizeof b, "A%zu\n", sn.adr);
  d += b;

  BaseEmitter* em = s.em.get();
  if (em->is_assembler()) {
    BaseAssembler* a = static_cast<BaseAssembler*>(em);
    sn.cur = a->current_section() ? a->current_section()->section_id() : 0;
    sn.off = a->offset();
  } else {
    BaseBuilder* bl = static_cast<BaseBuilder*>(em);
    size_t n = 0, cur_index = 0;
    for (BaseNode* node = bl->first_node(); node; node = node->next()) {
      if (++n > 200000) { d += "NODE-CYCLE"; break; }
      if (node == bl->cursor()) cur_index = n;
      snprintf(b, sizeof b, "N%u ", unsigned(node->type()));
      d += b;
      switch (node->type()) {
        case NodeType::kInst: case NodeType::kJump: {
          InstNode* in = node->as<InstNode>();
          snprintf(b, sizeof b, "i%u o%x x%x.%u n%zu ", in->inst_id(), unsigned(in->options()), in->extra_reg().signature().bits(), in->extra_reg().id(),
                   in->op_count());
          d += b;
          for (const Operand& o : in->operands()) dump_operand(d, o);
          break;
        }
        case NodeType::kSection: snprintf(b, sizeof b, "s%u", node->as<SectionNode>()->section_id()); d += b; break;
        case NodeType::kLabel: snprintf(b, sizeof b, "l%u", node->as<LabelNode>()->label_id()); d += b; break;
        case NodeType::kAlign: snprintf(b, sizeof b, "m%u a%u", unsigned(node->as<AlignNode>()->align_mode()), node->as<AlignNode>()->alignment()); d += b; break;
        case NodeType::kEmbedData: {
          EmbedDataNode* en = node->as<EmbedDataNode>();
          snprintf(b, sizeof b, "t%u c%zu r%zu ", unsigned(en->type_id()), en->item_count(), en->repeat_count());
          d += b;
          d += vh::bytes_to_hex(en->data(), en->data_size());
          break;
        }
        case NodeType::kEmbedLabel: snprintf(b, sizeof b, "l%u z%u", node->as<EmbedLabelNode>()->label_id(), node->as<EmbedLabelNode>()->data_size()); d += b; break;
        case NodeType::kEmbedLabelDelta:
          snprintf(b, sizeof b, "l%u b%u z%u", node->as<EmbedLabelDeltaNode>()->label_id(), node->as<EmbedLabelDeltaNode>()->base_label_id(),
                   node->as<EmbedLabelDeltaNode>()->data_size());
          d += b;
          break;
        default: break;
      }
      if (node->has_inline_comment()) { d += " ;"; d += node->inline_comment(); }
      d += "\n";
    }
    sn.nod = n;
    sn.cur = cur_index;
  }
  vh::Fnv f;
  f.add(d);
  sn.hash = f.h;
  return sn;
}

// ---- operands --------------------------------------------------------------------------------------------------

bool split(const std::string& s, char sep, std::vector<std::string>& out) {
  out.clear();
  size_t i = 0;
  while (true) {
    size_t j = s.find(sep, i);
    if (j == std::string::npos) { out.push_back(s.substr(i)); break; }
    out.push_back(s.substr(i, j - i));
    i = j + 1;
  }
  return true;
}

bool num(const std::string& s, int64_t& v) { return vh::parse_i64(s, v); }

Reg make_reg(bool is_a64, uint32_t type, uint32_t id) {
  (void)is_a64;
  return Reg::from_type_and_id(RegType(type & 31), id);
}

// Operand tokens (see tools/props/c14.py):
//   -                               none
//   r<type>.<id>                    register built by Reg::from_type_and_id
//   v<type>.<id>.<elemType>.<idx>   AArch64 vector with element type (set_element_type) and index (set_element_index, -1 none)
//   i<int64>                        immediate
//   l<id>                           label operand
//   m<k>,<a>,<b>,<it>,<ii>,<shift>,<off>,<size>,<seg>,<bcast>,<addr>   x86 memory: k = r (base reg type a id b) | l (label id a) | a (absolute, off is 64 bit)
//   M<k>,<a>,<b>,<it>,<ii>,<sop>,<shift>,<off>,<mode>                  a64 memory: mode 0 fixed 1 pre 2 post
bool parse_operand(const std::string& t, bool is_a64, Operand& out) {
  out.reset();
  if (t == "-") return true;
  std::vector<std::string> p;
  int64_t a, b, c, d;
  char k = t[0];
  std::string rest = t.substr(1);
  if (k == 'r') {
    split(rest, '.', p);
    if (p.size() != 2 || !num(p[0], a) || !num(p[1], b)) return false;
    out = make_reg(is_a64, uint32_t(a), uint32_t(b));
    return true;
  }
  if (k == 'v') {
    split(rest, '.', p);
    if (p.size() != 4 || !num(p[0], a) || !num(p[1], b) || !num(p[2], c) || !num(p[3], d)) return false;
    a64::Vec v = a64::Vec::from_type_and_id(RegType(uint32_t(a) & 31), uint32_t(b));
    v.set_element_type(a64::VecElementType(uint32_t(c) & 7));
    if (d >= 0) v.set_element_index(uint32_t(d));
    out = v;
    return true;
  }
  if (k == 'i') {
    if (!num(rest, a)) return false;
    out = Imm(a);
    return true;
  }
  if (k == 'l') {
    if (!num(rest, a)) return false;
    out = Label(uint32_t(a));
    return true;
  }
  if (k == 'm') {
    split(rest.substr(1), ',', p);
    char bk = rest[0];
    if (p.size() != 11) return false;
    int64_t v[11];
    for (int i = 1; i < 11; i++) if (!num(p[i], v[i])) return false;
    if (!num(p[0].empty() ? "0" : p[0], v[0])) return false;
    // p: 0=a 1=b 2=it 3=ii 4=shift 5=off 6=size 7=seg 8=bcast 9=addr 10=unused
    x86::Mem m;
    bool has_index = v[2] != 0;
    Reg index = make_reg(false, uint32_t(v[2]), uint32_t(v[3]));
    if (bk == 'r') {
      Reg base = make_reg(false, uint32_t(v[0]), uint32_t(v[1]));
      m = has_index ? x86::Mem(base, index, uint32_t(v[4]) & 3, int32_t(v[5]), uint32_t(v[6]) & 0xFF)
                    : x86::Mem(base, int32_t(v[5]), uint32_t(v[6]) & 0xFF);
    } else if (bk == 'l') {
      Label l{uint32_t(v[0])};
      m = has_index ? x86::Mem(l, index, uint32_t(v[4]) & 3, int32_t(v[5]), uint32_t(v[6]) & 0xFF)
                    : x86::Mem(l, int32_t(v[5]), uint32_t(v[6]) & 0xFF);
    } else if (bk == 'a') {
      m = has_index ? x86::Mem(uint64_t(v[5]), index, uint32_t(v[4]) & 3, uint32_t(v[6]) & 0xFF)
                    : x86::Mem(uint64_t(v[5]), uint32_t(v[6]) & 0xFF);
    } else return false;
    if (v[7]) m.set_segment(uint32_t(v[7]) & 7);
    if (v[8]) m.set_broadcast(x86::Mem::Broadcast(uint32_t(v[8]) & 7));
    if (v[9] == 1) m.set_addr_type(x86::Mem::AddrType::kAbs); else if (v[9] == 2) m.set_addr_type(x86::Mem::AddrType::kRel);
    out = m;
    return true;
  }
  if (k == 'M') {
    split(rest.substr(1), ',', p);
    char bk = rest[0];
    if (p.size() != 8) return false;
    int64_t v[8];
    for (int i = 0; i < 8; i++) if (!num(p[i].empty() ? "0" : p[i], v[i])) return false;
    // p: 0=a 1=b 2=it 3=ii 4=sop 5=shift 6=off 7=mode
    a64::Mem m;
    bool has_index = v[2] != 0;
    Reg index = make_reg(true, uint32_t(v[2]), uint32_t(v[3]));
    if (bk == 'r') {
      Reg base = make_reg(true, uint32_t(v[0]), uint32_t(v[1]));
      if (has_index) m = a64::Mem(base, index, a64::Shift(a64::ShiftOp(uint32_t(v[4]) & 15), uint32_t(v[5]) & 63));
      else m = a64::Mem(base, int32_t(v[6]));
    } else if (bk == 'l') {
      m = a64::Mem(Label(uint32_t(v[0])), int32_t(v[6]));
    } else if (bk == 'a') {
      m = a64::Mem(uint64_t(v[6]));
    } else return false;
    if (v[7] == 1) m.make_pre_index(); else if (v[7] == 2) m.make_post_index();
    out = m;
    return true;
  }
  return false;
}

// ---- one call on one side ------------------------------------------------------------------------------------------

struct CallOut {
  Error err = Error::kOk;
  bool bad_line = false;
};

Error last_or(Side& s, size_t before, Error dflt) {
  return s.h.log.size() > before ? Error(s.h.log.back()) : dflt;
}

CallOut do_call(Side& s, const std::vector<std::string>& w) {
  CallOut r;
  BaseEmitter* em = s.em.get();
  const bool is_a64 = S.arch == Arch::kAArch64;
  const std::string& op = w[0];
  int64_t a = 0, b = 0, c = 0, d = 0;
  size_t hl = s.h.log.size();

  if (op == "label") {
    Label l = em->new_label();
    r.err = l.is_valid() ? Error::kOk : last_or(s, hl, Error::kOutOfMemory);
  } else if (op == "nlabel" && w.size() == 4) {        // nlabel <hexname|-> <type> <parent>
    std::vector<uint8_t> nm;
    if (!vh::hex_to_bytes(w[1], nm) || !num(w[2], a) || !num(w[3], b)) { r.bad_line = true; return r; }
    std::string name(nm.begin(), nm.end());
    Label l = em->new_named_label(name.data(), name.size(), LabelType(uint8_t(a)), uint32_t(b));
    r.err = l.is_valid() ? Error::kOk : last_or(s, hl, Error::kInvalidState);
  } else if (op == "bind" && w.size() == 2) {
    if (!num(w[1], a)) { r.bad_line = true; return r; }
    r.err = em->bind(Label(uint32_t(a)));
  } else if (op == "align" && w.size() == 3) {
    if (!num(w[1], a) || !num(w[2], b)) { r.bad_line = true; return r; }
    r.err = em->align(AlignMode(uint8_t(a)), uint32_t(b));
  } else if (op == "embed" && w.size() == 2) {
    std::vector<uint8_t> data;
    if (!vh::hex_to_bytes(w[1], data)) { r.bad_line = true; return r; }
    r.err = em->embed(data.data(), data.size());
  } else if (op == "embedarr" && w.size() == 5) {      // embedarr <typeId> <hexdata one item> <count> <repeat>
    std::vector<uint8_t> item;
    if (!num(w[1], a) || !vh::hex_to_bytes(w[2], item) || !num(w[3], b) || !num(w[4], c)) { r.bad_line = true; return r; }
    std::vector<uint8_t> data;
    size_t cnt = size_t(b) > 64 ? 64 : size_t(b);
    for (size_t i = 0; i < cnt; i++) for (int k = 0; k < 16; k++) data.push_back(item.empty() ? uint8_t(i) : item[k % item.size()]);
    data.resize(data.size() + 64);
    r.err = em->embed_data_array(TypeId(uint8_t(a)), data.data(), size_t(b), size_t(c));
  } else if (op == "elabel" && w.size() == 3) {
    if (!num(w[1], a) || !num(w[2], b)) { r.bad_line = true; return r; }
    r.err = em->embed_label(Label(uint32_t(a)), size_t(b));
  } else if (op == "edelta" && w.size() == 4) {
    if (!num(w[1], a) || !num(w[2], b) || !num(w[3], c)) { r.bad_line = true; return r; }
    r.err = em->embed_label_delta(Label(uint32_t(a)), Label(uint32_t(b)), size_t(c));
  } else if (op == "newsec" && w.size() == 4) {         // newsec <hexname> <flags> <alignment>   (CodeHolder call; no handler involved)
    std::vector<uint8_t> nm;
    if (!vh::hex_to_bytes(w[1], nm) || !num(w[2], a) || !num(w[3], b)) { r.bad_line = true; return r; }
    std::string name(nm.begin(), nm.end());
    Section* sec = nullptr;
    r.err = s.code.new_section(Out(sec), name.data(), name.size(), SectionFlags(uint32_t(a)), uint32_t(b));
  } else if (op == "section" && w.size() == 2) {        // section <index> | section foreign
    if (w[1] == "foreign") {
      r.err = em->section(S.foreign_section);
    } else {
      if (!num(w[1], a)) { r.bad_line = true; return r; }
      if (size_t(a) >= s.code.section_count()) {
        // an id that is not valid in this CodeHolder: the only public way to name it is a Section of another holder
        r.err = em->section(S.foreign_section);
      } else {
        r.err = em->section(s.code.sections()[size_t(a)]);
      }
    }
  } else if (op == "cpool" && w.size() == 4) {          // cpool <labelId> <item size 1..32> <count>: embed_const_pool of `count` constants
    if (!num(w[1], a) || !num(w[2], b) || !num(w[3], c)) { r.bad_line = true; return r; }
    Arena arena(4096);
    ConstPool pool(arena);
    size_t isz = size_t(b);
    if (isz != 1 && isz != 2 && isz != 4 && isz != 8 && isz != 16 && isz != 32) { r.bad_line = true; return r; }
    for (int64_t i = 0; i < c && i < 16; i++) {
      uint8_t item[32];
      for (size_t k = 0; k < 32; k++) item[k] = uint8_t(0xA0 + i + k);
      size_t off;
      (void)pool.add(item, isz, Out(off));
    }
    r.err = em->embed_const_pool(Label(uint32_t(a)), pool);
  } else if (op == "comment" && w.size() == 2) {
    r.err = em->comment(w[1].data(), w[1].size());
  } else if (op == "finalize") {
    r.err = em->finalize();
  } else if (op == "emit" && w.size() >= 5) {           // emit <instId> <options hex> <extraType.extraId|-> <comment 0|1> ops...
    uint64_t opts;
    if (!num(w[1], a) || !vh::parse_hex(w[2], opts) || !num(w[4], c)) { r.bad_line = true; return r; }
    Operand ops[6];
    size_t n = w.size() - 5;
    if (n > 6) { r.bad_line = true; return r; }
    for (size_t i = 0; i < n; i++) if (!parse_operand(w[5 + i], is_a64, ops[i])) { r.bad_line = true; return r; }
    if (opts) em->add_inst_options(InstOptions(uint32_t(opts)));
    if (w[3] != "-") {
      Operand x;
      if (!parse_operand("r" + w[3], is_a64, x)) { r.bad_line = true; return r; }
      em->set_extra_reg(x.as<Reg>());
    }
    if (c) em->set_inline_comment(kComment);
    r.err = em->_emit_op_array(InstId(uint32_t(a)), ops, n);
  } else {
    r.bad_line = true;
  }
  return r;
}

// "@<options hex>,<extra type.id|->,<comment 0|1>": one-shot state set right before a non-instruction call
struct Pre { bool present = false; uint64_t opts = 0; std::string extra = "-"; int cmt = 0; };

bool parse_pre(const std::string& tok, Pre& p) {
  std::vector<std::string> f;
  split(tok.substr(1), ',', f);
  int64_t c;
  if (f.size() != 3 || !vh::parse_hex(f[0], p.opts) || !num(f[2], c)) return false;
  p.extra = f[1];
  p.cmt = int(c);
  p.present = true;
  return true;
}

bool apply_pre(Side& s, const Pre& p) {
  if (!p.present) return true;
  BaseEmitter* em = s.em.get();
  if (p.opts) em->add_inst_options(InstOptions(uint32_t(p.opts)));
  if (p.extra != "-") {
    Operand x;
    if (!parse_operand("r" + p.extra, S.arch == Arch::kAArch64, x)) return false;
    em->set_extra_reg(x.as<Reg>());
  }
  if (p.cmt) em->set_inline_comment(kComment);
  return true;
}

std::string one_shot(BaseEmitter* em) {
  char b[96];
  snprintf(b, sizeof b, "%x %x %u %d", unsigned(em->inst_options()), em->extra_reg().signature().bits(), em->extra_reg().id(), em->inline_comment() ? 1 : 0);
  return b;
}

std::unique_ptr<Side> make_side(Arch arch, int emitter, int handler, bool validate) {
  std::unique_ptr<Side> s(new Side());
  Environment env(arch);
  s->code.init(env);
  s->h.kind = handler;
  s->has_handler = handler >= 0;
  if (arch == Arch::kAArch64) {
    if (emitter == 0) s->em.reset(new a64::Assembler());
    else if (emitter == 1) s->em.reset(new a64::Builder());
    else s->em.reset(new a64::Compiler());
  } else {
    if (emitter == 0) s->em.reset(new x86::Assembler());
    else if (emitter == 1) s->em.reset(new x86::Builder());
    else s->em.reset(new x86::Compiler());
  }
  s->code.attach(s->em.get());
  if (s->has_handler) s->em->set_error_handler(&s->h);
  if (validate) s->em->add_diagnostic_options(emitter == 0 ? DiagnosticOptions::kValidateAssembler : DiagnosticOptions::kValidateIntermediate);
  return s;
}

std::string step(const std::string& line) {
  std::vector<std::string> w = vh::words(line);
  if (w.empty()) return "";
  if (w[0] == "new") {                                  // new <x86|x64|a64> <asm|bld|cmp> <ret|rec|thr|none> <validate 0|1>
    if (w.size() != 5) return "badline";
    Arch arch = w[1] == "x86" ? Arch::kX86 : w[1] == "x64" ? Arch::kX64 : Arch::kAArch64;
    int em = w[2] == "asm" ? 0 : w[2] == "bld" ? 1 : 2;
    int hk = w[3] == "ret" ? 0 : w[3] == "rec" ? 1 : w[3] == "thr" ? 2 : -1;
    bool val = w[4] == "1";
    S.test.reset(); S.shadow.reset();
    S.arch = arch; S.emitter = em;
    S.test = make_side(arch, em, hk, val);
    S.shadow = make_side(arch, em, 1, val);
    S.foreign.reset(new CodeHolder());
    S.foreign->init(Environment(arch));
    S.foreign_section = nullptr;
    // the foreign section has id 1, which is also handed out by the test holder after one `newsec`
    (void)S.foreign->new_section(Out(S.foreign_section), ".foreign", SIZE_MAX, SectionFlags::kNone, 1);
    return "ok";
  }
  if (!S.test) return "badline no-session";

  Side& t = *S.test;
  Pre pre;
  if (w[0][0] == '@') {
    if (!parse_pre(w[0], pre) || w.size() < 2 || w[1] == "emit") return "badline";
    w.erase(w.begin());
  }
  Snap before = snapshot(t);
  size_t hl = t.h.log.size();
  bool thrown = false;
  CallOut r;
  if (!apply_pre(t, pre)) return "badline";
  std::string os_before = one_shot(t.em.get());
  try {
    r = do_call(t, w);
  } catch (const Thrown& th) {
    thrown = true;
    r.err = th.err;
  }
  if (r.bad_line) return "badline";
  Snap after = snapshot(t);
  std::string os = one_shot(t.em.get());
  // the one-shot state a non-instruction call leaves behind is judged (O vs P) but not carried into the next call
  if (pre.present) t.em->reset_state();

  std::string hs;
  for (size_t i = hl; i < t.h.log.size(); i++) { if (!hs.empty()) hs += ","; hs += std::to_string(t.h.log[i]); }
  if (hs.empty()) hs = "-";

  // what an accepted call did (oracle part for the model)
  std::string extra = "-";
  if (r.err == Error::kOk && t.em->is_assembler()) {
    BaseAssembler* a = static_cast<BaseAssembler*>(t.em.get());
    extra.clear();
    Section* sec = a->current_section();
    if (before.cur == after.cur && after.off >= before.off && sec->buffer_size() >= after.off) {
      extra += "bytes=" + (after.off > before.off ? vh::bytes_to_hex(sec->data() + before.off, after.off - before.off) : std::string("-"));
    } else {
      extra += "bytes=?";
    }
    // new fixup: the newest fixup of a label whose chain grew (at most one per call)
    if (after.fix == before.fix + 1) {
      uint32_t id = 0;
      bool found_fixup = false;
      for (const LabelEntry& le : t.code.label_entries()) {
        const Fixup* f = le.unresolved_fixups();
        if (f && f->section_id == after.cur && f->offset >= before.off && f->offset < after.off) {
          char b[160];
          snprintf(b, sizeof b, " nf=%u:%u:%u:%u:%u:%u:%u:%zu:%lld:", id, unsigned(f->format.type()), unsigned(f->format.value_size()),
                   unsigned(f->format.value_offset()), unsigned(f->format.imm_bit_count()), unsigned(f->format.imm_bit_shift()),
                   unsigned(f->format.imm_discard_lsb()), f->offset, (long long)f->rel);
          extra += b;
          extra += f->label_or_reloc_id == Globals::kInvalidId ? std::string("-") : std::to_string(f->label_or_reloc_id);
          found_fixup = true;
          break;
        }
        id++;
      }
      // a reference to a label that is already bound in another section goes straight to the global list (new_fixup)
      const Fixup* g = t.code._fixups;
      if (!found_fixup && g && g->section_id == after.cur && g->offset >= before.off && g->offset < after.off) {
        char b[160];
        snprintf(b, sizeof b, " nf=%u:%u:%u:%u:%u:%u:%u:%zu:%lld:-", g->label_or_reloc_id, unsigned(g->format.type()), unsigned(g->format.value_size()),
                 unsigned(g->format.value_offset()), unsigned(g->format.imm_bit_count()), unsigned(g->format.imm_bit_shift()),
                 unsigned(g->format.imm_discard_lsb()), g->offset, (long long)g->rel);
        extra += b;
      }
    }
  }

  // shadow: sees the call only when the test side accepted it
  Snap sh;
  if (r.err == Error::kOk || w[0] == "finalize") {
    CallOut rs;
    try { apply_pre(*S.shadow, pre); rs = do_call(*S.shadow, w); } catch (const Thrown& th) { rs.err = th.err; }
    if (pre.present) S.shadow->em->reset_state();
    sh = snapshot(*S.shadow);
    if (rs.err != r.err) sh.sizes += "!shadow-answered-" + std::to_string(uint32_t(rs.err));
  } else {
    sh = snapshot(*S.shadow);
  }

  if (getenv("VH_DUMP")) fprintf(stderr, "---- %s\n%s", line.c_str(), after.dump.c_str());

  std::string out = std::to_string(uint32_t(r.err));
  out += " H " + hs + " T " + (thrown ? "1" : "0") + " O " + os + " P " + os_before + " B " + before.text() + " A " + after.text() + " S " + sh.text() + " X " + extra;
  return out;
}

} // namespace

// A call of the real code that does not return (e.g. a cyclic node list) must be told apart from a slow machine: the limit is CPU
// time of this process (600 s; a whole chunk of sessions needs a few seconds), never wall-clock time.
static void on_cpu_limit(int) {
  static const char msg[] = "C14-HARNESS: CPU time limit exceeded - the call does not return\n";
  ssize_t ignored = write(2, msg, sizeof(msg) - 1);
  (void)ignored;
  _exit(98);
}

int main() {
  struct itimerval it;
  memset(&it, 0, sizeof(it));
  it.it_value.tv_sec = 600;
  signal(SIGPROF, on_cpu_limit);
  setitimer(ITIMER_PROF, &it, nullptr);
  return vh::line_loop(step);
}
