// C07 harness: the real CallConv::init / FuncFrame::init / setters / finalize and the real
// BaseEmitter::emit_prolog / emit_epilog (into a Builder) behind the line protocol of lean/Driver/C07.lean.
//
//   frame <arch 0|1|2> <cc> <win 0|1> <argStack> <attrs hex> <used0..3 hex> <ovr> <upd 0|1> <lsz> <lal> <csz> <cal> <sareg>
//     -> ok <40 frame numbers> | <prolog> | <epilog>       or   err <ErrorName>
//
// Instructions are printed generically from the Builder's node list (mnemonic from the instruction
// database, every operand from its own fields); nothing here knows what a prolog should look like.
#include <asmjit/core.h>
#include <asmjit/x86.h>
#include <asmjit/a64.h>
#include "vh.h"

using namespace asmjit;

static std::string err_name(Error e) {
  std::string s = DebugUtils::error_as_string(e);
  // "InvalidState" style names are what the model prints; keep the library's text otherwise.
  return s;
}

static const char* grp_letter(RegGroup g) {
  switch (uint32_t(g)) {
    case 0: return "r";
    case 1: return "v";
    case 2: return "k";
    case 3: return "m";
    default: return "?";
  }
}

static std::string signed_text(int64_t v) {
  char buf[48];
  if (v < 0) snprintf(buf, sizeof(buf), "-%llu", (unsigned long long)(0 - uint64_t(v)));
  else snprintf(buf, sizeof(buf), "+%llu", (unsigned long long)v);
  return buf;
}

static std::string operand_text(Arch arch, const Operand_& op) {
  char buf[96];
  if (op.is_reg()) {
    const Reg& r = op.as<Reg>();
    snprintf(buf, sizeof(buf), "%s%u:%u", grp_letter(r.reg_group()), r.id(), r.size());
    return buf;
  }
  if (op.is_mem()) {
    const BaseMem& m = op.as<BaseMem>();
    if (!m.has_base_reg() || m.has_index()) return "[?]";
    std::string off = signed_text(m.offset());
    snprintf(buf, sizeof(buf), "[r%u", m.base_id());
    std::string s = buf;
    if (arch == Arch::kAArch64) {
      const a64::Mem& am = op.as<a64::Mem>();
      if (am.is_pre_index()) return s + off + "]!";
      if (am.is_post_index()) return s + "]" + off;
    }
    return s + off + "]";
  }
  if (op.is_imm()) {
    int64_t v = op.as<Imm>().value();
    std::string s = signed_text(v);
    return std::string("#") + (v < 0 ? s : s.substr(1));
  }
  return "?";
}

static std::string dump_nodes(Arch arch, BaseBuilder& cb) {
  std::string out;
  for (BaseNode* n = cb.first_node(); n; n = n->next()) {
    if (n->type() == NodeType::kSection) continue;   // the Builder's initial .text section node
    if (!n->is_inst()) { if (!out.empty()) out += "; "; out += "?node"; continue; }
    InstNode* in = n->as<InstNode>();
    String name;
    InstAPI::inst_id_to_string(arch, in->inst_id(), InstStringifyOptions::kNone, name);
    if (!out.empty()) out += "; ";
    out += name.data();
    bool first = true;
    for (const Operand& op : in->operands()) {
      out += first ? " " : ",";
      first = false;
      out += operand_text(arch, op);
    }
  }
  return out.empty() ? "-" : out;
}

static std::string emit_list(const Environment& env, const FuncFrame& frame, bool prolog) {
  CodeHolder code;
  if (code.init(env) != Error::kOk) return "!init";
  Error e;
  if (env.arch() == Arch::kAArch64) {
    a64::Builder cb(&code);
    e = prolog ? cb.emit_prolog(frame) : cb.emit_epilog(frame);
    if (e != Error::kOk) return "!" + err_name(e);
    return dump_nodes(env.arch(), cb);
  }
  else {
    x86::Builder cb(&code);
    e = prolog ? cb.emit_prolog(frame) : cb.emit_epilog(frame);
    if (e != Error::kOk) return "!" + err_name(e);
    return dump_nodes(env.arch(), cb);
  }
}

static std::string step(const std::string& line) {
  std::vector<std::string> w = vh::words(line);
  if (w.size() != 17 || w[0] != "frame") return "bad-op";
  uint64_t arch_i, cc_i, win, arg_stack, attrs, used[4], upd, lsz, lal, csz, cal, sareg;
  if (!vh::parse_u64(w[1], arch_i) || !vh::parse_u64(w[2], cc_i) || !vh::parse_u64(w[3], win) || !vh::parse_u64(w[4], arg_stack) ||
      !vh::parse_hex(w[5], attrs)) return "bad-op";
  for (int i = 0; i < 4; i++) if (!vh::parse_hex(w[6 + i], used[i])) return "bad-op";
  if (!vh::parse_u64(w[11], upd) || !vh::parse_u64(w[12], lsz) || !vh::parse_u64(w[13], lal) || !vh::parse_u64(w[14], csz) ||
      !vh::parse_u64(w[15], cal) || !vh::parse_u64(w[16], sareg)) return "bad-op";
  if (arch_i > 2) return "bad-op";
  bool has_ovr = w[10] != "-";
  uint64_t ovr[12] = {0};
  if (has_ovr) {
    std::vector<std::string> parts;
    size_t st = 0;
    for (;;) {
      size_t p = w[10].find(',', st);
      parts.push_back(w[10].substr(st, p == std::string::npos ? p : p - st));
      if (p == std::string::npos) break;
      st = p + 1;
    }
    if (parts.size() != 12) return "bad-op";
    for (int i = 0; i < 4; i++) if (!vh::parse_hex(parts[i], ovr[i])) return "bad-op";
    for (int i = 4; i < 12; i++) if (!vh::parse_u64(parts[i], ovr[i])) return "bad-op";
  }

  Arch arch = arch_i == 0 ? Arch::kX86 : arch_i == 1 ? Arch::kX64 : Arch::kAArch64;
  Environment env(arch, SubArch::kUnknown, Vendor::kUnknown, win ? Platform::kWindows : Platform::kLinux);

  FuncDetail func;
  Error e = func._call_conv.init(CallConvId(uint8_t(cc_i)), env);
  if (e != Error::kOk) return "err " + err_name(e);
  func._arg_stack_size = uint32_t(arg_stack);
  for (int i = 0; i < 4; i++) func._used_regs[size_t(i)] = RegMask(used[i]);

  FuncFrame frame;
  e = frame.init(func);
  if (e != Error::kOk) return "err " + err_name(e);
  frame.add_attributes(FuncAttributes(uint32_t(attrs)));
  if (has_ovr) {
    for (int i = 0; i < 4; i++) {
      frame._preserved_regs[RegGroup(i)] = RegMask(ovr[i]);
      frame._save_restore_reg_size[RegGroup(i)] = uint8_t(ovr[4 + i]);
      frame._save_restore_alignment[RegGroup(i)] = uint8_t(ovr[8 + i]);
    }
  }
  if (!upd) {
    frame.set_local_stack_size(uint32_t(lsz));
    frame.set_local_stack_alignment(uint32_t(lal));
    frame.set_call_stack_size(uint32_t(csz));
    frame.set_call_stack_alignment(uint32_t(cal));
  }
  else {
    frame.update_local_stack_size(uint32_t(lsz));
    frame.update_local_stack_size(uint32_t(lsz / 2));
    frame.update_local_stack_alignment(uint32_t(lal));
    frame.update_local_stack_alignment(uint32_t(lal / 2));
    frame.update_call_stack_size(uint32_t(csz));
    frame.update_call_stack_size(uint32_t(csz / 2));
    frame.update_call_stack_alignment(uint32_t(cal));
    frame.update_call_stack_alignment(uint32_t(cal / 2));
  }
  if (sareg != 255) frame.set_sa_reg_id(uint32_t(sareg));
  e = frame.finalize();
  if (e != Error::kOk) return "err " + err_name(e);

  char buf[128];
  std::string out = "ok";
  auto add = [&](uint64_t v) { snprintf(buf, sizeof(buf), " %llu", (unsigned long long)v); out += buf; };
  add(arch_i);
  add(uint32_t(frame.attributes()));
  add(frame._sp_reg_id); add(frame.sa_reg_id());
  add(frame.red_zone_size()); add(frame.spill_zone_size()); add(frame.natural_stack_alignment()); add(frame.min_dynamic_alignment());
  add(frame.call_stack_alignment()); add(frame.local_stack_alignment()); add(frame.final_stack_alignment());
  add(frame.callee_stack_cleanup());
  add(frame.call_stack_size()); add(frame.local_stack_size()); add(frame.final_stack_size()); add(frame.local_stack_offset());
  add(frame.da_offset()); add(frame.sa_offset_from_sp()); add(frame.sa_offset_from_sa()); add(frame.stack_adjustment());
  add(frame.push_pop_save_size()); add(frame.extra_reg_save_size()); add(frame.push_pop_save_offset()); add(frame.extra_reg_save_offset());
  for (int i = 0; i < 4; i++) add(frame.dirty_regs(RegGroup(i)));
  for (int i = 0; i < 4; i++) add(frame.preserved_regs(RegGroup(i)));
  for (int i = 0; i < 4; i++) add(frame.save_restore_reg_size(RegGroup(i)));
  for (int i = 0; i < 4; i++) add(frame.save_restore_alignment(RegGroup(i)));

  out += " | " + emit_list(env, frame, true);
  out += " | " + emit_list(env, frame, false);
  return out;
}

int main() { return vh::line_loop(step); }
