// C07 harness: the real CallConv::init / FuncFrame::init / setters / finalize and the real
// BaseEmitter::emit_prolog / emit_epilog (into a Builder) behind the line protocol of lean/Driver/C07.lean.
//
//   frame <arch 0|1|2> <cc> <win 0|1> <argStack> <attrs hex> <used0..3 hex> <ovr> <upd 0|1> <lsz> <lal> <csz> <cal> <sareg>
//     -> ok <40 frame numbers> | <prolog> | <epilog>       or   err <ErrorName>
//
// Instructions are printed generically from the Builder's node list (mnemonic from the instruction
// database, every operand from its own fields); nothing here knows what a prolog should look like.
#include <asmjit/core.h>
#include <asmjit/x86.h>
#include <asmjit/a64.h>
#include <asmjit/core/rastack_p.h>
#include "vh.h"
#include <map>

using namespace asmjit;

static std::string err_name(Error e) {
  std::string s = DebugUtils::error_as_string(e);
  // "InvalidState" style names are what the model prints; keep the library's text otherwise.
  return s;
}

static const char* grp_letter(RegGroup g) {
  switch (uint32_t(g)) {
    case 0: return "r";
    case 1: return "v";
    case 2: return "k";
    case 3: return "m";
    default: return "?";
  }
}

static std::string signed_text(int64_t v) {
  char buf[48];
  if (v < 0) snprintf(buf, sizeof(buf), "-%llu", (unsigned long long)(0 - uint64_t(v)));
  else snprintf(buf, sizeof(buf), "+%llu", (unsigned long long)v);
  return buf;
}

static std::string operand_text(Arch arch, const Operand_& op) {
  char buf[96];
  if (op.is_reg()) {
    const Reg& r = op.as<Reg>();
    snprintf(buf, sizeof(buf), "%s%u:%u", grp_letter(r.reg_group()), r.id(), r.size());
    return buf;
  }
  if (op.is_mem()) {
    const BaseMem& m = op.as<BaseMem>();
    if (!m.has_base_reg() || m.has_index()) return "[?]";
    std::string off = signed_text(m.offset());
    snprintf(buf, sizeof(buf), "[r%u", m.base_id());
    std::string s = buf;
    if (arch == Arch::kAArch64) {
      const a64::Mem& am = op.as<a64::Mem>();
      if (am.is_pre_index()) return s + off + "]!";
      if (am.is_post_index()) return s + "]" + off;
    }
    return s + off + "]";
  }
  if (op.is_imm()) {
    int64_t v = op.as<Imm>().value();
    std::string s = signed_text(v);
    return std::string("#") + (v < 0 ? s : s.substr(1));
  }
  return "?";
}

static std::string dump_nodes(Arch arch, BaseBuilder& cb) {
  std::string out;
  for (BaseNode* n = cb.first_node(); n; n = n->next()) {
    if (n->type() == NodeType::kSection) continue;   // the Builder's initial .text section node
    if (!n->is_inst()) { if (!out.empty()) out += "; "; out += "?node"; continue; }
    InstNode* in = n->as<InstNode>();
    String name;
    InstAPI::inst_id_to_string(arch, in->inst_id(), InstStringifyOptions::kNone, name);
    if (!out.empty()) out += "; ";
    out += name.data();
    bool first = true;
    for (const Operand& op : in->operands()) {
      out += first ? " " : ",";
      first = false;
      out += operand_text(arch, op);
    }
  }
  return out.empty() ? "-" : out;
}

static std::string emit_list(const Environment& env, const FuncFrame& frame, bool prolog) {
  CodeHolder code;
  if (code.init(env) != Error::kOk) return "!init";
  Error e;
  if (env.arch() == Arch::kAArch64) {
    a64::Builder cb(&code);
    e = prolog ? cb.emit_prolog(frame) : cb.emit_epilog(frame);
    if (e != Error::kOk) return "!" + err_name(e);
    std::string text = dump_nodes(env.arch(), cb);
    // C07_ASM=1 (QA only): also encode the list with the real assembler and report what it refuses
    if (getenv("C07_ASM")) { Error fe = cb.finalize(); if (fe != Error::kOk) text += " !asm:" + err_name(fe); }
    return text;
  }
  else {
    x86::Builder cb(&code);
    e = prolog ? cb.emit_prolog(frame) : cb.emit_epilog(frame);
    if (e != Error::kOk) return "!" + err_name(e);
    return dump_nodes(env.arch(), cb);
  }
}

static std::string finish(uint64_t arch_i, const Environment& env, FuncFrame& frame, const std::string& extra) {
  Error e = frame.finalize();
  if (e != Error::kOk) return "err " + err_name(e);

  char buf[128];
  std::string out = "ok";
  auto add = [&](uint64_t v) { snprintf(buf, sizeof(buf), " %llu", (unsigned long long)v); out += buf; };
  add(arch_i);
  add(uint32_t(frame.attributes()));
  add(frame._sp_reg_id); add(frame.sa_reg_id());
  add(frame.red_zone_size()); add(frame.spill_zone_size()); add(frame.natural_stack_alignment()); add(frame.min_dynamic_alignment());
  add(frame.call_stack_alignment()); add(frame.local_stack_alignment()); add(frame.final_stack_alignment());
  add(frame.callee_stack_cleanup());
  add(frame.call_stack_size()); add(frame.local_stack_size()); add(frame.final_stack_size()); add(frame.local_stack_offset());
  add(frame.da_offset()); add(frame.sa_offset_from_sp()); add(frame.sa_offset_from_sa()); add(frame.stack_adjustment());
  add(frame.push_pop_save_size()); add(frame.extra_reg_save_size()); add(frame.push_pop_save_offset()); add(frame.extra_reg_save_offset());
  for (int i = 0; i < 4; i++) add(frame.dirty_regs(RegGroup(i)));
  for (int i = 0; i < 4; i++) add(frame.preserved_regs(RegGroup(i)));
  for (int i = 0; i < 4; i++) add(frame.save_restore_reg_size(RegGroup(i)));
  for (int i = 0; i < 4; i++) add(frame.save_restore_alignment(RegGroup(i)));

  out += " | " + emit_list(env, frame, true);
  out += " | " + emit_list(env, frame, false);
  out += extra;
  return out;
}

static std::vector<std::string> split(const std::string& s, char c) {
  std::vector<std::string> parts;
  size_t st = 0;
  for (;;) {
    size_t p = s.find(c, st);
    parts.push_back(s.substr(st, p == std::string::npos ? p : p - st));
    if (p == std::string::npos) break;
    st = p + 1;
  }
  return parts;
}

// The real FuncArgsAssignment::update_func_frame on a signature / assignment derived from (n, seed).
// Returns the observed effect on the frame: " uff <d0> <d1> <d2> <d3> <sa|-> <Error> <other-fields-unchanged 0|1>".
static std::string real_uff(const Environment& env, CallConvId cc, FuncFrame& frame, uint64_t n, uint64_t seed) {
  FuncSignature sig;
  sig.set_call_conv_id(cc);
  sig.set_ret(TypeId::kVoid);
  static const TypeId kinds[4] = { TypeId::kIntPtr, TypeId::kInt32, TypeId::kFloat64, TypeId::kFloat32 };
  for (uint64_t i = 0; i < n && i < 12; i++) sig.add_arg(kinds[(seed >> (2 * i)) & 3]);
  FuncDetail fd;
  Error e = fd.init(sig, env);
  if (e != Error::kOk) return std::string(" uff 0 0 0 0 - ") + err_name(e) + " 1";
  FuncArgsAssignment args(&fd);
  static const uint32_t gp_x86[] = { 0, 1, 2, 3, 6, 7 };
  static const uint32_t gp_x64[] = { 0, 1, 2, 3, 6, 7, 8, 9, 10, 11, 12, 13, 14, 15 };
  uint32_t gi = uint32_t(seed >> 40), vi = uint32_t(seed >> 44);
  for (uint64_t i = 0; i < n && i < 12; i++) {
    if ((seed >> (24 + i)) & 1) continue;            // stays where the convention passes it
    bool is_fp = ((seed >> (2 * i)) & 2) != 0;
    if (is_fp) {
      uint32_t id = (vi++) % 8;
      if (env.arch() == Arch::kAArch64) args.assign_reg(size_t(i), RegType::kVec128, id);
      else args.assign_reg(size_t(i), RegType::kVec128, id);
    }
    else {
      uint32_t id;
      if (env.arch() == Arch::kX86) id = gp_x86[(gi++) % 6];
      else if (env.arch() == Arch::kX64) id = gp_x64[(gi++) % 14];
      else id = (gi++) % 16;
      RegType rt = env.arch() == Arch::kX86 ? RegType::kGp32 : RegType::kGp64;
      args.assign_reg(size_t(i), rt, id);
    }
  }
  if ((seed >> 39) & 1) {
    uint32_t id = env.arch() == Arch::kX86 ? gp_x86[(seed >> 36) % 6] : uint32_t((seed >> 36) & 7) ;
    args.set_sa_reg_id(id);
  }
  FuncFrame before = frame;
  e = args.update_func_frame(frame);
  char buf[160];
  bool same = true;
  // everything but dirty masks and the SA register must be untouched
  FuncFrame probe = frame;
  for (int i = 0; i < 4; i++) probe._dirty_regs[RegGroup(i)] = before._dirty_regs[RegGroup(i)];
  probe._sa_reg_id = before._sa_reg_id;
  same = memcmp(&probe, &before, sizeof(FuncFrame)) == 0;
  std::string sa = "-";
  // the SA register after the call (set_sa_reg_id with the current value is a no-op, so reporting the final value is exact)
  if (frame.sa_reg_id() != Reg::kIdBad) { snprintf(buf, sizeof(buf), "%u", frame.sa_reg_id()); sa = buf; }
  snprintf(buf, sizeof(buf), " uff %x %x %x %x %s %s %d",
           frame.dirty_regs(RegGroup(0)) & ~before.dirty_regs(RegGroup(0)), frame.dirty_regs(RegGroup(1)) & ~before.dirty_regs(RegGroup(1)),
           frame.dirty_regs(RegGroup(2)) & ~before.dirty_regs(RegGroup(2)), frame.dirty_regs(RegGroup(3)) & ~before.dirty_regs(RegGroup(3)),
           sa.c_str(), e == Error::kOk ? "Ok" : err_name(e).c_str(), same ? 1 : 0);
  // dirty bits are only ever added
  for (int i = 0; i < 4; i++) if (before.dirty_regs(RegGroup(i)) & ~frame.dirty_regs(RegGroup(i))) return std::string(buf) + " dirty-bits-removed";
  return buf;
}

// seq <arch> <cc> <win> <argStack> <u0..u3 hex> <pm: - | p0,p1,p2,p3 hex> <op,op,...>
static std::string step_seq(const std::vector<std::string>& w) {
  if (w.size() != 11) return "bad-op";
  uint64_t arch_i, cc_i, win, arg_stack, used[4];
  if (!vh::parse_u64(w[1], arch_i) || !vh::parse_u64(w[2], cc_i) || !vh::parse_u64(w[3], win) || !vh::parse_u64(w[4], arg_stack)) return "bad-op";
  for (int i = 0; i < 4; i++) if (!vh::parse_hex(w[5 + i], used[i])) return "bad-op";
  if (arch_i > 2) return "bad-op";
  Arch arch = arch_i == 0 ? Arch::kX86 : arch_i == 1 ? Arch::kX64 : Arch::kAArch64;
  Environment env(arch, SubArch::kUnknown, Vendor::kUnknown, win ? Platform::kWindows : Platform::kLinux);
  FuncDetail func;
  Error e = func._call_conv.init(CallConvId(uint8_t(cc_i)), env);
  if (e != Error::kOk) return "err " + err_name(e);
  if (w[9] != "-") {
    std::vector<std::string> pm = split(w[9], ',');
    if (pm.size() != 4) return "bad-op";
    for (int i = 0; i < 4; i++) {
      uint64_t m;
      if (!vh::parse_hex(pm[size_t(i)], m)) return "bad-op";
      func._call_conv.set_preserved_regs(RegGroup(i), RegMask(m));
    }
  }
  func._arg_stack_size = uint32_t(arg_stack);
  for (int i = 0; i < 4; i++) func._used_regs[size_t(i)] = RegMask(used[i]);
  FuncFrame frame;
  e = frame.init(func);
  if (e != Error::kOk) return "err " + err_name(e);
  std::string extra;
  if (w[10] != "-") {
    for (const std::string& op : split(w[10], ',')) {
      std::vector<std::string> a = split(op, ':');
      uint64_t v = 0, v2 = 0;
      const std::string& k = a[0];
      auto num = [&](size_t i, uint64_t& out) { return a.size() > i && vh::parse_u64(a[i], out); };
      auto hex = [&](size_t i, uint64_t& out) { return a.size() > i && vh::parse_hex(a[i], out); };
      if (k == "sls" && num(1, v)) frame.set_local_stack_size(uint32_t(v));
      else if (k == "sla" && num(1, v)) frame.set_local_stack_alignment(uint32_t(v));
      else if (k == "scs" && num(1, v)) frame.set_call_stack_size(uint32_t(v));
      else if (k == "sca" && num(1, v)) frame.set_call_stack_alignment(uint32_t(v));
      else if (k == "uls" && num(1, v)) frame.update_local_stack_size(uint32_t(v));
      else if (k == "ula" && num(1, v)) frame.update_local_stack_alignment(uint32_t(v));
      else if (k == "ucs" && num(1, v)) frame.update_call_stack_size(uint32_t(v));
      else if (k == "uca" && num(1, v)) frame.update_call_stack_alignment(uint32_t(v));
      else if (k == "aat" && hex(1, v)) frame.add_attributes(FuncAttributes(uint32_t(v)));
      else if (k == "cat" && hex(1, v)) frame.clear_attributes(FuncAttributes(uint32_t(v)));
      else if (k == "sd" && num(1, v) && hex(2, v2)) { if (v < 4) frame.set_dirty_regs(RegGroup(v), RegMask(v2)); }
      else if (k == "ad" && num(1, v) && hex(2, v2)) { if (v < 4) frame.add_dirty_regs(RegGroup(v), RegMask(v2)); }
      else if (k == "sad") frame.set_all_dirty();
      else if (k == "ssa" && num(1, v)) frame.set_sa_reg_id(uint32_t(v));
      else if (k == "rsa") frame.reset_sa_reg_id();
      else if (k == "rrz") frame.reset_red_zone();
      else if (k == "uff" && num(1, v) && hex(2, v2)) extra += real_uff(env, CallConvId(uint8_t(cc_i)), frame, v, v2);
      else return "bad-op";
    }
  }
  return finish(arch_i, env, frame, extra);
}

// ras <size:align:flags:use,...>  ->  ok <alignment> <stack_size> <id:weight:offset ...>   (slots in the order after the sort)
static std::string step_ras(const std::vector<std::string>& w) {
  if (w.size() != 2) return "bad-op";
  Arena arena(4096);
  RAStackAllocator alloc;
  alloc.reset(&arena);
  std::map<RAStackSlot*, size_t> ids;
  if (w[1] != "-") {
    for (const std::string& t : split(w[1], ',')) {
      std::vector<std::string> a = split(t, ':');
      uint64_t size, align, flags, use;
      if (a.size() != 4 || !vh::parse_u64(a[0], size) || !vh::parse_u64(a[1], align) || !vh::parse_u64(a[2], flags) || !vh::parse_u64(a[3], use))
        return "bad-op";
      RAStackSlot* slot = alloc.new_slot(0, uint32_t(size), uint32_t(align), uint32_t(flags));
      if (!slot) return "err OutOfMemory";
      slot->add_use_count(uint32_t(use));
      size_t id = ids.size();
      ids[slot] = id;
    }
  }
  Error e = alloc.calculate_stack_frame();
  if (e != Error::kOk) return "err " + err_name(e);
  char buf[96];
  snprintf(buf, sizeof(buf), "ok %u %u", alloc.alignment(), alloc.stack_size());
  std::string out = buf;
  for (RAStackSlot* slot : alloc.slots()) {
    snprintf(buf, sizeof(buf), " %zu:%u:%d", ids[slot], slot->weight(), slot->offset());
    out += buf;
  }
  return out;
}

// civ <env 0|1> <win 0|1> <callee ccid> <flags> <local size> <local align> <tid=op,...>
//   A real x86::Compiler function `void f(void)` (cdecl of that environment) with a live local buffer (new_stack) that INVOKES a callee
//   of convention <ccid> (after harness/c06.cpp `iv`): op = i<hex> immediate | r<tid> fresh GP register | v<tid> fresh vector register.
//   flags: bit1 avx, bit2 avx512, bit3 preserved frame pointer.
//   -> ok <css> <csa> <lso> <lss> <fss> <final align> <da> <invoke arg_stack_size> | <off:size ...>
//      the frame as the register allocator left it and every argument / temporary store of the invoke lowering (see the rule at the
//      collection loop); register spills and the function's own stores are not argument stores and are not listed
static std::string step_civ(const std::vector<std::string>& w) {
  uint64_t arch_i, win, ccid, flags, lsize, lalign;
  if (w.size() != 8 || !vh::parse_u64(w[1], arch_i) || !vh::parse_u64(w[2], win) || !vh::parse_u64(w[3], ccid) || !vh::parse_hex(w[4], flags) ||
      !vh::parse_u64(w[5], lsize) || !vh::parse_u64(w[6], lalign) || arch_i > 1 || ccid > 255) return "bad-op";
  bool is64 = arch_i == 1;
  Environment env(is64 ? Arch::kX64 : Arch::kX86, SubArch::kUnknown, Vendor::kUnknown, win ? Platform::kWindows : Platform::kLinux,
                  win ? PlatformABI::kMSVC : PlatformABI::kGNU);
  CodeHolder code;
  code.init(env);
  x86::Compiler cc(&code);
  FuncNode* fn = nullptr;
  FuncSignature fsig(CallConvId::kCDecl);
  fsig.set_ret(TypeId::kVoid);
  Error e = cc.add_func_node(Out<FuncNode*>(fn), fsig);
  if (e != Error::kOk) return "err " + err_name(e);
  if (flags & 2) fn->frame().set_avx_enabled();
  if (flags & 4) fn->frame().set_avx512_enabled();
  if (flags & 8) fn->frame().set_preserved_fp();
  x86::Mem loc;
  if (lsize) {
    loc = cc.new_stack(uint32_t(lsize), uint32_t(lalign ? lalign : 1));
    x86::Mem m = loc; m.set_size(1);
    cc.emit(x86::Inst::kIdMov, m, Imm(0x5A));
    cc.cursor()->set_user_data_as_uint64(7);
  }
  cc.emit(x86::Inst::kIdNop);
  FuncSignature sig{CallConvId(ccid)};
  sig.set_ret(TypeId::kVoid);
  std::vector<Operand> ops;
  std::vector<std::string> args = w[7] == "-" ? std::vector<std::string>() : split(w[7], ',');
  for (size_t i = 0; i < args.size(); i++) {
    const std::string& a = args[i];
    size_t eq = a.find('=');
    uint64_t tid;
    if (eq == std::string::npos || eq + 2 > a.size() || !vh::parse_u64(a.substr(0, eq), tid) || tid > 255) return "bad-op";
    sig.add_arg(TypeId(tid));
    char k = a[eq + 1];
    std::string rest = a.substr(eq + 2);
    if (k == 'i') {
      uint64_t v;
      if (!vh::parse_hex(rest, v)) return "bad-op";
      ops.push_back(Imm(int64_t(v)));
    }
    else if (k == 'r' || k == 'v') {
      uint64_t st;
      if (!vh::parse_u64(rest, st) || st > 255) return "bad-op";
      Reg r;
      e = cc._new_reg(Out<Reg>(r), TypeId(st), nullptr);
      if (e != Error::kOk) return "err " + err_name(e);
      if (k == 'r') {
        if (!r.is_gp()) return "bad-op";
        e = cc.emit(x86::Inst::kIdMov, r, Imm(int64_t(0x11 * (i + 1))));
      }
      else {
        if (!r.is_vec()) return "bad-op";
        e = r.size() > 16 ? cc.emit(x86::Inst::kIdVpxor, r, r, r) : cc.emit(x86::Inst::kIdPxor, r, r);
      }
      if (e != Error::kOk) return "err " + err_name(e);
      ops.push_back(r);
    }
    else return "bad-op";
  }
  InvokeNode* inv = nullptr;
  e = cc.add_invoke_node(Out<InvokeNode*>(inv), x86::Inst::kIdCall, Imm(uint64_t(0x10000)), sig);
  if (e != Error::kOk) return "err " + err_name(e);
  for (size_t i = 0; i < ops.size(); i++) {
    if (ops[i].is_imm()) inv->set_arg(uint32_t(i), ops[i].as<Imm>()); else inv->set_arg(uint32_t(i), ops[i].as<Reg>());
  }
  cc.emit(x86::Inst::kIdNop);
  if (lsize) { x86::Gp t = cc.new_gp32(); x86::Mem m = loc; m.set_size(1); cc.emit(x86::Inst::kIdMovzx, t, m); }
  cc.end_func();
  e = cc.finalize();
  if (e != Error::kOk) return "err " + err_name(e);
  const FuncFrame& fr = fn->frame();
  char buf[160];
  snprintf(buf, sizeof(buf), "ok %u %u %u %u %u %u %d %u |", fr.call_stack_size(), fr.call_stack_alignment(), fr.local_stack_offset(),
           fr.local_stack_size(), fr.final_stack_size(), fr.final_stack_alignment(), fr.has_dynamic_alignment() ? 1 : 0,
           inv->detail().arg_stack_size());
  std::string out = buf;
  int markers = 0;
  std::map<uint32_t, int64_t> sp_ptr;    // GP register -> sp-relative address it holds (`lea reg, [sp + off]`: by-reference temporaries)
  for (BaseNode* node = cc.first_node(); node && markers < 2; node = node->next()) {
    if (!node->is_inst() && node->type() != NodeType::kInvoke) continue;
    InstNode* in = node->as<InstNode>();
    if (in->inst_id() == x86::Inst::kIdNop) { markers++; continue; }
    if (!markers || node->type() == NodeType::kInvoke || in->inst_id() == x86::Inst::kIdCall || in->op_count() == 0) continue;
    if (in->op(0).is_reg() && in->op(0).as<Reg>().is_gp()) {
      uint32_t rid = in->op(0).as<Reg>().id();
      sp_ptr.erase(rid);
      if (in->inst_id() == x86::Inst::kIdLea && in->op_count() == 2 && in->op(1).is_mem()) {
        const BaseMem& lm = in->op(1).as<BaseMem>();
        if (lm.has_base_reg() && !lm.has_index() && lm.base_id() == x86::Gp::kIdSp) sp_ptr[rid] = lm.offset_lo32();
      }
      continue;
    }
    if (!in->op(0).is_mem()) continue;
    const BaseMem& m = in->op(0).as<BaseMem>();
    if (!m.has_base_reg() || m.has_index()) { out += " ?"; continue; }
    int64_t off;
    uint32_t size = in->op(0).signature().size();
    if (!size && in->op_count() > 1 && in->op(1).is_reg()) size = in->op(1).as<Reg>().size();
    // Only the stores of the invoke lowering are judged - by what they are, not by where they happen to land: a by-reference temporary
    // is written through a pointer the lowering took from sp (`lea`), a stack argument is written to [sp + off] with off inside the
    // invoke's own argument area (arg_stack_size incl. temporaries). Anything else through sp between the markers is a register spill
    // or a store of the function itself; those live in the local area by design.
    if (sp_ptr.count(m.base_id())) off = sp_ptr[m.base_id()] + m.offset_lo32();
    else if (m.base_id() == x86::Gp::kIdSp && m.offset_lo32() >= 0 && uint32_t(m.offset_lo32()) < inv->detail().arg_stack_size()) off = m.offset_lo32();
    else continue;
    snprintf(buf, sizeof(buf), " %lld:%u", (long long)off, size);
    out += buf;
  }
  return out;
}

static std::string step(const std::string& line) {
  std::vector<std::string> w = vh::words(line);
  if (!w.empty() && w[0] == "seq") return step_seq(w);
  if (!w.empty() && w[0] == "civ") return step_civ(w);
  if (!w.empty() && w[0] == "ras") return step_ras(w);
  if (w.size() != 17 || w[0] != "frame") return "bad-op";
  uint64_t arch_i, cc_i, win, arg_stack, attrs, used[4], upd, lsz, lal, csz, cal, sareg;
  if (!vh::parse_u64(w[1], arch_i) || !vh::parse_u64(w[2], cc_i) || !vh::parse_u64(w[3], win) || !vh::parse_u64(w[4], arg_stack) ||
      !vh::parse_hex(w[5], attrs)) return "bad-op";
  for (int i = 0; i < 4; i++) if (!vh::parse_hex(w[6 + i], used[i])) return "bad-op";
  if (!vh::parse_u64(w[11], upd) || !vh::parse_u64(w[12], lsz) || !vh::parse_u64(w[13], lal) || !vh::parse_u64(w[14], csz) ||
      !vh::parse_u64(w[15], cal) || !vh::parse_u64(w[16], sareg)) return "bad-op";
  if (arch_i > 2) return "bad-op";
  bool has_ovr = w[10] != "-";
  uint64_t ovr[12] = {0};
  if (has_ovr) {
    std::vector<std::string> parts = split(w[10], ',');
    if (parts.size() != 12) return "bad-op";
    for (int i = 0; i < 4; i++) if (!vh::parse_hex(parts[size_t(i)], ovr[i])) return "bad-op";
    for (int i = 4; i < 12; i++) if (!vh::parse_u64(parts[size_t(i)], ovr[i])) return "bad-op";
  }

  Arch arch = arch_i == 0 ? Arch::kX86 : arch_i == 1 ? Arch::kX64 : Arch::kAArch64;
  Environment env(arch, SubArch::kUnknown, Vendor::kUnknown, win ? Platform::kWindows : Platform::kLinux);

  FuncDetail func;
  Error e = func._call_conv.init(CallConvId(uint8_t(cc_i)), env);
  if (e != Error::kOk) return "err " + err_name(e);
  func._arg_stack_size = uint32_t(arg_stack);
  for (int i = 0; i < 4; i++) func._used_regs[size_t(i)] = RegMask(used[i]);

  FuncFrame frame;
  e = frame.init(func);
  if (e != Error::kOk) return "err " + err_name(e);
  frame.add_attributes(FuncAttributes(uint32_t(attrs)));
  if (has_ovr) {
    for (int i = 0; i < 4; i++) {
      frame._preserved_regs[RegGroup(i)] = RegMask(ovr[i]);
      frame._save_restore_reg_size[RegGroup(i)] = uint8_t(ovr[4 + i]);
      frame._save_restore_alignment[RegGroup(i)] = uint8_t(ovr[8 + i]);
    }
  }
  if (!upd) {
    frame.set_local_stack_size(uint32_t(lsz));
    frame.set_local_stack_alignment(uint32_t(lal));
    frame.set_call_stack_size(uint32_t(csz));
    frame.set_call_stack_alignment(uint32_t(cal));
  }
  else {
    frame.update_local_stack_size(uint32_t(lsz));
    frame.update_local_stack_size(uint32_t(lsz / 2));
    frame.update_local_stack_alignment(uint32_t(lal));
    frame.update_local_stack_alignment(uint32_t(lal / 2));
    frame.update_call_stack_size(uint32_t(csz));
    frame.update_call_stack_size(uint32_t(csz / 2));
    frame.update_call_stack_alignment(uint32_t(cal));
    frame.update_call_stack_alignment(uint32_t(cal / 2));
  }
  if (sareg != 255) frame.set_sa_reg_id(uint32_t(sareg));
  return finish(arch_i, env, frame, "");
}

int main() { return vh::line_loop(step); }
