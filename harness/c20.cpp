// C20 harness: the real Formatter / Logger / String code behind the line protocol of lean/Driver/C20.lean.
//
//   init <x86|x64|a64> <asm|comp>        new CodeHolder + emitter (Assembler with a StringLogger, or Compiler)
//   flags <hex>                          FormatFlags used by reg/op/inst and by the logger
//   logopts <indent> <pad0> <pad1>       FormatOptions of the logger (code indentation, regular / machine-code padding)
//   lab a | lab n <type> <name> <parent|->   new label                  -> ok <id> | err <name>
//   bind <id>                            bind label (assembler)            -> ok | err
//   vreg <regtype> <name|->              new virtual register (compiler)   -> ok <index> <regtype>
//   reg <regtype> <id>                   Formatter::format_register        -> =<text>
//   op <operand>                         Formatter::format_operand         -> =<text>
//   inst <id> <opts> <extra|-> <ops..>   Formatter::format_instruction     -> =<text>
//   emit <id> <opts> <extra|-> <comment|-> <ops..>   Assembler::_emit_op_array with logging
//                                        -> E <error> | T <logger text, \n as \n-escape> B <hex of the bytes appended>
//   fin <texthex|-> <binhex|-|none> <rel> <imm> <commenthex|-> <pad0> <pad1>   EmitterUtils::finish_formatted_line
//   num u|i <hex> <base> <width> <flags> String::append_uint / append_int
//   hexs <byteshex> <sep>                String::append_hex
//   node inst <id> <opts> <extra|-> <comment|-> <ops..> | node label <id> | node align <mode> <n> | node embed <size> <count> <repeat>
//   node comment <hex>      (init .. bld) create the Builder node, answer Formatter::format_node of it;  nodelist -> format_node_list
//   dump x86regs                         the file-static reg_format_info of x86formatter.cpp (translator input)
//   dump x86names | a64names             InstAPI::inst_id_to_string of every id, plain and with aliases (translator input)
//
// operands:  -  |  r.<type>.<id|vN>[.<etype>.<eidx|->]  |  i.<dec>[.<pred>]  |  l.<id>  |  rl.<type>.<maskhex>
//            m.<size>.<seg>.<addrtype>.<base>.<index>.<shift>.<off>.<bcast>.<home>      (x86; base = - | <type>/<id|vN> | L<id>)
//            am.<base>.<index>.<shiftop>.<shift>.<off>.<mode>.<home>                    (a64)
#include <asmjit/core.h>
#include <asmjit/x86.h>
#include <asmjit/a64.h>
#include <asmjit/core/emitterutils_p.h>
#include <asmjit/core/formatter_p.h>
// file-static table reg_format_info: reached by including the translation unit
#include <asmjit/x86/x86formatter.cpp>
#include "vh.h"
#include <memory>

using namespace asmjit;

struct State {
  Arch arch = Arch::kX64;
  bool comp = false;
  bool bld = false;       // plain Builder (node formatting)
  unsigned pad0 = 0;
  unsigned pos = 0;        // position given to the next node (`pos <n>`)
  FormatFlags flags = FormatFlags::kNone;
  std::unique_ptr<CodeHolder> code;
  std::unique_ptr<BaseEmitter> emitter;
  std::unique_ptr<StringLogger> logger;
  std::vector<std::string> comments;   // keeps inline comments alive
};
static State S;

static std::vector<std::string> split(const std::string& s, char c) {
  std::vector<std::string> out;
  size_t i = 0;
  for (;;) {
    size_t j = s.find(c, i);
    if (j == std::string::npos) { out.push_back(s.substr(i)); break; }
    out.push_back(s.substr(i, j - i));
    i = j + 1;
  }
  return out;
}

static bool parse_id(const std::string& s, uint32_t& id) {
  uint64_t v;
  if (!s.empty() && s[0] == 'v') {
    if (!vh::parse_u64(s.substr(1), v)) return false;
    id = Operand::virt_index_to_virt_id(uint32_t(v));
    return true;
  }
  if (!vh::parse_u64(s, v)) return false;
  id = uint32_t(v);
  return true;
}

static bool parse_typed_reg(const std::string& s, uint32_t& type, uint32_t& id) {   // <type>/<id>
  std::vector<std::string> p = split(s, '/');
  uint64_t t;
  if (p.size() != 2 || !vh::parse_u64(p[0], t) || t > 31 || !parse_id(p[1], id)) return false;
  type = uint32_t(t);
  return true;
}

static bool parse_operand(const std::string& s, Operand_& out) {
  out.reset();
  if (s == "-") return true;
  std::vector<std::string> p = split(s, '.');
  uint64_t a, b;
  int64_t sv;
  if (p[0] == "r") {
    uint32_t id;
    if (p.size() != 3 && p.size() != 5) return false;
    if (!vh::parse_u64(p[1], a) || a > 31 || !parse_id(p[2], id)) return false;
    Reg r = Reg::from_type_and_id(RegType(a), id);
    if (p.size() == 5) {
      if (!vh::parse_u64(p[3], b) || b > 7) return false;
      r._signature.set_field<a64::Vec::kSignatureRegElementTypeMask>(uint32_t(b));
      if (p[4] != "-") {
        if (!vh::parse_u64(p[4], b) || b > 15) return false;
        r._signature.set_field<a64::Vec::kSignatureRegElementFlagMask>(1);
        r._signature.set_field<a64::Vec::kSignatureRegElementIndexMask>(uint32_t(b));
      }
    }
    out.copy_from(r);
    return true;
  }
  if (p[0] == "i") {
    if ((p.size() != 2 && p.size() != 3) || !vh::parse_i64(p[1], sv)) return false;
    Imm i(sv);
    if (p.size() == 3) {
      if (!vh::parse_u64(p[2], a) || a > 15) return false;
      i.set_predicate(uint32_t(a));
    }
    out.copy_from(i);
    return true;
  }
  if (p[0] == "l") {
    if (p.size() != 2 || !vh::parse_u64(p[1], a)) return false;
    out.copy_from(Label(uint32_t(a)));
    return true;
  }
  if (p[0] == "rl") {
    if (p.size() != 3 || !vh::parse_u64(p[1], a) || a > 31 || !vh::parse_hex(p[2], b)) return false;
    out.copy_from(BaseRegList(OperandSignature::from_op_type(OperandType::kRegList) | OperandSignature::from_reg_type(RegType(a)), uint32_t(b)));
    return true;
  }
  if (p[0] == "m" || p[0] == "am") {
    bool x = p[0] == "m";
    if (p.size() != (x ? 10u : 8u)) return false;
    size_t k = x ? 4 : 1;
    BaseMem m;
    uint32_t t, id;
    const std::string& base = p[k];
    const std::string& index = p[k + 1];
    if (base != "-") {
      if (base[0] == 'L') {
        if (!vh::parse_u64(base.substr(1), a)) return false;
        m._set_base(RegType::kLabelTag, uint32_t(a));
      }
      else {
        if (!parse_typed_reg(base, t, id) || t < 2) return false;
        m._set_base(RegType(t), id);
      }
    }
    if (index != "-") {
      if (!parse_typed_reg(index, t, id) || t < 1) return false;
      m._set_index(RegType(t), id);
    }
    if (x) {
      uint64_t size, seg, at, shift, bc, home;
      if (!vh::parse_u64(p[1], size) || size > 255 || !vh::parse_u64(p[2], seg) || seg > 7 || !vh::parse_u64(p[3], at) || at > 3) return false;
      if (!vh::parse_u64(p[6], shift) || shift > 3 || !vh::parse_i64(p[7], sv) || !vh::parse_u64(p[8], bc) || bc > 7 || !vh::parse_u64(p[9], home) || home > 1) return false;
      m.set_offset(sv);
      m._signature.set_size(uint32_t(size));
      m._signature.set_field<x86::Mem::kSignatureMemSegmentMask>(uint32_t(seg));
      m._signature.set_field<x86::Mem::kSignatureMemAddrTypeMask>(uint32_t(at));
      m._signature.set_field<x86::Mem::kSignatureMemShiftValueMask>(uint32_t(shift));
      m._signature.set_field<x86::Mem::kSignatureMemBroadcastMask>(uint32_t(bc));
      if (home) m.set_reg_home();
    }
    else {
      uint64_t sop, shift, mode, home;
      if (!vh::parse_u64(p[3], sop) || sop > 15 || !vh::parse_u64(p[4], shift) || shift > 31 || !vh::parse_i64(p[5], sv) ||
          !vh::parse_u64(p[6], mode) || mode > 3 || !vh::parse_u64(p[7], home) || home > 1) return false;
      m.set_offset(sv);
      m._signature.set_field<a64::Mem::kSignatureMemShiftOpMask>(uint32_t(sop));
      m._signature.set_field<a64::Mem::kSignatureMemShiftValueMask>(uint32_t(shift));
      m._signature.set_field<a64::Mem::kSignatureMemOffsetModeMask>(uint32_t(mode));
      if (home) m.set_reg_home();
    }
    out.copy_from(m);
    return true;
  }
  return false;
}

static std::string escape(const char* data, size_t n) {
  std::string r;
  for (size_t i = 0; i < n; i++) {
    char c = data[i];
    if (c == '\n') r += "\\n";
    else if (c == '\\') r += "\\\\";
    else if (c == '\0') r += "\\0";
    else r.push_back(c);
  }
  return r;
}
static std::string text_out(const String& sb) { return "=" + escape(sb.data(), sb.size()); }

static bool parse_inst_args(const std::vector<std::string>& w, size_t at, uint32_t& inst_id, uint32_t& opts, RegOnly& extra, size_t& ops_at, bool with_comment, std::string& comment, bool& has_comment) {
  uint64_t a, b;
  if (w.size() < at + 3 + (with_comment ? 1 : 0)) return false;
  if (!vh::parse_u64(w[at], a) || !vh::parse_hex(w[at + 1], b)) return false;
  inst_id = uint32_t(a);
  opts = uint32_t(b);
  extra.reset();
  if (w[at + 2] != "-") {
    Operand_ o;
    if (!parse_operand(w[at + 2], o) || !o.is_reg()) return false;
    extra.init(o.as<Reg>());
  }
  ops_at = at + 3;
  has_comment = false;
  if (with_comment) {
    if (w[at + 3] != "-") {
      std::vector<uint8_t> cb;
      if (!vh::hex_to_bytes(w[at + 3], cb)) return false;
      comment.assign(cb.begin(), cb.end());
      has_comment = true;
    }
    ops_at++;
  }
  return w.size() - ops_at <= Globals::kMaxOpCount;
}

static std::string dump_x86regs() {
  const x86::RegFormatInfo& info = x86::reg_format_info;
  std::string r = "x86regs";
  r += " type_entries";
  for (size_t i = 0; i < 32; i++) r += " " + std::to_string(info.type_entries[i].index);
  r += " type_strings " + vh::bytes_to_hex(reinterpret_cast<const uint8_t*>(info.type_strings), sizeof(info.type_strings));
  r += " name_entries";
  for (size_t i = 0; i < 32; i++) {
    r += " " + std::to_string(info.name_entries[i].count) + "," + std::to_string(info.name_entries[i].format_index) + "," +
         std::to_string(info.name_entries[i].special_index) + "," + std::to_string(info.name_entries[i].special_count);
  }
  r += " name_strings " + vh::bytes_to_hex(reinterpret_cast<const uint8_t*>(info.name_strings), sizeof(info.name_strings));
  return r;
}

static std::string step(const std::string& line) {
  std::vector<std::string> w = vh::words(line);
  uint64_t a, b, c;
  if (w.empty()) return "bad-op";

  if (w[0] == "init") {
    if (w.size() != 3) return "bad-op";
    Arch arch = w[1] == "x86" ? Arch::kX86 : w[1] == "x64" ? Arch::kX64 : w[1] == "a64" ? Arch::kAArch64 : Arch::kUnknown;
    if (arch == Arch::kUnknown || (w[2] != "asm" && w[2] != "comp" && w[2] != "bld")) return "bad-op";
    S.emitter.reset();
    S.code.reset(new CodeHolder());
    S.logger.reset(new StringLogger());
    S.comments.clear();
    S.arch = arch;
    S.comp = w[2] == "comp";
    S.bld = w[2] == "bld";
    S.pad0 = 0;
    S.pos = 0;
    S.flags = FormatFlags::kNone;
    Environment env(arch);
    if (S.code->init(env) != Error::kOk) return "err init";
    if (S.bld) {
      if (arch == Arch::kAArch64) S.emitter.reset(new a64::Builder());
      else S.emitter.reset(new x86::Builder());
    }
    else if (S.comp) {
      if (arch == Arch::kAArch64) S.emitter.reset(new a64::Compiler());
      else S.emitter.reset(new x86::Compiler());
    }
    else {
      if (arch == Arch::kAArch64) S.emitter.reset(new a64::Assembler());
      else S.emitter.reset(new x86::Assembler());
    }
    if (S.code->attach(S.emitter.get()) != Error::kOk) return "err attach";
    if (!S.comp && !S.bld) {
      S.emitter->set_logger(S.logger.get());
      // only instruction forms the validator knows are emitted (the encoder's behaviour on nonsense is C14's subject)
      S.emitter->add_diagnostic_options(DiagnosticOptions::kValidateAssembler);
    }
    return "ok";
  }
  if (w[0] == "dump") {
    if (w.size() == 2 && w[1] == "x86regs") return dump_x86regs();
    if (w.size() == 2 && (w[1] == "x86names" || w[1] == "a64names")) {
      // one line per instruction id: "<id> <name> <alias-formatted name>" as InstAPI::inst_id_to_string gives them
      bool x = w[1] == "x86names";
      Arch arch = x ? Arch::kX64 : Arch::kAArch64;
      uint32_t count = x ? uint32_t(x86::Inst::_kIdCount) : uint32_t(a64::Inst::_kIdCount);
      std::string r = w[1] + " " + std::to_string(count);
      for (uint32_t id = 0; id < count; id++) {
        String a, b;
        InstAPI::inst_id_to_string(arch, id, InstStringifyOptions::kNone, a);
        InstAPI::inst_id_to_string(arch, id, InstStringifyOptions::kAliases, b);
        r += "\n" + std::to_string(id) + " " + (a.size() ? std::string(a.data(), a.size()) : std::string("-")) + " " + (b.size() ? std::string(b.data(), b.size()) : std::string("-"));
      }
      return r;
    }
    return "bad-op";
  }
  if (w[0] == "num") {
    if (w.size() != 6 || !vh::parse_hex(w[2], a) || !vh::parse_u64(w[3], b) || !vh::parse_u64(w[4], c)) return "bad-op";
    uint64_t fl;
    if (!vh::parse_u64(w[5], fl)) return "bad-op";
    String sb;
    Error e = w[1] == "u" ? sb.append_uint(a, uint32_t(b), size_t(c), StringFormatFlags(fl)) : sb.append_int(int64_t(a), uint32_t(b), size_t(c), StringFormatFlags(fl));
    if (e != Error::kOk) return std::string("err ") + DebugUtils::error_as_string(e);
    return text_out(sb);
  }
  if (w[0] == "hexs") {
    std::vector<uint8_t> bytes;
    if (w.size() != 3 || !vh::hex_to_bytes(w[1], bytes) || !vh::parse_u64(w[2], a) || a > 127) return "bad-op";
    String sb;
    sb.append_hex(bytes.data(), bytes.size(), char(a));
    return text_out(sb);
  }
  if (w[0] == "fin") {
    std::vector<uint8_t> text, bin, comment;
    uint64_t rel, imm, p0, p1;
    if (w.size() != 8 || !vh::hex_to_bytes(w[1], text) || !vh::parse_u64(w[3], rel) || !vh::parse_u64(w[4], imm) ||
        !vh::hex_to_bytes(w[5], comment) || !vh::parse_u64(w[6], p0) || !vh::parse_u64(w[7], p1) || p0 > 65535 || p1 > 65535) return "bad-op";
    size_t bin_size = SIZE_MAX;
    if (w[2] != "none") {
      if (!vh::hex_to_bytes(w[2], bin)) return "bad-op";
      bin_size = bin.size();
      if (rel + imm > bin_size) return "bad-op";    // ASMJIT_ASSERT(bin_size >= offset_size): caller's contract
    }
    String sb;
    sb.append(reinterpret_cast<const char*>(text.data()), text.size());
    FormatOptions fo;
    fo.set_padding(FormatPaddingGroup::kRegularLine, uint16_t(p0));
    fo.set_padding(FormatPaddingGroup::kMachineCode, uint16_t(p1));
    std::string cs(comment.begin(), comment.end());
    Error e = EmitterUtils::finish_formatted_line(sb, fo, bin.data(), bin_size, size_t(rel), size_t(imm), w[5] == "-" ? nullptr : cs.c_str());
    if (e != Error::kOk) return std::string("err ") + DebugUtils::error_as_string(e);
    return text_out(sb);
  }

  if (!S.emitter) return "err no-init";

  if (w[0] == "flags") {
    if (w.size() != 2 || !vh::parse_hex(w[1], a)) return "bad-op";
    S.flags = FormatFlags(uint32_t(a));
    S.logger->set_flags(S.flags);
    return "ok";
  }
  if (w[0] == "logopts") {
    if (w.size() != 4 || !vh::parse_u64(w[1], a) || !vh::parse_u64(w[2], b) || !vh::parse_u64(w[3], c) || a > 255 || b > 65535 || c > 65535) return "bad-op";
    S.pad0 = unsigned(b);
    S.logger->set_indentation(FormatIndentationGroup::kCode, uint8_t(a));
    S.logger->options().set_padding(FormatPaddingGroup::kRegularLine, uint16_t(b));
    S.logger->options().set_padding(FormatPaddingGroup::kMachineCode, uint16_t(c));
    return "ok";
  }
  if (w[0] == "lab") {
    uint32_t id = 0;
    Error e;
    if (w.size() == 2 && w[1] == "a") {
      e = S.code->new_label_id(Out(id));
    }
    else if (w.size() == 5 && w[1] == "n") {
      if (!vh::parse_u64(w[2], a) || a > 3) return "bad-op";
      uint32_t parent = Globals::kInvalidId;
      if (w[4] != "-") { if (!vh::parse_u64(w[4], b)) return "bad-op"; parent = uint32_t(b); }
      e = S.code->new_named_label_id(Out(id), w[3].c_str(), w[3].size(), LabelType(a), parent);
    }
    else return "bad-op";
    if (e != Error::kOk) return std::string("err ") + DebugUtils::error_as_string(e);
    return "ok " + std::to_string(id);
  }
  if (w[0] == "bind") {
    if (w.size() != 2 || !vh::parse_u64(w[1], a) || S.comp) return "bad-op";
    Error e = static_cast<BaseAssembler*>(S.emitter.get())->bind(Label(uint32_t(a)));
    S.logger->clear();
    if (e != Error::kOk) return std::string("err ") + DebugUtils::error_as_string(e);
    return "ok";
  }
  if (w[0] == "vreg") {
    if (w.size() != 3 || !vh::parse_u64(w[1], a) || a > 31 || !S.comp) return "bad-op";
    BaseCompiler* cc = static_cast<BaseCompiler*>(S.emitter.get());
    Reg r;
    Error e = cc->_new_reg_with_name(Out<Reg>(r), Reg::from_type_and_id(RegType(a), 0), w[2] == "-" ? nullptr : w[2].c_str());
    if (e != Error::kOk) return std::string("err ") + DebugUtils::error_as_string(e);
    VirtReg* vr = cc->virt_reg_by_id(r.id());
    return "ok " + std::to_string(Operand::virt_id_to_index(r.id())) + " " + std::to_string(uint32_t(vr->reg_type()));
  }
  if (w[0] == "reg") {
    uint32_t id;
    if (w.size() != 3 || !vh::parse_u64(w[1], a) || a > 31 || !parse_id(w[2], id)) return "bad-op";
    String sb;
    Error e = Formatter::format_register(sb, S.flags, S.emitter.get(), S.arch, RegType(a), id);
    if (e != Error::kOk) return std::string("err ") + DebugUtils::error_as_string(e);
    return text_out(sb);
  }
  if (w[0] == "op") {
    Operand_ o;
    if (w.size() != 2 || !parse_operand(w[1], o)) return "bad-op";
    String sb;
    Error e = Formatter::format_operand(sb, S.flags, S.emitter.get(), S.arch, o);
    if (e != Error::kOk) return std::string("err ") + DebugUtils::error_as_string(e);
    return text_out(sb);
  }
  if (w[0] == "pos") {
    if (w.size() != 2 || !vh::parse_u64(w[1], a) || a > 0xFFFFFFFFu) return "bad-op";
    S.pos = unsigned(a);
    return "ok";
  }
  if (w[0] == "node" || w[0] == "nodelist") {
    // Builder nodes: create the node with the real BaseBuilder API and format it with Formatter::format_node (or the whole list)
    if (!S.bld && !S.comp) return "bad-op";
    BaseBuilder* bb = static_cast<BaseBuilder*>(S.emitter.get());
    FormatOptions fo;
    fo.set_flags(S.flags);
    fo.set_padding(FormatPaddingGroup::kRegularLine, uint16_t(S.pad0));
    if (w[0] == "nodelist") {
      String sb;
      Error e = Formatter::format_node_list(sb, fo, bb);
      if (e != Error::kOk) return std::string("err ") + DebugUtils::error_as_string(e);
      return text_out(sb);
    }
    if (w.size() < 2) return "bad-op";
    Error e = Error::kOk;
    if (w[1] == "inst") {
      uint32_t inst_id, opts; RegOnly extra; size_t ops_at; std::string comment; bool has_comment;
      if (!parse_inst_args(w, 2, inst_id, opts, extra, ops_at, true, comment, has_comment)) return "bad-op";
      Operand_ ops[Globals::kMaxOpCount];
      size_t n = w.size() - ops_at;
      for (size_t i = 0; i < Globals::kMaxOpCount; i++) ops[i].reset();
      for (size_t i = 0; i < n; i++) if (!parse_operand(w[ops_at + i], ops[i])) return "bad-op";
      bb->set_inst_options(InstOptions(opts));
      bb->set_extra_reg(extra);
      if (has_comment) { S.comments.push_back(comment); bb->set_inline_comment(S.comments.back().c_str()); }
      e = bb->_emit_op_array(inst_id, ops, n);
    }
    else if (w[1] == "label" && w.size() == 3 && vh::parse_u64(w[2], a)) e = bb->bind(Label(uint32_t(a)));
    else if (w[1] == "align" && w.size() == 4 && vh::parse_u64(w[2], a) && vh::parse_u64(w[3], b) && a <= 2) e = bb->align(AlignMode(a), uint32_t(b));
    else if (w[1] == "embed" && w.size() == 5 && vh::parse_u64(w[2], a) && vh::parse_u64(w[3], b) && vh::parse_u64(w[4], c) && b <= 64 && c <= 64) {
      TypeId t = a == 1 ? TypeId::kUInt8 : a == 2 ? TypeId::kUInt16 : a == 4 ? TypeId::kUInt32 : a == 8 ? TypeId::kUInt64 : TypeId::kVoid;
      if (t == TypeId::kVoid) return "bad-op";
      std::vector<uint8_t> data(size_t(a * b) + 8, 0x5A);
      e = bb->embed_data_array(t, data.data(), size_t(b), size_t(c));
    }
    else if (w[1] == "comment" && w.size() == 3) {
      std::vector<uint8_t> cb;
      if (!vh::hex_to_bytes(w[2], cb)) return "bad-op";
      std::string cs(cb.begin(), cb.end());
      e = bb->comment(cs.c_str(), cs.size());
    }
    else if (w[1] == "elabel" && w.size() == 3 && vh::parse_u64(w[2], a)) e = bb->embed_label(Label(uint32_t(a)));
    else if (w[1] == "edelta" && w.size() == 4 && vh::parse_u64(w[2], a) && vh::parse_u64(w[3], b)) e = bb->embed_label_delta(Label(uint32_t(a)), Label(uint32_t(b)), 4);
    else return "bad-op";
    if (e != Error::kOk) { bb->reset_state(); S.pos = 0; return std::string("E ") + DebugUtils::error_as_string(e); }
    if (S.pos) { bb->cursor()->set_position(NodePosition(S.pos)); S.pos = 0; }
    String sb;
    e = Formatter::format_node(sb, fo, bb, bb->cursor());
    if (e != Error::kOk) return std::string("err ") + DebugUtils::error_as_string(e);
    return text_out(sb);
  }
  if (w[0] == "inst" || w[0] == "emit") {
    bool emit = w[0] == "emit";
    uint32_t inst_id, opts;
    RegOnly extra;
    size_t ops_at;
    std::string comment;
    bool has_comment;
    if (!parse_inst_args(w, 1, inst_id, opts, extra, ops_at, emit, comment, has_comment)) return "bad-op";
    Operand_ ops[Globals::kMaxOpCount];
    size_t n = w.size() - ops_at;
    for (size_t i = 0; i < Globals::kMaxOpCount; i++) ops[i].reset();
    for (size_t i = 0; i < n; i++) if (!parse_operand(w[ops_at + i], ops[i])) return "bad-op";
    if (!emit) {
      String sb;
      Error e = Formatter::format_instruction(sb, S.flags, S.emitter.get(), S.arch, BaseInst(inst_id, InstOptions(opts), extra), Span<const Operand_>(ops, n));
      if (e != Error::kOk) return std::string("err ") + DebugUtils::error_as_string(e);
      return text_out(sb);
    }
    if (S.comp) return "bad-op";
    BaseAssembler* as = static_cast<BaseAssembler*>(S.emitter.get());
    size_t before = as->offset();
    S.logger->clear();
    as->set_inst_options(InstOptions(opts));
    as->set_extra_reg(extra);
    if (has_comment) { S.comments.push_back(comment); as->set_inline_comment(S.comments.back().c_str()); }
    Error e = as->_emit_op_array(inst_id, ops, n);
    if (e != Error::kOk) {
      as->reset_state();
      S.logger->clear();
      return std::string("E ") + DebugUtils::error_as_string(e);
    }
    size_t after = as->offset();
    const uint8_t* data = as->buffer_data();
    std::string r = "T " + escape(S.logger->data(), S.logger->data_size()) + " B " + vh::bytes_to_hex(data + before, after - before);
    S.logger->clear();
    return r;
  }
  return "bad-op";
}

int main() { return vh::line_loop(step); }
