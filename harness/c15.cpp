// C15 harness: allocation-failure injection into the real AsmJit code.
//
// Fault classes:  arena = hook H1 (asmjit_verif_arena_fail, every Arena request), heap = malloc/realloc of the library
// (link-time --wrap, also covers the inline Support::operator_new), vm = mmap/shm_open/ftruncate/mprotect (--wrap).
// A request is counted (and may fail) only while the harness is "armed", i.e. inside library calls under test.
// Leaks are measured exactly: every heap block / mapping / file descriptor obtained through the wrappers while armed is
// tracked until it is released; whatever survives the destruction of all objects of a run is a leak (LeakSanitizer
// additionally watches the whole process).
//
// PART 1 - workloads (fault-tested; judged by the Lean monitor Spec/Fault.lean `runGood` through Driver/C15 `mon`)
//   count <w>                               -> n <w> arena=<N> heap=<N> vm=<N> out=<digest> exec=<digest|->
//   fault <w> <cls> <k> [<k2> ...]          -> run <w> <cls> <k..> fired=<n> err=<Error|ok> eh=<n> out=<digest|-> exec=<..>
//                                              reuse=<digest|Error> rexec=<..> fresh=<digest> leak=<n> clean=<digest> cexec=<..>
//       the requests with the given ordinals (counted per class from the start of the workload) fail; the workload stops
//       at the first reported error; then (faults off) the same objects are reset/re-initialised and the workload is
//       repeated (`reuse`), everything is destroyed (`leak`), and fresh objects repeat it once more (`fresh`).
//   multi <w> <seed> <permille>             -> same record; every request of every class fails with the given probability
//       while the workload is repeated on the same objects (up to 6 attempts, faults stay on), then faults are turned
//       off and the final repetition is `reuse`.
//
// PART 2 - operations with a per-operation fault mask (model correspondence, lean/Driver/C15.lean `model`)
//   see `ops_step` below.
#include <asmjit/x86.h>
#include <asmjit/a64.h>
#include <asmjit/support/arenabitset_p.h>
#include <asmjit/support/arenapool.h>
#include <asmjit/support/arenahash.h>
#include "vh.h"
#include <sys/mman.h>
#include <unistd.h>
#include <errno.h>
#include <stdarg.h>
#include <execinfo.h>
#include <sanitizer/common_interface_defs.h>
#include <sys/syscall.h>
#include <memory>
#include <set>
#include <map>
#include <unordered_set>
#include <unordered_map>

using namespace asmjit;

// ---------------------------------------------------------------------------------------------------------------------
// fault machinery
// ---------------------------------------------------------------------------------------------------------------------
enum { kArena = 0, kHeap = 1, kVm = 2 };
static bool g_armed = false;
static uint64_t g_cnt[3], g_fired[3];
static std::set<uint64_t> g_fail[3];
static bool g_random = false;
static uint64_t g_rng = 0;
static uint32_t g_permille = 0;
static bool g_track = false;
static std::unordered_set<void*>* g_live_heap;
static std::unordered_map<void*, size_t>* g_live_map;
static std::unordered_set<int>* g_live_fd;

static uint64_t rng_next() { g_rng ^= g_rng << 13; g_rng ^= g_rng >> 7; g_rng ^= g_rng << 17; return g_rng; }

// `where <w> <needle>`: the ordinals of the arena requests whose call stack contains a function whose name contains <needle>
static const char* g_needle = nullptr;
static std::vector<uint64_t>* g_hits;
static void note_stack(uint64_t idx) {
  void* pcs[40];
  int n = backtrace(pcs, 40);
  char buf[512];
  for (int i = 2; i < n; i++) {
    buf[0] = 0;
    __sanitizer_symbolize_pc(pcs[i], "%f", buf, sizeof(buf));
    if (strstr(buf, g_needle)) { g_hits->push_back(idx); return; }
  }
}

static bool must_fail(int cls) {
  if (!g_armed) return false;
  uint64_t idx = g_cnt[cls]++;
  if (g_needle && cls == kArena) note_stack(idx);
  bool f = g_random ? (rng_next() % 1000u) < g_permille : g_fail[cls].count(idx) != 0;
  if (f) { g_fired[cls]++; if (getenv("C15_TRACE")) fprintf(stderr, "fired cls=%d idx=%llu\n", cls, (unsigned long long)idx); }
  return f;
}


extern "C" {
void* __real_malloc(size_t);
void* __real_realloc(void*, size_t);
void __real_free(void*);
void* __real_mmap(void*, size_t, int, int, int, off_t);
int __real_munmap(void*, size_t);
int __real_mprotect(void*, size_t, int);
int __real_shm_open(const char*, int, mode_t);
int __real_ftruncate(int, off_t);
int __real_ftruncate64(int, off64_t);
int __real_close(int);

bool c15_ops_heap_fail(size_t n);
bool c15_ops_vm_fail();
void* __wrap_malloc(size_t n) {
  if (must_fail(kHeap) || c15_ops_heap_fail(n)) { errno = ENOMEM; return nullptr; }
  void* p = __real_malloc(n);
  if (g_track && p) { bool t = g_track; g_track = false; g_live_heap->insert(p); g_track = t; }
  return p;
}
void* __wrap_realloc(void* old, size_t n) {
  if (must_fail(kHeap) || c15_ops_heap_fail(n)) { errno = ENOMEM; return nullptr; }
  void* p = __real_realloc(old, n);
  if (g_live_heap && p) { bool t = g_track; g_track = false; if (g_live_heap->erase(old) || t) g_live_heap->insert(p); g_track = t; }
  return p;
}
void __wrap_free(void* p) {
  if (g_live_heap && p) { bool t = g_track; g_track = false; g_live_heap->erase(p); g_track = t; }
  __real_free(p);
}
void* __wrap_mmap(void* a, size_t n, int prot, int flags, int fd, off_t off) {
  if (must_fail(kVm) || c15_ops_vm_fail()) { errno = ENOMEM; return MAP_FAILED; }
  void* p = __real_mmap(a, n, prot, flags, fd, off);
  if (g_track && p != MAP_FAILED) (*g_live_map)[p] = n;
  return p;
}
int __wrap_munmap(void* p, size_t n) {
  if (g_live_map) {
    auto it = g_live_map->find(p);
    if (it != g_live_map->end()) { if (it->second <= n) g_live_map->erase(it); else { size_t rest = it->second - n; g_live_map->erase(it); (*g_live_map)[(char*)p + n] = rest; } }
  }
  return __real_munmap(p, n);
}
int __wrap_mprotect(void* p, size_t n, int prot) {
  if (must_fail(kVm)) { errno = ENOMEM; return -1; }
  return __real_mprotect(p, n, prot);
}
int __wrap_shm_open(const char* name, int fl, mode_t m) {
  if (must_fail(kVm) || c15_ops_vm_fail()) { errno = ENFILE; return -1; }
  int fd = __real_shm_open(name, fl, m);
  if (g_track && fd >= 0) g_live_fd->insert(fd);
  return fd;
}
int __wrap_ftruncate(int fd, off_t n) {
  if (must_fail(kVm) || c15_ops_vm_fail()) { errno = ENOSPC; return -1; }
  return __real_ftruncate(fd, n);
}
int __wrap_ftruncate64(int fd, off64_t n) {
  if (must_fail(kVm) || c15_ops_vm_fail()) { errno = ENOSPC; return -1; }
  return __real_ftruncate64(fd, n);
}
// `memfd_create` is called through syscall(): a variadic wrapper that forwards six register arguments (x86-64 / AArch64
// SysV: reading unused variadic slots is harmless); only __NR_memfd_create is counted and may fail (ENFILE, never ENOSYS:
// ENOSYS would switch the library to shm_open for the rest of the process).
long __real_syscall(long n, ...);
long __wrap_syscall(long n, ...) {
  va_list ap;
  va_start(ap, n);
  long a[6];
  for (int i = 0; i < 6; i++) a[i] = va_arg(ap, long);
  va_end(ap);
#ifdef __NR_memfd_create
  if (n == __NR_memfd_create) {
    if (must_fail(kVm) || c15_ops_vm_fail()) { errno = ENFILE; return -1; }
    long fd = __real_syscall(n, a[0], a[1], a[2], a[3], a[4], a[5]);
    if (g_track && fd >= 0) g_live_fd->insert(int(fd));
    return fd;
  }
#endif
  return __real_syscall(n, a[0], a[1], a[2], a[3], a[4], a[5]);
}
int __wrap_close(int fd) {
  if (g_live_fd) g_live_fd->erase(fd);
  return __real_close(fd);
}
}

static void fault_reset() {
  for (int i = 0; i < 3; i++) { g_cnt[i] = 0; g_fired[i] = 0; g_fail[i].clear(); }
  g_random = false;
}
static size_t live_total() { return g_live_heap->size() + g_live_map->size() + g_live_fd->size(); }

struct Armed {
  bool prev;
  explicit Armed(bool on) : prev(g_armed) { g_armed = on; }
  ~Armed() { g_armed = prev; }
};

// ---------------------------------------------------------------------------------------------------------------------
// error collection
// ---------------------------------------------------------------------------------------------------------------------
struct EH : public ErrorHandler {
  Error first = Error::kOk;
  unsigned count = 0;
  void handle_error(Error err, const char*, BaseEmitter*) override { if (!count) first = err; count++; }
  void clear() { first = Error::kOk; count = 0; }
};

static std::string ename(Error e) { return e == Error::kOk ? std::string("ok") : std::string(DebugUtils::error_as_string(e)); }

// In the "retry" workloads a call that reported an error is repeated (the caller's reaction the property speaks of: repeat
// the work once memory is available); `g_retry_budget` bounds the repetitions of one call.
static bool g_retry = false;
#define CK(expr) do { Error _e = (expr); \
  for (int _t = 0; g_retry && _t < 8 && (_e != Error::kOk || eh.count); _t++) { eh.clear(); _e = (expr); } \
  if (_e != Error::kOk) return _e; if (eh.count) return eh.first; } while (0)
#define CKV(stmt) do { stmt; \
  for (int _t = 0; g_retry && _t < 8 && eh.count; _t++) { eh.clear(); stmt; } \
  if (eh.count) return eh.first; } while (0)
#define CK1(expr) do { Error _e = (expr); if (_e != Error::kOk) return _e; if (eh.count) return eh.first; } while (0)
#define CKH() do { if (eh.count) return eh.first; } while (0)

static std::string digest(const std::vector<uint8_t>& v) {
  vh::Fnv f;
  f.add(std::string((const char*)v.data(), v.size()));
  return vh::to_hex(f.h) + ":" + std::to_string(v.size());
}

// ---------------------------------------------------------------------------------------------------------------------
// workloads
// ---------------------------------------------------------------------------------------------------------------------
struct Out2 { std::vector<uint8_t> bytes; std::string exec = "-"; };

// flatten + resolve + relocate to a fixed base + copy; also appends the pre-relocation section buffers
static Error finish_fixed(CodeHolder& code, EH& eh, Out2& o) {
  CK(code.flatten());
  CK(code.resolve_cross_section_fixups());
  if (code.has_unresolved_fixups()) return Error::kInvalidState;   // every label of the workloads is bound
  for (Section* s : code.sections()) o.bytes.insert(o.bytes.end(), s->buffer().data(), s->buffer().data() + s->buffer().size());
  CK(code.relocate_to_base(0x10000000u));
  size_t n = code.code_size();
  size_t at = o.bytes.size();
  o.bytes.resize(at + n, 0xCC);
  CK(code.copy_flattened_data(o.bytes.data() + at, n, CopySectionFlags::kPadTargetBuffer));
  return Error::kOk;
}

template<typename E>
static Error prog_x86(E& a, CodeHolder& code, EH& eh, Arena& pool_arena, bool big) {
  Section* data = nullptr;
  Section* rod = nullptr;
  CK(code.new_section(Out(data), ".data", SIZE_MAX, SectionFlags::kNone, 16, 0));
  CK(code.new_section(Out(rod), ".rodata", SIZE_MAX, SectionFlags::kReadOnly, 8, 1));
  Label L0; CKV(L0 = a.new_label());
  Label L1; CKV(L1 = a.new_label());
  Label Lend; CKV(Lend = a.new_label());
  Label Ldata; CKV(Ldata = a.new_label());
  Label Ltab; CKV(Ltab = a.new_label());
  Label Lpool; CKV(Lpool = a.new_label());
  Label Lg; CKV(Lg = a.new_named_label("entry_point_with_a_rather_long_global_name", SIZE_MAX, LabelType::kGlobal));
  Label Ll; CKV(Ll = a.new_named_label("loc", SIZE_MAX, LabelType::kLocal, Lg.id()));
  Label La; CKV(La = a.new_named_label("anon", SIZE_MAX, LabelType::kAnonymous));
  std::vector<Label> many;
  for (int i = 0; i < (big ? 40 : 6); i++) {
    char nm[32]; snprintf(nm, sizeof(nm), "g%d", i);
    Label lm; CKV(lm = a.new_named_label(nm, SIZE_MAX, LabelType::kGlobal));
    many.push_back(lm);
  }
  CK(a.bind(Lg));
  CK(a.mov(x86::eax, 1));
  CK(a.lea(x86::rcx, x86::ptr(Ldata)));
  CK(a.mov(x86::edx, x86::dword_ptr(Ldata, 4)));
  CK(a.jmp(L1));
  CK(a.bind(L0));
  CK(a.bind(Ll));
  for (int i = 0; i < (big ? 60 : 8); i++) CK(a.add(x86::eax, i * 3 + 1));
  CK(a.cmp(x86::eax, 1000));
  CK(a.jl(L0));
  CK(a.bind(L1));
  CK(a.jz(Lend));
  CK(a.call(imm(0x123456789ABCull)));
  CK(a.jmp(imm(0x7FFF12345678ull)));
  CK(a.call(imm(0x123456789ABCull)));
  for (size_t i = 0; i < many.size(); i++) { CK(a.bind(many[i])); CK(a.jnz(many[(i * 7 + 3) % many.size()])); }
  CK(a.bind(La));
  CK(a.mov(x86::rax, x86::qword_ptr(Lpool)));
  CK(a.bind(Lend));
  CK(a.ret());

  CK(a.section(data));
  CK(a.align(AlignMode::kData, 16));
  CK(a.bind(Ldata));
  CK(a.embed_uint32(0xDEADBEEFu, 3));
  CK(a.embed_label(L0));
  CK(a.embed_label_delta(L1, L0, 4));
  if (big) {
    std::vector<uint8_t> blob(5000);
    for (size_t i = 0; i < blob.size(); i++) blob[i] = uint8_t(i * 31 + 7);
    for (int r = 0; r < 4; r++) CK(a.embed(blob.data(), blob.size()));
  }
  CK(a.section(rod));
  CK(a.bind(Ltab));
  CK(a.embed_label_delta(Ldata, Ltab, 8));
  CK(a.embed_label_delta(Lend, Ltab, 4));
  {
    // the pool goes to its own section that is filled up to 8 bytes below its (first) capacity: the alignment padding still
    // fits, the pool data needs the buffer to grow - after the label has been bound
    Section* cps = nullptr;
    CK(code.new_section(Out(cps), ".cpool", SIZE_MAX, SectionFlags::kReadOnly, 32, 2));
    CK(a.section(cps));
    {
      std::vector<uint8_t> fill(16280);
      for (size_t i = 0; i < fill.size(); i++) fill[i] = uint8_t(i * 13 + 5);
      CK(a.embed(fill.data(), fill.size()));
    }
    ConstPool pool(pool_arena);
    size_t off;
    // pairwise distinct constants whose parts do not repeat: the layout does not depend on the (optional) shared nodes
    uint64_t c8[7] = {0x1122334455667788ull, 0x99AABBCCDDEEFF00ull, 0x0102030405060708ull, 0x1112131415161718ull,
                      0x2122232425262728ull, 0x3132333435363738ull, 0x4142434445464748ull};
    uint32_t c4 = 0x51525354u;
    uint16_t c2 = 0x6162;
    // descending sizes: no alignment gaps, so the layout does not depend on whether a Gap record could be allocated
    CK(pool.add(&c8[0], 32, Out(off)));
    CK(pool.add(&c8[4], 16, Out(off)));
    CK(pool.add(&c8[6], 8, Out(off)));
    CK(pool.add(&c4, 4, Out(off)));
    CK(pool.add(&c2, 2, Out(off)));
    CK(a.embed_const_pool(Lpool, pool));
  }
  return Error::kOk;
}

static Error prog_a64(a64::Assembler& a, CodeHolder& code, EH& eh) {
  Section* data = nullptr;
  CK(code.new_section(Out(data), ".data", SIZE_MAX, SectionFlags::kNone, 8, 0));
  Label L0; CKV(L0 = a.new_label());
  Label L1; CKV(L1 = a.new_label());
  Label Ld; CKV(Ld = a.new_label());
  Label Ln; CKV(Ln = a.new_named_label("a64_entry", SIZE_MAX, LabelType::kGlobal));
  CK(a.bind(Ln));
  CK(a.mov(a64::x0, 0x123456789ABCDEFull));
  CK(a.adr(a64::x1, L1));
  CK(a.cbz(a64::x0, L1));
  CK(a.bind(L0));
  for (int i = 0; i < 10; i++) CK(a.add(a64::x0, a64::x0, i + 1));
  CK(a.tbnz(a64::x0, 3, L0));
  CK(a.b_ne(L0));
  CK(a.bl(L1));
  CK(a.ldr(a64::x3, a64::ptr(L1)));
  CK(a.bind(L1));
  CK(a.ret(a64::x30));
  CK(a.section(data));
  CK(a.bind(Ld));
  CK(a.embed_uint64(0x0102030405060708ull, 2));
  CK(a.embed_label(L0));
  CK(a.embed_label_delta(L1, L0, 4));
  return Error::kOk;
}

extern "C" int c15_helper(int a, int b) { return a * 3 + b; }

static Error prog_compiler(x86::Compiler& cc, CodeHolder& code, EH& eh, int variant) {
  (void)code;
  FuncNode* f = cc.add_func(FuncSignature::build<int, int, int>()); CKH();
  if (!f) return Error::kOutOfMemory;
  x86::Gp a = cc.new_gp32("a"); CKH();
  x86::Gp b = cc.new_gp32("b"); CKH();
  f->set_arg(0, a);
  f->set_arg(1, b);
  const int N = variant == 0 ? 22 : 6;
  std::vector<x86::Gp> v;
  for (int i = 0; i < N; i++) {
    v.push_back(cc.new_gp32("v%d", i)); CKH();
    CK(cc.mov(v[i], a));
    CK(cc.imul(v[i], v[i], i + 2));
    CK(cc.add(v[i], b));
  }
  x86::Mem c0 = cc.new_int32_const(ConstPoolScope::kLocal, 77); CKH();
  x86::Mem c1 = cc.new_int32_const(ConstPoolScope::kGlobal, 1000); CKH();
  x86::Mem stk = cc.new_stack(64, 16); CKH();
  CK(cc.mov(stk.clone_adjusted(8), v[0]));
  // a call in the middle keeps every v[i] alive across it -> spills
  x86::Gp r = cc.new_gp32("r"); CKH();
  InvokeNode* inv = nullptr;
  CK(cc.invoke(Out(inv), imm((void*)c15_helper), FuncSignature::build<int, int, int>()));
  if (!inv) return Error::kOutOfMemory;
  inv->set_arg(0, v[0]);
  inv->set_arg(1, v[1]);
  inv->set_ret(0, r);
  // loop + branches
  Label Lloop = cc.new_label(); CKH();
  Label Lout = cc.new_label(); CKH();
  x86::Gp i = cc.new_gp32("i"); CKH();
  CK(cc.mov(i, 3));
  CK(cc.bind(Lloop));
  for (int k = 0; k < N; k++) CK(cc.add(r, v[k]));
  CK(cc.add(r, c0));
  CK(cc.dec(i));
  CK(cc.jnz(Lloop));
  CK(cc.add(r, stk.clone_adjusted(8)));
  CK(cc.cmp(r, c1));
  CK(cc.jg(Lout));
  CK(cc.add(r, 5));
  CK(cc.bind(Lout));
  if (variant == 0) {
    // jump table with annotation
    Label Ltab = cc.new_label(); CKH();
    Label Lc0 = cc.new_label(); CKH();
    Label Lc1 = cc.new_label(); CKH();
    Label Le = cc.new_label(); CKH();
    x86::Gp target = cc.new_gp_ptr("target"); CKH();
    x86::Gp off = cc.new_gp_ptr("off"); CKH();
    x86::Gp sel = cc.new_gp_ptr("sel"); CKH();
    CK(cc.mov(sel.r32(), a));
    CK(cc.and_(sel.r32(), 1));
    CK(cc.lea(off, x86::ptr(Ltab)));
    CK(cc.movsxd(target, x86::dword_ptr(off, sel, 2)));
    CK(cc.add(target, off));
    JumpAnnotation* ann = cc.new_jump_annotation(); CKH();
    if (!ann) return Error::kOutOfMemory;
    CK(ann->add_label(Lc0));
    CK(ann->add_label(Lc1));
    CK(cc.jmp(target, ann));
    CK(cc.bind(Lc0));
    CK(cc.add(r, 100));
    CK(cc.jmp(Le));
    CK(cc.bind(Lc1));
    CK(cc.sub(r, 100));
    CK(cc.bind(Le));
    CK(cc.ret(r));
    CK(cc.end_func());
    CK(cc.bind(Ltab));
    CK(cc.embed_label_delta(Lc0, Ltab, 4));
    CK(cc.embed_label_delta(Lc1, Ltab, 4));
  }
  else {
    CK(cc.ret(r));
    CK(cc.end_func());
  }
  return Error::kOk;
}

// (b) control flow: diamonds, a nested loop, an early return and a second function called through its label - many basic
// blocks, so that RALocalAllocator::init / block assignments / liveness run over a real CFG
static Error prog_compiler_cf(x86::Compiler& cc, CodeHolder& code, EH& eh) {
  (void)code;
  FuncNode* f = cc.add_func(FuncSignature::build<int, int, int>()); CKH();
  if (!f) return Error::kOutOfMemory;
  FuncNode* g = nullptr;
  CK(cc.new_func_node(Out(g), FuncSignature::build<int, int>()));
  if (!g) return Error::kOutOfMemory;
  x86::Gp a = cc.new_gp32("a"); CKH();
  x86::Gp b = cc.new_gp32("b"); CKH();
  f->set_arg(0, a);
  f->set_arg(1, b);
  x86::Gp acc = cc.new_gp32("acc"); CKH();
  x86::Gp i = cc.new_gp32("i"); CKH();
  x86::Gp j = cc.new_gp32("j"); CKH();
  x86::Gp t = cc.new_gp32("t"); CKH();
  std::vector<x86::Gp> keep;
  for (int k = 0; k < 14; k++) { keep.push_back(cc.new_gp32("k%d", k)); CKH(); CK(cc.lea(keep[k], x86::ptr(a, b, 0, k + 1))); }
  Label Lelse = cc.new_label(); CKH();
  Label Ljoin = cc.new_label(); CKH();
  Label Louter = cc.new_label(); CKH();
  Label Linner = cc.new_label(); CKH();
  Label Lskip = cc.new_label(); CKH();
  Label Lret0 = cc.new_label(); CKH();
  Label Lend = cc.new_label(); CKH();
  CK(cc.xor_(acc, acc));
  CK(cc.cmp(a, 1000));
  CK(cc.jge(Lret0));                         // early return
  CK(cc.test(a, 1));
  CK(cc.jz(Lelse));
  CK(cc.lea(acc, x86::ptr(a, b, 1)));        // then
  CK(cc.jmp(Ljoin));
  CK(cc.bind(Lelse));
  CK(cc.mov(acc, b));                        // else
  CK(cc.sub(acc, a));
  CK(cc.bind(Ljoin));
  CK(cc.mov(i, 3));
  CK(cc.bind(Louter));
  CK(cc.mov(j, 2));
  CK(cc.bind(Linner));
  CK(cc.mov(t, i));
  CK(cc.imul(t, j));
  CK(cc.test(t, 2));
  CK(cc.jnz(Lskip));
  CK(cc.add(acc, t));
  CK(cc.bind(Lskip));
  CK(cc.add(acc, keep[3]));
  CK(cc.dec(j));
  CK(cc.jnz(Linner));
  {
    InvokeNode* inv = nullptr;
    CK(cc.invoke(Out(inv), g->label(), FuncSignature::build<int, int>()));
    if (!inv) return Error::kOutOfMemory;
    inv->set_arg(0, acc);
    inv->set_ret(0, acc);
  }
  CK(cc.dec(i));
  CK(cc.jnz(Louter));
  for (size_t k = 0; k < keep.size(); k++) CK(cc.add(acc, keep[k]));
  CK(cc.jmp(Lend));
  CK(cc.bind(Lret0));
  CK(cc.mov(acc, -1));
  CK(cc.bind(Lend));
  CK(cc.ret(acc));
  CK(cc.end_func());
  // second function: int g(int x) { return x < 0 ? -x : x + 1; }
  CK(cc.add_func(g) ? Error::kOk : Error::kOutOfMemory); CKH();
  x86::Gp x = cc.new_gp32("x"); CKH();
  g->set_arg(0, x);
  Label Lneg = cc.new_label(); CKH();
  Label Lg = cc.new_label(); CKH();
  CK(cc.test(x, x));
  CK(cc.js(Lneg));
  CK(cc.inc(x));
  CK(cc.jmp(Lg));
  CK(cc.bind(Lneg));
  CK(cc.neg(x));
  CK(cc.bind(Lg));
  CK(cc.ret(x));
  CK(cc.end_func());
  return Error::kOk;
}

static std::string exec_fn(void* p) {
  typedef int (*Fn)(int, int);
  Fn fn = (Fn)p;
  std::string s;
  static const int in[][2] = {{0, 0}, {1, 2}, {3, -4}, {1000, 7}, {-5, 9}, {6, 6}};
  for (auto& x : in) s += std::to_string(fn(x[0], x[1])) + ",";
  vh::Fnv f; f.add(s);
  return vh::to_hex(f.h);
}

// One workload = objects that live across attempts + a body that can be repeated on them.
struct Workload {
  virtual ~Workload() {}
  // (re)initialise the objects for attempt number `attempt` (0 = first use) - may itself fail
  virtual Error prepare(int attempt) = 0;
  virtual Error body(Out2& o) = 0;
  virtual bool retries() const { return false; }   // the workload repeats every failed call (also the initialisation)
  EH eh;
};

struct HolderWL : Workload {
  Environment env;
  CodeHolder code;
  bool inited = false;
  Error prepare_code(BaseEmitter* em, int attempt) {
    eh.clear();
    if (attempt == 0 || !inited || !code.is_initialized()) {
      if (code.is_initialized()) code.reset(ResetPolicy::kSoft);
      CK(code.init(env));
      inited = true;
      code.set_error_handler(&eh);
      CK(code.attach(em));
    }
    else if (attempt % 3 == 1) {
      CK(code.reinit());
      if (em->code() != &code) CK(code.attach(em));
    }
    else {
      code.reset(attempt % 3 == 2 ? ResetPolicy::kSoft : ResetPolicy::kHard);
      CK(code.init(env));
      code.set_error_handler(&eh);
      CK(code.attach(em));
    }
    return Error::kOk;
  }
};

struct AsmX86 : HolderWL {
  bool big;
  bool retry = false;
  bool retries() const override { return retry; }
  x86::Assembler a;
  Arena pool_arena{4096};
  explicit AsmX86(bool big) : big(big) { env.init(Arch::kX64); }
  Error prepare(int attempt) override { pool_arena.reset(ResetPolicy::kSoft); return prepare_code(&a, attempt); }
  Error body(Out2& o) override {
    g_retry = retry;
    Error e = prog_x86(a, code, eh, pool_arena, big);
    if (e == Error::kOk && !eh.count) e = finish_fixed(code, eh, o);
    g_retry = false;
    return e != Error::kOk ? e : eh.first;
  }
};

struct AsmA64 : HolderWL {
  a64::Assembler a;
  AsmA64() { env.init(Arch::kAArch64); }
  Error prepare(int attempt) override { return prepare_code(&a, attempt); }
  Error body(Out2& o) override { CK(prog_a64(a, code, eh)); return finish_fixed(code, eh, o); }
};

struct BuildX86 : HolderWL {
  bool big;
  bool retry = false;
  bool retries() const override { return retry; }
  x86::Builder b;
  Arena pool_arena{4096};
  explicit BuildX86(bool big) : big(big) { env.init(Arch::kX64); }
  Error prepare(int attempt) override { pool_arena.reset(ResetPolicy::kSoft); return prepare_code(&b, attempt); }
  Error body(Out2& o) override {
    g_retry = retry;
    Error e = prog_x86(b, code, eh, pool_arena, big);
    g_retry = false;
    if (e != Error::kOk) return e;
    CKH();
    CK1(b.finalize());
    return finish_fixed(code, eh, o);
  }
};

struct CompX86 : HolderWL {
  int variant;
  x86::Compiler cc;
  explicit CompX86(int variant) : variant(variant) { env.init(Arch::kX64); }
  Error prepare(int attempt) override { return prepare_code(&cc, attempt); }
  Error body(Out2& o) override {
    if (variant == 2) CK(prog_compiler_cf(cc, code, eh)); else CK(prog_compiler(cc, code, eh, variant));
    CK1(cc.finalize());
    CK(code.flatten());
    CK(code.resolve_cross_section_fixups());
    for (Section* s : code.sections()) o.bytes.insert(o.bytes.end(), s->buffer().data(), s->buffer().data() + s->buffer().size());
    // execution judges "completes correctly" when the register allocator tolerated a failure; installed with faults off
    {
      Armed off(false);
      JitRuntime rt;
      void* fn = nullptr;
      Error e = rt.add(&fn, &code);
      if (e != Error::kOk) { o.exec = "jit-" + ename(e); return Error::kOk; }
      o.exec = exec_fn(fn);
      rt.release(fn);
    }
    return Error::kOk;
  }
};

// AArch64 compiler with spills and a call; the host cannot execute the code, so a run that completes with other bytes than the
// failure-free run (a tolerated register-allocator failure) is NOT judged for equivalence (exec = "a64-unverified" on both sides):
// crash / sanitizer / leak / error reporting / reuse / fresh are judged as for every other workload.
static Error prog_compiler_a64(a64::Compiler& cc, EH& eh) {
  FuncNode* f = cc.add_func(FuncSignature::build<int, int, int>()); CKH();
  if (!f) return Error::kOutOfMemory;
  a64::Gp a = cc.new_gp32("a"); CKH();
  a64::Gp b = cc.new_gp32("b"); CKH();
  f->set_arg(0, a);
  f->set_arg(1, b);
  std::vector<a64::Gp> v;
  for (int i = 0; i < 40; i++) {
    v.push_back(cc.new_gp32("v%d", i)); CKH();
    CK(cc.add(v[i], a, i + 1));
    CK(cc.eor(v[i], v[i], b));
  }
  a64::Gp r = cc.new_gp32("r"); CKH();
  a64::Gp i = cc.new_gp32("i"); CKH();
  a64::Mem stk = cc.new_stack(32, 16); CKH();
  CK(cc.str(v[0], stk));
  InvokeNode* inv = nullptr;
  // (a label target makes a64 `invoke` emit `blr <label>`, which the assembler refuses - noted in notes/C15.md; a register is used)
  a64::Gp tgt = cc.new_gp64("tgt"); CKH();
  CK(cc.mov(tgt, 0x123456789ABCull));
  CK(cc.invoke(Out(inv), tgt, FuncSignature::build<int, int, int>()));
  if (!inv) return Error::kOutOfMemory;
  inv->set_arg(0, v[0]);
  inv->set_arg(1, v[1]);
  inv->set_ret(0, r);
  Label Lloop = cc.new_label(); CKH();
  Label Lout = cc.new_label(); CKH();
  CK(cc.mov(i, 3));
  CK(cc.bind(Lloop));
  for (int k = 0; k < 40; k++) CK(cc.add(r, r, v[k]));
  CK(cc.subs(i, i, 1));
  CK(cc.b_ne(Lloop));
  CK(cc.ldr(i, stk));
  CK(cc.add(r, r, i));
  CK(cc.cmp(r, 1000));
  CK(cc.b_gt(Lout));
  CK(cc.add(r, r, 5));
  CK(cc.bind(Lout));
  CK(cc.ret(r));
  CK(cc.end_func());
  return Error::kOk;
}

struct CompA64 : HolderWL {
  a64::Compiler cc;
  CompA64() { env.init(Arch::kAArch64); }
  Error prepare(int attempt) override { return prepare_code(&cc, attempt); }
  Error body(Out2& o) override {
    CK(prog_compiler_a64(cc, eh));
    CK1(cc.finalize());
    CK(code.flatten());
    CK(code.resolve_cross_section_fixups());
    for (Section* s : code.sections()) o.bytes.insert(o.bytes.end(), s->buffer().data(), s->buffer().data() + s->buffer().size());
    o.exec = "a64-unverified";
    return Error::kOk;
  }
};

// JIT installation: the runtime/allocator is part of the workload (created while armed)
struct JitWL : Workload {
  uint32_t options;
  std::unique_ptr<JitRuntime> rt;
  std::vector<void*> fns;
  bool dead = false;   // the allocator could not allocate its own implementation: every call reports kNotInitialized
  explicit JitWL(uint32_t options) : options(options) {}
  ~JitWL() override { release_all(); }
  void release_all() { if (rt) for (void* p : fns) if (p) rt->release(p); fns.clear(); }
  Error prepare(int attempt) override {
    eh.clear();
    if (attempt == 0 || !rt || dead || !rt->allocator().is_initialized()) {
      dead = false;
      fns.clear();
      JitAllocator::CreateParams params{};
      params.options = JitAllocatorOptions(options);
      params.block_size = 65536;   // first block = 2 x block_size
      rt.reset();
      rt.reset(new JitRuntime(&params));
    }
    else if (attempt % 2 == 1) { release_all(); }
    else { release_all(); rt->allocator().reset(attempt % 4 == 2 ? ResetPolicy::kSoft : ResetPolicy::kHard); }
    return Error::kOk;
  }
  Error body(Out2& o) override {
    std::string ex;
    for (int i = 0; i < 5; i++) {
      CodeHolder code;
      CK(code.init(rt->environment()));
      code.set_error_handler(&eh);
      x86::Assembler a;
      CK(code.attach(&a));
      Label L; CKV(L = a.new_label());
      CK(a.mov(x86::eax, x86::edi));
      CK(a.imul(x86::eax, x86::eax, i + 2));
      CK(a.add(x86::eax, x86::esi));
      CK(a.jmp(L));
      std::vector<uint8_t> pad(size_t(i) * 30000 + 10, 0xCC);   // 300 KiB in total: a second block is needed
      CK(a.embed(pad.data(), pad.size()));
      CK(a.bind(L));
      CK(a.call(imm((void*)c15_helper)));   // relocation through rel32 or the address table
      CK(a.ret());
      void* fn = nullptr;
      { Error e = rt->add(&fn, &code); if (e == Error::kNotInitialized) dead = true; CK(e); }
      fns.push_back(fn);
      { Section* s = code.text_section(); o.bytes.insert(o.bytes.end(), s->buffer().data(), s->buffer().data() + std::min<size_t>(s->buffer().size(), 8)); }
      if (i == 2) { CK(rt->release(fns[0])); fns[0] = nullptr; }
    }
    {
      Armed off(false);
      for (void* p : fns) if (p) ex += exec_fn(p) + "/";
      vh::Fnv f; f.add(ex);
      o.exec = vh::to_hex(f.h);
    }
    return Error::kOk;
  }
};

// containers and the constant pool on one arena; String on the heap
struct HNode : public ArenaHashNode {
  HNode(uint32_t key) : ArenaHashNode(key * 2654435761u), key(key) {}
  uint32_t key;
};
struct HKey {
  uint32_t k;
  uint32_t hash_code() const { return k * 2654435761u; }
  bool matches(const HNode* n) const { return n->key == k; }
};

struct ContWL : Workload {
  std::unique_ptr<Arena> arena;
  Error prepare(int attempt) override {
    eh.clear();
    if (attempt == 0 || !arena) { arena.reset(); arena.reset(new Arena(8192)); }
    else arena->reset(attempt % 2 ? ResetPolicy::kSoft : ResetPolicy::kHard);
    return Error::kOk;
  }
  Error body(Out2& o) override {
    Arena& ar = *arena;
    ArenaVector<uint32_t> v;
    ArenaVector<uint64_t> w;
    for (uint32_t i = 0; i < 300; i++) { CK(v.append(ar, i * 7u)); if (i % 3 == 0) CK(w.prepend(ar, uint64_t(i) << 33)); }
    CK(v.insert(ar, 5, 99u));
    CK(w.reserve_fit(ar, 700));
    CK(v.resize_grow(ar, 1000));
    CK(v.concat(ar, v));
    ArenaHash<HNode> h;
    for (uint32_t i = 0; i < 200; i++) {
      HNode* n = ar.new_oneshot<HNode>(i * 13u);
      if (!n) return Error::kOutOfMemory;
      h.insert(ar, n);
    }
    uint32_t found = 0;
    for (uint32_t i = 0; i < 200; i++) if (h.get(HKey{i * 13u})) found++;
    if (found != 200) return Error::kInvalidState;
    ArenaBitSet bs;
    CK(bs.resize(ar, 70, true));
    for (int i = 0; i < 100; i++) CK(bs.append(ar, (i % 3) == 0));
    CK(bs.resize(ar, 5000, false));
    ArenaPool<uint64_t[4]> pool;
    void* ps[20];
    for (int i = 0; i < 20; i++) { ps[i] = pool.alloc(ar); if (!ps[i]) return Error::kOutOfMemory; }
    for (int i = 0; i < 20; i += 2) pool.release((uint64_t(*)[4])ps[i]);
    ConstPool cp(ar);
    std::vector<size_t> offs;
    std::vector<std::vector<uint8_t>> consts;
    for (uint32_t i = 0; i < 60; i++) {
      uint8_t buf[64];
      for (size_t k = 0; k < 64; k++) buf[k] = uint8_t(i * 11 + k * (i % 5));
      size_t sz = size_t(1) << (i % 7), off = 0;
      CK(cp.add(buf, sz, Out(off)));
      offs.push_back(off);
      consts.emplace_back(buf, buf + sz);
    }
    String s;
    for (int i = 0; i < 40; i++) { CK(s.append("hello world ")); CK(s.append_uint(uint64_t(i) * 1234567u, 16)); CK(s.append_chars('.', size_t(i))); }
    String t;
    CK(t.assign(s.data(), s.size()));
    CK(t.append_format("%d-%s", 42, "formatted"));
    // observable result
    for (uint32_t x : v) { o.bytes.push_back(uint8_t(x)); o.bytes.push_back(uint8_t(x >> 8)); }
    for (uint64_t x : w) o.bytes.push_back(uint8_t(x >> 33));
    for (size_t i = 0; i < bs.size(); i += 7) o.bytes.push_back(bs.bit_at(i) ? 1 : 0);
    {
      // the pool is judged by meaning (a lost Gap record only wastes space): every constant is aligned, inside the pool
      // and found at its offset in the filled image
      std::vector<uint8_t> img(cp.size() + 1, 0xEE);
      cp.fill(img.data());
      for (size_t i = 0; i < offs.size(); i++) {
        size_t sz = consts[i].size();
        bool ok = offs[i] % sz == 0 && offs[i] + sz <= cp.size() && memcmp(img.data() + offs[i], consts[i].data(), sz) == 0;
        o.bytes.push_back(ok ? 1 : 0);
      }
      o.bytes.push_back(img[cp.size()] == 0xEE ? 1 : 0);
      o.bytes.push_back(uint8_t(cp.alignment()));
    }
    o.bytes.insert(o.bytes.end(), t.data(), t.data() + t.size());
    v.release(ar); w.release(ar); bs.release(ar);
    return Error::kOk;
  }
};

// (a) history-dependent arena failure: the arena has grown to several blocks, is soft-reset (blocks retained), and a request
// larger than the retained spare blocks makes `_alloc_oneshot` free them and malloc a replacement - which may fail.  The
// workload goes on after a failed request (statistics, small requests, another soft reset, refill) so that a dangling block
// link would be walked; it reports kOutOfMemory at the end when any request failed.
struct ArenaHistWL : Workload {
  std::unique_ptr<Arena> arena;
  Error prepare(int attempt) override {
    eh.clear();
    if (attempt == 0 || !arena) { arena.reset(); arena.reset(new Arena(8192)); }
    else arena->reset(attempt % 2 ? ResetPolicy::kSoft : ResetPolicy::kHard);
    return Error::kOk;
  }
  Error body(Out2& o) override {
    Arena& ar = *arena;
    unsigned failed = 0;
    auto take = [&](size_t n) { void* p = ar.alloc_oneshot(n); if (!p) failed++; else memset(p, 0xA5, n); return p; };
    for (int i = 0; i < 60; i++) take(1024);                       // blocks of 16K, 32K, 64K (minus overhead)
    ar.reset(ResetPolicy::kSoft);
    take(7000);                                                     // fits the first block
    take(40000);                                                    // larger than the 32K spare: it is freed, the 64K one fits
    ar.reset(ResetPolicy::kSoft);
    take(100000);                                                   // larger than every retained block: all freed + malloc
    ArenaStatistics st = ar.statistics();
    o.bytes.push_back(uint8_t(st.block_count() > 0));
    for (int i = 0; i < 40; i++) take(512);
    ar.reset(ResetPolicy::kSoft);
    for (int i = 0; i < 30; i++) take(4096);
    {
      size_t got = 0;
      void* p = ar.alloc_reusable(3000, Out(got));                 // dynamic block
      if (!p) failed++; else { memset(p, 1, 3000); ar.free_reusable(p, got); }
    }
    st = ar.statistics();
    o.bytes.push_back(uint8_t(st.used_size() <= st.reserved_size()));
    o.bytes.push_back(uint8_t(failed == 0));
    return failed ? Error::kOutOfMemory : Error::kOk;
  }
};

// (d) `alloc_reusable` slow path under a REAL heap failure: the current block has 16..2040 bytes left, the pooled request does not
// fit, the leftover is handed to the size-class lists, the heap refuses the new block (only the malloc wrapper can produce this:
// hook H1 fires before the leftover is distributed), the call answers null - and the arena is used further: every region handed
// out afterwards (one-shot and pooled) is filled with its own tag; overlapping regions or a region whose bytes changed abort.
struct Regions {
  struct R { uint8_t* p; size_t n; uint8_t tag; };
  std::vector<R> v;
  uint8_t next = 1;
  void add(void* p, size_t n) {
    if (!p || !n) return;
    uint8_t t = next++; if (!next) next = 1;
    memset(p, t, n);
    v.push_back(R{static_cast<uint8_t*>(p), n, t});
  }
  void drop(void* p) { for (size_t i = 0; i < v.size(); i++) if (v[i].p == p) { v.erase(v.begin() + long(i)); return; } }
  void check(const char* where) {
    for (size_t i = 0; i < v.size(); i++) {
      for (size_t k = 0; k < v[i].n; k++)
        if (v[i].p[k] != v[i].tag) { fprintf(stderr, "C15-CORRUPTION at %s: region %zu (%zu bytes) was overwritten at byte %zu\n", where, i, v[i].n, k); abort(); }
      for (size_t j = i + 1; j < v.size(); j++)
        if (v[i].p < v[j].p + v[j].n && v[j].p < v[i].p + v[i].n) { fprintf(stderr, "C15-CORRUPTION at %s: regions %zu and %zu overlap\n", where, i, j); abort(); }
    }
  }
};

struct ArenaReuseWL : Workload {
  std::unique_ptr<Arena> arena;
  Error prepare(int attempt) override {
    eh.clear();
    if (attempt == 0 || !arena) { arena.reset(); arena.reset(new Arena(8192)); }
    else arena->reset(attempt % 2 ? ResetPolicy::kSoft : ResetPolicy::kHard);
    return Error::kOk;
  }
  Error body(Out2& o) override {
    Arena& ar = *arena;
    unsigned failed = 0;
    static const size_t lefts[] = {16, 40, 104, 520, 2040};
    for (size_t L : lefts) {
      ar.reset(ResetPolicy::kHard);
      Regions regs;
      void* p0 = ar.alloc_oneshot(64);
      if (!p0) { failed++; continue; }
      regs.add(p0, 64);
      size_t rem = ar.remaining_size();
      if (rem > L) { void* f = ar.alloc_oneshot(rem - L); if (!f) { failed++; continue; } regs.add(f, rem - L); }
      size_t got = 0;
      void* big = ar.alloc_reusable(2000, Out(got));          // slot class 2048 > L: leftover pooled, then a new block is needed
      if (!big) failed++; else regs.add(big, got);
      regs.check("after the pooled request");
      static const size_t os[] = {8, 16, 24, 8};
      for (size_t n : os) { void* q = ar.alloc_oneshot(n); if (!q) failed++; else regs.add(q, n); }
      static const size_t rs[] = {16, 30, 64, 100, 256, 500, 1024, 16, 16};
      std::vector<std::pair<void*, size_t>> pooled;
      for (size_t n : rs) { void* q = ar.alloc_reusable(n, Out(got)); if (!q) failed++; else { regs.add(q, got); pooled.push_back({q, got}); } }
      regs.check("after further use");
      for (size_t i = 0; i < pooled.size(); i += 2) { regs.drop(pooled[i].first); ar.free_reusable(pooled[i].first, pooled[i].second); }
      for (size_t n : rs) { void* q = ar.alloc_reusable(n, Out(got)); if (!q) failed++; else regs.add(q, got); }
      for (size_t n : os) { void* q = ar.alloc_oneshot(n); if (!q) failed++; else regs.add(q, n); }
      regs.check("after release and reuse");
      ArenaStatistics st = ar.statistics();
      o.bytes.push_back(uint8_t(st.used_size() <= st.reserved_size()));
    }
    o.bytes.push_back(uint8_t(failed == 0));
    return failed ? Error::kOutOfMemory : Error::kOk;
  }
};

static Workload* make_workload(const std::string& w) {
  if (w == "arenareuse") return new ArenaReuseWL();
  if (w == "arenahist") return new ArenaHistWL();
  if (w == "compcf") return new CompX86(2);
  if (w == "compa64") return new CompA64();
  if (w == "asm") return new AsmX86(false);
  if (w == "asmbig") return new AsmX86(true);
  if (w == "a64") return new AsmA64();
  if (w == "asmretry") { AsmX86* x = new AsmX86(false); x->retry = true; return x; }
  if (w == "buildretry") { BuildX86* x = new BuildX86(false); x->retry = true; return x; }
  if (w == "build") return new BuildX86(false);
  if (w == "buildbig") return new BuildX86(true);
  if (w == "comp") return new CompX86(1);
  if (w == "compbig") return new CompX86(0);
  if (w == "jit") return new JitWL(0);
  if (w == "jitdual") return new JitWL(uint32_t(JitAllocatorOptions::kUseDualMapping));
  if (w == "jitpools") return new JitWL(uint32_t(JitAllocatorOptions::kUseMultiplePools) | uint32_t(JitAllocatorOptions::kFillUnusedMemory));
  if (w == "cont") return new ContWL();
  return nullptr;
}

struct Attempt { Error err; unsigned eh; std::string out, exec; };

static Attempt attempt(Workload& wl, int n, bool armed) {
  Armed g(armed);
  Attempt r;
  Out2 o;
  Error e = wl.prepare(n);
  for (int t = 0; wl.retries() && e != Error::kOk && t < 8; t++) e = wl.prepare(n);
  if (e == Error::kOk) e = wl.body(o);
  r.err = e;
  r.eh = wl.eh.count;
  r.out = e == Error::kOk ? digest(o.bytes) : std::string("-");
  r.exec = e == Error::kOk ? o.exec : std::string("-");
  return r;
}

static std::map<std::string, Attempt> g_clean;

static const Attempt& clean_of(const std::string& w) {
  auto it = g_clean.find(w);
  if (it != g_clean.end()) return it->second;
  std::unique_ptr<Workload> wl(make_workload(w));
  fault_reset();
  Attempt a = attempt(*wl, 0, false);
  return g_clean[w] = a;
}

static std::string run_fault(const std::vector<std::string>& w) {
  const std::string& name = w[1];
  { std::unique_ptr<Workload> probe(make_workload(name)); if (!probe) return "bad-workload"; }
  const Attempt clean = clean_of(name);
  std::string head;
  fault_reset();
  bool multi = w[0] == "multi";
  if (multi) {
    uint64_t seed = 1, pm = 10;
    if (w.size() != 4 || !vh::parse_u64(w[2], seed) || !vh::parse_u64(w[3], pm)) return "bad-op";
    g_random = true; g_rng = seed * 0x9E3779B97F4A7C15ull + 0x1234567; g_permille = uint32_t(pm);
    for (int i = 0; i < 5; i++) rng_next();
    head = "run " + name + " multi " + w[2] + "/" + w[3];
  }
  else {
    // fault <w> <cls> <k>... [<cls> <k>...]: the class keyword may change inside the list (mixed arena / heap / vm failures)
    if (w.size() < 4) return "bad-op";
    int cls = -1;
    head = "run " + name + " " + w[2] + " ";
    bool firstk = true;
    for (size_t i = 2; i < w.size(); i++) {
      int c2 = w[i] == "arena" ? kArena : w[i] == "heap" ? kHeap : w[i] == "vm" ? kVm : -1;
      if (c2 >= 0) { cls = c2; if (i > 2) head += "+" + w[i] + ":"; continue; }
      uint64_t k;
      if (cls < 0 || !vh::parse_u64(w[i], k)) return "bad-op";
      g_fail[cls].insert(k);
      head += (firstk || head.back() == ':' ? "" : ",") + w[i];
      firstk = false;
    }
  }
  g_live_heap->clear(); g_live_map->clear(); g_live_fd->clear();
  g_track = true;
  Attempt first, reuse;
  std::string attempts;
  {
    std::unique_ptr<Workload> wl(make_workload(name));
    first = attempt(*wl, 0, true);
    int n = 1;
    if (multi) {
      // repeat on the same objects while faults keep coming
      Attempt cur = first;
      while (cur.err != Error::kOk && n < 6) { cur = attempt(*wl, n, true); attempts += ename(cur.err) + ";"; n++; }
    }
    reuse = attempt(*wl, n + int(g_cnt[0] % 3), false);
  }
  g_track = false;
  size_t leak = live_total();
  uint64_t fired = g_fired[0] + g_fired[1] + g_fired[2];
  Attempt fresh;
  {
    std::unique_ptr<Workload> wl(make_workload(name));
    fresh = attempt(*wl, 0, false);
  }
  std::string s = head;
  s += " fired=" + std::to_string(fired);
  s += " err=" + ename(first.err);
  s += " eh=" + std::to_string(first.eh);
  s += " out=" + first.out + " exec=" + first.exec;
  s += " reuse=" + (reuse.err == Error::kOk ? reuse.out : ename(reuse.err)) + " rexec=" + reuse.exec;
  s += " fresh=" + (fresh.err == Error::kOk ? fresh.out : ename(fresh.err)) + " fexec=" + fresh.exec;
  s += " leak=" + std::to_string(leak);
  s += " clean=" + clean.out + " cexec=" + clean.exec;
  if (multi) s += " attempts=" + (attempts.empty() ? std::string("-") : attempts);
  return s;
}

static std::string run_count(const std::vector<std::string>& w) {
  if (w.size() != 2) return "bad-workload";
  { std::unique_ptr<Workload> probe(make_workload(w[1])); if (!probe) return "bad-workload"; }
  fault_reset();
  g_live_heap->clear(); g_live_map->clear(); g_live_fd->clear();
  g_track = true;
  Attempt a;
  {
    std::unique_ptr<Workload> wl(make_workload(w[1]));
    a = attempt(*wl, 0, true);
  }
  g_track = false;
  return "n " + w[1] + " arena=" + std::to_string(g_cnt[0]) + " heap=" + std::to_string(g_cnt[1]) + " vm=" + std::to_string(g_cnt[2]) +
         " err=" + ename(a.err) + " out=" + a.out + " exec=" + a.exec + " leak=" + std::to_string(live_total());
}

// OPS-BEGIN
// PART 2: one CodeHolder (x64, x86::Assembler attached, label 0 pre-created), one ArenaVector<uint32_t>, one String.
//   o reset                                   -> state
//   o <mask> sec <namehex|-> <align> <order>  |  label  |  named <namehex|-> <type> <parent>  |  reloc <type>  |  expr
//            fixup | unfix | addr <hex> | emit <sec> <n> | vapp <x> | vres <n> | sapp <n> <ch>
//       -> <Error|ok> n=<requests made> | <state>
//   <mask>: bit i set = the i-th allocation request made by this operation fails (arena requests through H1; for
//   `emit`, `expr` and `sapp` also malloc/realloc).
struct OpsCtx {
  Environment env;
  CodeHolder code;
  x86::Assembler a;
  EH eh;
  Arena varena{4096};
  ArenaVector<uint32_t> vec;
  String str;
  Label l0, l1;
  Arena parena{4096};
  ConstPool pool{parena};
};
static std::unique_ptr<OpsCtx> g_ops;
static uint64_t g_op_mask = 0;
static uint64_t g_op_cnt = 0;
static bool g_op_armed = false, g_op_heap = false;

static bool ops_arena_pred() {
  if (g_armed) return must_fail(kArena);
  if (!g_op_armed) return false;
  uint64_t i = g_op_cnt++;
  return i < 64 && ((g_op_mask >> i) & 1);
}
static bool g_op_vm = false;
extern "C" bool c15_ops_vm_fail() {
  if (!g_op_armed || !g_op_vm) return false;
  uint64_t i = g_op_cnt++;
  return i < 64 && ((g_op_mask >> i) & 1);
}
extern "C" bool c15_ops_heap_fail(size_t n) {
  if (!g_op_armed || !g_op_heap) return false;
  if (n + 32 >= 8192 && ((n + 32) & (n + 31)) == 0) return false;   // a block of the CodeHolder arena, not a request of the operation
  uint64_t i = g_op_cnt++;
  return i < 64 && ((g_op_mask >> i) & 1);
}

static void addr_walk(AddressTableEntry* n, std::vector<uint64_t>& out) {
  if (!n) return;
  addr_walk(n->left(), out);
  out.push_back(n->address());
  addr_walk(n->right(), out);
}

static std::string ops_state() {
  OpsCtx& c = *g_ops;
  CodeHolder& code = c.code;
  std::string s = "S=";
  for (Section* sec : code.sections()) {
    size_t nl = strnlen(sec->name(), 36);
    s += (nl ? vh::bytes_to_hex((const uint8_t*)sec->name(), nl) : std::string("-")) + ":" + std::to_string(sec->alignment()) + ":" +
         std::to_string(sec->order()) + ":" + std::to_string(sec->buffer_size()) + ":" + std::to_string(sec->virtual_size()) + ":";
    { vh::Fnv fb; fb.add(std::string((const char*)sec->buffer().data(), sec->buffer().size())); s += vh::to_hex(fb.h) + ","; }
  }
  s += " O=";
  for (Section* sec : code.sections_by_order()) s += std::to_string(sec->section_id()) + ",";
  s += " L=";
  for (uint32_t i = 0; i < code.label_count(); i++) {
    const LabelEntry& le = code.label_entry_of(i);
    s += (le.has_name() ? vh::bytes_to_hex((const uint8_t*)le.name(), le.name_size()) : std::string("-")) + ":" +
         std::to_string(uint32_t(le.label_type())) + ":" + std::to_string(le.parent_id()) + ",";
  }
  s += " N=" + std::to_string(code._named_labels._size);
  s += " R=";
  for (RelocEntry* re : code._relocations) s += std::to_string(uint32_t(re->reloc_type())) + ":" + (re->payload() ? "1" : "0") + ",";
  s += " AT=" + (code.address_table_section() ? std::to_string(code.address_table_section()->section_id()) : std::string("-"));
  std::vector<uint64_t> addrs;
  addr_walk(code._address_table_entries.root(), addrs);
  s += " A=";
  for (uint64_t x : addrs) s += vh::to_hex(x) + ",";
  s += " F=" + std::to_string(code.unresolved_fixup_count());
  s += " V=";
  for (uint32_t x : c.vec) s += std::to_string(x) + ",";
  s += " T=" + (c.str.size() ? vh::bytes_to_hex((const uint8_t*)c.str.data(), c.str.size()) : std::string("-"));
  s += " | C=" + std::to_string(code._sections.capacity()) + "," + std::to_string(code._sections_by_order.capacity()) + "," +
       std::to_string(code._label_entries.capacity()) + "," + std::to_string(code._relocations.capacity()) + "," +
       std::to_string(code._named_labels._buckets_grow) + "," + std::to_string(code._named_labels._prime_index) + "," +
       std::to_string(code._fixup_data_pool.pooled_item_count()) + "," + std::to_string(c.vec.capacity()) + "," + std::to_string(c.str.capacity());
  s += " B=";
  for (Section* sec : code.sections()) s += std::to_string(sec->buffer().capacity()) + ",";
  return s;
}

static std::string ops_step(const std::vector<std::string>& w) {
  if (w.size() < 2 || w[0] != "o") return "bad-op";
  if (w[1] == "reset") {
    g_ops.reset();
    g_ops.reset(new OpsCtx());
    OpsCtx& c = *g_ops;
    c.env.init(Arch::kX64);
    if (c.code.init(c.env) != Error::kOk) return "init-failed";
    c.code.set_error_handler(&c.eh);
    if (c.code.attach(&c.a) != Error::kOk) return "attach-failed";
    return "ok n=0 | " + ops_state();
  }
  if (!g_ops || w.size() < 3) return "bad-op";
  OpsCtx& c = *g_ops;
  CodeHolder& code = c.code;
  uint64_t mask;
  if (!vh::parse_hex(w[1], mask)) return "bad-op";
  const std::string& op = w[2];
  auto U = [&](size_t i, uint64_t& v) { return i < w.size() && vh::parse_u64(w[i], v); };
  uint64_t u0 = 0, u1 = 0;
  std::vector<uint8_t> name;
  c.eh.clear();
  g_op_mask = mask; g_op_cnt = 0; g_op_heap = false;
  Error e = Error::kOk;
  if (op == "sec") {
    int64_t order;
    if (w.size() != 6 || !vh::hex_to_bytes(w[3], name) || !U(4, u0) || !vh::parse_i64(w[5], order)) return "bad-op";
    Section* sec = nullptr;
    g_op_armed = true;
    e = code.new_section(Out(sec), (const char*)name.data(), name.size(), SectionFlags::kNone, uint32_t(u0), int32_t(order));
    g_op_armed = false;
  }
  else if (op == "label") {
    uint32_t id;
    g_op_armed = true;
    e = code.new_label_id(Out(id));
    g_op_armed = false;
  }
  else if (op == "named") {
    if (w.size() != 6 || !vh::hex_to_bytes(w[3], name) || !U(4, u0) || !U(5, u1)) return "bad-op";
    uint32_t id;
    name.push_back(0);
    g_op_armed = true;
    e = code.new_named_label_id(Out(id), (const char*)name.data(), name.size() - 1, LabelType(uint32_t(u0)), uint32_t(u1));
    g_op_armed = false;
  }
  else if (op == "reloc") {
    if (!U(3, u0)) return "bad-op";
    RelocEntry* re = nullptr;
    g_op_armed = true;
    e = code.new_reloc_entry(Out(re), RelocType(uint32_t(u0)));
    g_op_armed = false;
  }
  else if (op == "expr") {
    // l0/l1 are never bound: embed_label_delta takes the expression branch
    if (!c.l0.is_valid()) return "precond";
    c.a.section(code.text_section());
    g_op_heap = true;
    g_op_armed = true;
    e = c.a.embed_label_delta(c.l1, c.l0, 4);
    g_op_armed = false;
  }
  else if (op == "mklabels") {
    // helper without faults: the two labels `expr` and `fixup` use
    if (!c.l0.is_valid()) {
      uint32_t i0, i1;
      if (code.new_label_id(Out(i0)) != Error::kOk || code.new_label_id(Out(i1)) != Error::kOk) return "setup-failed";
      c.l0 = Label(i0); c.l1 = Label(i1);
    }
  }
  else if (op == "fixup") {
    if (!c.l0.is_valid()) return "precond";
    OffsetFormat fmt;
    fmt.reset_to_simple_value(OffsetType::kSignedOffset, 4);
    g_op_armed = true;
    Fixup* f = code.new_fixup(code.label_entry_of(c.l0.id()), 0, 0, 0, fmt);
    g_op_armed = false;
    e = f ? Error::kOk : Error::kOutOfMemory;
  }
  else if (op == "unfix") {
    // what ResolveFixupIterator::resolve_and_next does for the first fixup of label l0
    if (!c.l0.is_valid()) return "precond";
    LabelEntry& le = code.label_entry_of(c.l0.id());
    Fixup* f = le._get_fixups();
    if (!f) e = Error::kInvalidState;
    else { le._set_fixups(f->next); code._fixup_data_pool.release(f); code._unresolved_fixup_count--; }
  }
  else if (op == "addr") {
    if (w.size() != 4 || !vh::parse_hex(w[3], u0)) return "bad-op";
    g_op_armed = true;
    e = code.add_address_to_address_table(u0);
    g_op_armed = false;
  }
  else if (op == "emit") {
    if (!U(3, u0) || !U(4, u1)) return "bad-op";
    if (!code.is_section_valid(uint32_t(u0))) e = Error::kInvalidSection;
    else {
      std::vector<uint8_t> bytes(size_t(u1), 0x90);
      c.a.section(code.section_by_id(uint32_t(u0)));
      g_op_heap = true;
      g_op_armed = true;
      e = c.a.embed(bytes.data(), bytes.size());
      g_op_armed = false;
    }
  }
  else if (op == "inst" || op == "jmpf") {
    // a plain x86 instruction / a jump to the never-bound label l0 through the real x86::Assembler::_emit
    if (!U(3, u0) || (op == "inst" && !U(4, u1))) return "bad-op";
    if (op == "jmpf" && !c.l0.is_valid()) return "precond";
    if (!code.is_section_valid(uint32_t(u0))) e = Error::kInvalidSection;
    else {
      c.a.section(code.section_by_id(uint32_t(u0)));
      g_op_heap = true;
      g_op_armed = true;
      if (op == "jmpf") e = c.a.jmp(c.l0);
      else if (u1 == 0) e = c.a.nop();
      else if (u1 == 1) e = c.a.mov(x86::eax, 0x11223344);
      else if (u1 == 2) e = c.a.ret();
      else e = c.a.add(x86::rax, x86::rcx);
      g_op_armed = false;
    }
  }
  else if (op == "padd") {
    // ConstPool::add on its own arena: `<Error|ok> n=<requests> off=<offset|-> | P=<size>:<alignment>:<gap pool>:<image> G=<index:offset:size,...>`
    if (w.size() != 4 || !vh::hex_to_bytes(w[3], name)) return "bad-op";
    size_t off = 0;
    g_op_armed = true;
    e = c.pool.add(name.data(), name.size(), Out(off));
    g_op_armed = false;
    std::string r = ename(e) + " n=" + std::to_string(g_op_cnt) + " off=" + (e == Error::kOk ? std::to_string(off) : std::string("-")) + " | P=" +
                    std::to_string(c.pool.size()) + ":" + std::to_string(c.pool.alignment()) + ":";
    size_t gp = 0;
    for (ConstPool::Gap* g = c.pool._gap_pool; g; g = g->_next) gp++;
    std::vector<uint8_t> img(c.pool.size());
    c.pool.fill(img.data());
    r += std::to_string(gp) + ":" + (img.empty() ? std::string("-") : vh::bytes_to_hex(img.data(), img.size())) + " G=";
    for (size_t i = 0; i < ConstPool::kIndexCount; i++)
      for (ConstPool::Gap* g = c.pool._gaps[i]; g; g = g->_next) r += std::to_string(i) + ":" + std::to_string(g->_offset) + ":" + std::to_string(g->_size) + ",";
    return r;
  }
  else if (op == "vapp") {
    if (!U(3, u0)) return "bad-op";
    g_op_armed = true;
    e = c.vec.append(c.varena, uint32_t(u0));
    g_op_armed = false;
  }
  else if (op == "vres") {
    if (!U(3, u0)) return "bad-op";
    g_op_armed = true;
    e = c.vec.reserve_additional(c.varena, size_t(u0));
    g_op_armed = false;
  }
  else if (op == "sapp") {
    if (!U(3, u0) || !U(4, u1)) return "bad-op";
    g_op_heap = true;
    g_op_armed = true;
    e = c.str.append_chars(char(u1), size_t(u0));
    g_op_armed = false;
  }
  else return "bad-op";
  return ename(e) + " n=" + std::to_string(g_op_cnt) + " | " + ops_state();
}
// PART 3: BaseBuilder calls with a per-call fault mask (model: lean/AsmjitVerif/Model/FaultBuilder.lean)
//   b reset | b <mask> emit <k> <0|1> | newlabel | clabel | bind <l> | align <n> | embed <n> | elabel <l> | comment <len>
//       -> <Error|ok> n=<requests> | N=<node list> LC=<labels> | C=<label_entries cap>,<label_nodes cap> LN=<node present per label>
struct BCtx {
  Environment env;
  CodeHolder code;
  x86::Builder b;
  EH eh;
};
static std::unique_ptr<BCtx> g_b;

static std::string b_state() {
  BCtx& c = *g_b;
  std::string s = "N=";
  for (BaseNode* n = c.b.first_node(); n; n = n->next()) {
    switch (n->type()) {
      case NodeType::kSection: s += "S" + std::to_string(n->as<SectionNode>()->section_id()); break;
      case NodeType::kInst: {
        InstNode* in = n->as<InstNode>();
        InstId id = in->inst_id();
        int k = id == x86::Inst::kIdNop ? 0 : id == x86::Inst::kIdMov ? 1 : id == x86::Inst::kIdRet ? 2 : id == x86::Inst::kIdVaddps ? 4 :
                id == x86::Inst::kIdVsubps ? 5 : id == x86::Inst::kIdAdd ? (in->op(0).is_mem() ? 7 : 3) : 9;
        s += "I" + std::to_string(k);
        if (in->has_extra_reg()) s += "x" + std::to_string(in->extra_reg().type() == RegType::kMask ? in->extra_reg().id() : in->extra_reg().id() + 16);
        uint32_t ob = (Support::test(in->options(), InstOptions::kX86_Rep) ? 1u : 0u) | (Support::test(in->options(), InstOptions::kX86_Lock) ? 2u : 0u);
        if (ob) s += "o" + std::to_string(ob);
        if (n->has_inline_comment()) s += "c";
        break;
      }
      case NodeType::kLabel: s += "L" + std::to_string(n->as<LabelNode>()->label_id()); break;
      case NodeType::kAlign: s += "A" + std::to_string(n->as<AlignNode>()->alignment()); break;
      case NodeType::kEmbedData: s += "D" + std::to_string(n->as<EmbedDataNode>()->data_size()); break;
      case NodeType::kEmbedLabel: s += "E" + std::to_string(n->as<EmbedLabelNode>()->label_id()); break;
      case NodeType::kComment: s += "C" + std::to_string(n->inline_comment() ? strlen(n->inline_comment()) : 0); break;
      default: s += "?"; break;
    }
    s += ",";
  }
  s += " LC=" + std::to_string(c.code.label_count());
  {
    // pending one-shot state of the emitter
    uint32_t pe = c.b.has_extra_reg() ? (c.b.extra_reg().type() == RegType::kMask ? c.b.extra_reg().id() : c.b.extra_reg().id() + 16) : 0;
    uint32_t po = (Support::test(c.b.inst_options(), InstOptions::kX86_Rep) ? 1u : 0u) | (Support::test(c.b.inst_options(), InstOptions::kX86_Lock) ? 2u : 0u);
    s += " P=" + std::to_string(pe) + "," + std::to_string(po) + "," + (c.b.inline_comment() ? "1" : "0");
  }
  s += " | C=" + std::to_string(c.code._label_entries.capacity()) + "," + std::to_string(c.b._label_nodes.capacity()) + " LN=";
  for (LabelNode* ln : c.b._label_nodes) s += ln ? "1" : "0";
  return s;
}

static std::string b_step(const std::vector<std::string>& w) {
  if (w.size() < 2) return "bad-op";
  if (w[1] == "reset") {
    g_b.reset();
    g_b.reset(new BCtx());
    BCtx& c = *g_b;
    c.env.init(Arch::kX64);
    if (c.code.init(c.env) != Error::kOk) return "init-failed";
    c.code.set_error_handler(&c.eh);
    if (c.code.attach(&c.b) != Error::kOk) return "attach-failed";
    return "ok n=0 | " + b_state();
  }
  if (!g_b || w.size() < 3) return "bad-op";
  BCtx& c = *g_b;
  uint64_t mask, u0 = 0, u1 = 0;
  if (!vh::parse_hex(w[1], mask)) return "bad-op";
  const std::string& op = w[2];
  auto U = [&](size_t i, uint64_t& v) { return i < w.size() && vh::parse_u64(w[i], v); };
  c.eh.clear();
  g_op_mask = mask; g_op_cnt = 0; g_op_heap = false;
  Error e = Error::kOk;
  if (op == "emit") {
    if (!U(3, u0)) return "bad-op";
    g_op_armed = true;
    if (u0 == 0) e = c.b.nop();
    else if (u0 == 1) e = c.b.mov(x86::eax, 0x11223344);
    else if (u0 == 2) e = c.b.ret();
    else if (u0 == 4) e = c.b.vaddps(x86::zmm0, x86::zmm1, x86::zmm2);
    else if (u0 == 5) e = c.b.vsubps(x86::zmm3, x86::zmm4, x86::zmm5);
    else if (u0 == 7) e = c.b.add(x86::dword_ptr(x86::rax), x86::ecx);
    else e = c.b.add(x86::rax, x86::rcx);
    g_op_armed = false;
  }
  else if (op == "setextra") {
    // the one-shot extra register: `k(kN)` write mask (1..7) or a GP register (16 + id: `rep(ecx)` count register)
    if (!U(3, u0)) return "bad-op";
    if (u0 >= 16) c.b.set_extra_reg(x86::gpd(uint32_t(u0 - 16))); else c.b.set_extra_reg(x86::k(uint32_t(u0)));
  }
  else if (op == "setopts") {
    if (!U(3, u0)) return "bad-op";
    if (u0 & 1) c.b.add_inst_options(InstOptions::kX86_Rep);
    if (u0 & 2) c.b.add_inst_options(InstOptions::kX86_Lock);
  }
  else if (op == "setcmt") {
    c.b.set_inline_comment("a comment");
  }
  else if (op == "ser") {
    // serialize the node list with a fresh Assembler attached to the same CodeHolder; answers the bytes of .text
    x86::Assembler a;
    if (c.code.attach(&a) != Error::kOk) return "ser attach-failed";
    e = c.b.serialize_to(&a);
    CodeBuffer& buf = c.code.text_section()->buffer();
    std::string r = "ser " + ename(e) + " " + (buf.size() ? vh::bytes_to_hex(buf.data(), buf.size()) : std::string("-"));
    c.code.detach(&a);
    buf._size = 0;
    return r;
  }
  else if (op == "newlabel") {
    g_op_armed = true;
    Label l = c.b.new_label();
    g_op_armed = false;
    e = l.is_valid() ? Error::kOk : (c.eh.count ? c.eh.first : Error::kOutOfMemory);
  }
  else if (op == "clabel") {
    uint32_t id;
    g_op_armed = true;
    e = c.code.new_label_id(Out(id));
    g_op_armed = false;
  }
  else if (op == "bind") {
    if (!U(3, u0)) return "bad-op";
    g_op_armed = true;
    e = c.b.bind(Label(uint32_t(u0)));
    g_op_armed = false;
  }
  else if (op == "align") {
    if (!U(3, u0)) return "bad-op";
    g_op_armed = true;
    e = c.b.align(AlignMode::kCode, uint32_t(u0));
    g_op_armed = false;
  }
  else if (op == "embed") {
    if (!U(3, u0)) return "bad-op";
    std::vector<uint8_t> d(size_t(u0) + 1, 0x5A);
    g_op_armed = true;
    e = c.b.embed(d.data(), size_t(u0));
    g_op_armed = false;
  }
  else if (op == "elabel") {
    if (!U(3, u0)) return "bad-op";
    g_op_armed = true;
    e = c.b.embed_label(Label(uint32_t(u0)), 0);
    g_op_armed = false;
  }
  else if (op == "comment") {
    if (!U(3, u0)) return "bad-op";
    // NOTE: for size 0 BaseBuilder::new_comment_node keeps the CALLER's pointer (nothing is duplicated) - a static literal is
    // passed so that the node never points into a dead buffer (reported in notes/C15.md; not an allocation-failure matter)
    static const char empty[] = "";
    std::string t(size_t(u0), 'x');
    g_op_armed = true;
    e = u0 ? c.b.comment(t.c_str(), t.size()) : c.b.comment(empty, 0);
    g_op_armed = false;
  }
  else return "bad-op";
  return ename(e) + " n=" + std::to_string(g_op_cnt) + " | " + b_state();
}
// PART 4: BaseCompiler calls with a per-call fault mask (model: lean/AsmjitVerif/Model/FaultCompiler.lean)
//   c reset | c <mask> reg <0|1 long name> | func <nargs> | invoke <nargs> | emit <k> | endfunc
//       -> <Error|ok> n=<requests> | N=<node list> CUR=<cursor index> LC=<labels> R=<named per register> | C=<label_entries cap>,<label_nodes size>,<cap>,<virt_regs cap>
struct CCtx {
  Environment env;
  CodeHolder code;
  x86::Compiler cc;
  EH eh;
};
static std::unique_ptr<CCtx> g_c;

static std::string c_state() {
  CCtx& c = *g_c;
  std::string s = "N=";
  size_t idx = 0, cur = 0;
  for (BaseNode* n = c.cc.first_node(); n; n = n->next(), idx++) {
    if (n == c.cc.cursor()) cur = idx;
    switch (n->type()) {
      case NodeType::kSection: s += "S"; break;
      case NodeType::kFunc: s += "F" + std::to_string(n->as<FuncNode>()->label_id()); break;
      case NodeType::kLabel: s += "L" + std::to_string(n->as<LabelNode>()->label_id()); break;
      case NodeType::kSentinel: s += "Z"; break;
      case NodeType::kInvoke: s += "V" + std::to_string(n->as<InvokeNode>()->arg_count()); break;
      case NodeType::kInst: {
        InstNode* in = n->as<InstNode>();
        InstId id = in->inst_id();
        s += "I" + std::to_string(id == x86::Inst::kIdNop ? 0 : id == x86::Inst::kIdMov ? 1 : id == x86::Inst::kIdVaddps ? 4 : id == x86::Inst::kIdVsubps ? 5 : 3);
        if (in->has_extra_reg()) s += "x" + std::to_string(in->extra_reg().type() == RegType::kMask ? in->extra_reg().id() : in->extra_reg().id() + 16);
        uint32_t ob = (Support::test(in->options(), InstOptions::kX86_Rep) ? 1u : 0u) | (Support::test(in->options(), InstOptions::kX86_Lock) ? 2u : 0u);
        if (ob) s += "o" + std::to_string(ob);
        break;
      }
      default: s += "?"; break;
    }
    s += ",";
  }
  s += " CUR=" + std::to_string(cur) + " LC=" + std::to_string(c.code.label_count()) + " R=";
  for (VirtReg* vr : c.cc.virt_regs()) s += vr->name_size() ? "1" : "0";
  {
    uint32_t pe = c.cc.has_extra_reg() ? (c.cc.extra_reg().type() == RegType::kMask ? c.cc.extra_reg().id() : c.cc.extra_reg().id() + 16) : 0;
    uint32_t po = (Support::test(c.cc.inst_options(), InstOptions::kX86_Rep) ? 1u : 0u) | (Support::test(c.cc.inst_options(), InstOptions::kX86_Lock) ? 2u : 0u);
    s += " P=" + std::to_string(pe) + "," + std::to_string(po);
  }
  s += " | C=" + std::to_string(c.code._label_entries.capacity()) + "," + std::to_string(c.cc._label_nodes.size()) + "," +
       std::to_string(c.cc._label_nodes.capacity()) + "," + std::to_string(c.cc._virt_regs.capacity());
  return s;
}

static std::string c_step(const std::vector<std::string>& w) {
  if (w.size() < 2) return "bad-op";
  if (w[1] == "reset") {
    g_c.reset();
    g_c.reset(new CCtx());
    CCtx& c = *g_c;
    c.env.init(Arch::kX64);
    if (c.code.init(c.env) != Error::kOk) return "init-failed";
    c.code.set_error_handler(&c.eh);
    if (c.code.attach(&c.cc) != Error::kOk) return "attach-failed";
    return "ok n=0 | " + c_state();
  }
  if (!g_c || w.size() < 3) return "bad-op";
  CCtx& c = *g_c;
  uint64_t mask, u0 = 0;
  if (!vh::parse_hex(w[1], mask)) return "bad-op";
  const std::string& op = w[2];
  auto U = [&](size_t i, uint64_t& v) { return i < w.size() && vh::parse_u64(w[i], v); };
  c.eh.clear();
  g_op_mask = mask; g_op_cnt = 0; g_op_heap = false;
  Error e = Error::kOk;
  if (op == "reg") {
    if (!U(3, u0)) return "bad-op";
    g_op_armed = true;
    x86::Gp r = u0 ? c.cc.new_gp32("a_rather_long_virtual_register_name_%d", 7) : c.cc.new_gp32("r");
    g_op_armed = false;
    e = c.eh.count ? c.eh.first : (r.is_valid() ? Error::kOk : Error::kOutOfMemory);
  }
  else if (op == "func" || op == "invoke") {
    if (!U(3, u0) || u0 > 8) return "bad-op";
    FuncSignature sig;
    sig.set_ret_t<int>();
    for (uint64_t i = 0; i < u0; i++) sig.add_arg_t<int>();
    g_op_armed = true;
    if (op == "func") {
      FuncNode* f = c.cc.add_func(sig);
      g_op_armed = false;
      e = c.eh.count ? c.eh.first : (f ? Error::kOk : Error::kOutOfMemory);
    }
    else {
      InvokeNode* inv = nullptr;
      e = c.cc.invoke(Out(inv), imm(0x123456), sig);
      g_op_armed = false;
    }
  }
  else if (op == "emit") {
    if (!U(3, u0)) return "bad-op";
    g_op_armed = true;
    if (u0 == 0) e = c.cc.nop();
    else if (u0 == 1) e = c.cc.mov(x86::eax, 0x11223344);
    else if (u0 == 4) e = c.cc.vaddps(x86::zmm0, x86::zmm1, x86::zmm2);
    else if (u0 == 5) e = c.cc.vsubps(x86::zmm3, x86::zmm4, x86::zmm5);
    else e = c.cc.add(x86::rax, x86::rcx);
    g_op_armed = false;
  }
  else if (op == "setextra") {
    if (!U(3, u0)) return "bad-op";
    if (u0 >= 16) c.cc.set_extra_reg(x86::gpd(uint32_t(u0 - 16))); else c.cc.set_extra_reg(x86::k(uint32_t(u0)));
  }
  else if (op == "setopts") {
    if (!U(3, u0)) return "bad-op";
    if (u0 & 1) c.cc.add_inst_options(InstOptions::kX86_Rep);
    if (u0 & 2) c.cc.add_inst_options(InstOptions::kX86_Lock);
  }
  else if (op == "endfunc") {
    e = c.cc.end_func();
  }
  else return "bad-op";
  return ename(e) + " n=" + std::to_string(g_op_cnt) + " | " + c_state();
}
// PART 5: JitAllocator::alloc / release with a per-call fault mask (model: lean/AsmjitVerif/Model/FaultJit.lean on C09's allocator)
//   j reset <options> | j <mask> alloc <size> | j 0 release <span ordinal>
//       -> <Error|ok> n=<requests: mmap / memfd_create / ftruncate / malloc of the block record> | blocks=.. allocs=.. used=.. reserved=..
struct JCtx {
  std::unique_ptr<JitAllocator> a;
  std::vector<void*> spans;
};
static std::unique_ptr<JCtx> g_j;

static std::string j_state() {
  JitAllocator::Statistics st = g_j->a->statistics();
  return "blocks=" + std::to_string(st.block_count()) + " allocs=" + std::to_string(st.allocation_count()) + " used=" +
         std::to_string(st.used_size()) + " reserved=" + std::to_string(st.reserved_size());
}

static std::string j_step(const std::vector<std::string>& w) {
  if (w.size() < 3) return "bad-op";
  uint64_t u0 = 0, mask = 0;
  if (w[1] == "reset") {
    if (!vh::parse_u64(w[2], u0)) return "bad-op";
    g_j.reset();
    g_j.reset(new JCtx());
    JitAllocator::CreateParams p{};
    p.options = JitAllocatorOptions(uint32_t(u0));
    p.block_size = 65536;
    g_j->a.reset(new JitAllocator(&p));
    return "ok n=0 | " + j_state();
  }
  if (!g_j || w.size() < 4 || !vh::parse_hex(w[1], mask) || !vh::parse_u64(w[3], u0)) return "bad-op";
  g_op_mask = mask; g_op_cnt = 0; g_op_heap = true; g_op_vm = true;
  Error e = Error::kOk;
  if (w[2] == "alloc") {
    JitAllocator::Span span;
    g_op_armed = true;
    e = g_j->a->alloc(Out(span), size_t(u0));
    g_op_armed = false;
    if (e == Error::kOk) g_j->spans.push_back(span.rx());
  }
  else if (w[2] == "release") {
    if (u0 >= g_j->spans.size() || !g_j->spans[u0]) { g_op_vm = false; return "precond"; }
    e = g_j->a->release(g_j->spans[u0]);
    g_j->spans[u0] = nullptr;
  }
  else { g_op_vm = false; return "bad-op"; }
  g_op_vm = false;
  // which errno-derived error a failed mmap / memfd_create / ftruncate is turned into is not modelled: `fail:<Error>`
  std::string en = (e != Error::kOk && mask != 0) ? "fail:" + ename(e) : ename(e);
  return en + " n=" + std::to_string(g_op_cnt) + " | " + j_state();
}
// OPS-END

static void on_cpu_timeout(int) { static const char m[] = "CPU-TIMEOUT (900 s of CPU time)\n"; (void)!write(2, m, sizeof(m) - 1); _exit(97); }

int main() {
  vh::cpu_alarm(900, on_cpu_timeout);   // a verdict of "timeout" is based on CPU time, never on wall-clock time of a loaded machine
  g_live_heap = new std::unordered_set<void*>();
  g_live_map = new std::unordered_map<void*, size_t>();
  g_live_fd = new std::unordered_set<int>();
  asmjit_verif_arena_fail = ops_arena_pred;
  { JitAllocator::CreateParams p2{}; p2.options = JitAllocatorOptions::kUseDualMapping; JitRuntime warm2(&p2); void* p = nullptr; CodeHolder c; c.init(warm2.environment()); x86::Assembler a(&c); a.ret(); warm2.add(&p, &c); }
  { JitRuntime warm; void* p = nullptr; CodeHolder c; c.init(warm.environment()); x86::Assembler a(&c); a.ret(); warm.add(&p, &c); }   // one-time probes (VirtMem::info, hardened runtime detection) happen here
  return vh::line_loop([](const std::string& line) -> std::string {
    std::vector<std::string> w = vh::words(line);
    if (w.empty()) return "";
    if (w[0] == "count") return run_count(w);
    if (w[0] == "where" && w.size() == 3) {
      static std::string needle; needle = w[2];
      std::vector<uint64_t> hits; g_hits = &hits; g_needle = needle.c_str();
      std::string r = run_count({"count", w[1]});
      g_needle = nullptr;
      std::string s = "where " + w[1] + " " + w[2] + " n=" + std::to_string(hits.size()) + " k=";
      for (uint64_t k : hits) s += std::to_string(k) + ",";
      return s;
    }
    if (w[0] == "fault" || w[0] == "multi") return run_fault(w);
    if (w[0] == "b") return b_step(w);
    if (w[0] == "c") return c_step(w);
    if (w[0] == "j") return j_step(w);
    return ops_step(w);
  });
}
