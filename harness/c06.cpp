// C06 harness: the real CallConv::init / FuncDetail::init / BaseEmitter::emit_args_assignment behind the line protocol
// of lean/Driver/C06.lean.
//
//   cc <env> <ccid>                                   -> every field of the CallConv record
//   fd <env> <ccid> <va> <ret tid> <n> <tid>*n        -> expanded signature (FuncDetail)
//   sh <env> <flags> <n> (<src> <dst>)*n [sa <id>]    -> abstract instruction list emitted by emit_args_assignment
//
// env: x86l x86w x64l x64w a64l a64d.  Values are printed as R<regtype>.<id>.<typeid>[i] / S<offset>.<typeid>[i] / U<typeid>.
#include <asmjit/core.h>
#include <asmjit/x86.h>
#include <asmjit/a64.h>
#include "vh.h"
#include <asmjit/x86/x86compiler.h>
#include <asmjit/arm/a64compiler.h>
#include <signal.h>
#include <string.h>
#include <unistd.h>

using namespace asmjit;

static bool parse_env(const std::string& s, Environment& env) {
  if (s == "x86l") env = Environment(Arch::kX86, SubArch::kUnknown, Vendor::kUnknown, Platform::kLinux, PlatformABI::kGNU);
  else if (s == "x86w") env = Environment(Arch::kX86, SubArch::kUnknown, Vendor::kUnknown, Platform::kWindows, PlatformABI::kMSVC);
  else if (s == "x64l") env = Environment(Arch::kX64, SubArch::kUnknown, Vendor::kUnknown, Platform::kLinux, PlatformABI::kGNU);
  else if (s == "x64w") env = Environment(Arch::kX64, SubArch::kUnknown, Vendor::kUnknown, Platform::kWindows, PlatformABI::kMSVC);
  else if (s == "a64l") env = Environment(Arch::kAArch64, SubArch::kUnknown, Vendor::kUnknown, Platform::kLinux, PlatformABI::kGNU);
  else if (s == "a64d") env = Environment(Arch::kAArch64, SubArch::kUnknown, Vendor::kUnknown, Platform::kOSX, PlatformABI::kDarwin);
  else return false;
  return true;
}

static std::string err_name(Error e) {
  const char* s = DebugUtils::error_as_string(e);
  return std::string("err ") + (s ? s : "?");
}

static std::string val_str(const FuncValue& v) {
  std::string s;
  if (v.is_reg()) s = "R" + std::to_string(uint32_t(v.reg_type())) + "." + std::to_string(v.reg_id()) + "." + std::to_string(uint32_t(v.type_id()));
  else if (v.is_stack()) s = "S" + std::to_string(v.stack_offset()) + "." + std::to_string(uint32_t(v.type_id()));
  else s = "U" + std::to_string(uint32_t(v.type_id()));
  if (v.is_indirect()) s += "i";
  return s;
}

static std::string pack_str(const FuncValuePack& p) {
  uint32_t n = p.count();
  if (!n) return "-";
  std::string s;
  for (uint32_t i = 0; i < n; i++) { if (i) s += "/"; s += val_str(p[i]); }
  return s;
}

static std::string cc_str(const CallConv& cc) {
  std::string s = "ok id=" + std::to_string(uint32_t(cc.id())) + " strat=" + std::to_string(uint32_t(cc.strategy())) +
    " rz=" + std::to_string(cc.red_zone_size()) + " sz=" + std::to_string(cc.spill_zone_size()) +
    " nsa=" + std::to_string(cc.natural_stack_alignment()) + " flags=" + vh::to_hex(uint32_t(cc.flags()));
  for (uint32_t g = 0; g < 4; g++) {
    s += " g" + std::to_string(g) + "=";
    const uint8_t* o = cc.passed_order(RegGroup(g));
    for (uint32_t i = 0; i < 16; i++) { if (o[i] == 0xFF) break; if (i) s += ","; s += std::to_string(o[i]); }
    s += ";";
    // everything after the first 0xFF must be 0xFF too (the model keeps a plain list)
    bool hole = false, seen = false;
    for (uint32_t i = 0; i < 16; i++) { if (o[i] == 0xFF) seen = true; else if (seen) hole = true; }
    if (hole) s += "HOLE;";
    s += vh::to_hex(cc.passed_regs(RegGroup(g))) + ";" + vh::to_hex(cc.preserved_regs(RegGroup(g))) + ";" +
         std::to_string(cc.save_restore_reg_size(RegGroup(g))) + ";" + std::to_string(cc.save_restore_alignment(RegGroup(g)));
  }
  return s;
}

static std::string do_cc(const std::vector<std::string>& w) {
  Environment env; uint64_t id;
  if (w.size() != 3 || !parse_env(w[1], env) || !vh::parse_u64(w[2], id) || id > 255) return "bad-op";
  CallConv cc;
  Error e = cc.init(CallConvId(id), env);
  if (e != Error::kOk) return err_name(e);
  return cc_str(cc);
}

static bool build_sig(const std::vector<std::string>& w, size_t at, FuncSignature& sig, Environment& env, size_t& end) {
  uint64_t id, va, ret, n;
  if (w.size() < at + 5 || !parse_env(w[at], env) || !vh::parse_u64(w[at + 1], id) || !vh::parse_u64(w[at + 2], va) ||
      !vh::parse_u64(w[at + 3], ret) || !vh::parse_u64(w[at + 4], n)) return false;
  if (id > 255 || va > 255 || ret > 255 || n > 32 || w.size() < at + 5 + n) return false;
  sig = FuncSignature(CallConvId(id), uint32_t(va));
  sig.set_ret(TypeId(ret));
  for (uint64_t i = 0; i < n; i++) {
    uint64_t t;
    if (!vh::parse_u64(w[at + 5 + i], t) || t > 255) return false;
    sig.add_arg(TypeId(t));
  }
  end = at + 5 + n;
  return true;
}

static std::string do_fd(const std::vector<std::string>& w) {
  Environment env; FuncSignature sig; size_t end;
  if (!build_sig(w, 1, sig, env, end) || end != w.size()) return "bad-op";
  FuncDetail fd;
  Error e = fd.init(sig, env);
  if (e != Error::kOk) return err_name(e);
  std::string s = "ok ss=" + std::to_string(fd.arg_stack_size()) + " ret=" + pack_str(fd.ret_pack()) + " args=";
  for (uint32_t i = 0; i < fd.arg_count(); i++) { if (i) s += ","; s += pack_str(fd.arg_pack(i)); }
  if (!fd.arg_count()) s += "-";
  s += " used=";
  for (uint32_t g = 0; g < 4; g++) { if (g) s += ":"; s += vh::to_hex(fd.used_regs(RegGroup(g))); }
  return s;
}

// ------------------------------------------------------------------------------------------------------------------
// argument shuffle
//   sh <env> <ccid> <va> <ret> <n> <tid>*n  <frameflags> <sa|-> <dst>*n
//     frameflags: bit0 preserved-fp, bit1 avx, bit2 avx512, bits 8.. local stack alignment (0 = none)
//     dst: '-' (not assigned) | r<regtype>.<id>[.<typeid>] | s<offset>[.<typeid>]
//   answer: ok <inst>;<inst>;...   with inst = <name> <op> <op> ; operands r<regtype>.<id> or m<base id>.<offset>.<size>
// ------------------------------------------------------------------------------------------------------------------

static std::string op_str(const Operand_& o) {
  if (o.is_reg()) {
    const Reg& r = o.as<Reg>();
    return "r" + std::to_string(uint32_t(r.reg_type())) + "." + std::to_string(r.id());
  }
  if (o.is_mem()) {
    const BaseMem& m = o.as<BaseMem>();
    return "m" + std::to_string(m.base_id()) + "." + std::to_string(m.offset_lo32()) + "." + std::to_string(o.signature().size());
  }
  return "?";
}

static std::string do_sh(const std::vector<std::string>& w) {
  Environment env; FuncSignature sig; size_t at;
  if (!build_sig(w, 1, sig, env, at)) return "bad-op";
  uint32_t n = sig.arg_count();
  if (w.size() != at + 2 + n) return "bad-op";
  uint64_t ff;
  if (!vh::parse_hex(w[at], ff)) return "bad-op";
  FuncDetail fd;
  Error e = fd.init(sig, env);
  if (e != Error::kOk) return "fd-" + err_name(e);
  FuncFrame frame;
  e = frame.init(fd);
  if (e != Error::kOk) return "frame-" + err_name(e);
  if (ff & 1) frame.set_preserved_fp();
  if (ff & 2) frame.set_avx_enabled();
  if (ff & 4) frame.set_avx512_enabled();
  if (ff >> 8) frame.set_local_stack_alignment(uint32_t(ff >> 8));
  FuncArgsAssignment args(&fd);
  if (w[at + 1] != "-") {
    uint64_t sa;
    if (!vh::parse_u64(w[at + 1], sa) || sa > 255) return "bad-op";
    args.set_sa_reg_id(uint32_t(sa));
  }
  for (uint32_t i = 0; i < n; i++) {
    const std::string& d = w[at + 2 + i];
    if (d == "-") continue;
    if (d.size() < 2) return "bad-op";
    std::vector<uint64_t> f;
    size_t p = 1;
    while (p <= d.size()) {
      size_t q = d.find('.', p);
      if (q == std::string::npos) q = d.size();
      int64_t v;
      if (!vh::parse_i64(d.substr(p, q - p), v)) return "bad-op";
      f.push_back(uint64_t(v));
      p = q + 1;
    }
    if (d[0] == 'r') {
      if (f.size() < 2 || f.size() > 3 || f[0] > 31 || f[1] > 255) return "bad-op";
      args.assign_reg(i, RegType(f[0]), uint32_t(f[1]), f.size() == 3 ? TypeId(f[2]) : TypeId::kVoid);
    }
    else if (d[0] == 's') {
      if (f.size() < 1 || f.size() > 2) return "bad-op";
      args.assign_stack(i, int32_t(int64_t(f[0])), f.size() == 2 ? TypeId(f[1]) : TypeId::kVoid);
    }
    else return "bad-op";
  }
  e = args.update_func_frame(frame);
  if (e != Error::kOk) return "upd-" + err_name(e);
  e = frame.finalize();
  if (e != Error::kOk) return "fin-" + err_name(e);

  CodeHolder code;
  code.init(env);
  std::string out;
  Error ee;
  BaseBuilder* bb;
  x86::Builder xb; a64::Builder ab;
  if (env.is_family_x86()) { code.attach(&xb); bb = &xb; ee = xb.emit_args_assignment(frame, args); }
  else { code.attach(&ab); bb = &ab; ee = ab.emit_args_assignment(frame, args); }
  std::string insts;
  for (BaseNode* node = bb->first_node(); node; node = node->next()) {
    if (!node->is_inst()) continue;
    InstNode* in = node->as<InstNode>();
    String nm;
    InstAPI::inst_id_to_string(env.arch(), in->inst_id(), InstStringifyOptions::kNone, nm);
    if (!insts.empty()) insts += ";";
    insts += nm.data();
    for (uint32_t k = 0; k < in->op_count(); k++) insts += " " + op_str(in->op(k));
  }
  std::string head = (ee == Error::kOk) ? std::string("ok") : err_name(ee);
  head += " sa=" + std::to_string(frame.sa_reg_id()) + "." + std::to_string(frame.has_dynamic_alignment() ? 1 : 0) + "." +
          std::to_string(frame.sa_offset(frame.sa_reg_id()));
  // what emit_args_assignment reads of the frame (inputs of the Lean model)
  head += " fr=" + std::to_string(frame.has_preserved_fp() ? 1 : 0) + "." + std::to_string(frame.has_dynamic_alignment() ? 1 : 0) + "." +
          std::to_string(frame.sa_reg_id()) + "." + std::to_string(int32_t(frame.sa_offset_from_sp())) + "." +
          std::to_string(int32_t(frame.sa_offset_from_sa()));
  for (uint32_t g = 0; g < 4; g++) head += "." + std::to_string(frame.dirty_regs(RegGroup(g)));
  for (uint32_t g = 0; g < 4; g++) head += "." + std::to_string(frame.preserved_regs(RegGroup(g)));
  return head + " | " + insts;
}


// ------------------------------------------------------------------------------------------------------------------
// invoke lowering (x86::Compiler, RACFGBuilder::on_before_invoke and its move_* helpers + the frame's call-stack fields)
//   iv <env> <ccid> <flags> <n> <tid>=<op>*n
//     env: x86l x86w x64l x64w (the caller is a `void f(void)` cdecl function of that environment), ccid: the callee's convention
//     flags: bit0 a 16-byte local (`new_stack`) holding 4 marker dwords 0x5A5A5A50+k written before the arguments are built,
//            bit1 avx, bit2 avx512
//     op: i<hex>      immediate (64-bit two's complement)
//         r<srctid>   a fresh GP virtual register of that type, initialised with `mov reg, 0x8877665544332211 * (k+1)` (truncated)
//         v<srctid>   a fresh vector virtual register of that type, loaded from the magic address 0x7E0000000000 + 64*k
//                     (x86-32: 0x7E000000 + 64*k)
//   answer: ok ass=<invoke arg_stack_size> css=<call_stack_size> csa=<call_stack_alignment> lso=<local_stack_offset>
//              lss=<local_stack_size> fss=<final_stack_size> da=<0|1> | <inst>;...   the final (post-RA) instructions from the
//           marker `nop` to the `call` (and what follows it up to the next marker); operands r<regtype>.<id> m<base>.<off>.<size>
//           i<hex>; instructions the harness emitted itself (initialisation) carry the prefix '#'
// ------------------------------------------------------------------------------------------------------------------
static std::string iv_op_str(const Operand_& o) {
  if (o.is_imm()) return "i" + vh::to_hex(uint64_t(o.as<Imm>().value()));
  if (o.is_mem()) {
    const BaseMem& m = o.as<BaseMem>();
    if (m.has_index() || !m.has_base_reg()) return "m?";
    return "m" + std::to_string(m.base_id()) + "." + std::to_string(m.offset_lo32()) + "." + std::to_string(o.signature().size());
  }
  return op_str(o);
}

// ------------------------------------------------------------------------------------------------------------------
// invoke lowering on AArch64 (a64::Compiler, a64rapass.cpp RACFGBuilder::on_before_invoke / move_imm_to_reg_arg /
// move_imm_to_stack_arg / move_reg_to_stack_arg); same line format as `iv` with env a64l (AAPCS64) / a64d (Apple arm64).
// Not executed.  The stack pointer is register id 31.
// ------------------------------------------------------------------------------------------------------------------
static std::string do_iv_a64(const std::vector<std::string>& w, const Environment& env, uint64_t ccid, uint64_t flags, uint64_t n) {
  CodeHolder code;
  code.init(env);
  a64::Compiler cc(&code);
  FuncNode* fn = nullptr;
  FuncSignature fsig(CallConvId::kCDecl);
  fsig.set_ret(TypeId::kVoid);
  Error e = cc.add_func_node(Out<FuncNode*>(fn), fsig);
  if (e != Error::kOk) return "func-" + err_name(e);
  cc.emit(a64::Inst::kIdNop);
  a64::Mem loc;
  if (flags & 1) {
    loc = cc.new_stack(16, 16);
    for (int k = 0; k < 4; k++) {
      a64::Gp t = cc.new_gp32();
      cc.emit(a64::Inst::kIdMov, t, Imm(0x5A5A5A50 + k)); cc.cursor()->set_user_data_as_uint64(7);
      a64::Mem m = loc; m.add_offset(4 * k);
      cc.emit(a64::Inst::kIdStr, t, m); cc.cursor()->set_user_data_as_uint64(7);
    }
  }
  FuncSignature sig{CallConvId(ccid)};
  sig.set_ret(TypeId::kVoid);
  std::vector<Operand> ops;
  for (uint64_t i = 0; i < n; i++) {
    const std::string& a = w[5 + i];
    size_t eq = a.find('=');
    uint64_t tid;
    if (eq == std::string::npos || eq + 2 > a.size() || !vh::parse_u64(a.substr(0, eq), tid) || tid > 255) return "bad-op";
    sig.add_arg(TypeId(tid));
    char k = a[eq + 1];
    std::string rest = a.substr(eq + 2);
    if (k == 'i') {
      uint64_t v;
      if (!vh::parse_hex(rest, v)) return "bad-op";
      ops.push_back(Imm(int64_t(v)));
    }
    else if (k == 'r' || k == 'v') {
      uint64_t st;
      if (!vh::parse_u64(rest, st) || st > 255) return "bad-op";
      Reg r;
      e = cc._new_reg(Out<Reg>(r), TypeId(st), nullptr);
      if (e != Error::kOk) return "newreg-" + err_name(e);
      if (k == 'r') {
        if (!r.is_gp()) return "bad-op";
        uint64_t val = 0x8877665544332211ull * (i + 1);
        if (r.size() < 8) val &= 0xFFFFFFFFull;
        e = cc.emit(a64::Inst::kIdMov, r, Imm(int64_t(val)));
        cc.cursor()->set_user_data_as_uint64(7);
      }
      else {
        if (!r.is_vec()) return "bad-op";
        a64::Gp t = cc.new_gp64();
        cc.emit(a64::Inst::kIdMov, t, Imm(int64_t(0x7E0000000000ull + 64 * i)));
        cc.cursor()->set_user_data_as_uint64(7);
        e = cc.emit(a64::Inst::kIdLdr_v, r, a64::ptr(t));
        cc.cursor()->set_user_data_as_uint64(7);
      }
      if (e != Error::kOk) return "init-" + err_name(e);
      ops.push_back(r);
    }
    else return "bad-op";
  }
  InvokeNode* inv = nullptr;
  a64::Gp target = cc.new_gp64();
  cc.emit(a64::Inst::kIdMov, target, Imm(uint64_t(0x10000))); cc.cursor()->set_user_data_as_uint64(7);
  e = cc.add_invoke_node(Out<InvokeNode*>(inv), a64::Inst::kIdBlr, target, sig);
  if (e != Error::kOk) return "invoke-" + err_name(e);
  for (uint64_t i = 0; i < n; i++) {
    if (ops[i].is_imm()) inv->set_arg(uint32_t(i), ops[i].as<Imm>()); else inv->set_arg(uint32_t(i), ops[i].as<Reg>());
  }
  cc.emit(a64::Inst::kIdNop);
  if (flags & 1) { a64::Gp t = cc.new_gp32(); cc.emit(a64::Inst::kIdLdr, t, loc); }
  cc.end_func();
  e = cc.finalize();
  if (e != Error::kOk) return "fin-" + err_name(e);
  const FuncFrame& fr = fn->frame();
  std::string head = "ok ass=" + std::to_string(inv->detail().arg_stack_size()) + " css=" + std::to_string(fr.call_stack_size()) +
    " csa=" + std::to_string(fr.call_stack_alignment()) + " lso=" + std::to_string(fr.local_stack_offset()) +
    " lss=" + std::to_string(fr.local_stack_size()) + " fss=" + std::to_string(fr.final_stack_size()) +
    " da=" + std::to_string(fr.has_dynamic_alignment() ? 1 : 0);
  std::string insts;
  int markers = 0;
  for (BaseNode* node = cc.first_node(); node && markers < 2; node = node->next()) {
    if (!node->is_inst() && node->type() != NodeType::kInvoke) continue;
    InstNode* in = node->as<InstNode>();
    if (in->inst_id() == a64::Inst::kIdNop) { markers++; continue; }
    if (!markers) continue;
    String nm;
    InstAPI::inst_id_to_string(env.arch(), in->inst_id(), InstStringifyOptions::kNone, nm);
    if (!insts.empty()) insts += ";";
    if (in->user_data_as_uint64() == 7) insts += "#";
    insts += nm.data();
    for (uint32_t k = 0; k < in->op_count(); k++) insts += " " + iv_op_str(in->op(k));
  }
  return head + " | " + insts;
}

static std::string do_iv(const std::vector<std::string>& w) {
  Environment env; uint64_t ccid, flags, n;
  if (w.size() < 5 || !parse_env(w[1], env) || !vh::parse_u64(w[2], ccid) || !vh::parse_hex(w[3], flags) ||
      !vh::parse_u64(w[4], n) || ccid > 255 || n > 32 || w.size() != 5 + n) return "bad-op";
  if (!env.is_family_x86()) return do_iv_a64(w, env, ccid, flags, n);
  bool is64 = env.is_64bit();
  CodeHolder code;
  code.init(env);
  x86::Compiler cc(&code);
  FuncNode* fn = nullptr;
  FuncSignature fsig(CallConvId::kCDecl);
  fsig.set_ret(TypeId::kVoid);
  Error e = cc.add_func_node(Out<FuncNode*>(fn), fsig);
  if (e != Error::kOk) return "func-" + err_name(e);
  if (flags & 2) fn->frame().set_avx_enabled();
  if (flags & 4) fn->frame().set_avx512_enabled();
  cc.emit(x86::Inst::kIdNop);
  x86::Mem loc;
  if (flags & 1) {
    loc = cc.new_stack(16, 16);
    for (int k = 0; k < 4; k++) { x86::Mem m = loc; m.add_offset(4 * k); m.set_size(4); cc.emit(x86::Inst::kIdMov, m, Imm(0x5A5A5A50 + k)); cc.cursor()->set_user_data_as_uint64(7); }
  }
  FuncSignature sig{CallConvId(ccid)};
  sig.set_ret(TypeId::kVoid);
  std::vector<Operand> ops;
  std::vector<uint32_t> split;   // x86-32: 64-bit integer immediates are passed as two halves (value_index 0 / 1), as a user has to
  for (uint64_t i = 0; i < n; i++) {
    const std::string& a = w[5 + i];
    size_t eq = a.find('=');
    uint64_t tid;
    if (eq == std::string::npos || eq + 2 > a.size() || !vh::parse_u64(a.substr(0, eq), tid) || tid > 255) return "bad-op";
    sig.add_arg(TypeId(tid));
    char k = a[eq + 1];
    std::string rest = a.substr(eq + 2);
    if (k == 'i') {
      uint64_t v;
      if (!vh::parse_hex(rest, v)) return "bad-op";
      ops.push_back(Imm(int64_t(v)));
      if (!is64 && TypeUtils::size_of(TypeId(tid)) == 8 && TypeUtils::is_int(TypeId(tid))) split.push_back(uint32_t(i));
    }
    else if (k == 'r' || k == 'v') {
      uint64_t st;
      if (!vh::parse_u64(rest, st) || st > 255) return "bad-op";
      Reg r;
      e = cc._new_reg(Out<Reg>(r), TypeId(st), nullptr);
      if (e != Error::kOk) return "newreg-" + err_name(e);
      if (k == 'r') {
        if (!r.is_gp()) return "bad-op";
        uint64_t val = 0x8877665544332211ull * (i + 1);
        uint32_t sz = r.size();
        if (sz < 8) val &= (uint64_t(1) << (sz * 8)) - 1;
        e = cc.emit(x86::Inst::kIdMov, r, Imm(int64_t(val)));
        cc.cursor()->set_user_data_as_uint64(7);
      }
      else {
        if (!r.is_vec()) return "bad-op";
        x86::Gp t = is64 ? cc.new_gp64() : cc.new_gp32();
        uint64_t addr = (is64 ? 0x7E0000000000ull : 0x7E000000ull) + 64 * i;
        cc.emit(x86::Inst::kIdMov, t, Imm(int64_t(addr)));
        cc.cursor()->set_user_data_as_uint64(7);
        e = cc.emit(r.size() > 16 ? x86::Inst::kIdVmovups : x86::Inst::kIdMovups, r, x86::ptr(t));
        cc.cursor()->set_user_data_as_uint64(7);
      }
      if (e != Error::kOk) return "init-" + err_name(e);
      ops.push_back(r);
    }
    else return "bad-op";
  }
  InvokeNode* inv = nullptr;
  e = cc.add_invoke_node(Out<InvokeNode*>(inv), x86::Inst::kIdCall, Imm(uint64_t(0x10000)), sig);
  if (e != Error::kOk) return "invoke-" + err_name(e);
  for (uint64_t i = 0; i < n; i++) {
    if (ops[i].is_imm()) inv->set_arg(uint32_t(i), ops[i].as<Imm>()); else inv->set_arg(uint32_t(i), ops[i].as<Reg>());
  }
  for (uint32_t i : split) {
    uint64_t v = uint64_t(ops[i].as<Imm>().value());
    inv->set_arg(i, 0, Imm(int64_t(v & 0xFFFFFFFFu)));
    inv->set_arg(i, 1, Imm(int64_t(v >> 32)));
  }
  cc.emit(x86::Inst::kIdNop);
  if (flags & 1) { x86::Gp t = cc.new_gp32(); x86::Mem m = loc; m.set_size(4); cc.emit(x86::Inst::kIdMov, t, m); }
  cc.end_func();
  e = cc.finalize();
  if (e != Error::kOk) return "fin-" + err_name(e);
  const FuncFrame& fr = fn->frame();
  std::string head = "ok ass=" + std::to_string(inv->detail().arg_stack_size()) + " css=" + std::to_string(fr.call_stack_size()) +
    " csa=" + std::to_string(fr.call_stack_alignment()) + " lso=" + std::to_string(fr.local_stack_offset()) +
    " lss=" + std::to_string(fr.local_stack_size()) + " fss=" + std::to_string(fr.final_stack_size()) +
    " da=" + std::to_string(fr.has_dynamic_alignment() ? 1 : 0);
  std::string insts;
  int markers = 0;
  for (BaseNode* node = cc.first_node(); node && markers < 2; node = node->next()) {
    if (!node->is_inst() && node->type() != NodeType::kInvoke) continue;
    InstNode* in = node->as<InstNode>();
    if (in->inst_id() == x86::Inst::kIdNop) { markers++; continue; }
    if (!markers) continue;
    String nm;
    InstAPI::inst_id_to_string(env.arch(), in->inst_id(), InstStringifyOptions::kNone, nm);
    if (!insts.empty()) insts += ";";
    if (in->user_data_as_uint64() == 7) insts += "#";
    insts += nm.data();
    for (uint32_t k = 0; k < in->op_count(); k++) insts += " " + iv_op_str(in->op(k));
  }
  return head + " | " + insts;
}

// ------------------------------------------------------------------------------------------------------------------
// invoke lowering, executed on the host (x86-64 SysV caller; SysV or Microsoft x64 callee)
//   ivx <ccid> <flags> <n> <tid>=<op>*n        ccid 32 (SysV) | 33 (Win64); flags bit1 avx
//     the JIT function is `void f(void)`; the callee is a stub that captures every argument register, the stack-argument area and
//     (through the FuncDetail) the pointees of by-reference arguments.  op as in `iv`; vector registers are loaded from a real
//     buffer whose byte j of vector k is (17 * k + j + 1) & 0xFF.
//   answer: ok <arg>*n   with arg = g<hex64> (GP register or 8-byte stack slot) | b<hex bytes> (vector register / stack vector /
//           pointee of a by-reference argument)
// ------------------------------------------------------------------------------------------------------------------
#if defined(__x86_64__) && defined(__linux__)
extern "C" {
struct IvxCap { uint64_t gp[6]; uint8_t xmm[8][16]; uint64_t stack[32]; };
IvxCap ivx_cap;
static const FuncDetail* ivx_fd;
static uint8_t ivx_ind[32][64];
uint8_t ivx_vecs[32][64];

void ivx_capture_more() {
  // pointees of by-reference arguments (the temporaries live in the caller's frame: copy them while the call is in progress)
  const FuncDetail& fd = *ivx_fd;
  static const uint8_t sysv_gp[6] = {7, 6, 2, 1, 8, 9};
  for (uint32_t i = 0; i < fd.arg_count(); i++) {
    const FuncValue& v = fd.arg(i);
    if (!v.is_indirect()) continue;
    uint64_t p = 0;
    if (v.is_reg()) { for (int k = 0; k < 6; k++) if (sysv_gp[k] == v.reg_id()) p = ivx_cap.gp[k]; }
    else p = ivx_cap.stack[uint32_t(v.stack_offset()) / 8];
    memcpy(ivx_ind[i], reinterpret_cast<const void*>(uintptr_t(p)), 64 <= TypeUtils::size_of(v.type_id()) ? 64 : TypeUtils::size_of(v.type_id()));
  }
}

// captures rdi rsi rdx rcx r8 r9, xmm0-7 and 32 qwords of stack arguments; preserves everything a Microsoft x64 callee must preserve
__attribute__((naked)) void ivx_stub() {
  __asm__ volatile(
    "leaq ivx_cap(%rip), %rax\n"
    "movq %rdi, 0(%rax)\n movq %rsi, 8(%rax)\n movq %rdx, 16(%rax)\n movq %rcx, 24(%rax)\n movq %r8, 32(%rax)\n movq %r9, 40(%rax)\n"
    "movups %xmm0, 48(%rax)\n movups %xmm1, 64(%rax)\n movups %xmm2, 80(%rax)\n movups %xmm3, 96(%rax)\n"
    "movups %xmm4, 112(%rax)\n movups %xmm5, 128(%rax)\n movups %xmm6, 144(%rax)\n movups %xmm7, 160(%rax)\n"
    "xorl %ecx, %ecx\n"
    "1: movq 8(%rsp,%rcx,8), %rdx\n movq %rdx, 176(%rax,%rcx,8)\n incl %ecx\n cmpl $32, %ecx\n jne 1b\n"
    "pushq %rbp\n movq %rsp, %rbp\n andq $-16, %rsp\n subq $192, %rsp\n"
    "movq %rdi, 0(%rsp)\n movq %rsi, 8(%rsp)\n"
    "movups %xmm6, 16(%rsp)\n movups %xmm7, 32(%rsp)\n movups %xmm8, 48(%rsp)\n movups %xmm9, 64(%rsp)\n movups %xmm10, 80(%rsp)\n"
    "movups %xmm11, 96(%rsp)\n movups %xmm12, 112(%rsp)\n movups %xmm13, 128(%rsp)\n movups %xmm14, 144(%rsp)\n movups %xmm15, 160(%rsp)\n"
    "call ivx_capture_more\n"
    "movq 0(%rsp), %rdi\n movq 8(%rsp), %rsi\n"
    "movups 16(%rsp), %xmm6\n movups 32(%rsp), %xmm7\n movups 48(%rsp), %xmm8\n movups 64(%rsp), %xmm9\n movups 80(%rsp), %xmm10\n"
    "movups 96(%rsp), %xmm11\n movups 112(%rsp), %xmm12\n movups 128(%rsp), %xmm13\n movups 144(%rsp), %xmm14\n movups 160(%rsp), %xmm15\n"
    "movq %rbp, %rsp\n popq %rbp\n ret\n");
}
}

static std::string do_ivx(const std::vector<std::string>& w) {
  uint64_t ccid, flags, n;
  if (w.size() < 4 || !vh::parse_u64(w[1], ccid) || !vh::parse_hex(w[2], flags) || !vh::parse_u64(w[3], n) ||
      (ccid != 32 && ccid != 33) || n > 16 || w.size() != 4 + n) return "bad-op";
  Environment env(Arch::kX64, SubArch::kUnknown, Vendor::kUnknown, Platform::kLinux, PlatformABI::kGNU);
  JitRuntime rt;
  CodeHolder code;
  code.init(rt.environment(), rt.cpu_features());
  x86::Compiler cc(&code);
  FuncNode* fn = nullptr;
  FuncSignature fsig(CallConvId::kCDecl);
  fsig.set_ret(TypeId::kVoid);
  Error e = cc.add_func_node(Out<FuncNode*>(fn), fsig);
  if (e != Error::kOk) return "func-" + err_name(e);
  if (flags & 2) fn->frame().set_avx_enabled();
  FuncSignature sig{CallConvId(ccid)};
  sig.set_ret(TypeId::kVoid);
  std::vector<Operand> ops;
  for (uint64_t i = 0; i < n; i++) {
    const std::string& a = w[4 + i];
    size_t eq = a.find('=');
    uint64_t tid;
    if (eq == std::string::npos || eq + 2 > a.size() || !vh::parse_u64(a.substr(0, eq), tid) || tid > 255) return "bad-op";
    sig.add_arg(TypeId(tid));
    char k = a[eq + 1];
    std::string rest = a.substr(eq + 2);
    if (k == 'i') {
      uint64_t v;
      if (!vh::parse_hex(rest, v)) return "bad-op";
      ops.push_back(Imm(int64_t(v)));
    }
    else if (k == 'r' || k == 'v') {
      uint64_t st;
      if (!vh::parse_u64(rest, st) || st > 255) return "bad-op";
      Reg r;
      e = cc._new_reg(Out<Reg>(r), TypeId(st), nullptr);
      if (e != Error::kOk) return "newreg-" + err_name(e);
      if (k == 'r') {
        if (!r.is_gp()) return "bad-op";
        uint64_t val = 0x8877665544332211ull * (i + 1);
        uint32_t sz = r.size();
        if (sz < 8) val &= (uint64_t(1) << (sz * 8)) - 1;
        e = cc.emit(x86::Inst::kIdMov, r, Imm(int64_t(val)));
      }
      else {
        if (!r.is_vec() || r.size() > 32 || (r.size() > 16 && !(flags & 2))) return "bad-op";
        for (int j = 0; j < 64; j++) ivx_vecs[i][j] = uint8_t(17 * i + j + 1);
        x86::Gp t = cc.new_gp64();
        cc.emit(x86::Inst::kIdMov, t, Imm(int64_t(uintptr_t(ivx_vecs[i]))));
        e = cc.emit(r.size() > 16 ? x86::Inst::kIdVmovups : x86::Inst::kIdMovups, r, x86::ptr(t));
      }
      if (e != Error::kOk) return "init-" + err_name(e);
      ops.push_back(r);
    }
    else return "bad-op";
  }
  InvokeNode* inv = nullptr;
  e = cc.add_invoke_node(Out<InvokeNode*>(inv), x86::Inst::kIdCall, Imm(uint64_t(uintptr_t(&ivx_stub))), sig);
  if (e != Error::kOk) return "invoke-" + err_name(e);
  for (uint64_t i = 0; i < n; i++) {
    if (ops[i].is_imm()) inv->set_arg(uint32_t(i), ops[i].as<Imm>()); else inv->set_arg(uint32_t(i), ops[i].as<Reg>());
  }
  cc.end_func();
  e = cc.finalize();
  if (e != Error::kOk) return "fin-" + err_name(e);
  void (*f)() = nullptr;
  e = rt.add(&f, &code);
  if (e != Error::kOk) return "jit-" + err_name(e);
  memset(&ivx_cap, 0xCC, sizeof(ivx_cap));
  memset(ivx_ind, 0xCC, sizeof(ivx_ind));
  ivx_fd = &inv->detail();
  f();
  static const uint8_t sysv_gp[6] = {7, 6, 2, 1, 8, 9};
  const FuncDetail& fd = inv->detail();
  std::string out = "ok";
  for (uint32_t i = 0; i < fd.arg_count(); i++) {
    const FuncValue& v = fd.arg(i);
    uint32_t sz = TypeUtils::size_of(v.type_id());
    out += " ";
    if (v.is_indirect()) out += "b" + vh::bytes_to_hex(ivx_ind[i], sz > 64 ? 64 : sz);
    else if (v.is_reg()) {
      if (RegUtils::group_of(v.reg_type()) == RegGroup::kGp) {
        uint64_t g = 0xDEADDEADDEADDEADull;
        for (int k = 0; k < 6; k++) if (sysv_gp[k] == v.reg_id()) g = ivx_cap.gp[k];
        out += "g" + vh::to_hex(g);
      }
      else if (RegUtils::group_of(v.reg_type()) == RegGroup::kVec && v.reg_id() < 8) out += "b" + vh::bytes_to_hex(ivx_cap.xmm[v.reg_id()], sz > 16 ? 16 : sz);
      else out += "?";
    }
    else if (v.is_stack()) {
      uint32_t off = uint32_t(v.stack_offset());
      if (off + (sz < 8 ? 8 : sz) > sizeof(ivx_cap.stack)) out += "?";
      else if (TypeUtils::is_int(v.type_id())) out += "g" + vh::to_hex(ivx_cap.stack[off / 8]);
      else out += "b" + vh::bytes_to_hex(reinterpret_cast<const uint8_t*>(ivx_cap.stack) + off, sz);
    }
    else out += "?";
  }
  rt.release(f);
  return out;
}
#else
static std::string do_ivx(const std::vector<std::string>&) { return "unsupported-host"; }
#endif

static std::string step(const std::string& line) {
  std::vector<std::string> w = vh::words(line);
  if (w.empty()) return "bad-op";
  if (w[0] == "cc") return do_cc(w);
  if (w[0] == "fd") return do_fd(w);
  if (w[0] == "sh") return do_sh(w);
  if (w[0] == "iv") return do_iv(w);
  if (w[0] == "ivx") return do_ivx(w);
  return "bad-op";
}

// emit_args_assignment can fail to terminate (open finding K8): every op runs under a 5 s CPU-time alarm; the process then answers TIMEOUT on
// stderr and exits with 98 (the check isolates the line and reports it)
static void on_alarm(int) { const char m[] = "TIMEOUT emit_args_assignment did not return within 5 s of CPU time\n"; (void)!write(2, m, sizeof(m) - 1); _exit(98); }

static std::string guarded_step(const std::string& line) {
  vh::cpu_alarm(5, on_alarm);
  std::string r = step(line);
  vh::cpu_alarm(0, on_alarm);
  return r;
}

int main() { signal(SIGALRM, on_alarm); return vh::line_loop(guarded_step); }
