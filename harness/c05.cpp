// C05 harness: builds ONE function per input line with the real Compiler (x86 / x86-64 / AArch64) from a small
// program description, tags every user node (BaseNode::set_user_data_as_uint64), dumps the node list before and after
// run_passes() together with InstAPI::query_rw_info of every instruction, and (x86-64 host only) executes the
// generated code on the given inputs.  One description line in, one dump line out.
//
// description := stmt (';' stmt)*           tokens inside a stmt are separated by blanks
//   arch x64|x86|a64 [avx512] [avx]        reg <name> <type>           stk <name> <size> <align>
//   func <ret type|void> <arg type>*        arg <index> <reg>           lab <n>
//   i <mnemonic> <operand>*                 jt <mnemonic> <reg operand> <label n>*
//   call <helper index> <ret reg|-> <reg|#imm>*     ret [<reg operand>]      end
//   run <hex arg>*                          (after `end`; argument of type ptr = the 256-byte buffer)
// operand := name[.view] | #imm | @label | m:<size>:<base|&stack|@label|->:<index|->:<shift>:<disp>
#include <asmjit/core.h>
#include <asmjit/x86.h>
#include <asmjit/a64.h>
#include <csetjmp>
#include <csignal>
#include <map>
#include <utility>
#include <string>
#include <sys/time.h>
#include <vector>
#include "vh.h"

using namespace asmjit;

namespace {

struct Fail { std::string msg; };

static std::vector<std::vector<uint64_t>> g_calls;     // log of helper calls
static uint64_t mix(const std::vector<uint64_t>& a) {
  uint64_t h = 0x9E3779B97F4A7C15ull;
  for (uint64_t x : a) { h ^= x + 0x9E3779B97F4A7C15ull + (h << 6) + (h >> 2); h *= 0xD6E8FEB86659FD93ull; }
  return h;
}
// An adversarial callee: it destroys every caller-saved register the ABI lets it destroy (GP, all vector registers incl. the
// upper halves and zmm16-31, mask registers), so a value the allocator wrongly keeps in such a register across a call is lost.
static void trash_caller_saved() {
#if defined(__x86_64__)
  static const bool has512 = __builtin_cpu_supports("avx512f") && __builtin_cpu_supports("avx512bw");
  if (has512) {
    __asm__ volatile(
      "vpternlogd $0xff, %%zmm0, %%zmm0, %%zmm0\n vpternlogd $0xff, %%zmm1, %%zmm1, %%zmm1\n vpternlogd $0xff, %%zmm2, %%zmm2, %%zmm2\n vpternlogd $0xff, %%zmm3, %%zmm3, %%zmm3\n"
      "vpternlogd $0xff, %%zmm4, %%zmm4, %%zmm4\n vpternlogd $0xff, %%zmm5, %%zmm5, %%zmm5\n vpternlogd $0xff, %%zmm6, %%zmm6, %%zmm6\n vpternlogd $0xff, %%zmm7, %%zmm7, %%zmm7\n"
      "vpternlogd $0xff, %%zmm8, %%zmm8, %%zmm8\n vpternlogd $0xff, %%zmm9, %%zmm9, %%zmm9\n vpternlogd $0xff, %%zmm10, %%zmm10, %%zmm10\n vpternlogd $0xff, %%zmm11, %%zmm11, %%zmm11\n"
      "vpternlogd $0xff, %%zmm12, %%zmm12, %%zmm12\n vpternlogd $0xff, %%zmm13, %%zmm13, %%zmm13\n vpternlogd $0xff, %%zmm14, %%zmm14, %%zmm14\n vpternlogd $0xff, %%zmm15, %%zmm15, %%zmm15\n"
      "vpternlogd $0xff, %%zmm16, %%zmm16, %%zmm16\n vpternlogd $0xff, %%zmm17, %%zmm17, %%zmm17\n vpternlogd $0xff, %%zmm18, %%zmm18, %%zmm18\n vpternlogd $0xff, %%zmm19, %%zmm19, %%zmm19\n"
      "vpternlogd $0xff, %%zmm20, %%zmm20, %%zmm20\n vpternlogd $0xff, %%zmm21, %%zmm21, %%zmm21\n vpternlogd $0xff, %%zmm22, %%zmm22, %%zmm22\n vpternlogd $0xff, %%zmm23, %%zmm23, %%zmm23\n"
      "vpternlogd $0xff, %%zmm24, %%zmm24, %%zmm24\n vpternlogd $0xff, %%zmm25, %%zmm25, %%zmm25\n vpternlogd $0xff, %%zmm26, %%zmm26, %%zmm26\n vpternlogd $0xff, %%zmm27, %%zmm27, %%zmm27\n"
      "vpternlogd $0xff, %%zmm28, %%zmm28, %%zmm28\n vpternlogd $0xff, %%zmm29, %%zmm29, %%zmm29\n vpternlogd $0xff, %%zmm30, %%zmm30, %%zmm30\n vpternlogd $0xff, %%zmm31, %%zmm31, %%zmm31\n"
      "kxnorq %%k0, %%k0, %%k0\n kxnorq %%k1, %%k1, %%k1\n kxnorq %%k2, %%k2, %%k2\n kxnorq %%k3, %%k3, %%k3\n kxnorq %%k4, %%k4, %%k4\n kxnorq %%k5, %%k5, %%k5\n kxnorq %%k6, %%k6, %%k6\n kxnorq %%k7, %%k7, %%k7\n"
      "vzeroupper\n" ::: "memory");
  } else {
    __asm__ volatile(
      "pcmpeqd %%xmm0, %%xmm0\n pcmpeqd %%xmm1, %%xmm1\n pcmpeqd %%xmm2, %%xmm2\n pcmpeqd %%xmm3, %%xmm3\n pcmpeqd %%xmm4, %%xmm4\n pcmpeqd %%xmm5, %%xmm5\n pcmpeqd %%xmm6, %%xmm6\n pcmpeqd %%xmm7, %%xmm7\n"
      "pcmpeqd %%xmm8, %%xmm8\n pcmpeqd %%xmm9, %%xmm9\n pcmpeqd %%xmm10, %%xmm10\n pcmpeqd %%xmm11, %%xmm11\n pcmpeqd %%xmm12, %%xmm12\n pcmpeqd %%xmm13, %%xmm13\n pcmpeqd %%xmm14, %%xmm14\n pcmpeqd %%xmm15, %%xmm15\n"
      ::: "xmm0", "xmm1", "xmm2", "xmm3", "xmm4", "xmm5", "xmm6", "xmm7", "xmm8", "xmm9", "xmm10", "xmm11", "xmm12", "xmm13", "xmm14", "xmm15", "memory");
  }
  __asm__ volatile("mov $0x5a5a5a5a5a5a5a5a, %%rcx\n mov %%rcx, %%rdx\n mov %%rcx, %%rsi\n mov %%rcx, %%rdi\n mov %%rcx, %%r8\n mov %%rcx, %%r9\n mov %%rcx, %%r10\n mov %%rcx, %%r11\n"
                   ::: "rcx", "rdx", "rsi", "rdi", "r8", "r9", "r10", "r11", "cc", "memory");
#endif
}
template<typename... A> static uint64_t helper(A... a) {
  std::vector<uint64_t> v{uint64_t(a)...};
  g_calls.push_back(v);
  uint64_t r = mix(v);
  trash_caller_saved();
  return r;
}
template<size_t> using U64 = uint64_t;
template<size_t... I> static void* helper_ptr_n(std::index_sequence<I...>) { return (void*)(uint64_t(*)(U64<I>...))helper<U64<I>...>; }
static void* helper_ptr(size_t n) {
  switch (n) {
    case 0: return helper_ptr_n(std::make_index_sequence<0>());
    case 1: return helper_ptr_n(std::make_index_sequence<1>());
    case 2: return helper_ptr_n(std::make_index_sequence<2>());
    case 3: return helper_ptr_n(std::make_index_sequence<3>());
    case 4: return helper_ptr_n(std::make_index_sequence<4>());
    case 5: return helper_ptr_n(std::make_index_sequence<5>());
    case 6: return helper_ptr_n(std::make_index_sequence<6>());
    case 7: return helper_ptr_n(std::make_index_sequence<7>());
    case 8: return helper_ptr_n(std::make_index_sequence<8>());
    case 9: return helper_ptr_n(std::make_index_sequence<9>());
    case 10: return helper_ptr_n(std::make_index_sequence<10>());
    case 11: return helper_ptr_n(std::make_index_sequence<11>());
    case 12: return helper_ptr_n(std::make_index_sequence<12>());
    default: return nullptr;
  }
}

// ---- Win64 (ms_abi) callees called from a SysV function: 128-bit vectors are passed BY REFERENCE (the allocator makes stack copies) ----
#if defined(__x86_64__)
#include <emmintrin.h>
static void trash_ms() {   // what a Win64 callee may destroy: rax rcx rdx r8-r11, xmm0-5
  __asm__ volatile("pcmpeqd %%xmm0, %%xmm0\n pcmpeqd %%xmm1, %%xmm1\n pcmpeqd %%xmm2, %%xmm2\n pcmpeqd %%xmm3, %%xmm3\n pcmpeqd %%xmm4, %%xmm4\n pcmpeqd %%xmm5, %%xmm5\n"
                   "mov $0x5a5a5a5a5a5a5a5a, %%rcx\n mov %%rcx, %%rdx\n mov %%rcx, %%r8\n mov %%rcx, %%r9\n mov %%rcx, %%r10\n mov %%rcx, %%r11\n"
                   ::: "xmm0", "xmm1", "xmm2", "xmm3", "xmm4", "xmm5", "rcx", "rdx", "r8", "r9", "r10", "r11", "cc", "memory");
}
static inline void logv(std::vector<uint64_t>& v, __m128i x) { uint64_t t[2]; _mm_storeu_si128((__m128i*)t, x); v.push_back(t[0]); v.push_back(t[1]); }
#define MS_FINISH(v) g_calls.push_back(v); uint64_t r = mix(v); trash_ms(); return r;
__attribute__((ms_abi, noinline)) static uint64_t ms0(__m128i a, uint64_t b) { std::vector<uint64_t> v; logv(v, a); v.push_back(b); MS_FINISH(v) }
__attribute__((ms_abi, noinline)) static uint64_t ms1(uint64_t a, __m128i b, uint64_t c, __m128i d) { std::vector<uint64_t> v; v.push_back(a); logv(v, b); v.push_back(c); logv(v, d); MS_FINISH(v) }
__attribute__((ms_abi, noinline)) static uint64_t ms2(__m128i a, __m128i b, __m128i c, __m128i d) { std::vector<uint64_t> v; logv(v, a); logv(v, b); logv(v, c); logv(v, d); MS_FINISH(v) }
__attribute__((ms_abi, noinline)) static uint64_t ms3(__m128i a, uint64_t b, uint64_t c, __m128i d, uint64_t e, uint64_t f) { std::vector<uint64_t> v; logv(v, a); v.push_back(b); v.push_back(c); logv(v, d); v.push_back(e); v.push_back(f); MS_FINISH(v) }
static void* ms_helper_ptr(size_t k) { switch (k) { case 0: return (void*)ms0; case 1: return (void*)ms1; case 2: return (void*)ms2; case 3: return (void*)ms3; default: return nullptr; } }
static const char* ms_helper_sig(size_t k) { static const char* s[] = {"vu", "uvuv", "vvvv", "vuuvuu"}; return k < 4 ? s[k] : ""; }
#else
static void* ms_helper_ptr(size_t) { return nullptr; }
static const char* ms_helper_sig(size_t) { return ""; }
#endif

struct TypeInfo { const char* name; TypeId id; };
static const TypeInfo kTypes[] = {
  {"i8", TypeId::kInt8}, {"u8", TypeId::kUInt8}, {"i16", TypeId::kInt16}, {"u16", TypeId::kUInt16},
  {"i32", TypeId::kInt32}, {"u32", TypeId::kUInt32}, {"i64", TypeId::kInt64}, {"u64", TypeId::kUInt64},
  {"ptr", TypeId::kUIntPtr}, {"f32", TypeId::kFloat32}, {"f64", TypeId::kFloat64},
  {"v128", TypeId::kInt32x4}, {"v256", TypeId::kInt32x8}, {"v512", TypeId::kInt32x16}, {"v64", TypeId::kInt32x2},
  {"k8", TypeId::kMask8}, {"k16", TypeId::kMask16}, {"k32", TypeId::kMask32}, {"k64", TypeId::kMask64},
};
static TypeId type_of(const std::string& s) {
  for (auto& t : kTypes) if (s == t.name) return t.id;
  throw Fail{"bad type " + s};
}

struct Builder {
  Arch arch = Arch::kX64;
  bool avx = false, avx512 = false;
  CodeHolder code;
  BaseCompiler* cc = nullptr;
  x86::Compiler xcc;
  a64::Compiler acc;
  std::map<std::string, Reg> regs;
  std::map<std::string, BaseMem> stacks;
  std::map<uint64_t, Label> labels;
  std::map<std::string, InstId> names, names_v;
  FuncNode* func = nullptr;
  std::vector<TypeId> arg_types;
  TypeId ret_type = TypeId::kVoid;
  uint64_t next_tag = 1;
  bool no_exec = false;
  bool is_x86() const { return arch != Arch::kAArch64; }

  void check(Error e, const char* what) { if (e != Error::kOk) throw Fail{std::string(what) + ": " + DebugUtils::error_as_string(e)}; }

  void init(const std::vector<std::string>& w) {
    Environment env = Environment::host();
    if (w.size() < 2) throw Fail{"arch?"};
    if (w[1] == "x64") arch = Arch::kX64; else if (w[1] == "x86") arch = Arch::kX86; else if (w[1] == "a64") arch = Arch::kAArch64; else throw Fail{"bad arch"};
    for (size_t i = 2; i < w.size(); i++) { if (w[i] == "avx512") avx512 = avx = true; if (w[i] == "avx") avx = true; }
    env.set_arch(arch);
    check(code.init(env), "code.init");
    if (is_x86()) { check(code.attach(&xcc), "attach"); cc = &xcc; } else { check(code.attach(&acc), "attach"); cc = &acc; }
    // own name table (independent of string_to_inst_id)
    String s;
    for (InstId id = 1; id < 3000; id++) {
      s.clear();
      if (InstAPI::inst_id_to_string(arch, id, InstStringifyOptions::kNone, s) != Error::kOk) break;
      if (s.is_empty()) continue;
      names.emplace(std::string(s.data(), s.size()), id);
      names_v[std::string(s.data(), s.size())] = id;   // AArch64: SIMD ids repeat the GP mnemonics, the later id is the SIMD one
    }
  }

  Label label(uint64_t n) {
    auto it = labels.find(n);
    if (it != labels.end()) return it->second;
    Label l = cc->new_label();
    labels.emplace(n, l);
    return l;
  }

  Reg reg_view(const std::string& tok) {
    size_t dot = tok.find('.');
    std::string name = tok.substr(0, dot), view = dot == std::string::npos ? "" : tok.substr(dot + 1);
    auto it = regs.find(name);
    if (it == regs.end()) throw Fail{"unknown reg " + name};
    Reg r = it->second;
    if (view.empty()) return r;
    if (is_x86()) {
      if (r.is_gp()) {
        x86::Gp g = r.as<x86::Gp>();
        if (view == "r8") return g.r8(); if (view == "r8h") return g.r8_hi(); if (view == "r16") return g.r16();
        if (view == "r32") return g.r32(); if (view == "r64") return g.r64();
      } else if (r.is_vec()) {
        x86::Vec v = r.as<x86::Vec>();
        if (view == "xmm") return v.xmm(); if (view == "ymm") return v.ymm(); if (view == "zmm") return v.zmm();
      }
    } else {
      if (r.is_gp()) {
        a64::Gp g = r.as<a64::Gp>();
        if (view == "w") return g.w(); if (view == "x") return g.x();
      } else if (r.is_vec()) {
        a64::Vec v = r.as<a64::Vec>();
        if (view == "b") return v.b(); if (view == "h") return v.h(); if (view == "s") return v.s(); if (view == "d") return v.d();
        if (view == "q") return v.q(); if (view == "b16") return v.b16(); if (view == "h8") return v.h8(); if (view == "s4") return v.s4();
        if (view == "d2") return v.d2(); if (view == "b8") return v.b8(); if (view == "h4") return v.h4(); if (view == "s2") return v.s2();
      }
    }
    throw Fail{"bad view " + tok};
  }

  Operand operand(const std::string& tok) {
    if (tok.empty()) throw Fail{"empty operand"};
    if (tok[0] == '#') return Imm(int64_t(strtoll(tok.c_str() + 1, nullptr, 0)));
    if (tok[0] == '@') return label(strtoull(tok.c_str() + 1, nullptr, 10));
    if (tok.rfind("m:", 0) == 0) {
      std::vector<std::string> f;
      size_t p = 2;
      while (true) { size_t q = tok.find(':', p); f.push_back(tok.substr(p, q == std::string::npos ? q : q - p)); if (q == std::string::npos) break; p = q + 1; }
      if (f.size() != 5) throw Fail{"bad mem " + tok};
      uint32_t size = uint32_t(atoi(f[0].c_str())), shift = uint32_t(atoi(f[3].c_str()));
      int32_t disp = int32_t(strtol(f[4].c_str(), nullptr, 0));
      bool has_index = f[2] != "-";
      if (is_x86()) {
        x86::Mem m;
        if (f[1][0] == '&') {
          auto it = stacks.find(f[1].substr(1));
          if (it == stacks.end()) throw Fail{"unknown stack"};
          m = it->second.as<x86::Mem>();
          m.add_offset(disp);
          if (has_index) m.set_index(reg_view(f[2]), shift);
        } else if (f[1][0] == '@') {
          Label l = label(strtoull(f[1].c_str() + 1, nullptr, 10));
          m = has_index ? x86::ptr(l, reg_view(f[2]).as<x86::Gp>(), shift, disp) : x86::ptr(l, disp);
        } else {
          x86::Gp b = reg_view(f[1]).as<x86::Gp>();
          m = has_index ? x86::ptr(b, reg_view(f[2]).as<x86::Gp>(), shift, disp) : x86::ptr(b, disp);
        }
        m.set_size(size);
        return m;
      } else {
        a64::Mem m;
        if (f[1][0] == '&') {
          auto it = stacks.find(f[1].substr(1));
          if (it == stacks.end()) throw Fail{"unknown stack"};
          m = it->second.as<a64::Mem>();
          m.add_offset(disp);
        } else if (f[1][0] == '@') {
          m = a64::ptr(label(strtoull(f[1].c_str() + 1, nullptr, 10)), disp);
        } else {
          a64::Gp b = reg_view(f[1]).as<a64::Gp>();
          m = has_index ? (shift ? a64::ptr(b, reg_view(f[2]).as<a64::Gp>(), a64::lsl(shift)) : a64::ptr(b, reg_view(f[2]).as<a64::Gp>())) : a64::ptr(b, disp);
        }
        return m;
      }
    }
    return reg_view(tok);
  }

  void tag_new_nodes(BaseNode* before) {
    // every node appended after `before` by the last emit call gets the next tag (labels are not tagged)
    BaseNode* n = before ? before->next() : cc->first_node();
    for (; n; n = n->next()) {
      if (n->is_inst() || n->type() == NodeType::kInvoke || n->type() == NodeType::kFuncRet || n->type() == NodeType::kJump)
        if (n->user_data_as_uint64() == 0) n->set_user_data_as_uint64(next_tag++);
      if (n == cc->cursor()) break;
    }
  }

  InstId inst_id(const std::string& name0) {
    std::string name = name0;
    if (!is_x86() && name.rfind("b.", 0) == 0) {
      static const char* cc[] = {"al", "na", "eq", "ne", "hs", "lo", "mi", "pl", "vs", "vc", "hi", "ls", "ge", "lt", "gt", "le"};
      for (uint32_t k = 2; k < 16; k++) if (name.substr(2) == cc[k]) return BaseInst::compose_arm_inst_id(a64::Inst::kIdB, arm::CondCode(k));
      throw Fail{"bad condition " + name};
    }
    auto it = names.find(name);
    if (it == names.end()) throw Fail{"unknown instruction " + name};
    return it->second;
  }

  void stmt(const std::vector<std::string>& w) {
    const std::string& k = w[0];
    BaseNode* before = cc ? cc->cursor() : nullptr;
    if (k == "arch") { init(w); return; }
    if (!cc) throw Fail{"arch first"};
    if (k == "reg") {
      Reg r;
      check(cc->_new_reg_with_name(Out<Reg>(r), type_of(w.at(2)), w.at(1).c_str()), "new_reg");
      regs[w[1]] = r;
    } else if (k == "stk") {
      BaseMem m;
      check(cc->_new_stack(Out<BaseMem>(m), uint32_t(atoi(w.at(2).c_str())), uint32_t(atoi(w.at(3).c_str())), w.at(1).c_str()), "new_stack");
      stacks[w[1]] = m;
    } else if (k == "func") {
      FuncSignature sig(CallConvId::kCDecl);
      ret_type = w.at(1) == "void" ? TypeId::kVoid : type_of(w[1]);
      sig.set_ret(ret_type);
      for (size_t i = 2; i < w.size(); i++) { arg_types.push_back(type_of(w[i])); sig.add_arg(arg_types.back()); }
      check(cc->add_func_node(Out<FuncNode*>(func), sig), "add_func");
      if (avx) func->frame().set_avx_enabled();
      if (avx512) func->frame().set_avx512_enabled();
    } else if (k == "arg") {
      func->set_arg(size_t(atoi(w.at(1).c_str())), reg_view(w.at(2)));
    } else if (k == "lab") {
      check(cc->bind(label(strtoull(w.at(1).c_str(), nullptr, 10))), "bind");
    } else if (k == "i") {
      Operand ops[6];
      size_t n = w.size() - 2;
      if (n > 6) throw Fail{"too many operands"};
      for (size_t i = 0; i < n; i++) ops[i] = operand(w[i + 2]);
      InstId id = inst_id(w.at(1));
      if (!is_x86()) {
        bool any_vec = false;
        for (size_t i = 0; i < n; i++) any_vec |= ops[i].is_reg() && ops[i].as<Reg>().is_vec();
        auto it = names_v.find(w[1]);
        if (any_vec && it != names_v.end()) id = it->second;
      }
      check(cc->emit_op_array(id, ops, n), ("emit " + w[1]).c_str());
      tag_new_nodes(before);
    } else if (k == "ik") {
      // instruction with an AVX-512 mask selector: ik <mnemonic> <k register> <z|m> <operand>*
      Operand ops[6];
      size_t n = w.size() - 4;
      if (n > 6) throw Fail{"too many operands"};
      for (size_t i = 0; i < n; i++) ops[i] = operand(w[i + 4]);
      cc->set_extra_reg(reg_view(w.at(2)));
      if (w.at(3) == "z") cc->add_inst_options(InstOptions::kX86_ZMask);
      check(cc->emit_op_array(inst_id(w.at(1)), ops, n), ("emit " + w[1]).c_str());
      tag_new_nodes(before);
    } else if (k == "callw") {
      // executed call of a Win64 (ms_abi) callee: callw <helper index> <ret reg|-> <operand>*   (argument types fixed by the helper)
      size_t hk = size_t(atoi(w.at(1).c_str()));
      std::string hs = ms_helper_sig(hk);
      if (hs.empty() || hs.size() != w.size() - 3) throw Fail{"bad callw"};
      FuncSignature sig(CallConvId::kX64Windows);
      sig.set_ret(TypeId::kUInt64);
      for (char c : hs) sig.add_arg(c == 'v' ? TypeId::kInt32x4 : TypeId::kUInt64);
      InvokeNode* inv = nullptr;
      check(cc->add_invoke_node(Out<InvokeNode*>(inv), InstId(x86::Inst::kIdCall), Imm(uint64_t(uintptr_t(ms_helper_ptr(hk)))), sig), "invoke");
      for (size_t i = 0; i < hs.size(); i++) {
        Operand o = operand(w[i + 3]);
        if (o.is_imm()) inv->set_arg(i, o.as<Imm>()); else inv->set_arg(i, o.as<Reg>());
      }
      if (w[2] != "-") inv->set_ret(0, reg_view(w[2]));
      tag_new_nodes(before);
    } else if (k == "callx") {
      // call with an explicit convention and typed arguments (never executed): callx <cdecl|win64|vectorcall> <type=reg|-> <type=operand>*
      no_exec = true;
      CallConvId ccid = w.at(1) == "win64" ? CallConvId::kX64Windows : w.at(1) == "vectorcall" ? CallConvId::kVectorCall : CallConvId::kCDecl;
      FuncSignature sig(ccid);
      auto split = [](const std::string& t, std::string& ty, std::string& op) { size_t e = t.find('='); ty = t.substr(0, e); op = e == std::string::npos ? "" : t.substr(e + 1); };
      std::string rty, rop;
      if (w.at(2) == "-") sig.set_ret(TypeId::kVoid); else { split(w[2], rty, rop); sig.set_ret(type_of(rty)); }
      size_t nargs = w.size() - 3;
      std::vector<std::string> aops(nargs);
      for (size_t i = 0; i < nargs; i++) { std::string ty; split(w[i + 3], ty, aops[i]); sig.add_arg(type_of(ty)); }
      InvokeNode* inv = nullptr;
      check(cc->add_invoke_node(Out<InvokeNode*>(inv), is_x86() ? InstId(x86::Inst::kIdCall) : InstId(a64::Inst::kIdBlr), Imm(uint64_t(0x10000 + nargs)), sig), "invoke");
      for (size_t i = 0; i < nargs; i++) {
        Operand o = operand(aops[i]);
        if (o.is_imm()) inv->set_arg(i, o.as<Imm>()); else inv->set_arg(i, o.as<Reg>());
      }
      if (w[2] != "-") inv->set_ret(0, reg_view(rop));
      tag_new_nodes(before);
    } else if (k == "jt") {
      JumpAnnotation* ann = cc->new_jump_annotation();
      for (size_t i = 3; i < w.size(); i++) check(ann->add_label(label(strtoull(w[i].c_str(), nullptr, 10))), "add_label");
      check(cc->emit_annotated_jump(inst_id(w.at(1)), operand(w.at(2)), ann), "annotated jump");
      tag_new_nodes(before);
    } else if (k == "call") {
      size_t nargs = w.size() - 3;
      FuncSignature sig(CallConvId::kCDecl);
      TypeId word = arch == Arch::kX86 ? TypeId::kUInt32 : TypeId::kUInt64;
      sig.set_ret(w.at(2) == "-" ? TypeId::kVoid : word);
      for (size_t i = 0; i < nargs; i++) sig.add_arg(word);
      InvokeNode* inv = nullptr;
      void* target = helper_ptr(nargs);
      Operand tgt = Imm(uint64_t(uintptr_t(target)));
      if (!is_x86()) {   // AArch64: `blr` needs the target in a register
        Reg tr;
        check(cc->_new_reg_with_name(Out<Reg>(tr), TypeId::kUInt64, nullptr), "new_reg");
        Operand mops[2] = {tr, Imm(uint64_t(0x10000 + nargs))};   // canonical value (the address itself varies from run to run)
        check(cc->emit_op_array(inst_id("mov"), mops, 2), "mov target");
        tgt = tr;
      }
      check(cc->add_invoke_node(Out<InvokeNode*>(inv), is_x86() ? InstId(x86::Inst::kIdCall) : InstId(a64::Inst::kIdBlr), tgt, sig), "invoke");
      for (size_t i = 0; i < nargs; i++) {
        Operand o = operand(w[i + 3]);
        if (o.is_imm()) inv->set_arg(i, o.as<Imm>()); else inv->set_arg(i, o.as<Reg>());
      }
      if (w[2] != "-") inv->set_ret(0, reg_view(w[2]));
      tag_new_nodes(before);
    } else if (k == "ret") {
      FuncRetNode* rn = nullptr;
      Operand o0, o1;
      if (w.size() > 1) o0 = operand(w[1]);
      check(cc->add_func_ret_node(Out<FuncRetNode*>(rn), o0, o1), "ret");
      tag_new_nodes(before);
    } else {
      throw Fail{"unknown statement " + k};
    }
  }
};

// ---------------------------------------------------------------------------------------------------------------
// dump
// ---------------------------------------------------------------------------------------------------------------

struct Dumper {
  Builder& b;
  std::string out;
  bool post_dump = false;
  explicit Dumper(Builder& b) : b(b) {}
  void tok(const std::string& s) { out += ' '; out += s; }
  static std::string hex(uint64_t v) { return vh::to_hex(v); }

  std::string reg_name(RegType type, uint32_t id) {
    // v<id> for virtual registers, p<group>.<id> for physical ones
    if (Operand::is_virt_id(id)) return "v" + std::to_string(Operand::virt_id_to_index(id));
    return "p" + std::to_string(uint32_t(RegUtils::group_of(type))) + "." + std::to_string(id);
  }

  std::string op_str(const Operand_& op, const OpRWInfo* rw) {
    char buf[256];
    if (op.is_reg()) {
      const Reg& r = op.as<Reg>();
      snprintf(buf, sizeof buf, "R:%s:%u:%u:%x:%llx:%llx:%llx:%d", reg_name(r.reg_type(), r.id()).c_str(), uint32_t(r.reg_type()), r.size(),
               rw ? uint32_t(rw->op_flags()) : 0u, rw ? (unsigned long long)rw->read_byte_mask() : 0ull, rw ? (unsigned long long)rw->write_byte_mask() : 0ull,
               rw ? (unsigned long long)rw->extend_byte_mask() : 0ull, rw && rw->has_phys_id() ? int(rw->phys_id()) : -1);
      std::string s = buf;
      if (rw && rw->consecutive_lead_count()) s += ":c" + std::to_string(rw->consecutive_lead_count());
      if (b.is_x86() == false && r.is_vec()) { s += ":e" + hex(r.signature().bits()); }   // a64 element type / index are part of the meaning
      return s;
    }
    if (op.is_mem()) {
      const BaseMem& m = op.as<BaseMem>();
      std::string base = "-", index = "-";
      if (m.is_reg_home()) base = "h" + std::to_string(Operand::virt_id_to_index(m.base_id()));
      else if (m.has_base_label()) base = "l" + std::to_string(m.base_id());
      else if (m.has_base_reg()) base = reg_name(m.base_type(), m.base_id());
      if (m.has_index_reg()) index = reg_name(m.index_type(), m.index_id());
      uint32_t sig = m.signature().bits() & ~(OperandSignature::kMemBaseTypeMask | OperandSignature::kMemIndexTypeMask | OperandSignature::kMemRegHomeFlag);
      snprintf(buf, sizeof buf, "M:%u:%x:%s:%s:%lld:%x", m.signature().size(), sig, base.c_str(), index.c_str(), (long long)m.offset(), rw ? uint32_t(rw->op_flags()) : 0u);
      return buf;
    }
    if (op.is_imm()) { snprintf(buf, sizeof buf, "I:%lld", (long long)op.as<Imm>().value()); return buf; }
    if (op.is_label()) return "L:" + std::to_string(op.as<Label>().id());
    return "N";
  }

  std::string value_loc(const FuncValue& v) {
    if (v.is_reg()) return "p" + std::to_string(uint32_t(RegUtils::group_of(v.reg_type()))) + "." + std::to_string(v.reg_id()) + (v.is_indirect() ? "i" : "");
    if (v.is_stack()) return "s" + std::to_string(v.stack_offset()) + (v.is_indirect() ? "i" : "");
    return "?";
  }

  void nodes() {
    for (BaseNode* n = b.cc->first_node(); n; n = n->next()) {
      NodeType t = n->type();
      if (t == NodeType::kLabel || t == NodeType::kFunc) { tok("B"); tok(std::to_string(n->as<LabelNode>()->label_id())); continue; }
      if (t == NodeType::kSentinel) { if (n->as<SentinelNode>()->sentinel_type() == SentinelType::kFuncEnd) { tok("E"); break; } continue; }
      if (!(t == NodeType::kInst || t == NodeType::kJump || t == NodeType::kInvoke || t == NodeType::kFuncRet)) continue;
      InstNode* inst = n->as<InstNode>();
      uint64_t tag = n->user_data_as_uint64();
      Span<const Operand> ops = inst->operands();
      if (t == NodeType::kFuncRet) {
        tok("R"); tok(std::to_string(tag));
        const FuncDetail& fd = b.func->detail();
        size_t cnt = 0;
        for (size_t i = 0; i < ops.size(); i++) if (!ops[i].is_none()) cnt++;
        tok(std::to_string(cnt));
        for (size_t i = 0; i < ops.size(); i++) if (!ops[i].is_none()) { tok(op_str(ops[i], nullptr)); tok(value_loc(fd.ret(i))); }
        continue;
      }
      String name;
      InstAPI::inst_id_to_string(b.arch, inst->inst_id(), InstStringifyOptions::kNone, name);
      if (!b.is_x86()) {   // AArch64: the condition code is part of the instruction id, not of the printed mnemonic
        static const char* ccn[] = {"al", "na", "eq", "ne", "hs", "lo", "mi", "pl", "vs", "vc", "hi", "ls", "ge", "lt", "gt", "le"};
        uint32_t cc = uint32_t(BaseInst::extract_arm_cond_code(inst->inst_id()));
        if (cc >= 2 && cc < 16) { name.append("."); name.append(ccn[cc]); }
      }
      uint32_t cf = 0;
      if (b.is_x86()) cf = uint32_t(x86::InstDB::inst_info_by_id(inst->inst_id()).control_flow());
      else {
        // same classification as a64rapass.cpp get_control_flow_type
        switch (BaseInst::extract_real_id(inst->inst_id())) {
          case a64::Inst::kIdB: case a64::Inst::kIdBr: cf = BaseInst::extract_arm_cond_code(inst->inst_id()) == arm::CondCode::kAL ? 1 : 2; break;
          case a64::Inst::kIdBl: case a64::Inst::kIdBlr: cf = 3; break;
          case a64::Inst::kIdCbz: case a64::Inst::kIdCbnz: case a64::Inst::kIdTbz: case a64::Inst::kIdTbnz: cf = 2; break;
          case a64::Inst::kIdRet: cf = 4; break;
          default: cf = 0;
        }
      }
      if (t == NodeType::kInvoke) {
        InvokeNode* inv = n->as<InvokeNode>();
        const FuncDetail& fd = inv->detail();
        tok("C"); tok(std::to_string(tag)); tok(std::string(name.data(), name.size()));
        {
          std::string tg = op_str(inv->target(), nullptr);
          if (inv->target().is_imm()) for (size_t k = 0; k <= 12; k++) if (uint64_t(uintptr_t(helper_ptr(k))) == inv->target().as<Imm>().value_as<uint64_t>()) tg = "I:helper" + std::to_string(k);
          if (inv->target().is_imm()) for (size_t k = 0; k < 4; k++) if (ms_helper_ptr(k) && uint64_t(uintptr_t(ms_helper_ptr(k))) == inv->target().as<Imm>().value_as<uint64_t>()) tg = "I:mshelper" + std::to_string(k);
          tok(tg);
        }
        tok(std::to_string(inv->arg_count()));
        for (uint32_t i = 0; i < inv->arg_count(); i++) { tok(op_str(inv->arg(i, 0), nullptr)); tok(value_loc(fd.arg(i))); }
        uint32_t nret = fd.has_ret() && !inv->ret(0).is_none() ? 1 : 0;
        tok(std::to_string(nret));
        if (nret) { tok(op_str(inv->ret(0), nullptr)); tok(value_loc(fd.ret(0))); }
        std::string cl;
        for (uint32_t g = 0; g < 4; g++) cl += (g ? "." : "") + hex(~fd.preserved_regs(RegGroup(g)));
        tok(cl); tok(std::to_string(fd.arg_stack_size()));
        continue;
      }
      InstRWInfo rw;
      Error e = InstAPI::query_rw_info(b.arch, inst->baseInst(), ops.data(), ops.size(), &rw);
      tok("I"); tok(std::to_string(tag)); tok(std::string(name.data(), name.size())); tok(std::to_string(cf));
      {
        // the allocated instruction must be a form the ISA has (InstAPI::validate, the library's own strict validator):
        // a register-to-memory substitution may create one that does not exist
        std::string o = hex(uint32_t(inst->options()) & ~uint32_t(InstOptions::kReserved | InstOptions::kUnfollow | InstOptions::kOverwrite | InstOptions::kShortForm | InstOptions::kLongForm));
        if (post_dump) {
          Error ev = InstAPI::validate(b.arch, inst->baseInst(), ops.data(), ops.size(), ValidationFlags::kNone);
          if (ev != Error::kOk) o += std::string("!") + DebugUtils::error_as_string(ev);
        }
        tok(o);
      }
      tok(e == Error::kOk ? hex(uint32_t(rw.read_flags())) : "x"); tok(e == Error::kOk ? hex(uint32_t(rw.write_flags())) : "x");
      tok(inst->has_extra_reg() ? reg_name(inst->extra_reg().type(), inst->extra_reg().id()) : "-");
      std::string ann = "-";
      if (t == NodeType::kJump && n->as<JumpNode>()->has_annotation()) {
        ann.clear();
        for (uint32_t id : n->as<JumpNode>()->annotation()->label_ids()) ann += (ann.empty() ? "" : ".") + std::to_string(id);
      }
      tok(ann);
      tok(std::to_string(ops.size()));
      for (size_t i = 0; i < ops.size(); i++) tok(op_str(ops[i], e == Error::kOk ? &rw.operand(i) : nullptr));
    }
  }

  void header() {
    tok("ARCH"); tok(b.arch == Arch::kX64 ? "x64" : b.arch == Arch::kX86 ? "x86" : "a64");
    tok("VREGS");
    std::string s;
    for (VirtReg* v : b.cc->virt_regs()) {
      char buf[96];
      snprintf(buf, sizeof buf, "%s%u:%u:%u:%u:%d", s.empty() ? "" : ",", Operand::virt_id_to_index(v->id()), uint32_t(RegUtils::group_of(v->reg_type())), v->virt_size(), uint32_t(v->type_id()), v->is_stack_area() ? 1 : 0);
      s += buf;
    }
    tok(s.empty() ? "-" : s);
    tok("ARGS");
    s.clear();
    const FuncDetail& fd = b.func->detail();
    for (uint32_t i = 0; i < fd.arg_count(); i++) {
      const RegOnly& r = b.func->arg_pack(i)[0];
      s += (s.empty() ? "" : ",") + (r.is_reg() ? reg_name(r.signature().reg_type(), r.id()) : std::string("-")) + ":" + value_loc(fd.arg(i));
    }
    tok(s.empty() ? "-" : s);
  }

  void frame() {
    const FuncFrame& f = b.func->frame();
    char buf[256];
    snprintf(buf, sizeof buf, "FRAME fp=%d sa_sp=%u sa_sa=%u sa_reg=%u adj=%u call=%u local_off=%u local_size=%u final=%u dyn=%d",
             f.has_preserved_fp() ? 1 : 0, f.sa_offset_from_sp(), f.sa_offset_from_sa(), f.sa_reg_id(), f.stack_adjustment(),
             f.call_stack_size(), f.local_stack_offset(), f.local_stack_size(), f.final_stack_size(), f.has_dynamic_alignment() ? 1 : 0);
    tok(buf);
  }
};

static uint8_t g_buf[256 + 64];
static sigjmp_buf g_jmp;
static uint8_t g_fault_bytes[16];
static void on_signal(int sig, siginfo_t* si, void*) {
  if (sig == SIGILL && si && si->si_addr) memcpy(g_fault_bytes, si->si_addr, 16);
  siglongjmp(g_jmp, sig);
}

static std::string process(const std::string& line) {
  Builder b;
  bool serialized_ok = false;
  JitRuntime rt;
  std::string result;
  try {
    std::vector<std::vector<std::string>> stmts;
    {
      size_t p = 0;
      while (p <= line.size()) {
        size_t q = line.find(';', p);
        std::string s = line.substr(p, q == std::string::npos ? std::string::npos : q - p);
        auto w = vh::words(s);
        if (!w.empty()) stmts.push_back(w);
        if (q == std::string::npos) break;
        p = q + 1;
      }
    }
    size_t i = 0;
    for (; i < stmts.size() && stmts[i][0] != "end"; i++) b.stmt(stmts[i]);
    if (i == stmts.size()) throw Fail{"no end"};
    if (!b.func) throw Fail{"no func"};
    b.check(b.cc->end_func(), "end_func");
    Dumper d(b);
    d.header();
    d.tok("PRE");
    d.nodes();
    Error e = b.cc->run_passes();
    if (e != Error::kOk) return std::string("raerr ") + DebugUtils::error_as_string(e);
    d.frame();
    d.tok("POST");
    d.post_dump = true;
    d.nodes();
    // serialization of the allocated function through the real assembler of the target (all three architectures)
    {
      Error es = Error::kOk;
      if (b.is_x86()) { x86::Assembler a(&b.code); es = b.cc->serialize_to(&a); b.code.detach(&a); }
      else { a64::Assembler a(&b.code); es = b.cc->serialize_to(&a); b.code.detach(&a); }
      d.tok("SER"); d.tok(es == Error::kOk ? "ok" : DebugUtils::error_as_string(es));
      serialized_ok = es == Error::kOk;
    }
    result = "ok" + d.out;
    // execution on the host
    bool can_run = b.arch == Arch::kX64 && Environment::host().arch() == Arch::kX64 && !b.no_exec;
    std::string ex;
    for (i++; i < stmts.size(); i++) {
      if (stmts[i][0] != "run") continue;
      if (!can_run) break;
      if (!serialized_ok) break;
      static void* fn = nullptr;
      if (ex.empty()) {
        fn = nullptr;
        Error e3 = rt.add(&fn, &b.code);
        if (e3 != Error::kOk) { ex = " EXEC jerr:" + std::string(DebugUtils::error_as_string(e3)); break; }
        ex = " EXEC";
      }
      uint8_t* buf = (uint8_t*)((uintptr_t(g_buf) + 63) & ~uintptr_t(63));
      for (size_t k = 0; k < 256; k++) buf[k] = uint8_t(k * 37 + 11);
      uint64_t a[12] = {0};
      for (size_t k = 1; k < stmts[i].size() && k <= 12; k++) {
        uint64_t v = 0; vh::parse_hex(stmts[i][k], v);
        a[k - 1] = (k - 1 < b.arg_types.size() && b.arg_types[k - 1] == TypeId::kUIntPtr) ? uint64_t(uintptr_t(buf)) : v;
      }
      g_calls.clear();
      // a miscompiled function may loop for ever or divide by zero: 3 s of CPU time, SIGFPE caught
      struct sigaction sa; memset(&sa, 0, sizeof sa); sa.sa_sigaction = on_signal; sa.sa_flags = SA_SIGINFO; sigemptyset(&sa.sa_mask);
      sigaction(SIGVTALRM, &sa, nullptr); sigaction(SIGFPE, &sa, nullptr); sigaction(SIGILL, &sa, nullptr);
      struct itimerval tv = {{0, 0}, {3, 0}}, off = {{0, 0}, {0, 0}};
      int sig = sigsetjmp(g_jmp, 1);
      if (sig != 0) { setitimer(ITIMER_VIRTUAL, &off, nullptr); ex += sig == SIGFPE ? " r=SIGFPE,m=,c=" : sig == SIGILL ? " r=SIGILL:" + vh::bytes_to_hex(g_fault_bytes, 16) + ",m=,c=" : " r=TIMEOUT,m=,c="; continue; }
      setitimer(ITIMER_VIRTUAL, &tv, nullptr);
      uint64_t r = ((uint64_t(*)(uint64_t, uint64_t, uint64_t, uint64_t, uint64_t, uint64_t, uint64_t, uint64_t, uint64_t, uint64_t, uint64_t, uint64_t))fn)(a[0], a[1], a[2], a[3], a[4], a[5], a[6], a[7], a[8], a[9], a[10], a[11]);
      setitimer(ITIMER_VIRTUAL, &off, nullptr);
      if (b.ret_type == TypeId::kInt32 || b.ret_type == TypeId::kUInt32) r &= 0xFFFFFFFFull;
      if (b.ret_type == TypeId::kVoid) r = 0;
      ex += " r=" + vh::to_hex(r) + ",m=" + vh::bytes_to_hex(buf, 256) + ",c=";
      for (auto& c : g_calls) { ex += "("; for (size_t k = 0; k < c.size(); k++) ex += (k ? "." : "") + vh::to_hex(c[k]); ex += ")"; }
    }
    result += ex;
  } catch (const Fail& f) {
    return "err " + f.msg;
  }
  return result;
}

} // namespace

int main() {
  return vh::line_loop([](const std::string& line) { return process(line); });
}
