// Witness harness for the direct-encoding path against a label bound in the current section when the section is
// larger than 2 GiB (x86 EmitJmpCall: rel32 = (label - ip - size) & 0xFFFFFFFF without a range test; a64 EmitOp_Rel
// goes through the range-tested EmitOp_DispImm).  usage: h_c03big <x64|a64> <distance hex>
#include <asmjit/core.h>
#include <asmjit/x86.h>
#include <asmjit/a64.h>
#include <cstdio>
#include <cstdlib>
#include <cstring>
#include <vector>
using namespace asmjit;

int main(int argc, char** argv) {
  if (argc != 3) return 2;
  uint64_t dist = strtoull(argv[2], nullptr, 16);
  bool a64 = strcmp(argv[1], "a64") == 0;
  Environment env;
  env.init(a64 ? Arch::kAArch64 : Arch::kX64);
  CodeHolder code;
  code.init(env);
  x86::Assembler xa;
  a64::Assembler aa;
  BaseAssembler* a = a64 ? static_cast<BaseAssembler*>(&aa) : static_cast<BaseAssembler*>(&xa);
  code.attach(a);
  Label L = a->new_label();
  a->bind(L);
  uint8_t zero[4] = {0, 0, 0, 0};
  Error e = a->embed_data_array(TypeId::kUInt32, zero, 1, size_t(dist / 4));
  if (e != Error::kOk) { printf("embed-failed %u\n", unsigned(e)); return 0; }
  size_t at = a->offset();
  Error e1, e2 = Error::kOk;
  if (a64) { e1 = aa.b(L); }
  else { e1 = xa.jmp(L); e2 = xa.lea(x86::rax, x86::ptr(L)); }
  printf("offset=%zx err_branch=%u err_lea=%u size=%zx bytes=", at, unsigned(e1), unsigned(e2), a->offset());
  const uint8_t* p = code.section_by_id(0)->data();
  for (size_t i = at; i < a->offset(); i++) printf("%02x", p[i]);
  printf("\n");
  return 0;
}
