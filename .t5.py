import sys, json, collections
sys.path.insert(0,'tools')
import vlib, gen_c12 as g
h = vlib.build_harness("c12")
dump,_,_ = vlib.run_lines([str(h)], ["tables"])
rm={}; rwa={}; rwb={}; insts=[]
for l in dump:
    w=l.split()
    if w[1]=="rm": rm[int(w[2])]=list(map(int,w[3:]))
    if w[1]=="rwa": rwa[int(w[2])]=list(map(int,w[3:]))
    if w[1]=="rwb": rwb[int(w[2])]=list(map(int,w[3:]))
    if w[1]=="inst": insts.append((w[3], int(w[4]), int(w[5])))
cat=collections.defaultdict(set)
for name,a,b in insts:
    for t,idx in ((rwa,a),(rwb,b)):
        r=t[idx]; m=rm[r[1]]
        if m[1]: cat[(m[0], r[0])].add(name)
for k,v in sorted(cat.items()): print(k, len(v), sorted(v)[:12])
