#!/bin/bash
# applies each mutant on top of the repaired scratch tree and runs the quick check
cd /var/tmp/vw/C12
for p in tools/mutants/C12/*.patch; do
  git -C /var/tmp/r_C12 apply /var/tmp/vw/C12/$p || { echo "$p DOES NOT APPLY"; continue; }
  VERIF_REPO=/var/tmp/r_C12 python3 tools/check.py C12 --tier quick > .mut.out 2> .mut.err
  rc=$?
  echo "== $(basename $p) exit=$rc"
  grep "^VIOLATION" .mut.out | cut -c1-200
  grep "^  -> " .mut.err | cut -c1-260
  git -C /var/tmp/r_C12 apply -R /var/tmp/vw/C12/$p
done
