import subprocess, sys
R = "/var/tmp/r_C09"
OUT = "/var/tmp/vw/C09/fixes"
def fix(n, path, old, new):
    p = R + "/" + path
    s = open(p).read()
    assert s.count(old) == 1, (n, s.count(old))
    open(p, "w").write(s.replace(old, new))
    d = subprocess.run(["git", "-C", R, "diff"], capture_output=True, text=True).stdout
    open("%s/C09-%d.patch" % (OUT, n), "w").write(d)
    subprocess.run(["git", "-C", R, "checkout", "."], check=True)

fix(1, "asmjit/core/jitallocator.h",
    "bool is_initialized() const noexcept { return _impl->block_size == 0; }",
    "bool is_initialized() const noexcept { return _impl->block_size != 0; }")
fix(2, "asmjit/core/jitallocator.cpp",
    """      _search_start -= released_area_size;
      _largest_unused_area += released_area_size;
    }""",
    """      _search_start -= released_area_size;
      _largest_unused_area += released_area_size;

      if (area_used() == initial_area_start()) {
        add_flags(kFlagEmpty);
      }
    }""")
fix(3, "asmjit/core/jitallocator.cpp",
    """        block_to_keep->_list_nodes[1] = nullptr;
""",
    """        block_to_keep->_list_nodes[1] = nullptr;
        block_to_keep->_tree_nodes[0] = 0;
        block_to_keep->_tree_nodes[1] = 0;
""")
fix(4, "asmjit/core/jitallocator.cpp",
    """  impl->tree.reset();
  size_t pool_count = impl->pool_count;
""",
    """  impl->tree.reset();
  impl->allocation_count = 0;
  size_t pool_count = impl->pool_count;
""")
fix(5, "asmjit/core/jitallocator.cpp",
    """      _largest_unused_area = 0;

      clear_flags(kFlagDirty | kFlagEmpty);""",
    """      _largest_unused_area = 0;

      clear_flags(kFlagDirty | kFlagEmpty | kFlagIncremental);""")
fix(6, "asmjit/core/jitallocator.cpp",
    """    BitVectorRangeIterator<Support::BitWord, 0> it(block->_used_bit_vector, pool->bit_word_count_from_area_size(block->area_size()));

    size_t range_start;""",
    """    BitVectorRangeIterator<Support::BitWord, 1> it(block->_used_bit_vector, pool->bit_word_count_from_area_size(block->area_size()));

    size_t range_start;""")
fix(7, "asmjit/core/jitallocator.cpp",
    """    std::swap(span._size, size);
    return JitAllocatorImpl_shrink""",
    """    std::swap(span._size, size);
    if (size == 0) {
      // Truncated to nothing: same as `shrink(span, 0)` - the span must be released, not shrunk to an empty area.
      Error err = release(span.rx());
      span = Span{};
      return err;
    }
    return JitAllocatorImpl_shrink""")
