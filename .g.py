import sys, json
sys.path.insert(0, "tools")
import vlib, gen_names
h = vlib.build_harness("c13")
a = gen_names.run(h)
db = json.loads(vlib.sh(["node", "tools/gen_db.js", str(vlib.REPO)], check=True).stdout)
s, rows, skipped = gen_names.render_db_aliases(db, a["x86"]["names"])
vlib.gen_write("AsmjitVerif/Gen/X86DBAliases.lean", s)
print(len(rows), len(skipped))
