"""C12 translators: ISA database (through db/index.js under node) -> instantiated queries; harness answers -> behaviour rows;
rows -> Gen/C12*.lean (chunked `decide +kernel` lemmas); table dumps -> Gen/C12Tables*.lean.

Trusted (kept small): the instantiation of database operands with concrete operands, the mapping database name -> AsmJit enum id
(CpuFeatures::X86 ids are read from asmjit/core/cpuinfo.h, CpuRWFlags bits from asmjit/core/inst.h), the sibling search that lists
by which memory sizes the database lets a register operand be replaced, de-duplication of identical rows."""
import json
import re
import subprocess
from pathlib import Path

import vlib


class TranslateError(Exception):
    pass


HERE = Path(__file__).resolve().parent
GP_TYPES = {"r8": ("gpbl", 1), "r8hi": ("gpbh", 1), "r16": ("gpw", 2), "r32": ("gpd", 4), "r64": ("gpq", 8)}
OTHER_TYPES = {"xmm": ("xmm", 16), "ymm": ("ymm", 32), "zmm": ("zmm", 64), "mm": ("mm", 8), "k": ("k", 8), "st": ("st", 10),
               "bnd": ("bnd", 16), "sreg": ("sreg", 2), "creg": ("creg", 8), "dreg": ("dreg", 8), "tmm": ("tmm", 0)}
FIXED = {"al": 0, "cl": 1, "dl": 2, "bl": 3, "ah": 0, "ch": 1, "dh": 2, "bh": 3,
         "ax": 0, "cx": 1, "dx": 2, "bx": 3, "eax": 0, "ecx": 1, "edx": 2, "ebx": 3, "rax": 0, "rcx": 1, "rdx": 2, "rbx": 3,
         "esi": 6, "edi": 7, "rsi": 6, "rdi": 7, "si": 6, "di": 7, "xmm0": 0, "st(0)": 0,
         "es": 1, "cs": 2, "ss": 3, "ds": 4, "fs": 5, "gs": 6}
MEMREG = {"zdi": 7, "rdi": 7, "edi": 7, "zsi": 6, "rsi": 6, "esi": 6, "zax": 0, "rax": 0, "rbx": 3, "zbx": 3, "rcx": 1, "zcx": 1}
PREFIX_CLASS = {"": "legacy", "3DNOW": "legacy", "REX2": "legacy", "VEX": "vex", "EVEX": "evex", "XOP": "xop"}
# extensions later than "AVX-512 and its extensions" (quantifier of C12): no host of that generation executes them
NOT_ON_HOST_GENERATION = ("APX_F", "AVX10_2")
# Places where the database is coarser than the architecture (Intel SDM), keyed by (name, opcode string): operand -> read width in
# bits.  `imul ax, r/m8` reads AL only (the database writes X:<ax>); `mov Sreg, r/m` uses the low 16 bits of the source.
READ_WIDTH_OVERRIDE = {("imul", "F6 /5"): {0: 8}, ("mov", "8E /r"): {1: 16}}
# forms whose query_rw_info answer depends on the VALUE of an immediate (x86instapi.cpp: only the vpternlogd/q predicate does)
IMM_SWEEPS = {"vpternlogd": range(256), "vpternlogq": range(256)}
FEATURE_IMPLIES = (("AVX512_F", "AVX2"), ("AVX512_F", "AVX"), ("AVX2", "AVX"))
LEGACY_PREFIXES = {0x66, 0xF2, 0xF3, 0x2E, 0x36, 0x3E, 0x26, 0x64, 0x65, 0x67, 0xF0}


# ------------------------------------------------------------------------------------------------------------------------------
# sources -> enum values
# ------------------------------------------------------------------------------------------------------------------------------

def feature_ids(repo):
    """CpuFeatures::X86::Id names -> numbers, from the X86 feature struct of cpuinfo.h (sequential enum starting at kNone = 0)."""
    src = (Path(repo) / "asmjit/core/cpuinfo.h").read_text()
    m = re.search(r"struct X86 : public Data \{.*?enum Id : uint8_t \{(.*?)\n\s*\};", src, re.S)
    if not m:
        raise TranslateError("cpuinfo.h: X86 feature enum not found")
    body = re.sub(r"//[^\n]*", "", m.group(1))
    ids, n = {}, 0
    for tok in body.split(","):
        tok = tok.strip()
        if not tok:
            continue
        mm = re.fullmatch(r"k(\w+)(?:\s*=\s*(\w+))?", tok)
        if not mm:
            raise TranslateError("cpuinfo.h: cannot read enumerator %r" % tok)
        if mm.group(2) is not None:
            if mm.group(2).isdigit():
                n = int(mm.group(2))
            elif mm.group(2)[1:] in ids:
                n = ids[mm.group(2)[1:]]
            else:
                raise TranslateError("cpuinfo.h: non-numeric enumerator %r" % tok)
        ids[mm.group(1)] = n
        n += 1
    if ids.get("None") != 0 or "AVX512_F" not in ids or "SSE2" not in ids:
        raise TranslateError("cpuinfo.h: X86 feature enum looks wrong")
    return ids


def cpu_flag_bits(repo):
    src = (Path(repo) / "asmjit/core/inst.h").read_text()
    m = re.search(r"enum class CpuRWFlags : uint32_t \{(.*?)\n\};", src, re.S)
    if not m:
        raise TranslateError("inst.h: CpuRWFlags not found")
    vals = {}
    for name, v in re.findall(r"\bk(\w+)\s*=\s*(0x[0-9A-Fa-f]+u?|k\w+)", re.sub(r"//[^\n]*", "", m.group(1))):
        vals[name] = int(v.rstrip("u"), 16) if v.startswith("0x") else vals[v[1:]]
    out = {}
    for f in ("OF", "SF", "ZF", "AF", "PF", "CF", "DF", "IF", "AC", "C0", "C1", "C2", "C3"):
        if "X86_" + f not in vals:
            raise TranslateError("inst.h: CpuRWFlags::kX86_%s missing" % f)
        out[f] = vals["X86_" + f]
    return out


def load_db(repo):
    p = subprocess.run(["node", str(HERE / "gen_c12_db.js"), str(repo)], capture_output=True, text=True)
    if p.returncode != 0:
        raise TranslateError("db/index.js does not read the database: " + p.stderr[-800:])
    d = json.loads(p.stdout)
    if len(d["x86"]) < 1000 or len(d["a64"]) < 1000:
        raise TranslateError("database unexpectedly small")
    return d


# ------------------------------------------------------------------------------------------------------------------------------
# x86: database form -> queries
# ------------------------------------------------------------------------------------------------------------------------------

def eligible(f, mode="x64"):
    if f["privilege"] != "L3" or f["control"] != "none" or f["arch"] == ("X86" if mode == "x64" else "X64"):
        return False
    if any(o["rel"] for o in f["ops"]):
        return False
    if any(e in NOT_ON_HOST_GENERATION for e in f["ext"]):
        return False
    return True


def op_choices(o):
    """which concrete operand kinds a database operand admits"""
    c = []
    if o["reg"] and not o["memSegment"]:
        c.append("reg")
    if o["mem"] or o["memSegment"]:
        c.append("mem")
    if not c:
        c.append("imm")
    return c


class Pools:
    def __init__(self, form, same, rng=None, mode="x64"):
        hi = any(o["regType"] == "r8hi" for o in form["ops"]) or mode == "x86"
        self.pools = {"gp": [1, 2, 3] if hi else [8, 9, 10, 11, 12, 13], "vec": [1, 2, 3, 4, 5, 6], "k": [2, 4, 6, 5], "mm": [1, 2, 3, 4],
                      "st": [1, 2, 3], "bnd": [1, 2, 3], "sreg": [1, 3, 4], "creg": [2, 3], "dreg": [2, 3], "tmm": [1, 2, 3, 4]}
        if mode == "x86":
            # 32-bit mode: eight registers of every kind, byte registers al..bl only
            self.pools["gp"] = [3, 6, 7, 2, 1]
            self.pools["gp8"] = [3, 2, 1, 0]
        else:
            self.pools["gp8"] = self.pools["gp"]
        if rng == "high":
            # EVEX-only vector registers (xmm16..31): the assembler must pick the EVEX form, query_features must notice
            self.pools["vec"] = [17, 18, 19, 20, 21, 22]
        elif rng is not None:
            # seeded register assignment: any GP register but rsp/rbp (base) and the fixed a/c/d/b, any vector register the
            # encoding admits (EVEX: 0..31, which exercises the high-register branch of query_features), any mask but k0
            gp = [1, 2, 3] if hi else [6, 7, 8, 9, 10, 11, 12, 13, 14, 15]
            vec = list(range(32)) if form["prefix"] == "EVEX" else list(range(16))
            if mode == "x86":
                gp, vec = [1, 2, 3, 6, 7], list(range(8))
            k = [2, 4, 6] if any(o["regIndexRel"] for o in form["ops"]) else [1, 2, 3, 4, 5, 6, 7]
            for name, p in (("gp", gp), ("vec", vec), ("k", k), ("mm", list(range(8))), ("tmm", list(range(8)))):
                rng.shuffle(p)
                self.pools[name] = p
            self.pools["gp8"] = [x for x in self.pools["gp"] if x < 4] if mode == "x86" else self.pools["gp"]
        self.same = same
        self.next = {k: 0 for k in self.pools}

    def take(self, cls):
        p = self.pools[cls]
        if self.same:
            return p[0]
        i = self.next[cls]
        self.next[cls] = i + 1
        return p[i % len(p)]


def reg_class(rt):
    if rt == "r8":
        return "gp8"
    if rt in GP_TYPES:
        return "gp"
    if rt in ("xmm", "ymm", "zmm"):
        return "vec"
    return rt


def instantiate(form, choice, same, with_implicit, rng=None, mode="x64", imm=None):
    """returns (tokens, dbops) or None. choice: list of 'reg'|'mem'|'imm' per operand."""
    pools = Pools(form, same, rng, mode)
    bq = "q" if mode == "x64" else "d"
    toks, dbops, ids = [], [], []
    ops = form["ops"]
    nmem = sum(1 for c in choice if c == "mem")
    for i, (o, c) in enumerate(zip(ops, choice)):
        lo, width = (o["rwxIndex"], o["rwxWidth"]) if o["rwxWidth"] and o["rwxWidth"] > 0 and o["rwxIndex"] >= 0 else (0, 0)
        rwidth = width
        ov = dict(READ_WIDTH_OVERRIDE.get((form["name"], form["opcode"].replace("REX.W ", "")), {}))
        # vector operands where the database gives the whole register but the SDM (and the host, see the execution differ) a part:
        # punpckl* read the low half of both operands (MMX: 32 bits, SSE: 64 bits; a memory source is loaded in full);
        # 256/512-bit vmovddup reads the even quadwords (not a contiguous range: not judged)
        if form["name"] in ("punpcklbw", "punpcklwd", "punpckldq") and ops[0]["regType"] in ("mm", "xmm"):
            half = 32 if ops[0]["regType"] == "mm" else 64
            ov = {0: half, 1: half if c == "reg" or ops[0]["regType"] == "mm" else None}
        if form["name"] == "vmovddup" and ops[0]["regType"] in ("ymm", "zmm"):
            ov = {1: 0}
        if ov.get(i) is not None:
            rwidth = ov[i]
        d = {"kind": 0, "gp": False, "size": 0, "read": o["read"], "write": o["write"], "lo": lo, "width": width, "rwidth": rwidth,
             "follower": 0, "runLen": 0, "rmChecked": False, "memAlt": [], "implicit": o["implicit"], "regspec": None}
        rid = None
        if c == "reg":
            rt = o["regType"]
            kind, size = GP_TYPES.get(rt) or OTHER_TYPES.get(rt) or (None, None)
            if kind is None:
                return None
            if o["fixed"]:
                if o["reg"] not in FIXED:
                    return None
                rid = FIXED[o["reg"]]
            elif o["regIndexRel"]:
                lead = i - o["regIndexRel"]
                if lead < 0 or ids[lead] is None:
                    return None
                rid = ids[lead] + o["regIndexRel"]
                d["follower"] = o["regIndexRel"]
                dbops[lead]["runLen"] = max(dbops[lead]["runLen"], o["regIndexRel"] + 1)
            else:
                rid = pools.take(reg_class(rt))
            tok = "r.%s.%d" % (kind, rid)
            d.update(kind=1, gp=rt in GP_TYPES, size=size, regspec=o["reg"])
        elif c == "mem":
            size = o["memSize"] // 8 if o["memSize"] and o["memSize"] > 0 else 0
            base = bq + "5"
            if o["memSegment"]:
                r = o["memRegOnly"]
                if r in MEMREG:
                    base = "%s%d" % (bq, MEMREG[r])
                elif r in ("r64", "r32"):
                    base = "%s%d" % (bq, pools.take("gp"))
                else:
                    return None
            index = "-"
            if o["vsibReg"]:
                index = "%s7" % o["vsibReg"][0]
            tok = "m.%d.%s.%s" % (size, base, index)
            if o["memOff"]:
                tok = "m.%d.-.-.abs" % size
            d.update(kind=2, size=size)
        else:
            v = o["immValue"] if o["immValue"] is not None else (1 if imm is None else imm)
            tok = "i.%d" % v
        ids.append(rid)
        dbops.append(d)
        toks.append(tok)
    if not with_implicit:
        keep = [i for i, o in enumerate(ops) if not o["implicit"]]
        if len(keep) == len(ops):
            return None
        toks = [toks[i] for i in keep]
        dbops = [dbops[i] for i in keep]
    if nmem == 0:
        for d in dbops:
            if d["kind"] == 1:
                d["rmChecked"] = True
    return toks, dbops


def sibling_mem_sizes(form, siblings, choice, opidx, mode="x64"):
    """memory sizes (bytes) s.t. a database form of the same name has operand `opidx` in memory of that size, the same access on
    every operand, and every other operand identical to the instantiated one"""
    out = set()
    ops = form["ops"]
    for g in siblings:
        gops = g["ops"]
        if len(gops) != len(ops) or g["arch"] == ("X86" if mode == "x64" else "X64"):
            continue
        go = gops[opidx]
        if not go["mem"] or go["memSegment"]:
            continue
        ok = go["read"] == ops[opidx]["read"] and go["write"] == ops[opidx]["write"]
        for j, (a, b) in enumerate(zip(ops, gops)):
            if not ok:
                break
            if j == opidx:
                continue
            if a["read"] != b["read"] or a["write"] != b["write"]:
                ok = False
            elif choice[j] == "reg":
                ok = (b["reg"] == a["reg"] or (a["fixed"] and not b["fixed"] and b["reg"] == a["regType"])) and not b["memSegment"]
            elif choice[j] == "imm":
                ok = (not b["reg"]) and (not b["mem"]) and bool(b["imm"])    # the instantiated value 1 fits every immediate size
            else:
                ok = False
        if ok:
            out.add(go["memSize"] // 8 if go["memSize"] and go["memSize"] > 0 else 0)     # 0 = unsized memory operand
    return sorted(out)


def x86_queries(db, rng=None, mode="x64"):
    """-> list of query dicts {line, form(index), dbops, variant, ...}"""
    forms = db["x86"]
    by_name = {}
    for f in forms:
        by_name.setdefault(f["name"], []).append(f)
    qs = []
    for fi, f in enumerate(forms):
        if not eligible(f, mode):
            continue
        ops = f["ops"]
        ch = [op_choices(o) for o in ops]
        base_choice = [c[0] for c in ch]
        variants = [(base_choice, False)]
        if rng is not None:
            variants.append((base_choice, "rand"))
        if f["prefix"] == "EVEX" and any(g["prefix"] == "VEX" for g in by_name[f["name"]]) and \
                any(o["regType"] in ("xmm", "ymm") for o in ops):
            variants.append((base_choice, "high"))
        nreg_free = {}
        for o, c in zip(ops, base_choice):
            if c == "reg" and not o["fixed"] and not o["regIndexRel"]:
                k = reg_class(o["regType"])
                nreg_free[k] = nreg_free.get(k, 0) + 1
        if any(v >= 2 for v in nreg_free.values()):
            variants.append((base_choice, True))
        for i, c in enumerate(ch):
            if len(c) == 2:
                alt = list(base_choice)
                alt[i] = "mem"
                variants.append((alt, False))
        has_vex_twin = f["prefix"] == "EVEX" and any(g["prefix"] == "VEX" for g in by_name[f["name"]])
        has_evex_twin = f["prefix"] == "VEX" and any(g["prefix"] == "EVEX" for g in by_name[f["name"]])
        variants = [(ch_, same_, None) for ch_, same_ in variants]
        has_imm = any(c_ == "imm" and o_["immValue"] is None for o_, c_ in zip(ops, base_choice))
        if f["name"] in IMM_SWEEPS and has_imm:
            # the answer depends on the immediate VALUE: the whole relevant set (judged through Row.destRule)
            for v in IMM_SWEEPS[f["name"]]:
                variants.append((base_choice, False, v))
        elif has_imm:
            # no other special case looks at an immediate's value today; two more values keep the correspondence honest about that
            variants += [(base_choice, False, 0), (base_choice, False, 255)]
        for vi, (choice, same, immv) in enumerate(variants):
            settings = [("-", "-")]
            if f["kmask"]:
                settings.append(("-", "k1"))
                if f["zmask"]:
                    settings.append(("z", "k1"))
            if has_vex_twin:
                settings.append(("E", "-"))
            if has_evex_twin and same in (False, True):
                settings.append(("V", "-"))       # VEX forced: prefer-EVEX instructions (vpmadd52*, vpdpbusd ...) emit their VEX form
            if immv is None and same is False and all(c_ != "mem" for c_ in choice):
                # embedded rounding / suppress-all-exceptions (register forms only), every mode, with every masking the form admits
                rnd = ([("e",), ("e", "d"), ("e", "u"), ("e", "o")] if f["er"] else []) + ([("s",)] if f["sae"] else [])
                masks = [("", "-")] + ([("", "k1")] if f["kmask"] else []) + ([("z", "k1")] if f["kmask"] and f["zmask"] else [])
                for r_ in rnd:
                    for mz, ex in masks:
                        settings.append(("".join(r_) + mz, ex))
            if immv is not None:
                # sweeps: unmasked everywhere, zeroing on the 128-bit form; merge-masking re-adds the read (judged with a few values)
                settings = [("-", "-")]
                if f["name"] in IMM_SWEEPS and f["kmask"]:
                    if ops[0]["regType"] == "xmm":
                        settings.append(("z", "k1"))
                    if immv in (0x08, 0x7F, 0xFF, 0x55, 0xF0):
                        settings.append(("-", "k1"))
                if f["name"] in IMM_SWEEPS and ops[0]["regType"] == "ymm":
                    continue
            for opts, extra in settings:
                for with_impl in (True, False):
                    if same == "high":
                        if mode == "x86":
                            continue
                        inst = instantiate(f, choice, False, with_impl, "high")
                    elif same == "rand":
                        st = rng.getstate()
                        inst = instantiate(f, choice, False, with_impl, rng, mode)
                        if with_impl:
                            rng.setstate(st)       # the short form uses the same registers
                    else:
                        inst = instantiate(f, choice, same, with_impl, None, mode, immv)
                    if inst is None:
                        continue
                    toks, dbops = inst
                    if extra != "-" and "z" not in opts and dbops and dbops[0]["write"] and \
                            (dbops[0]["kind"] == 2 or (dbops[0]["kind"] == 1 and ops[0]["regType"] in ("xmm", "ymm", "zmm"))):
                        dbops[0]["read"] = True      # merge-masking keeps the unselected destination elements
                    if all(c != "mem" for c in choice):
                        kept = [i for i, o in enumerate(ops) if with_impl or not o["implicit"]]
                        for d, i in zip(dbops, kept):
                            if d["kind"] == 1:
                                # {er}/{sae} exist in register forms only (EVEX.b means broadcast with a memory operand)
                                d["memAlt"] = [] if ("e" in opts or "s" in opts) else sibling_mem_sizes(f, by_name[f["name"]], choice, i, mode)
                    name = f["name"]
                    line = "x %s %s %s %s %s" % (mode, name, opts, extra, " ".join(toks))
                    rule = 0
                    if name in ("vpternlogd", "vpternlogq") and len(toks) == 4 and toks[3].startswith("i.") and \
                            (extra == "-" or "z" in opts):
                        rule = int(toks[3][2:]) % 256 + 1
                    qs.append({"line": line.strip(), "form": fi, "mode": mode, "dest_rule": rule, "dbops": dbops, "implicit": with_impl,
                               "variant": "%s%s%s" % ("imm" if immv is not None else "high" if same == "high" else "seeded" if same == "rand" else "same" if same else "distinct", "/mem" if "mem" in choice else "/reg",
                                                      ("/" + opts + extra) if (opts, extra) != ("-", "-") else ""),
                               "opts": opts, "extra": extra})
    return qs


def parse_answer(ans):
    """harness answer line -> dict"""
    out = {}
    for w in ans.split():
        if "=" in w:
            k, v = w.split("=", 1)
            out[k] = v
    if "ops" in out:
        ops = []
        if out["ops"] != "-":
            for part in out["ops"].split("|"):
                fl, ph, rms, clc, rm, wm, em = part.split(",")
                ops.append((int(fl, 16), int(ph), int(rms), int(clc), int(rm, 16), int(wm, 16), int(em, 16)))
        out["oplist"] = ops
    if "f" in out:
        out["feat"] = [] if out["f"] == "-" else [int(x) for x in out["f"].split(",")]
    return out


def prefix_class_of_bytes(hexs, mode="x64"):
    """(prefix class, opcode byte) of an encoding produced by the assembler"""
    b = bytes.fromhex(hexs)
    i = 0
    while i < len(b) and b[i] in LEGACY_PREFIXES:
        i += 1
    if i >= len(b):
        return "legacy", None
    if mode == "x86" and b[i] in (0x62, 0xC4, 0xC5) and (i + 1 >= len(b) or (b[i + 1] & 0xC0) != 0xC0):
        return "legacy", b[i]            # BOUND / LES / LDS in 32-bit mode
    if b[i] == 0x62:
        return "evex", b[i + 4] if i + 4 < len(b) else None
    if b[i] == 0xC5:
        return "vex", b[i + 2] if i + 2 < len(b) else None
    if b[i] == 0xC4:
        return "vex", b[i + 3] if i + 3 < len(b) else None
    if b[i] == 0x8F and i + 1 < len(b) and (b[i + 1] & 0x1F) >= 8:
        return "xop", b[i + 3] if i + 3 < len(b) else None
    if mode == "x64" and 0x40 <= b[i] <= 0x4F:
        i += 1
    if i < len(b) and b[i] == 0x0F:
        i += 1
        if i < len(b) and b[i] in (0x38, 0x3A):
            i += 1
        elif i < len(b) and b[i] == 0x0F and i + 2 < len(b):
            return "legacy", b[-1]          # 3DNow!: opcode is the trailing byte
    return "legacy", b[i] if i < len(b) else None


def encoding_matches(form, hexs, mode="x64"):
    cls, opb = prefix_class_of_bytes(hexs, mode)
    if cls != PREFIX_CLASS.get(form["prefix"], "?") or opb is None or not form["opbyte"]:
        return False
    want = int(form["opbyte"], 16)
    return (opb & 0xF8) == (want & 0xF8) if form["ri"] else opb == want


def make_row(q, form, ans, featids, flagbits):
    """canonical behaviour row (tuple) of a valid query"""
    dbr = dbw = 0
    for k, v in form["io"].items():
        if k not in flagbits:
            continue
        if v in ("R", "X"):
            dbr |= flagbits[k]
        if v in ("W", "X", "U", "0", "1"):
            dbw |= flagbits[k]
    enc = ans.get("e", "!")
    feat_checked = (not enc.startswith("!")) and encoding_matches(form, enc, q.get("mode", "x64"))
    # AVX512_VL is listed for every member of an xmm/ymm/zmm group; architecturally only 128/256-bit EVEX forms need it
    uses_zmm = any(o["regType"] == "zmm" or o["vsibReg"] == "zmm" for o in form["ops"])
    ext = sorted(featids[e] for e in form["ext"] if e in featids and not (e == "AVX512_VL" and uses_zmm))
    dbops = tuple((d["kind"], d["gp"], d["size"], d["read"], d["write"], d["lo"], d["width"], d.get("rwidth", d["width"]), d["follower"],
                   d["runLen"], d["rmChecked"], tuple(d["memAlt"])) for d in q["dbops"])
    imp = tuple((featids[a], featids[b]) for a, b in FEATURE_IMPLIES)
    return (q.get("mode", "x64") == "x64", dbops, dbr, dbw, feat_checked, tuple(ext), imp, tuple(ans["oplist"]), int(ans["rf"], 16), int(ans["wf"], 16),
            tuple(ans.get("feat", [])), q.get("dest_rule", 0))


# ------------------------------------------------------------------------------------------------------------------------------
# AArch64 register lists
# ------------------------------------------------------------------------------------------------------------------------------

A64_ARR = {"B": ["8b", "16b"], "H": ["4h", "8h"], "S": ["2s", "4s"], "D": ["1d", "2d"]}


def a64_queries(db):
    """every database form with a register list of n >= 2 registers -> query lines (only forms whose operands this small
    instantiator understands: vector lists + [Xn] / post-index memory or vector operands)"""
    qs = []
    for fi, f in enumerate(db["a64"]):
        ops = f["ops"]
        lists = [(i, int(re.match(r"(\d+)x\{", o["data"]).group(1))) for i, o in enumerate(ops) if re.match(r"\d+x\{", o["data"] or "")]
        lists = [(i, n) for i, n in lists if n >= 2]
        if not lists:
            continue
        li, n = lists[0]
        data = ops[li]["data"]
        m = re.match(r"\d+x\{(V\w*)\.(\w+)\}(\[#idx\])?", data)
        if not m or len(lists) != 1:
            qs.append({"line": None, "form": fi, "why": "list kind not instantiated: " + data})
            continue
        arrs = {"t": ["8b", "16b", "4h", "8h", "2s", "4s", "2d"], "16B": ["16b"]}.get(m.group(2)) or \
            ([m.group(2).lower()] if m.group(3) else None)
        if arrs is None:
            qs.append({"line": None, "form": fi, "why": "arrangement not instantiated: " + data})
            continue
        for arr in arrs:
            toks, dbops, nid, okf = [], [], 4, True
            for i, o in enumerate(ops):
                # AArch64 rows: the run and the database's access letters (tbx reads its destination) are judged, no byte ranges
                d = {"kind": 0, "gp": False, "size": 0, "read": o["read"], "write": o["write"], "lo": 0, "width": 0, "follower": 0,
                     "runLen": 0, "rmChecked": False, "memAlt": []}
                if li <= i < li + n:
                    k = i - li
                    toks.append("v.%d.%s%s" % (8 + k, arr, ".1" if m.group(3) else ""))
                    d.update(kind=1, size=16, follower=k, runLen=n if k == 0 else 0)
                elif o["type"] == "reg" and o["regType"] == "v":
                    am = re.match(r"V\w*\.(\w+)$", o["data"])
                    a2 = {"8B": "8b", "16B": "16b", "t": arr}.get(am.group(1)) if am else None
                    if a2 is None:
                        okf = False
                        break
                    toks.append("v.%d.%s" % (nid, a2))
                    nid += 1
                    d.update(kind=1, size=16)
                elif o["type"] == "mem":
                    md = o["data"]
                    if md == "[Xn|SP]":
                        toks.append("m.2")
                    elif md == "[Xn|SP, Xm]@":
                        toks.append("m.2.post.x3")
                    elif re.match(r"\[Xn\|SP, #off==?(\d+)\]@", md):
                        toks.append("m.2.post.i%s" % re.match(r"\[Xn\|SP, #off==?(\d+)\]@", md).group(1))
                    else:
                        okf = False
                        break
                    d.update(kind=2)
                else:
                    okf = False
                    break
                dbops.append(d)
            if not okf:
                qs.append({"line": None, "form": fi, "why": "operand not instantiated: " + " | ".join(o["data"] for o in ops)})
                break
            qs.append({"line": "a %s %s" % (f["name"], " ".join(toks)), "form": fi, "dbops": dbops, "variant": arr, "list_at": li})
    return qs


def make_a64_row(q, ans):
    dbops = tuple((d["kind"], d["gp"], d["size"], d["read"], d["write"], d["lo"], d["width"], d.get("rwidth", d["width"]), d["follower"],
                   d["runLen"], d["rmChecked"], tuple(d["memAlt"])) for d in q["dbops"])
    return (False, dbops, 0, 0, False, (), (), tuple(ans["oplist"]), 0, 0, (), 0)


# ------------------------------------------------------------------------------------------------------------------------------
# rows -> Lean / monitor lines
# ------------------------------------------------------------------------------------------------------------------------------

def lb(b):
    return "true" if b else "false"


def lean_row(r):
    mode64, dbops, dbr, dbw, fc, ext, imp, iops, ir, iw, feat, rule = r
    ds = ", ".join("⟨%d, %s, %d, %s, %s, %d, %d, %d, %d, %d, %s, [%s]⟩" % (k, lb(gp), sz, lb(rd), lb(wr), lo, wd, rwd, fo, rl, lb(rc),
                                                                            ", ".join(map(str, ma)))
                   for (k, gp, sz, rd, wr, lo, wd, rwd, fo, rl, rc, ma) in dbops)
    is_ = ", ".join("⟨0x%x, %d, %d, %d, 0x%x, 0x%x, 0x%x⟩" % o for o in iops)
    return "⟨%s, [%s], 0x%x, 0x%x, %s, [%s], [%s], [%s], 0x%x, 0x%x, [%s], %d⟩" % (
        lb(mode64), ds, dbr, dbw, lb(fc), ", ".join(map(str, ext)), ", ".join("(%d, %d)" % p for p in imp), is_, ir, iw,
        ", ".join(map(str, feat)), rule)


def csv(xs):
    return ",".join(map(str, xs)) if xs else "-"


def monitor_line(r):
    mode64, dbops, dbr, dbw, fc, ext, imp, iops, ir, iw, feat, rule = r
    w = ["mon", str(int(mode64)), str(len(dbops))]
    for (k, gp, sz, rd, wr, lo, wd, rwd, fo, rl, rc, ma) in dbops:
        w += [str(k), str(int(gp)), str(sz), str(int(rd)), str(int(wr)), str(lo), str(wd), str(rwd), str(fo), str(rl), str(int(rc)), csv(ma)]
    w += ["%x" % dbr, "%x" % dbw, str(int(fc)), csv(ext), csv([x for p in imp for x in p]), str(len(iops))]
    for o in iops:
        w += ["%x" % o[0], str(o[1]), str(o[2]), str(o[3]), "%x" % o[4], "%x" % o[5], "%x" % o[6]]
    w += ["%x" % ir, "%x" % iw, csv(feat), str(rule)]
    return " ".join(w)


CHUNK = 200


def render_rows(rows, modname, tablename, pred="rowOk"):
    """rows: list of distinct canonical rows -> dict filename -> content. One file per 4 chunks keeps every file fast."""
    files = {}
    per_file = 2 * CHUNK
    nfiles = max(1, (len(rows) + per_file - 1) // per_file)
    imports = []
    for fno in range(nfiles):
        part = rows[fno * per_file:(fno + 1) * per_file]
        s = ["-- GENERATED by tools/gen_c12.py from the current /repo on every run; do not edit", "import AsmjitVerif.Spec.RWCover",
             "set_option maxRecDepth 1000000", "namespace Gen.%s" % modname, "open Spec.RWCover", ""]
        names = []
        for c in range(0, len(part), CHUNK):
            cn = "chunk%d_%d" % (fno, c // CHUNK)
            names.append(cn)
            s.append("def %s : List Row := [" % cn)
            s.append(",\n".join("  " + lean_row(r) for r in part[c:c + CHUNK]))
            s.append("]")
            s.append("theorem %s_ok : %s.all %s = true := by decide +kernel" % (cn, cn, pred))
            s.append("")
        s.append("def part%d : List Row := %s" % (fno, " ++ ".join(names) if names else "[]"))
        s.append("theorem part%d_ok : part%d.all %s = true := by" % (fno, fno, pred))
        s.append("  simp only [part%d, List.all_append, Bool.and_eq_true%s]" % (fno, "".join(", %s_ok" % n for n in names)))
        s.append("  all_goals trivial" if len(names) > 1 else "")
        s.append("end Gen.%s" % modname)
        fn = "AsmjitVerif/Gen/%sP%d.lean" % (modname, fno)
        files[fn] = "\n".join(s) + "\n"
        imports.append("AsmjitVerif.Gen.%sP%d" % (modname, fno))
    s = ["-- GENERATED by tools/gen_c12.py from the current /repo on every run; do not edit"]
    s += ["import %s" % i for i in imports]
    s += ["namespace Gen.%s" % modname, "open Spec.RWCover", ""]
    s.append("/-- %s -/" % tablename)
    s.append("def table : List Row := %s" % " ++ ".join("part%d" % i for i in range(nfiles)))
    s.append("theorem table_ok : table.all %s = true := by" % pred)
    s.append("  simp only [table, List.all_append, Bool.and_eq_true%s]" % "".join(", part%d_ok" % i for i in range(nfiles)))
    if nfiles > 1:
        s.append("  all_goals trivial")
    s.append("def tableSize : Nat := %d" % len(rows))
    s.append("end Gen.%s" % modname)
    files["AsmjitVerif/Gen/%s.lean" % modname] = "\n".join(s) + "\n"
    return files


def render_tables(dump_lines, modname, defname):
    """compiler dump of the generated tables (`T kind idx v...` lines, hex fields already decoded by kind) -> Lean literal"""
    kinds = {"inst": 1, "rwa": 2, "rwb": 3, "op": 4, "rm": 5, "rwflags": 6, "addl": 7, "instflags": 8}
    hexcols = {"op": (0, 1, 4), "rwflags": (0, 1), "instflags": (0,)}
    rows = []
    for l in dump_lines:
        w = l.split()
        if len(w) < 3 or w[0] != "T" or w[1] not in kinds:
            continue
        vals = w[3:]
        if w[1] == "inst":
            vals = vals[1:]          # the name is C13's subject
        nums = [int(v, 16) if i in hexcols.get(w[1], ()) else int(v) for i, v in enumerate(vals)]
        rows.append([kinds[w[1]], int(w[2])] + nums)
    if len(rows) < 2000:
        raise TranslateError("table dump unexpectedly small (%d rows)" % len(rows))
    s = ["-- GENERATED by tools/gen_c12.py (compiler dump of x86instdb.cpp tables); do not edit", "set_option maxRecDepth 1000000",
         "namespace Gen.%s" % modname,
         "/-- rows `[table, index, fields…]`; table 1 = per-instruction indices (rw A, rw B, additional info, implicit-z, prefer-evex), 2/3 = "
         "rw_info_a/b_table, 4 = rw_info_op_table, 5 = rw_info_rm_table, 6 = rw_flags_info_table, 7 = additional_info_table, "
         "8 = inst_flags_table -/",
         "def %s : List (List Nat) := [" % defname,
         ",\n".join("  [%s]" % ", ".join(map(str, r)) for r in rows), "]", "end Gen.%s" % modname]
    return "\n".join(s) + "\n", rows
