#!/usr/bin/env python3
"""QA of the checks (not a registered command): apply each mutation patch to a scratch worktree of /repo and run the
property's quick check against it (VERIF_REPO).  usage: selftest.py Cxx [patch ...]   (default: tools/mutants/Cxx/*.patch)"""
import os
import subprocess
import sys
from pathlib import Path

VERIF = Path(__file__).resolve().parent.parent
pid = sys.argv[1]
patches = [Path(p) for p in sys.argv[2:]] or sorted((VERIF / "tools/mutants" / pid).glob("*.patch"))
scratch = Path("/var/tmp/st_%s_%d" % (pid, os.getpid()))
subprocess.run(["git", "-C", "/repo", "worktree", "add", "--detach", "-q", str(scratch), "HEAD"], check=True)
try:
    for p in patches:
        subprocess.run(["git", "-C", str(scratch), "checkout", "-q", "--", "."], check=True)
        a = subprocess.run(["git", "-C", str(scratch), "apply", str(p.resolve())], capture_output=True, text=True)
        if a.returncode != 0:
            print("%-40s PATCH DOES NOT APPLY: %s" % (p.name, a.stderr.strip()[:200]))
            continue
        env = dict(os.environ, VERIF_REPO=str(scratch), VERIF_EVIDENCE_DIR=str(VERIF / ".build" / "selftest_evidence"))
        r = subprocess.run([sys.executable, str(VERIF / "tools/check.py"), pid, "--tier", "quick"], cwd=VERIF, env=env,
                           capture_output=True, text=True)
        lines = [l for l in r.stdout.splitlines() if l.startswith(("VIOLATION", "KNOWN-FINDING"))]
        verdict = "caught" if r.returncode == 1 and any(l.startswith("VIOLATION") for l in lines) else "MISSED"
        print("%-40s %s  %s" % (p.name, verdict, " | ".join(lines)[:300]))
        for l in r.stderr.splitlines():
            if l.startswith("  -> "):
                print("      " + l[:400])
        if verdict == "MISSED":
            print("      rc=%d stderr tail: %s" % (r.returncode, " | ".join(r.stderr.splitlines()[-6:])[:800]))
finally:
    subprocess.run(["git", "-C", "/repo", "worktree", "remove", "--force", str(scratch)])
    # the mutant runs rewrote lean/AsmjitVerif/Gen from the scratch tree: regenerate from /repo
    subprocess.run([sys.executable, "-c", "import sys; sys.path.insert(0, %r); import importlib, vlib\n"
                    "m = importlib.import_module('props.%s')\n"
                    "getattr(m, 'generate', lambda: None)()" % (str(VERIF / "tools"), pid.lower())], cwd=VERIF)
