// Dumps the ISA databases of <repo>/db through the repository's own reader (db/index.js) as JSON on stdout.
// usage: node gen_c12_db.js <repo>
"use strict";
const path = require("path");
const repo = process.argv[2];
const db = require(path.join(repo, "db", "index.js"));
const out = { x86: [], a64: [] };

const x86 = new db.x86.ISA(require(path.join(repo, "db", "isa_x86.json")));
for (const i of x86.instructions) {
  out.x86.push({
    name: i.name, arch: i.arch, prefix: i.prefix, privilege: i.privilege, control: i.control, encoding: i.encoding,
    opcode: i.opcodeString, alt: !!i.alt, k: i.k || "", kmask: !!i.kmask, zmask: !!i.zmask, er: !!i.er, sae: !!i.sae,
    broadcast: !!i.broadcast, io: i.io, ext: Object.keys(i.ext), l: i.opcode.l || "", w: i.opcode.w || "", category: Object.keys(i.category || {}), opbyte: i.opcode.byte || "", ri: !!i.opcode.ri, mm: i.opcode.mm || "",
    ops: i.operands.map((o) => ({
      data: o.data, reg: o.reg || "", regType: o.regType || "", mem: o.mem || "", memSize: o.memSize, imm: o.imm || 0,
      immValue: o.immValue === undefined ? null : o.immValue, read: !!o.read, write: !!o.write, zext: !!o.zext,
      implicit: !!o.implicit, rwxIndex: o.rwxIndex, rwxWidth: o.rwxWidth, regIndexRel: o.regIndexRel || 0,
      vsibReg: o.vsibReg || "", memOff: !!o.memOff, memSegment: o.memSegment || "", memRegOnly: o.memRegOnly || "",
      bcstSize: o.bcstSize, rel: o.rel || 0, fixed: !!(o.isFixedReg && o.isFixedReg())
    }))
  });
}

const a64 = new db.aarch64.ISA(require(path.join(repo, "db", "isa_aarch64.json")));
for (const i of a64.instructions) {
  out.a64.push({
    name: i.name, ext: Object.keys(i.ext || {}),
    ops: i.operands.map((o) => ({ data: o.data, type: o.type, reg: o.reg || "", regType: o.regType || "", read: !!o.read, write: !!o.write,
                                  regList: !!o.regList, artificial: !!o.artificial, elementType: o.elementType || "", consecutive: o.consecutive || 0 }))
  });
}
process.stdout.write(JSON.stringify(out));
