"""C03 — every label reference resolves to the position where the label was bound (DESIGN.md section 6, C03).

Also the shared machinery of C04 (tools/props/c04.py imports this module: same model, driver, harness)."""
import vlib

PID = "C03"
MANIFEST = {
    "technique": "Lean 4 invariants by induction over all programs of a hand model of CodeHolder (labels, fixups, bind, resolve, "
                 "embed_label[_delta]) + x86/a64 reference sites, independent reference-semantics monitor, C++/Lean correspondence",
    "text": "Lean proves by induction over ALL programs of the menu (disjoint-regions invariant, Props/C03E): after flatten + resolve every "
            "reference ever created through a fixup designates exactly section offset(label) + label offset - site + addend under the "
            "independent field decoder, or is still on a fixup list with an untouched zero field and the counter is positive "
            "(resolved_ref_correct, never_truncates, count_zero_all_resolved). Also for every program (list of API calls, any interleaving): the unresolved counter equals the number of pending "
            "fixups at every step (zero iff none remain), every pending fixup sits on an unbound label or on the cross-section list "
            "naming a bound label, a fixup is dropped only after write_offset accepted exactly `label - site + addend` (never a "
            "truncated value; C17 gives the byte meaning of an accepted write), failed patches stay counted and return "
            "InvalidDisplacement, the short form is chosen only when the rel8 is representable, label deltas are range checked. "
            "The model is tied to the real CodeHolder/x86::Assembler/a64::Assembler by running both on the same programs "
            "(random + range-limit boundary programs on both sides of every format, 3 architectures, multi-section, many pending "
            "references); the Lean monitor decodes every reference field of the real buffers with an independent ISA-level reading "
            "and compares with the ghost label positions.",
    "note": "Trusted: Lean kernel; Spec/RefSemantics.lean (what a reference field designates) and Spec/Offset.lean; the menu of "
            "instruction shapes (opaque non-field bytes, compared byte for byte); harness/driver/diff. The end-to-end theorems are stated on the model's "
            "ghost log of fixup records with the Spec/Offset field decoder; Props/C03B carries them to the monitor's CPU reading "
            "(judgeRel: end of instruction + sign-extended field on x86, pc + field on AArch64, ADRP pages) - what remains evaluated on "
            "every explored program rather than proved is the monitor's own bookkeeping (its Ref records name the same field as the "
            "model's log; opcode-based field location) - closed in round 10: Props/C03R simulates the monitor's ghostStep on the model's "
            "answers (monitor_refs_match, monitor_verdict_x86/_a64) and Props/C03L shows x86BranchField on the final bytes finds the logged "
            "field (monitor_branch_field); what stays outside Lean is the text protocol between driver dump and monitor. References encoded directly against an already bound label: Props/C03D says "
            "what is written (x86 rel8/rel32, [rip+label], AArch64 EmitOp_DispImm), Props/C03S that those bytes are still there at the end "
            "of every program (direct_field_persists; end to end for x86-64 branches and AArch64: direct_jmp_final, direct_a64_final). Buffer growth, set_offset, named "
            "labels and the Builder path are not modelled. Model follows the repaired code (fixes/C03-1, C03-2).",
}
MODS = ["AsmjitVerif.Props.C03", "AsmjitVerif.Props.C03E", "AsmjitVerif.Props.C03B", "AsmjitVerif.Props.C03D", "AsmjitVerif.Props.C03S",
        "AsmjitVerif.Props.C03N", "AsmjitVerif.Props.C03A64", "AsmjitVerif.Props.C03L", "AsmjitVerif.Props.C03R", "AsmjitVerif.Props.C03O"]
M64 = (1 << 64) - 1

JK = ["jmp", "jz", "call", "jecxz", "loop"]
MK = ["lea", "mov", "addi8", "movi32", "cmpi16", "ldeax", "steax", "ldrax", "fsmov", "gsldeax", "fsaddi8"]
AK = ["b", "bl", "bcond", "cbz", "tbz", "adr", "adrp", "bc", "ldr"]
BASES = [0x1000, 0x7FFFF000, 0x80000000, 0xFFFFF000, 1 << 32, (1 << 47) - 4096, 1 << 63, (1 << 64) - 65536]


def tail(base):
    return ["flatten", "resolve", "relocate %x" % base, "dump"]


class Gen:
    """random program over the menu; keeps just enough bookkeeping to aim at interesting cases"""

    def __init__(self, rng, arch, c04=False, init_base=None):
        self.r, self.arch, self.c04 = rng, arch, c04
        self.ops = ["init %s %s" % (arch, "-" if init_base is None else "%x" % init_base)]
        self.nl, self.ns, self.bound = 0, 1, set()
        self.known_base = init_base is not None
        if c04:
            # all user sections first: `.addrtab` is created implicitly by the first patchable jmp/call and must not be
            # mistaken for a user section by a later `section <id>`
            for _ in range(rng.choice((0, 0, 1, 2, 3))):
                self.ops.append("newsection %d %d" % (rng.choice((1, 4, 8, 16, 64)), rng.choice((0, 0, 1, -1, 5, 2147483647))))
                self.ns += 1

    def label(self, allow_new=True):
        if self.nl == 0 or (allow_new and self.r.random() < 0.15 and self.nl < 8):
            self.ops.append("newlabel")
            self.nl += 1
            return self.nl - 1
        return self.r.randrange(self.nl)

    def ref(self, l=None):
        r = self.r
        l = self.label() if l is None else l
        if self.arch == "a64":
            k = r.choice(AK)
            add = 0
            if k == "ldr" and r.random() < 0.5:
                add = r.choice((4, 8, -4, -8, 16, 1024, 3, -1048576, 1048572)) & M64
            self.ops.append("a64 %s %d %x" % (k, l, add))
        else:
            if r.random() < 0.55:
                self.ops.append("jmp %s %s %d" % (r.choice(JK), r.choice("dddsl"), l))
            else:
                d = r.choice((0, 0, 4, 8, -4, 0x10, 0x7FFF, -0x8000, 0x12345, -0x12345, 0x3FFFFFFF, -0x40000000, 0x7FFFFFFF, -0x80000000, -0x7FFFFFFC, -0x7FFFFFF8)) & 0xFFFFFFFF
                self.ops.append("mem %s %d %x" % (r.choice(MK), l, d))

    def absref(self):
        r = self.r
        t = r.choice((0x1000, 0x12345678, 0x7FFFFFF0, 0x80000000, 0xFFFFFFF0, 0x100000000, 0x7FFFFFFFF000, 1 << 63, M64 - 0xFFF,
                      r.getrandbits(32), r.getrandbits(47), r.getrandbits(64)))
        if self.arch == "a64":
            k = r.choice(AK[:-1])
            if k != "adr":
                t &= ~3
            if k == "adrp" and r.random() < 0.7:
                t &= ~0xFFF
            self.ops.append("a64abs %s %x" % (k, t & M64))
        else:
            if r.random() < 0.5:
                # absolute memory operand (no base / index / label): rel and abs forms, with and without trailing immediates
                t = r.choice((0x1000, 0x12345678, 0x7FFFFFF0, 0x80000000, 0xFFFFFFF0, 0xFFFFFFFF80000000, M64 - 0xFFF, 0x100000000,
                              0x7FFFFFFFF000, r.getrandbits(31), r.getrandbits(32), r.getrandbits(47), (-r.getrandbits(31)) & M64))
                self.ops.append("memabs %s %s %x" % (r.choice(MK), r.choice("dddar"), t & M64))
            else:
                self.ops.append("jmpabs %s %s %x" % (r.choice(("jmp", "call", "jmp", "call", "jz", "jecxz")), r.choice("dddl"), t & M64))

    def pad(self):
        r = self.r
        k = r.random()
        if k < 0.5:
            n = r.randrange(1, 16)
        elif k < 0.8:
            n = r.choice((100, 117, 118, 119, 120, 121, 122, 123, 124, 125, 126, 127, 128, 129, 130, 131, 132, 255, 256))
        else:
            n = r.choice((1000, 4092, 4096, 32760, 32764, 32768, 32772, 65536))
        if self.arch == "a64":
            n = (n + 3) & ~3
        self.ops.append("zeros %d" % n)

    def step(self):
        r = self.r
        k = r.random()
        if k < 0.42:
            self.ref()
        elif k < 0.47 and self.c04:
            self.absref()
        elif k < 0.60:
            self.pad()
        elif k < 0.72:
            l = self.label(False)
            self.ops.append("bind %d" % l)
            self.bound.add(l)
        elif k < 0.78:
            self.ops.append("elabel %d %d" % (self.label(), r.choice((0, 4, 8, 8, 2, 1) if self.arch != "x86" else (0, 4, 4, 2, 1, 8))))
        elif k < 0.85:
            self.ops.append("edelta %d %d %d" % (self.label(), self.label(), r.choice((0, 1, 2, 4, 8))))
        elif k < 0.89 and self.ns < 4 and not self.c04:
            self.ops.append("newsection %d %d" % (r.choice((0, 1, 4, 8, 16, 64, 4096)), r.choice((0, 0, 1, -1, 5, 2147483647, -2147483648))))
            self.ns += 1
        elif k < 0.96 and self.ns > 1:
            self.ops.append("section %d" % r.randrange(self.ns))
        elif k < 0.98:
            self.ops.append("align %d" % r.choice((4, 8, 16, 64)))
        else:
            # (no `resolve` in the middle: resolving against a layout that later emissions invalidate is a usage error)
            # with the base known at init a premature flatten makes the assembler encode absolute targets against a layout that
            # later emissions invalidate (usage error, like a premature resolve): only programs without a known base flatten early
            early = "align 8" if self.known_base else "flatten"
            self.ops.append(r.choice((early, early, "bind 99", "jmp jmp d 99" if self.arch != "a64" else "a64 b 99 0",
                                      "elabel 99 8", "section 9", "newsection 3 0" if not self.c04 else "align 5", "align 3", "elabel 0 3")))

    def finish(self, base, bind_rest=0.85):
        for l in range(self.nl):
            if l not in self.bound and self.r.random() < bind_rest:
                if self.ns > 1 and self.r.random() < 0.5:
                    self.ops.append("section %d" % self.r.randrange(self.ns))
                self.ops.append("bind %d" % l)
        return self.ops + tail(base)


def random_program(rng, arch, n, c04=False, init_base=None, base=None):
    g = Gen(rng, arch, c04, init_base)
    for _ in range(n):
        g.step()
    if base is None:
        base = init_base if init_base is not None else rng.choice(BASES if arch != "x86" else (0x1000, 0x400000, 0x7FFF0000, 0xFFFF0000))
    return g.finish(base)


def boundary_programs(rng, tier):
    """a reference at limit-1, limit, limit+1 units on both sides of every format's range"""
    progs = []
    quick = tier == "quick"

    def prog(arch, body, base=0x10000):
        progs.append(["init %s -" % arch] + body + tail(base))

    # x86 rel8 (short jmp, jecxz, loop): forward disp = pad, backward disp = -(pad + len)
    for arch in ("x64", "x86"):
        for k, opt, ln in (("jmp", "s", 2), ("jecxz", "d", 3 if arch == "x64" else 2), ("loop", "d", 2), ("jz", "s", 2), ("jmp", "d", 2)):
            for pad in (125, 126, 127, 128, 129):
                prog(arch, ["newlabel", "jmp %s %s 0" % (k, opt), "zeros %d" % pad, "bind 0"])
                prog(arch, ["newlabel", "bind 0", "zeros %d" % pad, "jmp %s %s 0" % (k, opt)])
        # rel32 across sections near +-2 GiB through a virtual size
        for vs in (0x7FFFFFF0, 0x7FFFFFFB, 0x7FFFFFFC, 0x80000000, 0x80000005, 0x80000010):
            prog(arch, ["newlabel", "newlabel", "newsection 1 1", "jmp jmp l 1", "bind 0", "section 1", "bind 1", "jmp call d 0",
                        "mem lea 0 0", "vsize 0 %x" % vs])
    # label deltas at 2^(8k-1)
    for arch in ("x64", "a64"):
        for size, lim in ((1, 128), (2, 32768)):
            for d in (lim - 1, lim, lim + 1, 2 * lim - 1, 2 * lim, 2 * lim + 1):
                dd = d if arch != "a64" else (d + 3) & ~3
                prog(arch, ["newlabel", "newlabel", "bind 0", "zeros %d" % dd, "bind 1", "edelta 1 0 %d" % size, "edelta 0 1 %d" % size])
                prog(arch, ["newlabel", "newlabel", "edelta 1 0 %d" % size, "edelta 0 1 %d" % size, "bind 0", "zeros %d" % dd, "bind 1"])
        for vs in (0x7FFFFFFF, 0x80000000, 0x80000001, 0xFFFFFFFF, 0x100000000):
            prog(arch, ["newlabel", "newlabel", "newsection 1 1", "bind 0", "section 1", "bind 1", "edelta 1 0 4", "edelta 0 1 4",
                        "edelta 1 0 8", "vsize 0 %x" % vs])
    # AArch64: tbz +-32 KiB, imm19 +-1 MiB, imm26 +-128 MiB, adr +-1 MiB, adrp +-4 GiB
    small = (("tbz", 1 << 15),)
    big = (("bcond", 1 << 20), ("cbz", 1 << 20), ("ldr", 1 << 20), ("adr", 1 << 20))
    for k, lim in small + (big if not quick else big[:1] + big[3:]):
        for d in (lim - 4, lim, lim + 4):
            prog("a64", ["newlabel", "a64 %s 0 0" % k, "zeros %d" % (d - 4), "bind 0"])            # forward d
            prog("a64", ["newlabel", "bind 0", "zeros %d" % d, "a64 %s 0 0" % k])                 # backward -d
    for d in ((1 << 20) - 1, 1 << 20, (1 << 20) + 1):
        prog("a64", ["newlabel", "bind 0", "zeros %d" % ((d + 3) & ~3), "a64 adr 0 0", "a64 adr 0 0"])
    # cross-section through virtual sizes: section 1 starts at vs (aligned), references both ways
    for k, lim in (("tbz", 1 << 15), ("bcond", 1 << 20), ("b", 1 << 27), ("bl", 1 << 27), ("adr", 1 << 20), ("adrp", 1 << 32), ("ldr", 1 << 20)):
        for d in (lim - 4096, lim - 4, lim, lim + 4, lim + 4096):
            prog("a64", ["newlabel", "newlabel", "newsection 4 1", "a64 %s 1 0" % k, "bind 0", "section 1", "bind 1", "a64 %s 0 0" % k,
                         "vsize 0 %x" % d])
            prog("a64", ["newlabel", "newlabel", "newsection 4 1", "bind 0", "zeros 8", "section 1", "a64 %s 0 0" % k, "bind 1",
                         "section 0", "a64 %s 1 0" % k, "vsize 0 %x" % d])
    # many pending references on one label, in two sections
    for arch in ("x64", "x86", "a64"):
        body = ["newlabel", "newsection 16 1"]
        for i in range(40):
            if i % 7 == 3:
                body.append("section %d" % (i % 2))
            body.append(("a64 %s 0 0" % rng.choice(AK)) if arch == "a64" else rng.choice(("jmp %s d 0" % rng.choice(JK), "mem %s 0 %x" % (rng.choice(MK), rng.randrange(64)))))
            if i % 5 == 0:
                body.append("zeros %d" % (4 * rng.randrange(1, 9)))
        body += ["section 0", "bind 0"]
        prog(arch, body)
    # overflow / virtual size extremes
    prog("x64", ["newlabel", "newsection 1 1", "jmp jmp d 0", "section 1", "bind 0", "vsize 0 ffffffffffffff00"])
    prog("x64", ["newlabel", "newsection 1 1", "jmp jmp d 0", "section 1", "zeros 4", "bind 0", "resolve"])   # resolve before flatten
    return progs


def gen_programs(rng, tier, c04=False):
    progs = []
    n = 500 if tier == "quick" else 12000
    for i in range(n):
        arch = ("x64", "a64", "x86")[i % 3]
        ib = None
        if c04 and rng.random() < 0.45:
            ib = rng.choice(BASES if arch != "x86" else (0x1000, 0x400000, 0x7FFF0000, 0xFFFF0000))
        progs.append(random_program(rng, arch, rng.choice((8, 20, 40, 60)), c04, ib))
    return progs


def named_programs(rng, tier):
    """named (global) labels: creation (fresh / duplicate / empty / too long names), lookup by name (defined, undefined, empty),
    references through the ids the lookups are expected to give"""
    progs = []
    pool = ["main", "loop", "L1", "exit", "a", "data.table", "x" * 40, "@2048", "@2049", "-", "Main", "main2"]
    for i in range(40 if tier == "quick" else 600):
        arch = ("x64", "a64", "x86")[i % 3]
        ops, truth, nl = ["init %s -" % arch], {}, 0
        for _ in range(rng.choice((4, 10, 20))):
            k = rng.random()
            nm = rng.choice(pool)
            if k < 0.35:
                ops.append("newnamed %s" % nm)
                if nm not in ("-", "@2049") and nm not in truth:
                    truth[nm] = nl
                    nl += 1
            elif k < 0.45:
                ops.append("newlabel")
                nl += 1
            elif k < 0.75:
                ops.append("byname %s" % (nm if nm != "-" or i % 3 == 0 else "exit"))
            elif nl:
                l = rng.choice(list(truth.values())) if truth and rng.random() < 0.8 else rng.randrange(nl)
                ops.append(rng.choice(("bind %d" % l, "a64 b %d 0" % l if arch == "a64" else "jmp jmp d %d" % l, "elabel %d 0" % l, "zeros 7" if arch != "a64" else "zeros 8")))
        for nm in (("-", "nosuch", "main") if i % 3 == 0 else ("nosuch", "main")):
            ops.append("byname %s" % nm)
        progs.append(ops + tail(0x10000))
    return progs


def named_truth_all(ops, answers):
    """independent bookkeeping of which label every name designates; returns [(class, description)] of the lookups /
    creations the implementation answers differently"""
    truth, nl, out = {}, 0, []
    for op, ans in zip(ops, answers):
        w = op.split()
        if w[0] == "newlabel":
            nl += 1
        elif w[0] == "newnamed":
            nm = w[1]
            want_ok = nm != "-" and not (nm.startswith("@") and int(nm[1:]) > 2048) and nm not in truth
            if ans.startswith("Ok") != want_ok:
                out.append(("create", "new_named_label(%s) answered %s, expected %s" % (nm, ans.split()[0], "Ok" if want_ok else "an error")))
            if ans.startswith("Ok"):
                if want_ok:
                    truth[nm] = nl
                nl += 1
        elif w[0] == "byname":
            want = "id=%d" % truth[w[1]] if w[1] in truth else "id=invalid"
            if ans != want:
                out.append(("empty-name" if w[1] == "-" else "lookup", "label_by_name(%s) answered %s: the name %s" % (
                    '""' if w[1] == "-" else w[1], ans,
                    ("designates label %d" % truth[w[1]]) if w[1] in truth else "was never defined (expected the invalid id)")))
    return out


def named_truth(ops, answers, cls=None):
    for c, why in named_truth_all(ops, answers):
        if cls is None or c == cls:
            return why
    return None


def check_named(res, h, progs):
    """returns the programs on which a lookup / creation is answered differently from the independent bookkeeping (a
    correspondence difference on the same program is explained by that violation); one violation per class"""
    explained, first = set(), {}
    for p in sorted(progs, key=len):
        a, rc, err = vlib.run_lines([str(h)], p)
        if rc != 0 or len(a) != len(p):
            continue                         # aborts / protocol failures are reported by check_programs
        found = named_truth_all(p, a)
        if found:
            explained.add(tuple(p))
            for c, why in found:
                first.setdefault(c, (p, why))
    for c, (p, why) in sorted(first.items()):
        body = list(range(len(p) - 5))

        def fails(sel):
            q = p[:1] + [p[1 + i] for i in sel] + p[-4:]
            o, rc1, _ = vlib.run_lines([str(h)], q)
            return rc1 == 0 and len(o) == len(q) and named_truth(q, o, c) is not None
        sel = vlib.ddmin(body, fails, max_tests=150) if fails(body) else body
        q = p[:1] + [p[1 + i] for i in sel] + p[-4:]
        o, _, _ = vlib.run_lines([str(h)], q)
        res.violation("a label name does not designate the label it was defined for: %s (%d-op program)"
                      % (named_truth(q, o, c) or why, len(q)),
                      {"ops": q, "impl": o, "how": "python3 tools/check.py replay <this file>"}, True, key="named-lookup:" + c)
    res.coverage["named_label_programs"] = len(progs)
    return explained


# ----------------------------------------------------------------------------------------------
# running
# ----------------------------------------------------------------------------------------------

def split(progs, lines):
    out, i = [], 0
    for p in progs:
        out.append(lines[i:i + len(p)])
        i += len(p)
    return out if i == len(lines) else None


def image_dump(dump, image):
    """the dump line with every section's bytes replaced by the bytes found in the JIT image at the section's offset"""
    w = dump.split()
    i = 0
    while i < len(w):
        if w[i] == "S" and i + 3 < len(w):
            off, b = int(w[i + 1], 16), w[i + 3]
            if b != "-":
                n = len(b) // 2
                w[i + 3] = image[2 * off:2 * (off + n)].ljust(2 * n, "f")   # bytes missing from the image can never decode correctly
            i += 4
        else:
            i += 1
    return " ".join(w)


def monitor_lines(prog, answers):
    w = prog[0].split()
    ml = ["moninit %s %s" % (w[1], w[2])]
    image, dumped = None, False
    for op, ans in zip(prog[1:], answers[1:]):
        if op == "dump":
            if dumped:
                continue                  # one verdict per program: the first dump
            dumped = True
            ml.append("mon" + (image_dump(ans, image) if image is not None else ans))        # "dump ..." -> "mondump ..."
        elif op.startswith("jitadd"):
            # JitRuntime::add = flatten + resolve + relocate_to_base(rx) + copy: the monitor judges the bytes at rx
            a = ans.split()
            if a[0] == "Ok" and len(a) >= 6:
                image = "" if a[5] == "-" else a[5]
                ml.append("mon Ok %s %s | relocate %s" % (a[1], a[2], a[3]))
            else:
                ml.append("mon InvalidState %s %s | relocate 0" % (a[1], a[2]))
        elif op == "jitrelease" or op.startswith("byname"):
            continue
        elif op.startswith("newnamed"):
            if ans.startswith("Ok"):                  # a named label is an ordinary label for the ghost
                ml.append("mon %s | newlabel" % " ".join(ans.split()[:3]))
        else:
            ml.append("mon %s | %s" % (" ".join(ans.split()[:3]), op))
    return ml


def run_all(h, progs):
    flat = [l for p in progs for l in p]
    impl, rc, err = vlib.run_lines([str(h)], flat, timeout=14400)
    return flat, impl, rc, err


def judge(progs, answers):
    """run the Lean monitor over per-program answers; returns list of verdict strings"""
    ml = [l for p, a in zip(progs, answers) for l in monitor_lines(p, a)]
    out, rc, err = vlib.run_model("C03", ml, timeout=14400)
    return out if len(out) == len(progs) else None


def shrink(h, prog, pred):
    head, body, tl = prog[:1], prog[1:-4], prog[-4:]

    keep_sections = any(l.startswith(("jmpabs", "a64abs")) for l in body)   # section ids must not slide onto .addrtab
    idx = [i for i, l in enumerate(body) if not (keep_sections and l.startswith("newsection"))]

    def build(sel):
        ss = set(sel)
        return [l for i, l in enumerate(body) if i in ss or (keep_sections and l.startswith("newsection"))]

    def fails(sel):
        p = head + build(sel) + tl
        impl, rc, err = vlib.run_lines([str(h)], p)
        if rc != 0:
            return pred("crash")
        if len(impl) != len(p):
            return False
        v = judge([p], [impl])
        return bool(v) and pred(v[0])

    if not fails(idx):
        return prog
    return head + build(vlib.ddmin(idx, fails, max_tests=250)) + tl


def check_programs(res, pid, h, progs, broken, explained=()):
    if broken:
        # a proof obligation that no longer checks is always reported, whatever else is found
        res.violation("proof obligation no longer checks: " + " | ".join(broken)[:1500], {"unchecked": broken}, False, key="obligation")
    if not progs or not any(len(p) > 1 for p in progs):
        res.violation("empty run: the generators produced no program", {}, False, key="empty-run")
        return
    flat, impl, rc, err = run_all(h, progs)
    if rc != 0:
        # locate the crashing program
        for p in progs:
            o, rc1, err1 = vlib.run_lines([str(h)], p)
            if rc1 != 0:
                sp = shrink(h, p, lambda v: v == "crash")
                first = [l for l in err1.splitlines() if "runtime error" in l or "ERROR: AddressSanitizer" in l][:1]
                res.violation("real code aborts (sanitizer) on a %d-op program: %s" % (len(sp), (first or [err1[-300:]])[0]),
                              {"ops": sp, "stderr": err1[-2000:]}, True, key="abort")
                return
        res.violation("harness failed rc=%d %s" % (rc, err[-500:]), {}, False, key="protocol")
        return
    if not impl:
        res.violation("empty run: the harness answered nothing for %d op lines" % len(flat), {}, False, key="empty-run")
        return
    model, rc2, err2 = vlib.run_model("C03", flat, timeout=14400)
    ia, ma = split(progs, impl), split(progs, model)
    if ia is None or ma is None or rc2 != 0:
        res.violation("driver/harness protocol failure lines %d/%d/%d rc=%d %s" % (len(flat), len(impl), len(model), rc2, err2[-300:]), {}, False, key="protocol")
        return
    verdicts = judge(progs, ia)
    mverdicts = judge(progs, ma)
    if verdicts is None or mverdicts is None:
        res.violation("monitor protocol failure", {}, False, key="protocol")
        return
    bad = [i for i, v in enumerate(verdicts) if v != "good"]
    mbad = [i for i, v in enumerate(mverdicts) if v != "good"]
    diffs = [i for i in range(len(progs)) if ia[i] != ma[i]]

    cov = res.coverage
    cov["evaluations"] = len(flat)
    kinds, refs_ok = {}, 0
    for p, a in zip(progs, ia):
        for o, r in zip(p, a):
            w = o.split()
            k = w[0] + (":" + w[1] if w[0] in ("jmp", "mem", "a64", "jmpabs", "a64abs", "init") else "") + "=" + r.split()[0]
            kinds[k] = kinds.get(k, 0) + 1
            if w[0] in ("jmp", "mem", "a64", "jmpabs", "a64abs", "elabel", "edelta") and r.startswith("Ok"):
                refs_ok += 1
    cov["input_distribution"] = kinds
    cov["distinct_nontrivial"] = len({tuple(p) for p, a in zip(progs, ia) if any(x.split()[0] != "Ok" for x in a[:-1]) or len(p) > 12})
    cov["rule"] = ("seeded random programs (<=60 menu ops, 3 architectures, 1-4 sections, binds before/after, unbound leftovers, invalid ids) + "
                   "boundary programs at limit-1/limit/limit+1 on both sides of rel8, imm14, imm19, imm26, adr, adrp, rel32 (virtual sizes), "
                   "label deltas at 2^(8k-1), 40 pending references per label; non-trivial = distinct program with an error answer or > 12 ops")
    cov["references_emitted"] = refs_ok
    cov["programs"] = len(progs)
    cov["monitored_programs"] = len(progs)
    cov["traces_validated_against_impl"] = len(progs)
    cov["exhaustive"] = False
    res.add_samples([{"program": progs[i][:12], "impl_tail": ia[i][-2][:120], "monitor": verdicts[i]} for i in (0, len(progs) // 2, len(progs) - 1)])

    badset = set(bad)
    if bad:
        classes = {}
        for i in bad:
            classes.setdefault(verdicts[i].split()[1].split("=")[0], []).append(i)
        for cls, idx in sorted(classes.items()):
            i = min(idx, key=lambda j: len(progs[j]))
            sp = shrink(h, progs[i], lambda v, c=cls: v.startswith("BAD " + c))
            o, _, _ = vlib.run_lines([str(h)], sp)
            v = judge([sp], [o]) or ["?"]
            res.violation("real code violates %s on a %d-op program (%d programs of this class): monitor says %s" % (pid, len(sp), len(idx), v[0]),
                          {"ops": sp, "impl": o, "monitor": v[0], "how": "python3 tools/check.py replay <this file>"}, True, key="ref:" + cls)
    # the model itself must satisfy the monitor wherever the real code does (otherwise model / theorem / spec are wrong)
    mbad_only = [i for i in mbad if i not in badset]
    if mbad_only:
        i = mbad_only[0]
        res.violation("the MODEL violates the monitor on a program where the real code does not (model or theorem wrong): %s" % mverdicts[i],
                      {"ops": progs[i], "model": ma[i], "unchecked": "Props/%s theorems vs Spec/RefSemantics.judge" % pid}, False, key="obligation-model")
    # a correspondence difference is reported unless the monitor already explains that very program (a violation found
    # on the same program); differences on other programs are never hidden by unrelated violations
    diffs_only = [i for i in diffs if i not in badset and tuple(progs[i]) not in explained]
    if diffs_only:
        i = min(diffs_only, key=lambda j: len(progs[j]))
        p = progs[i]

        def differs(b):
            q = p[:1] + b + p[-4:]
            a, rc, _ = vlib.run_lines([str(h)], q)
            m, _, _ = vlib.run_model("C03", q)
            return rc == 0 and a != m
        sp = p[:1] + vlib.ddmin(p[1:-4], differs, max_tests=200) + p[-4:] if differs(p[1:-4]) else p
        a, _, _ = vlib.run_lines([str(h)], sp)
        m, _, _ = vlib.run_model("C03", sp)
        k = vlib.first_diff(a, m)
        res.violation("correspondence model/implementation differs (%d programs on which the property monitor holds) at op %r: impl=%s model=%s"
                      % (len(diffs_only), sp[k] if k is not None and k < len(sp) else "?", (a[k] if k is not None and k < len(a) else "?")[:200],
                         (m[k] if k is not None and k < len(m) else "?")[:200]),
                      {"ops": sp, "impl": a, "model": m, "unchecked": "correspondence Model/CodeHolder.lean+RefSite.lean ~ codeholder.cpp/assemblers"},
                      False, key="corr")


def prepare(res, pid, mods):
    broken = []
    ok, out = vlib.lean_stage(res, pid, mods)
    if not ok and not res.violations:
        for ft in getattr(res, "build_failures", []) or [{"decl": "?", "msg": out[-800:]}]:
            broken.append("theorem %s (%s:%s) no longer checks: %s" % (ft.get("decl"), ft.get("file"), ft.get("line"), ft.get("msg")))
        vlib.lake_build(["vdriver"])
    if not vlib.driver_path().exists():
        res.violation("Lean driver does not build", {"log": out[-3000:]}, found_input=False, key="driver")
        return None, broken
    return vlib.build_harness("c03"), broken


ASSUMPTIONS = ["sections larger than 2 GiB are exercised only by the dedicated witness harness c03big (direct jmp / b against a bound label); "
               "the model follows fixes/C03-3.patch (range test in x86 EmitJmpCall) there",
               "programs call resolve_cross_section_fixups only after the final flatten, and programs assembled with a known base do not flatten before the end "
               "(resolving / encoding absolute targets against a layout that later emissions invalidate is a usage error); "
               "user code never switches to the implicit .addrtab section (harness and model answer InvalidSection)",
               "code buffers are byte lists: capacity, realloc and grow_buffer are invisible; emission is append-only: set_offset is not in the op language (Props/C03O proves what survives it: overwrites clear of every logged fixup field keep the invariant; a fixup whose field was overwritten is patched blindly - user responsibility)",
               "non-field instruction bytes come from a menu of shapes (compared byte for byte with the real encoders, not proved: C01/C02)",
               "align is exercised in AlignMode::kZero only; labels are anonymous (named labels / Builder not modelled)",
               "ADRP is judged with page-aligned bases; asmjit only encodes ADRP when target and site are congruent mod 4096",
               "the harness answers InvalidLabel itself for a 32-bit memory operand with an invalid label id (defect #4, C14) instead of calling the encoder",
               "model follows the repaired code: fixes/C03-1.patch (embed_label_delta range test), fixes/C03-2.patch (new_fixup on a bound label)"]


def big_section_witness(res, tier):
    """direct encoding against a label bound more than 2 GiB behind in the same section (buffers too large for the line
    protocol: a dedicated harness emits the data and prints only the instruction; the Lean monitor judges the bytes)"""
    hb = vlib.build_harness("c03big")
    cases = [("x64", 0x80000000)] if tier == "quick" else [("x64", 0x7FFFFFF0), ("x64", 0x80000000), ("x64", 0x80000010), ("a64", 0x8000000), ("a64", 0x7FFFFFC)]
    n = 0
    for arch, dist in cases:
        p = vlib.sh([str(hb), arch, "%x" % dist], timeout=7200, env={"ASAN_OPTIONS": "detect_leaks=0"})
        w = dict(x.split("=", 1) for x in p.stdout.split() if "=" in x)
        if p.returncode != 0 or "offset" not in w:
            res.violation("big-section witness %s %x did not run (rc=%d %s)" % (arch, dist, p.returncode, (p.stdout + p.stderr)[-300:]),
                          {"ops": ["bigsite %s %x" % (arch, dist)]}, False, key="witness-abort")
            continue
        n += 1
        at, err, by = int(w["offset"], 16), int(w["err_branch"]), w.get("bytes", "")
        if err != 0:
            continue                       # reported as an error: allowed
        ln = 5 if arch == "x64" else 4     # jmp rel32 / b
        line = ("monsite x86rel %x 0 %s" % (at, by[:2 * ln])) if arch == "x64" else ("monsite a64 b %x 0 %s" % (at, by[:8]))
        out, _, _ = vlib.run_model("C03", [line])
        if out != ["good"]:
            res.violation("direct encoding against a bound label %#x bytes behind in the same section is silently truncated: %s at %#x "
                          "returned kOk with bytes %s (%s)" % (dist, "jmp L" if arch == "x64" else "b L", at, by[:2 * ln], out),
                          {"ops": ["bigsite %s %x" % (arch, dist)], "impl": p.stdout.strip(), "monitor": out,
                           "how": ".build/<tree>/asan/h_c03big %s %x" % (arch, dist)}, True, key="ref:direct-branch-wrong-target")
    res.coverage["big_section_witnesses"] = n


def run(res):
    rng = vlib.rng_for(res.seed, PID)
    res.assumptions += ASSUMPTIONS
    h, broken = prepare(res, PID, MODS)
    if h is None:
        return
    named = named_programs(rng, res.tier)
    progs = boundary_programs(rng, res.tier) + gen_programs(rng, res.tier) + named
    explained = check_named(res, h, named)
    check_programs(res, PID, h, progs, broken, explained)
    big_section_witness(res, res.tier)


def replay(data):
    ops = data["replay"].get("ops", [])
    if ops and ops[0].startswith("bigsite"):
        _, arch, dist = ops[0].split()
        hb = vlib.build_harness("c03big")
        p = vlib.sh([str(hb), arch, dist], timeout=7200, env={"ASAN_OPTIONS": "detect_leaks=0"})
        print(p.stdout.strip())
        w = dict(x.split("=", 1) for x in p.stdout.split() if "=" in x)
        if int(w.get("err_branch", "1")) != 0:
            print("monitor: good (reported as an error)")
            return 0
        ln = 10 if arch == "x64" else 8
        line = ("monsite x86rel %s 0 %s" % (w["offset"], w["bytes"][:ln])) if arch == "x64" else ("monsite a64 b %s 0 %s" % (w["offset"], w["bytes"][:ln]))
        out, _, _ = vlib.run_model("C03", [line])
        print("monitor:", out)
        return 0 if out == ["good"] else 1
    h = vlib.build_harness("c03")
    impl, rc, err = vlib.run_lines([str(h)], ops)
    for o, r in zip(ops, impl):
        print(o, "->", r[:300])
    if rc != 0:
        print(err[-2000:])
        return 1
    v = judge([ops], [impl]) if len(impl) == len(ops) else None
    print("monitor:", v[0] if v else "?")
    why = named_truth(ops, impl)
    if why:
        print("named labels:", why)
    return 0 if v and v[0] == "good" and not why else 1
