"""C06, invoke lowering (x86::Compiler RACFGBuilder::on_before_invoke and its move_* helpers + the frame's call-stack fields).

op:  iv <env> <ccid> <flags> <n> <tid>=<op>*n      (harness/c06.cpp do_iv; Lean: `ivm` = model, `moniv` = abstract machine)

Three checks per line:
  * correspondence: status, invoke arg_stack_size, call_stack_size, call_stack_alignment and the lowering's instructions (register
    ids erased; the harness's own initialisation and the register allocator's moves / spills dropped) equal the model's;
  * monitor: the real post-RA instruction list is run on Spec/InvokeMachine.lean; at the `call` every argument must sit at the
    location the ABI rules give it with the value the caller passed (immediates exactly, registers extended as the parameter type
    requires, by-reference vectors in a temporary inside the call area), the frame must cover stack arguments + temporaries and the
    harness's local must be intact;
  * (x86-64 host) execution: see harness op `ivx`.
"""
import re
import vlib

INTS = [34, 35, 36, 37, 38, 39, 40, 41]
SIZE = {34: 1, 35: 1, 36: 2, 37: 2, 38: 4, 39: 4, 40: 8, 41: 8}
BOUNDARY = [0, 1, 0x7F, 0x80, 0xFF, 0x100, 0x7FFF, 0x8000, 0xFFFF, 0x10000, 0x7FFFFFFF, 0x80000000, 0xFFFFFFFF, 0x100000000,
            0x7FFFFFFFFFFFFFFF, 0x8000000000000000, 0xFFFFFFFFFFFFFFFF, 0xFFFFFFFF80000000, 0xFFFFFFFF7FFFFFFF, 0x123456789ABCDEF0,
            0x80000001, 0xFFFFFFFE, 0x1FFFFFFFF, 0xFFFFFFFF00000000]
# (env, ccid): SysV, Win64 called from a SysV function, Win64 native, vectorcall, 32-bit cdecl / stdcall / fastcall / regparm(3)
COMBOS64 = [("x64l", 32), ("x64l", 33), ("x64w", 0), ("x64w", 3), ("x64w", 32)]
COMBOS32 = [("x86l", 0), ("x86w", 1), ("x86w", 2), ("x86l", 2), ("x86l", 7), ("x86w", 4)]


def line(env, cc, flags, args):
    return "iv %s %d %x %d %s" % (env, cc, flags, len(args), " ".join("%d=%s" % a for a in args))


def gen(rng, tier):
    ops = []
    nrand = 300 if tier == "quick" else 4000
    # S1 immediates: every boundary value at every position class (register / stack), every integer type (+ float/mmx bit patterns on the stack)
    for env, cc in COMBOS64 + COMBOS32:
        types = INTS + ([42, 43] if tier != "quick" or cc in (32, 0) else [])
        for t in types:
            if env.startswith("x86") and t in (42, 43):
                pass
            n = 8
            for rot in range(0, len(BOUNDARY), 3 if tier == "quick" else 1):
                args = [(t, "i%x" % BOUNDARY[(rot + k) % len(BOUNDARY)]) for k in range(n)]
                ops.append(line(env, cc, 0, args))
        # mixed widths in one call
        for rot in range(0, len(BOUNDARY), 4):
            args = [(INTS[(k + rot) % 8], "i%x" % BOUNDARY[(rot + 2 * k) % len(BOUNDARY)]) for k in range(9)]
            ops.append(line(env, cc, 0, args))
    # S2 registers: every (parameter type, register type) pair at register and stack positions
    for env, cc in COMBOS64 + COMBOS32:
        srcs = INTS if env.startswith("x64") else INTS[:6]
        dsts = INTS if env.startswith("x64") else INTS[:6]
        for dt in dsts:
            for rot in range(len(srcs)):
                args = [(dt, "r%d" % srcs[(rot + k) % len(srcs)]) for k in range(8)]
                ops.append(line(env, cc, 0, args))
    # S3 vectors: by reference (Win64), in registers (SysV / vectorcall), on the stack; with the local
    for env, cc in [("x64l", 33), ("x64w", 0), ("x64w", 3), ("x64l", 32)]:
        for vt, fl in ((79, 0), (79, 2), (89, 2), (99, 6), (74, 0), (85, 2)):
            for pos in range(0, 7):
                for loc in (0, 1):
                    args = [(40, "i%x" % (k + 1)) for k in range(pos)] + [(vt, "v%d" % vt)]
                    ops.append(line(env, cc, fl | loc, args))
                    args2 = [(vt, "v%d" % vt) if k % 2 == 0 else (38, "r38") for k in range(pos + 1)]
                    ops.append(line(env, cc, fl | loc, args2))
            # several temporaries of different sizes in one call
            ops.append(line(env, cc, 6 | 1, [(79, "v79"), (99, "v99"), (89, "v89"), (79, "v79"), (40, "iffffffff"), (79, "v79")]))
            ops.append(line(env, cc, 6 | 1, [(89, "v89"), (79, "v79"), (40, "i80000000"), (40, "i80000000"), (40, "i80000000"), (40, "r40"), (99, "v99")]))
        # the pointer passed explicitly, floats from vector registers
        ops.append(line(env, cc, 0, [(79, "r40"), (40, "i1"), (79, "r40"), (79, "r38")]))
        ops.append(line(env, cc, 0, [(40, "i1"), (40, "i2"), (40, "i3"), (40, "i4"), (79, "r40"), (79, "v79")]))
        if env == "x64l" and cc == 32:
            # __m64 parameters (SysV: xmm registers, then the stack) from GP / immediates
            ops.append(line(env, cc, 0, [(43, "v69")] * 8 + [(49, "r38"), (50, "r38"), (49, "i80000000"), (50, "iffffffff80000000"), (50, "r40"), (49, "r34")]))
        for rot in range(4):
            fts = [(42, "v59"), (43, "v69"), (42, "v79"), (43, "v79"), (42, "v42"), (43, "v43")]
            ops.append(line(env, cc, 0, [fts[(rot + k) % 6] for k in range(10)]))
    for env, cc in COMBOS32:
        ops.append(line(env, cc, 0, [(42, "v59"), (43, "v69"), (79, "v79"), (38, "r38"), (43, "v79")]))
        ops.append(line(env, cc, 1, [(79, "v79"), (79, "v79"), (79, "v79"), (79, "v79"), (38, "i80000000")]))
    # S5 AArch64 (AAPCS64 / Apple arm64): immediates and registers of every integer type at register and stack positions (Apple packs
    # 8/16-bit stack arguments at their natural size), floats / vectors in registers and on the stack, with and without the local
    for env in ("a64l", "a64d"):
        for t in INTS:
            for rot in range(0, len(BOUNDARY), 4 if tier == "quick" else 1):
                for loc in (0, 1):
                    ops.append(line(env, 0, loc, [(40, "i%x" % (k + 1)) for k in range(8)] +
                                    [(t, "i%x" % BOUNDARY[(rot + k) % len(BOUNDARY)]) for k in range(6)]))
            ops.append(line(env, 0, 0, [(t, "i%x" % BOUNDARY[(3 * k) % len(BOUNDARY)]) for k in range(8)]))
            ops.append(line(env, 0, 0, [(t, "r%d" % t) for k in range(12)]))
            ops.append(line(env, 0, 1, [(40, "i%x" % (k + 1)) for k in range(8)] + [(t, "r%d" % INTS[(k + t) % 8]) for k in range(5)]))
        # many small stack arguments: the last store must stay inside the argument area (the local follows it)
        for nsmall in (1, 2, 3, 7, 8, 9, 15, 16, 17):
            for t in (34, 35, 36, 37, 38):
                ops.append(line(env, 0, 1, [(40, "i%x" % (k + 1)) for k in range(8)] + [(t, "i%x" % (0x11 * (k + 1))) for k in range(nsmall)]))
                ops.append(line(env, 0, 1, [(40, "i%x" % (k + 1)) for k in range(8)] + [(t, "r%d" % t) for k in range(min(nsmall, 10))]))
        fts = [(42, "v42"), (43, "v43"), (79, "v79"), (43, "v69"), (43, "v43")]
        for rot in range(5):
            ops.append(line(env, 0, rot & 1, [fts[(rot + k) % 5] for k in range(12)]))
        ops.append(line(env, 0, 0, [(40, "v79"), (43, "r40")]))
    for _ in range(nrand // 3):
        env = rng.choice(("a64l", "a64d"))
        args = []
        for k in range(rng.randint(1, 16)):
            c = rng.random()
            t = rng.choice(INTS)
            if c < 0.5:
                v = rng.choice(BOUNDARY) if rng.random() < 0.7 else rng.getrandbits(rng.choice([8, 16, 31, 32, 33, 63, 64]))
                args.append((t, "i%x" % v))
            elif c < 0.8:
                args.append((t, "r%d" % (t if rng.random() < 0.6 else rng.choice(INTS))))
            else:
                vt = rng.choice([42, 43, 79])
                args.append((vt, "v%d" % vt))
        ops.append(line(env, 0, rng.choice([0, 1]), args))
    # S4 seeded random mixes
    for _ in range(nrand):
        env, cc = rng.choice(COMBOS64 + COMBOS32)
        x64 = env.startswith("x64")
        n = rng.randint(1, 10)
        fl = rng.choice([0, 0, 1, 2, 3, 6, 7]) if x64 else rng.choice([0, 1])
        args = []
        for k in range(n):
            c = rng.random()
            if c < 0.45:
                t = rng.choice(INTS if x64 else INTS[:6] + [40, 41])
                v = rng.choice(BOUNDARY) if rng.random() < 0.7 else rng.getrandbits(rng.choice([8, 16, 31, 32, 33, 63, 64]))
                args.append((t, "i%x" % v))
            elif c < 0.8:
                args.append((rng.choice(INTS if x64 else INTS[:6]), "r%d" % rng.choice(INTS if x64 else INTS[:6])))
            else:
                vt = rng.choice([79, 79, 42, 43] + ([89] if fl & 2 else []) + ([99] if fl & 4 else []))
                args.append((vt, "v%d" % (vt if vt > 43 else rng.choice([59, 79]) if vt == 42 else rng.choice([69, 79]))))
        ops.append(line(env, cc, fl, args))
    return list(dict.fromkeys(ops))


def gen_x(rng, tier):
    """host execution lines (x86-64 SysV caller; SysV / Win64 callee): immediates and registers of every integer type at register and
    stack positions, by-reference and by-value vectors, floats"""
    ops = []
    for cc in (32, 33):
        nreg = 6 if cc == 32 else 4
        for t in INTS:
            for rot in range(0, len(BOUNDARY), 2 if tier == "quick" else 1):
                ops.append("ivx %d 0 %d %s" % (cc, nreg + 4, " ".join("%d=i%x" % (t, BOUNDARY[(rot + k) % len(BOUNDARY)]) for k in range(nreg + 4))))
            for rot in range(8):
                ops.append("ivx %d 0 %d %s" % (cc, nreg + 4, " ".join("%d=r%d" % (t, INTS[(rot + k) % 8]) for k in range(nreg + 4))))
        for pos in range(0, 8):
            for vt, fl in ((79, 0), (79, 2), (89, 2), (74, 0)):
                args = ["40=i%x" % BOUNDARY[(pos + k) % len(BOUNDARY)] for k in range(pos)] + ["%d=v%d" % (vt, vt)]
                ops.append("ivx %d %x %d %s" % (cc, fl, len(args), " ".join(args)))
        ops.append("ivx %d 2 6 79=v79 89=v89 40=i80000000 79=v79 40=iffffffff 89=v89" % cc)
        fts = ["42=v59", "43=v69", "42=v79", "43=v79"]
        for rot in range(4):
            ops.append("ivx %d 0 12 %s" % (cc, " ".join(fts[(rot + k) % 4] for k in range(12))))
    for _ in range(100 if tier == "quick" else 1500):
        cc = rng.choice((32, 33))
        fl = rng.choice((0, 2))
        args = []
        for k in range(rng.randint(1, 12)):
            c = rng.random()
            if c < 0.45:
                v = rng.choice(BOUNDARY) if rng.random() < 0.7 else rng.getrandbits(rng.choice([8, 16, 31, 32, 33, 63, 64]))
                args.append("%d=i%x" % (rng.choice(INTS), v))
            elif c < 0.8:
                args.append("%d=r%d" % (rng.choice(INTS), rng.choice(INTS)))
            else:
                vt = rng.choice([79, 79, 42, 43] + ([89] if fl & 2 else []))
                args.append("%d=v%d" % (vt, vt if vt > 43 else rng.choice([59, 79]) if vt == 42 else rng.choice([69, 79])))
        ops.append("ivx %d %x %d %s" % (cc, fl, len(args), " ".join(args)))
    return list(dict.fromkeys(ops))


def ivx_key(op, mon):
    m = re.match(r"BAD arg (\d+)", mon)
    w = op.split()
    if m:
        t, o = w[4 + int(m.group(1))].split("=")
        kind = {"i": "imm", "r": "reg", "v": "vec"}[o[0]]
        if kind == "reg" and int(t) in SIZE and int(o[1:]) in SIZE:
            args = [x.split("=") for x in w[4:]]
            ccid = int(w[1])
            return reg_class_key(True, ccid, ccid == 33, [int(a[0]) for a in args], [a[1] for a in args], int(m.group(1)))
        return "invoke:executed:%s-arg" % kind
    return "invoke:executed:" + mon.split()[0]


def run_host(res, h, rng):
    ops = gen_x(rng, res.tier)
    probe, rc, err = vlib.run_lines([str(h)], ["ivx 32 0 1 40=i1"])
    if rc != 0 or not probe or not probe[0].startswith("ok"):
        res.coverage["ivx_evaluations"] = 0
        res.assumptions.append("host execution of invoke lowering skipped: " + (probe[0] if probe else err[-200:]))
        return
    impl, rc, err = vlib.run_lines([str(h)], ops)
    if rc != 0 or len(impl) != len(ops):
        bad_op = None
        for o in ops:
            r, rc1, e1 = vlib.run_lines([str(h)], [o])
            if rc1 != 0:
                bad_op, err = o, e1
                break
        res.violation("harness aborted while EXECUTING a lowered invoke on %r: %s" % (bad_op, err[-800:]), {"ops": [bad_op], "stderr": err[-3000:]},
                      True, key="crash:ivx")
        return
    mon, _, err3 = vlib.run_model("C06", ["mon%s # %s" % (o, a) for o, a in zip(ops, impl)])
    if len(mon) != len(ops):
        res.violation("driver protocol failure (ivx) %d/%d %s" % (len(ops), len(mon), err3[-300:]), {}, False, key="protocol")
        return
    bad = {}
    for o, a, m in zip(ops, impl, mon):
        if m.startswith("BAD") or not (m == "OK" or m.startswith("SKIP")):
            bad.setdefault(ivx_key(o, m), []).append((o, a, m))
    for key, lst in sorted(bad.items()):
        o, a, m = min(lst, key=lambda x: len(x[0]))
        res.violation("invoke lowering, executed on the host: the callee received something else than the caller passed (%s, %d inputs): "
                      "%s -> %s ; %s" % (key, len(lst), o, a[:300], m), {"ops": [o], "impl": a, "monitor": m}, True, key=key)
    res.coverage["ivx_evaluations"] = len(ops)
    res.coverage["ivx_executed_ok"] = len([m for m in mon if m == "OK"])


REG = re.compile(r"\br(\d+)\.\d+")
MEMB = re.compile(r"\bm(\d+)\.")


def norm_insts(text, css):
    """the lowering's instructions: drop the harness's initialisation (#), the allocator's register moves, spill traffic above the
    call area; erase register ids"""
    out = []
    for t in [x.strip() for x in text.split(";") if x.strip()]:
        if t.startswith("#"):
            continue
        w = t.split()
        name = w[0]
        if name in ("mov", "movaps", "vmovaps", "movups", "vmovups", "movq", "movd", "xchg", "fmov") and len(w) == 3 and w[1][0] == "r" and w[2][0] == "r":
            continue                                            # register-register move inserted by the allocator
        mem = [x for x in w[1:] if x.startswith("m4.") or x.startswith("m31.")]
        if mem and css is not None and int(mem[0].split(".")[1]) >= css and name != "lea":
            continue                                            # spill slot / local above the call area
        if name in ("call", "blr"):
            t = "call"                                           # the target operand differs (immediate / register)
        t = REG.sub(lambda m: "r%s.*" % m.group(1), t)
        t = MEMB.sub(lambda m: "m%s." % m.group(1) if m.group(1) in ("4", "31") else "m*.", t)
        out.append(t)
    return out


def fields(ans):
    return dict(x.split("=", 1) for x in ans.split("|")[0].split()[1:] if "=" in x)


def corr_view(ans, nat):
    """nat: natural stack alignment of the target; the frame's call_stack_alignment is only raised to it by the liveness pass when the
    invoke has register operands (C05/C07 territory) - compared as max(csa, nat)"""
    if not ans.startswith("ok"):
        return ans.split()[:2]
    f = fields(ans)
    css = int(f["css"])
    body = ans.split("|", 1)[1] if "|" in ans else ""
    return ["ok", f["ass"], f["css"], str(max(int(f["csa"]), nat))] + norm_insts(body, css)


K9 = "invoke:reg-arg-int32-not-sign-extended"


def gp_reg_position(x64, cc, win, tids, k):
    """is argument k of an x86-64 signature passed in a GP register?  (Win64 / vectorcall: positional, 4; SysV: the first 6 integers)"""
    if not x64:
        return False
    if win:
        return k < 4
    return len([t for t in tids[:k] if t in SIZE]) < 6


def reg_class_key(x64, cc, win, tids, ops, k):
    """class of a failing register-fed argument.  Exactly one class is the open finding C06-K9: an int32 register for an int64
    parameter in a register position (zero- instead of sign-extended).  Every other (parameter, register) pair - 8/16-bit sources
    again, stack positions, other widths - gets its own key and is reported."""
    dt, st = tids[k], int(ops[k][1:])
    if (dt, st) == (40, 38) and gp_reg_position(x64, cc, win, tids, k):
        return K9
    pos = "x86-32" if not x64 else "reg" if gp_reg_position(x64, cc, win, tids, k) else "stack"
    return "invoke:reg-arg:%d-from-%d:%s-position" % (dt, st, pos)


K10 = "invoke:a64-stack-store-wider-than-argument"
K11 = "invoke:a64-reg-arg-not-extended"


def iv_key(op, mon):
    """stable class of a monitor verdict: which lowering path fed the failing argument"""
    w = op.split()
    if w[1].startswith("a64"):
        if "call area" in mon or "alignment" in mon:
            return "invoke:a64:call-stack-size"
        if "local overwritten" in mon:
            return K10
        m = re.match(r"BAD arg (\d+)", mon)
        if m:
            t, o = w[5 + int(m.group(1))].split("=")
            if o[0] == "r" and int(t) in SIZE and int(o[1:]) in SIZE and SIZE[int(t)] > SIZE[int(o[1:])]:
                return K11
            return "invoke:a64:%s-arg:%s-from-%s" % ({"i": "imm", "r": "reg", "v": "vec"}[o[0]], t, o[1:])
        return "invoke:a64:" + mon.split()[0] + (":" + mon.split()[1] if len(mon.split()) > 1 else "")
    m = re.match(r"BAD arg (\d+)", mon)
    if m:
        k = int(m.group(1))
        t, o = w[5 + k].split("=")
        kind = {"i": "imm", "r": "reg", "v": "vec"}[o[0]]
        if kind == "reg" and int(t) in SIZE and int(o[1:]) in SIZE:
            args = [x.split("=") for x in w[5:]]
            x64 = w[1].startswith("x64")
            ccid = int(w[2])
            win = ccid in (33, 3) or (w[1] == "x64w" and ccid != 32)
            return reg_class_key(x64, ccid, win, [int(a[0]) for a in args], [a[1] for a in args], k)
        return "invoke:%s-arg:%s" % (kind, "x64" if w[1].startswith("x64") else "x86")
    if "call area" in mon or "alignment" in mon:
        return "invoke:call-stack-size"
    if "local" in mon:
        return "invoke:temporary-overlaps-local"
    if mon.startswith("UNK"):
        return "invoke:monitor-unknown-instruction"
    return "invoke:" + mon.split()[0]


def run_invoke(res, h, rng):
    ops = gen(rng, res.tier)
    impl, rc, err = vlib.run_lines([str(h)], ops)
    if rc != 0 or len(impl) != len(ops):
        bad_op = None
        for o in ops:
            r, rc1, e1 = vlib.run_lines([str(h)], [o])
            if rc1 != 0:
                bad_op, err = o, e1
                break
        res.violation("harness aborted (sanitizer or crash) on %r: %s" % (bad_op, err[-800:]), {"ops": [bad_op], "stderr": err[-3000:]},
                      True, key="crash:iv")
        return None
    model, rc2, err2 = vlib.run_model("C06", ["ivm" + o[2:] for o in ops])
    mon, rc3, err3 = vlib.run_model("C06", ["mon%s # %s" % (o, a) for o, a in zip(ops, impl)])
    if len(model) != len(ops) or len(mon) != len(ops):
        res.violation("driver protocol failure (iv) %d/%d/%d %s" % (len(ops), len(model), len(mon), (err2 + err3)[-300:]), {}, False, key="protocol")
        return None
    bad = {}
    judged = 0
    for o, a, m in zip(ops, impl, mon):
        if m == "OK":
            judged += 1
        elif m.startswith("BAD") or m.startswith("UNK"):
            judged += 1
            bad.setdefault(iv_key(o, m), []).append((o, a, m))
        elif not m.startswith("SKIP"):
            bad.setdefault("invoke:monitor:" + m.split()[0], []).append((o, a, m))
    for key, lst in sorted(bad.items()):
        o, a, m = min(lst, key=lambda x: len(x[0]))
        res.violation("invoke lowering: the callee does not see the argument the caller passed (%s, %d inputs): %s -> %s ; monitor: %s"
                      % (key, len(lst), o, a[:400], m), {"ops": [o], "impl": a, "monitor": m}, True, key=key)
    bad_ops = {o for lst in bad.values() for o, _, _ in lst}
    nat = lambda o: 4 if o.split()[1].startswith("x86") else 16
    diffs = [(o, a, b) for o, a, b in zip(ops, impl, model) if corr_view(a, nat(o)) != corr_view(b, nat(o)) and o not in bad_ops]
    kinds = {}
    for o, a in zip(ops, impl):
        k = "iv:%s:%s" % (o.split()[1], " ".join(a.split()[:2]) if not a.startswith("ok") else "ok")
        kinds[k] = kinds.get(k, 0) + 1
    res.coverage.setdefault("input_distribution", {}).update(kinds)
    res.coverage["iv_evaluations"] = len(ops)
    res.coverage["iv_judged_by_machine"] = judged
    res.coverage["iv_nontrivial"] = len([a for a in impl if a.startswith("ok")])
    res.add_samples([{"op": o, "impl": a, "model": b} for o, a, b in list(zip(ops, impl, model))[5::max(1, len(ops) // 3)]], limit=3)
    run_host(res, h, rng)
    if diffs:
        o, a, b = diffs[0]
        return (o, a, b, len(diffs))
    return None
