"""C13 — validation, encoder and ISA database agree on which instruction forms exist; name round trip (DESIGN.md section 6, C13)."""
import json
import vlib
import gen_names
import gen_x86sig
import gen_x86forms
import x86forms

PID = "C13"
MANIFEST = {
    "technique": "Lean 4 theorems over hand models of the name lookup (core/instdb.cpp, x86/a64 instapi.cpp) and of x86 strict validation "
                 "(x86instapi.cpp validate) + tables regenerated from the compiler and from db/isa_x86.json (decide +kernel) + C++/Lean "
                 "correspondence and the validator-vs-encoder differential judged by the Lean monitor",
    "text": "Names: a general theorem (binary search of find_instruction/find_alias over a strictly increasing range finds every member and "
            "never returns a non-member; compare_string_views is the lexicographic order) + kernel-checked facts about the regenerated name "
            "tables give string_to_inst_id(inst_id_to_string(id)) = id for all 1647 x86 ids, every database alias maps to its instruction, "
            "and for AArch64 the round trip for every id whose letter span is sorted plus 'a lookup never returns another name' (the "
            "remaining AArch64 names are the open finding C13-a64-names). x86 validation: the validator model, proved in the kernel to "
            "accept one instantiation of every implemented database form in an allowed mode and to refuse every instantiation in an "
            "excluded mode over the regenerated signature tables; the model is tied to InstAPI::validate on all instantiations and their "
            "near-miss mutations. Validator vs encoder (emit with/without kValidateAssembler) is a differential on the real code judged "
            "by the Lean predicate Spec/X86Agree.lean - partial: no encoder model, AArch64 has no validator (only names are checked there).",
    "note": "Trusted: Lean kernel; db/index.js as the syntax of the database; tools/x86forms.py (instantiation of a form), gen_*.py; "
            "lean/implemented_forms.txt (vendored: what the pinned release accepts); harness/driver diff. The encoder leg is tested, not proved.",
}
MODS = ["AsmjitVerif.Props.C13", "AsmjitVerif.Props.C13X86", "AsmjitVerif.Props.C13Sound"]

GROUP = {"swap": "operands", "drop": "operands", "gap": "operands", "dup": "operands", "extra-imm": "operands",
         "reg-size": "reg", "reg-id": "reg", "reg->mem": "reg", "imm-range": "imm", "imm->label": "imm", "label->imm": "imm"}


def group_of(kind):
    if kind in GROUP:
        return GROUP[kind]
    if kind.startswith("deco"):
        return "deco"
    if kind.startswith("mem"):
        return "mem"
    if kind.startswith(("opt-", "extra", "rep-extra", "kz")):
        return "opt"
    return "form"


def generate():
    """(re)writes every Gen/ file this property's Lean modules import, from the current vlib.REPO tree"""
    h = vlib.build_harness("c13")
    archs = gen_names.run(h)
    db = gen_x86forms.load_db()
    s, rows, skipped = gen_names.render_db_aliases(db, archs["x86"]["names"])
    vlib.gen_write("AsmjitVerif/Gen/X86DBAliases.lean", s)
    sig = gen_x86sig.run(h)
    name2id = {bytes(n).decode(): i for i, n in enumerate(archs["x86"]["names"]) if i}
    insts = gen_x86forms.instantiate(db, name2id)
    impl = gen_x86forms.load_implemented()
    for i in insts:
        i["implemented"] = i["allowed"] and (i["form"], gen_x86forms.token(i)) in impl
    seen, allow = set(), []
    for i in sorted((i for i in insts if i["implemented"]), key=lambda i: -i["mode"]):
        if i["form"] not in seen:
            seen.add(i["form"])
            allow.append(i["line"])
    excl = [i["line"] for i in insts if not i["allowed"]]
    if len(allow) < 1000:
        raise gen_x86forms.TranslateError("only %d implemented database forms - vendored list and database no longer match" % len(allow))
    id2name = {i: n for n, i in name2id.items()}
    for rel, content in gen_x86forms.render_buckets(sig, id2name, allow, excl).items():
        vlib.gen_write(rel, content)
    for rel, content in gen_x86forms.render_sound(db, name2id, archs["x86"]["count"]).items():
        vlib.gen_write(rel, content)
    for old in list((vlib.LEAN / "AsmjitVerif" / "Gen").glob("X86FormsChecked*.lean")) + [vlib.LEAN / "AsmjitVerif" / "Gen" / "X86Forms.lean"]:
        if old.exists():
            old.unlink()      # layout of the first rounds
    form_deco = {}
    for f in db["forms"]:
        k = gen_x86forms.form_key(f)
        a = form_deco.get(k, (False, False))
        form_deco[k] = (a[0] or bool(f.get("er")), a[1] or bool(f.get("sae")))
    return {"form_deco": form_deco, "insts_by_line": {i["line"]: i["form"] for i in insts}, "harness": h, "archs": archs, "db": db, "aliases": rows, "aliases_skipped": skipped, "sig": sig, "insts": insts,
            "proved_rows": (len(allow), len(excl))}


def hexs(b):
    return bytes(b).hex() if b else "-"


def name_ops(g, rng, tier):
    """ops + per-op info for the name leg"""
    ops, info = [], []
    for arch in ("x86", "a64"):
        d = g["archs"][arch]
        n = d["count"]
        for i in list(range(n + 3)) + [0xFFFF, 0x10000, 0x10000 + 5, 1 << 31]:
            for o in (0, 1):
                ops.append("i2s %s %d %d" % (arch, i, o))
                info.append(("i2s", arch, i))
        for i in range(1, n):
            ops.append("s2i %s %s" % (arch, hexs(d["names"][i])))
            info.append(("rt", arch, i))
        # near misses of every name: truncated, extended, one character changed, upper case
        known = {bytes(x) for x in d["names"]}
        nm = 1 if tier == "quick" else 4
        for i in range(1, n):
            s = bytes(d["names"][i])
            cands = [s[:-1], s + b"a", s + b"0", s[1:], s.upper(), b"z" + s, s + s]
            for _ in range(nm):
                k = rng.randrange(len(s))
                cands.append(s[:k] + bytes([rng.choice(b"abcdefghijklmnopqrstuvwxyz0123456789_{")]) + s[k + 1:])
            for c in rng.sample(cands, 3 if tier == "quick" else len(cands)):
                ops.append("s2i %s %s" % (arch, hexs(c)))
                info.append(("lookup", arch, c))
        for c in (b"", b"a", b"z", b"{", b"`", b"A", b"0", b"\xff", b"zzzzzzzzzzzzzzzzzzzzzzzz", b"a" * d["maxlen"], b"a" * (d["maxlen"] + 1), b"\x00"):
            ops.append("s2i %s %s" % (arch, hexs(c)))
            info.append(("lookup", arch, c))
        for _ in range(300 if tier == "quick" else 20000):
            c = bytes(rng.choice(b"abcdefghijklmnopqrstuvwxyz0123456789") for _ in range(rng.randrange(1, 8)))
            ops.append("s2i %s %s" % (arch, hexs(c)))
            info.append(("lookup", arch, c))
    for a, p in g["aliases"]:
        ops.append("s2i x86 %s" % hexs(a.encode()))
        info.append(("lookup", "x86", a.encode()))
        ops.append("s2i a64 %s" % hexs(a.encode()))
        info.append(("lookup", "a64", a.encode()))
    for a in g["aliases_skipped"][:20]:
        ops.append("s2i x86 %s" % hexs(a.encode()))
        info.append(("lookup", "x86", a.encode()))
    return ops, info


def inst_ops(g, rng, tier):
    ops, info = [], []
    for i in g["insts"]:
        ops.append(i["line"])
        info.append(("allow" if i["implemented"] else ("any" if i["allowed"] else "exclude"), "form", i["form"]))
    # {er} x 4 rounding modes and {sae} on every implemented EVEX register-register instance, in the instance's mode:
    # where no database form with these operands carries the decoration, validator and assembler must both refuse
    evex = {i for i, r in enumerate(g["sig"]["insts"]) if r[0] & 0x800000}
    deco_db = {}
    for i in g["insts"]:
        w = i["line"].split()
        if i["implemented"] and i["kind"] in ("reg", "reg+k") and int(w[2]) in evex and not any(o.startswith("m:") for o in w[5:]):
            er, sae = g["form_deco"].get(i["form"], (False, False))
            a = deco_db.setdefault(i["line"], [False, False])
            a[0] |= er
            a[1] |= sae or er
    for line, (er, sae) in deco_db.items():
        w = line.split()
        for opt, tag, okdb in ((0x40000, "er", er), (0x240000, "er", er), (0x440000, "er", er), (0x640000, "er", er), (0x80000, "sae", sae)):
            ops.append(" ".join(w[:3] + ["%x" % (int(w[3], 16) | opt)] + w[4:]))
            info.append(("any" if okdb else "deco", "deco-" + tag, g["insts_by_line"][line]))
    # boundary register ids {0,7,8,15,16,31} in every register position (operands, memory base and index, {k} register) of
    # one register and one memory instantiation per database form and mode: the validator admits => the assembler encodes
    seen_fm = set()
    for i in g["insts"]:
        if not i["implemented"]:
            continue
        w = i["line"].split()
        has_mem = any(o.startswith("m:") for o in w[5:])
        fk = (i["form"], i["mode"], has_mem, w[4] != "-")
        if fk in seen_fm:
            continue
        seen_fm.add(fk)
        variants = {}

        def nonexistent(rt, b):
            """the architecture has no register `b` of RegType `rt` in this mode"""
            if rt in (2, 4, 5, 6):
                return b >= (8 if i["mode"] == 32 else 16)
            if rt == 3:
                return b >= 4
            if rt in (11, 12, 13):
                return b >= (8 if i["mode"] == 32 else 32)
            if rt in (16, 28, 29):
                return b >= 8
            return False

        for b in (0, 7, 8, 15, 16, 31):
            if w[4] != "-":
                f = w[4].split(":")
                variants[" ".join(w[:4] + [":".join(f[:2] + [str(b)])] + w[5:])] = nonexistent(int(f[1]), b)
            for k, o in enumerate(w[5:]):
                f = o.split(":")
                if f[0] == "r":
                    variants[" ".join(w[:5 + k] + [":".join(f[:2] + [str(b)])] + w[6 + k:])] = nonexistent(int(f[1]), b)
                elif f[0] == "m":
                    if int(f[2]) > 1:
                        variants[" ".join(w[:5 + k] + [":".join(f[:3] + [str(b)] + f[4:])] + w[6 + k:])] = nonexistent(int(f[2]), b)
                    if int(f[4]) != 0:
                        variants[" ".join(w[:5 + k] + [":".join(f[:5] + [str(b)] + f[6:])] + w[6 + k:])] = nonexistent(int(f[4]), b)
        variants.pop(i["line"], None)
        for v in sorted(variants):
            ops.append(v)
            info.append(("regx" if variants[v] else "any", "reg-id", i["form"]))
    nmut = 2 if tier == "quick" else 10
    for i in g["insts"]:
        if not i["implemented"]:
            continue
        w = i["line"].split(None, 2)
        for t, kind in x86forms.mutations(w[2], rng, i["mode"], limit=nmut):
            ops.append("inst %s %s" % (w[1], t))
            info.append(("any", kind, i["form"]))
    return ops, info


def a64_sweep(res, rng):
    """AArch64 leg: every database form and C02's near-miss alternatives through a64::Assembler::_emit without and with
    kValidateAssembler (harness/c02.cpp with one added line); the Lean monitor `violationA64` judges each pair."""
    from props import c02
    src = (vlib.VERIF / "harness" / "c02.cpp").read_text()
    hook = "  a64::Assembler a(&code);\n"
    if src.count(hook) != 1:
        res.violation("harness/c02.cpp changed shape: the validation switch of the AArch64 sweep cannot be inserted", {}, False, key="obligation")
        return
    src = src.replace(hook, hook + '  if (getenv("C13_VALIDATE")) a.add_diagnostic_options(DiagnosticOptions::kValidateAssembler);\n')
    dst = vlib.VERIF / "harness" / "c13_a64.cpp"
    text = "// GENERATED by tools/props/c13.py from harness/c02.cpp (+ the kValidateAssembler switch) - do not edit.\n" + src
    if not dst.exists() or dst.read_text() != text:
        dst.write_text(text)
    h = vlib.build_harness("c13_a64")
    forms, applied, insts, rows, enc, _ = c02.generate()
    name2ids = {}
    for r in insts[1:]:
        name2ids.setdefault(r["name"], []).append(r["id"])
    ops, meta = c02.gen_ops(forms, name2ids, rng, "quick")
    limit = 60000 if res.tier == "quick" else 400000
    if len(ops) > limit:
        keep = sorted(rng.sample(range(len(ops)), limit))
        ops = [ops[i] for i in keep]
    if len(ops) < 1000:
        res.violation("the AArch64 generator produced almost nothing (%d ops)" % len(ops), {}, False, key="empty")
        return
    off, rc0, err0 = vlib.run_lines([str(h)], ops)
    on, rc1, err1 = vlib.run_lines([str(h)], ops, env={"C13_VALIDATE": "1"})
    if rc0 != 0 or rc1 != 0 or len(off) != len(ops) or len(on) != len(ops):
        i, tail = vlib.locate_abort([str(h)], ops) if rc0 != 0 else (0, err1[-500:])
        res.violation("AArch64 sweep: harness abort / protocol failure rc=%d/%d at %r: %s" % (rc0, rc1, ops[min(i, len(ops) - 1)], tail[-300:]),
                      {"ops": [ops[min(i, len(ops) - 1)]]}, found_input=True, key="a64:abort")
        return

    def enc_of(a):
        w = a.split()
        if w[0] == "ok":
            return "Ok:" + ("_".join(w[1:]) or "-")
        if w[0] == "err":
            return w[1] + ":" + ("_".join(w[2:]) or "-")
        return "Other:" + "_".join(w)
    mon, _, _ = vlib.run_model("C13", ["mon_a64 e0=%s e1=%s" % (enc_of(a), enc_of(b)) for a, b in zip(off, on)])
    if len(mon) != len(ops) or any(m == "bad-op" for m in mon):
        res.violation("AArch64 sweep: monitor protocol failure", {}, False, key="protocol")
        return
    bad = [(o, a, b, m) for o, a, b, m in zip(ops, off, on, mon) if m != "good"]
    res.coverage["a64_sweep"] = {"lines": len(ops), "accepted": sum(1 for a in off if a.startswith("ok")), "validation_changes": len(bad)}
    a64_accept_side(res, rng, h, ops, off)
    if bad:
        o, a, b, m = bad[0]
        res.violation("a64:%s: %s -> without validation %r, with validation %r (%d such inputs)" % (m[4:], o, a, b, len(bad)),
                      {"ops": [o], "off": a, "on": b, "how": "C13_VALIDATE=1 h_c13_a64"}, True, key="a64:" + m[4:])


def _a64_reg_positions(tok):
    """[(field index in the '.'-split token, old id)] of the register ids a C02 operand token carries"""
    if tok.startswith("ml") or tok in ("-", "l"):
        return []
    f = tok[1:].split(".")
    if tok[0] == "r" and len(f) >= 2:
        return [(1, int(f[1]))]
    if tok[0] == "m" and len(f) == 8:
        out = []
        if int(f[0]) > 1:
            out.append((1, int(f[1])))
        if int(f[2]) != 0:
            out.append((3, int(f[3])))
        return out
    return []


def a64_accept_side(res, rng, h, ops, impl):
    """AArch64 accept side: the general registers 0..30 are interchangeable in every register field of the database, so a
    line the assembler encodes correctly (C02's database monitor says `good`) must stay encodable when ONE register id -
    operand, memory base or memory index - is replaced by a boundary id {0, 29, 30} not used elsewhere in the line. A refused
    variant is judged by the database: the accepted word with that register field patched is offered to C02's monitor
    (`describes`); if a database form describes the variant's operands by it, the assembler refused a database form."""
    acc = [k for k, a in enumerate(impl) if a.startswith("ok ") and len(a.split()) == 2]
    mon, _, _ = vlib.run_model("C02", ["mon " + ops[k][5:] + " => " + impl[k] for k in acc])
    base = [k for k, m in zip(acc, mon) if m == "good"]
    limit = 25000 if res.tier == "quick" else 200000
    if len(base) > limit:
        base = sorted(rng.sample(base, limit))
    var, origin = [], []
    seen = set(ops)
    for k in base:
        w = ops[k].split()
        used = {rid for t in w[4:] for _, rid in _a64_reg_positions(t)}
        for ti in range(4, len(w)):
            for fi, old in _a64_reg_positions(w[ti]):
                if old > 30:
                    continue
                for b in (0, 29, 30):
                    if b == old or b in used:
                        continue
                    f = w[ti][1:].split(".")
                    f[fi] = str(b)
                    line = " ".join(w[:ti] + [w[ti][0] + ".".join(f)] + w[ti + 1:])
                    if line not in seen:
                        seen.add(line)
                        var.append(line)
                        origin.append((k, old, b))
    if len(var) < 1000:
        res.violation("AArch64 accept side: only %d boundary variants from %d judged lines" % (len(var), len(base)), {}, False, key="empty")
        return
    out, rc, err = vlib.run_lines([str(h)], var)
    if rc != 0 or len(out) != len(var):
        i, tail = vlib.locate_abort([str(h)], var)
        res.violation("AArch64 accept side: harness abort at %r: %s" % (var[min(i, len(var) - 1)], tail[-300:]),
                      {"ops": [var[min(i, len(var) - 1)]]}, found_input=True, key="a64:abort")
        return
    refused = [j for j, a in enumerate(out) if not a.startswith("ok")]
    q, qi = [], []
    for j in refused:
        k, old, b = origin[j]
        word = int(impl[k].split()[1], 16)
        cands = set()
        allp = word
        for sh in (0, 5, 10, 16):
            if (word >> sh) & 31 == old:
                cands.add(word & ~(31 << sh) | (b << sh))
                allp = allp & ~(31 << sh) | (b << sh)
        cands.add(allp)
        cands.discard(word)
        for c in sorted(cands):
            q.append("mon " + var[j][5:] + " => ok %x" % c)
            qi.append(j)
    ans, _, _ = vlib.run_model("C02", q) if q else ([], 0, "")
    if len(ans) != len(q):
        res.violation("AArch64 accept side: monitor protocol failure", {}, False, key="protocol")
        return
    hit = {}
    for j, a, ql in zip(qi, ans, q):
        if a == "good" and j not in hit:
            hit[j] = ql
    res.coverage["a64_accept_side"] = {"judged_base_lines": len(base), "boundary_variants": len(var), "accepted": len(var) - len(refused),
                                       "refused": len(refused), "refused_but_described_by_the_database": len(hit)}
    by = {}
    for j in sorted(hit):
        key = "a64:encoder-refuses-db-form:" + out[j].split()[-1]
        by.setdefault(key, []).append(j)
    for key, js in sorted(by.items()):
        j = js[0]
        k, old, b = origin[j]
        res.violation("%s: %s -> %s although the database describes it (%s); the same line with register %d instead of %d is encoded as %s "
                      "(%d such lines)" % (key, var[j], out[j], hit[j].split("=>")[1].strip(), old, b, impl[k], len(js)),
                      {"ops": [var[j], ops[k]], "impl": out[j], "database_word": hit[j], "more": [var[x] for x in js[1:6]],
                       "how": "h_c13_a64 (same protocol as harness/c02.cpp)"}, True, key=key)


def run(res):
    rng = vlib.rng_for(res.seed, PID)
    res.assumptions += [
        "db/isa_x86.json read through db/index.js is the statement of the ISA; tools/x86forms.py decides what a representative instantiation of a form is",
        "'implemented' = accepted (validate and emit) by the pinned release, vendored in lean/implemented_forms.txt",
        "the encoder is not modelled: validator-vs-encoder agreement is a differential on the real code, judged by Spec/X86Agree.lean",
        "AArch64 has no validator (a64::InstInternal::validate returns kOk): the name round trip and 'switching validation on changes nothing' (sweep over C02's generator, Spec violationA64) are checked there",
        "kernel-proved x86 rows: one instantiation per database form (allowed mode) + all excluded-mode rows; the other instantiations are "
        "evaluated by the compiled model and compared with the real validator on every run",
        "label operands are bound at offset 0 of an otherwise empty .text section"]
    broken = []
    g = None
    try:
        g = generate()
        if g["archs"].get("selftest"):
            broken.append("translator self-test: " + g["archs"]["selftest"])
    except (gen_names.TranslateError, gen_x86sig.TranslateError, gen_x86forms.TranslateError) as e:
        broken.append("translator: " + str(e))
    ok, out = vlib.lean_stage(res, PID, MODS)
    if not ok:
        # the build stopped at a failing obligation: count the theorems from the sources so that the evidence still says
        # how many there are and how many of them did not check in this run
        thms, good = [], 0
        failed_files = {str(ft.get("file")) for ft in (getattr(res, "build_failures", []) or [])}
        for m in MODS:
            rel = m.replace(".", "/") + ".lean"
            t = vlib.theorems_in(vlib.LEAN / rel)
            thms += t
            # a module counts as discharged when lake built it in this run (the two property modules are independent)
            if not any(rel in f for f in failed_files) and vlib.lake_build([m])[0]:
                good += len(t)
        failed = {ft.get("decl") for ft in (getattr(res, "build_failures", []) or [])}
        res.coverage["obligations"] = len(thms)
        res.coverage["discharged"] = good
        res.coverage["obligations_failed"] = sorted(str(x) for x in failed)
    if not ok and not res.violations:
        for ft in getattr(res, "build_failures", []) or [{"decl": "?", "msg": out[-800:]}]:
            broken.append("theorem %s (%s:%s) no longer checks: %s" % (ft.get("decl"), ft.get("file"), ft.get("line"), ft.get("msg")))
        vlib.lake_build(["vdriver"])
    if g is None or not vlib.driver_path().exists():
        res.violation("translators / Lean driver do not build: " + " | ".join(broken)[:1200], {"unchecked": broken, "log": out[-2000:]},
                      found_input=False, key="obligation")
        return
    h = g["harness"]
    res.coverage["proved_rows"] = {"db_forms_accepted": g["proved_rows"][0], "excluded_mode_rows_refused": g["proved_rows"][1]}

    nops, ninfo = name_ops(g, rng, res.tier)
    iops, iinfo = inst_ops(g, rng, res.tier)
    ops = nops + iops
    info = ninfo + iinfo
    if len(nops) < 1000 or len(iops) < 1000:
        res.violation("the generators produced almost nothing (%d name ops, %d instruction ops): an empty run is not a pass" % (len(nops), len(iops)),
                      {"name_ops": len(nops), "inst_ops": len(iops)}, found_input=False, key="empty")
        return
    impl, rc, err = vlib.run_lines([str(h)], ops)
    if rc == -9:
        res.violation("harness timeout on %d ops" % len(ops), {"ops": ops[:3]}, found_input=False, key="timeout")
        return
    aborts = 0
    while rc != 0:
        # a sanitizer abort is a violation with a concrete input; the op is set aside so that the rest is still judged
        i, tail = vlib.locate_abort([str(h)], ops)
        _, _, full = vlib.run_lines([str(h)], [ops[i]])
        first = [l for l in (full or tail).splitlines() if "runtime error" in l or "ERROR: AddressSanitizer" in l][:1]
        where = (first or ["?"])[0].split(": runtime error")[0].split("/")[-1]
        res.violation("real code aborts under ASan/UBSan on %r: %s" % (ops[i], (first or [tail[-300:]])[0]),
                      {"ops": [ops[i]], "stderr": tail[-2000:]}, found_input=True, key="abort:" + ":".join(where.split(":")[:1]))
        aborts += 1
        if aborts >= 6:
            return
        del ops[i], info[i]
        impl, rc, err = vlib.run_lines([str(h)], ops)
    model, rc2, err2 = vlib.run_model("C13", ops)
    if rc2 != 0 or len(model) != len(ops) or len(impl) != len(ops):
        res.violation("driver/harness protocol failure rc=%d/%d lines %d/%d/%d %s" % (rc, rc2, len(ops), len(impl), len(model), err2[-500:]),
                      {}, found_input=False, key="protocol")
        return

    # ---- monitor: the property predicate on every answer of the implementation ---------------------------------------
    mon_ops, mon_idx = [], []
    for k, (o, inf, a) in enumerate(zip(ops, info, impl)):
        if inf[0] == "i2s" and inf[1] == "x86" and a.startswith("ok ") and inf[2] != 0 and o.endswith(" 0"):
            mon_ops.append("mon_dbname %s" % a.split()[1])
        elif inf[0] == "rt":
            mon_ops.append("mon_rt %s %d %s" % (inf[1], inf[2], a))
        elif inf[0] == "lookup":
            mon_ops.append("mon_lookup %s %s %s" % (inf[1], hexs(inf[2]), a))
        elif o.startswith("inst "):
            mon_ops.append("mon_inst %s %s" % (inf[0], a))
        else:
            continue
        mon_idx.append(k)
    mon, rc3, _ = vlib.run_model("C13", mon_ops)
    if len(mon) != len(mon_ops) or any(m == "bad-op" for m in mon):
        bad = [mon_ops[i] for i, m in enumerate(mon) if m == "bad-op"][:3]
        res.violation("monitor protocol failure (%d answers for %d lines) %s" % (len(mon), len(mon_ops), bad), {}, False, key="protocol")
        return
    bad = {}
    name2id = {bytes(n).decode(): i for i, n in enumerate(g["archs"]["x86"]["names"]) if i}
    id2name = {i: n for n, i in name2id.items()}
    operandless = {name2id[f["name"]] for f in g["db"]["forms"] if f["name"] in name2id and all(o["implicit"] for o in f["operands"])}
    for k, m in zip(mon_idx, mon):
        if m == "good":
            continue
        inf = info[k]
        if inf[0] == "i2s":
            key = "names:x86:printed-name-not-in-database"
        elif inf[0] in ("rt", "lookup"):
            key = "names:a64-unsorted-span" if (m == "BAD unsorted-span" and inf[1] == "a64") else "names:%s:%s" % (inf[1], m[4:])
        else:
            cls = m[4:]
            e0 = impl[k].split()[1].split("=")[1].split(":")[0]
            if cls == "validator-admits-encoder-rejects":
                # class = which encoder check has no counterpart in the validator; wrong operand *count* is kept apart
                # (an instruction given no operand at all although the database has no operand-less form of it)
                w = ops[k].split()
                noops = all(x == "n" for x in w[5:])
                key = "agree:%s:%s" % (cls, e0) + (":no-operands" if noops and int(w[2]) not in operandless else "")
                if not key.endswith(":no-operands"):
                    # database forms: one key per instruction (exact); near-miss mutations: one key per mutated part
                    key += ":" + (id2name.get(int(w[2]), "?") if inf[1] == "form" else "mut-" + group_of(inf[1]))
            elif cls == "validator-accepts-nonexistent-register":
                w = ops[k].split()
                key = "agree:%s:%s" % (cls, "extra" if w[4] != "-" and w[4].split(":")[2] not in ("1", "2", "3") and info[k][0] == "regx" and
                                       int(w[4].split(":")[2]) >= 8 else "operand")
            elif cls.endswith("excluded-decoration"):
                key = "agree:%s:%s:%s" % (cls, inf[1], id2name.get(int(ops[k].split()[2]), "?"))
            else:
                key = "agree:%s:%s" % (cls, group_of(inf[1]))
        bad.setdefault(key, []).append(k)

    # ---- correspondence model vs implementation ---------------------------------------------------------------------
    diffs = []
    for k, (o, a, b) in enumerate(zip(ops, impl, model)):
        if o.startswith("inst "):
            if a.split()[0] != b:
                diffs.append(k)
        elif a != b:
            diffs.append(k)

    kinds = {}
    for o, inf, a in zip(ops, info, impl):
        if o.startswith("inst "):
            w = a.split()
            k = "inst:%s:%s:v=%s:e0=%s" % (o.split()[1], "form-" + inf[0] if inf[1] == "form" else "mut-" + group_of(inf[1]),
                                            "Ok" if w[0] == "v=Ok" else "err", "Ok" if w[1].startswith("e0=Ok") else "err")
        else:
            k = o.split()[0] + ":" + o.split()[1] + ":" + ("found" if a not in ("0",) and not a.startswith("err") else "none")
        kinds[k] = kinds.get(k, 0) + 1
    res.coverage["input_distribution"] = kinds
    errs = {}
    for o, a in zip(ops, impl):
        if o.startswith("inst "):
            e = a.split()[0]
            errs[e] = errs.get(e, 0) + 1
    res.coverage["validator_verdicts"] = errs
    res.coverage["evaluations"] = len(ops)
    res.coverage["distinct_nontrivial"] = len({o for o, a in zip(ops, impl) if (o.startswith("inst ") and a.startswith("v=Ok e0=Ok")) or
                                               (o.startswith("s2i") and a != "0") or (o.startswith("i2s") and a.startswith("ok"))})
    res.coverage["rule"] = ("names: every id and id-boundary through inst_id_to_string, every printed name, database alias, near-miss spelling "
                            "and random string through string_to_inst_id (x86, a64); x86: every instantiation (register / memory / broadcast / "
                            "{k}{z}{er}{sae} / implicit-explicit) of every database form in both modes + seeded near-miss mutations (operand "
                            "size class, ids, swapped/dropped/duplicated operands, memory size/base/index/segment/broadcast, immediate "
                            "boundaries, lock/rep/xacquire/rex/{k}{z}{er}{sae} decorations); non-trivial = distinct op accepted by validator and "
                            "encoder, or a successful lookup")
    res.coverage["exhaustive"] = False
    res.coverage["monitored_answers"] = len(mon_ops)
    res.coverage["traces_validated_against_impl"] = len(ops)
    res.coverage["db"] = {"forms": len(g["db"]["forms"]), "instances": len(g["insts"]),
                          "implemented_instances": sum(1 for i in g["insts"] if i["implemented"]),
                          "not_accepted_by_pinned_release": sum(1 for i in g["insts"] if i["allowed"] and not i["implemented"]),
                          "excluded_mode_instances": sum(1 for i in g["insts"] if not i["allowed"]),
                          "db_aliases_checked": len(g["aliases"]), "db_aliases_of_unimplemented_instructions": len(g["aliases_skipped"])}
    a64_sweep(res, vlib.rng_for(res.seed, PID + "/a64"))
    step = max(1, len(ops) // 6)
    res.add_samples([{"op": ops[i], "impl": impl[i], "model": model[i]} for i in range(0, len(ops), step)])

    for key in sorted(bad):
        ks = bad[key]
        k = ks[0]
        res.violation("%s: %s -> %s (monitor %s; %d such inputs)" % (key, ops[k], impl[k], mon[mon_idx.index(k)], len(ks)),
                      {"ops": [ops[k]], "impl": impl[k], "info": list(map(str, info[k])), "more": [ops[j] for j in ks[1:6]]}, True, key=key)
    # a correspondence difference is reported unless a violation that is NOT an open known finding already explains the same op;
    # a broken obligation is always reported
    known_keys = {e.get("key") for e in vlib.load_known_findings(PID) if e.get("status") == "open"}
    explained = {k for key, ks in bad.items() if key not in known_keys for k in ks}
    unexplained = [k for k in diffs if k not in explained]
    if unexplained:
        k = unexplained[0]
        res.violation("correspondence model/implementation differs at %r: impl=%s model=%s (%d differing ops not explained by a reported "
                      "violation)" % (ops[k], impl[k], model[k], len(unexplained)),
                      {"ops": [ops[k]], "impl": impl[k], "model": model[k], "more": [ops[j] for j in unexplained[1:6]],
                       "unchecked": "correspondence Model/InstName.lean, Model/X86Validate.lean ~ instdb.cpp, x86instapi.cpp"}, False, key="corr")
    if broken:
        res.violation("proof obligation no longer checks: " + " | ".join(broken)[:1500], {"unchecked": broken}, False, key="obligation")


def replay(data):
    ops = data["replay"].get("ops", [])
    h = vlib.build_harness("c13")
    impl, rc, err = vlib.run_lines([str(h)], ops)
    for o, r in zip(ops, impl):
        print(o, "->", r)
    if rc != 0:
        print(err[-1500:])
    return 0
