"""C10 — sections are laid out without overlap and the flattened image is exact (DESIGN.md section 6, C10)."""
import itertools
from concurrent.futures import ThreadPoolExecutor

import vlib

PID = "C10"
MANIFEST = {
    "technique": "Lean 4 theorems (induction over all section tables / operation histories) over a hand model of "
                 "CodeHolder::new_section/flatten/code_size/copy_*/relocate_to_base tail + C++/Lean correspondence + Lean trace monitor",
    "text": "Lean proves for every reachable section table (any history of new_section / data / virtual-size / address-table / "
            "flatten / relocate operations): the by-order table is strictly sorted by (order,id); a successful flatten yields "
            "offsets equal to the least aligned offsets of the unbounded ideal layout, pairwise non-overlapping, aligned, with "
            "code_size() = end of the last section = largest end = code_size() before the call; flatten refuses exactly when "
            "the ideal layout does not fit 64 bits and code_size() saturates exactly then; copy_flattened_data / "
            "copy_section_data never write outside the destination, refuse exactly the destinations that are too small, and "
            "produce byte for byte the specified image for all four flag combinations; the first relocation of any built "
            "program (directly or after flatten, any base) never increases code_size(); the copy loop of JitRuntime::_add "
            "(sections in id order) installs exactly the copy_flattened_data image of the relocated state and never leaves "
            "the span; a reused holder (reinit, reset+init) carries exactly the table of a fresh one. The model is tied to the real code by running harness and Lean driver on the same operation lines; "
            "the Lean monitors (the predicates of the theorems) judge every answer of the real code.",
    "note": "Trusted: Lean kernel; Spec/Sections.lean as the meaning of layout/image; harness/driver/diff. The model follows the "
            "repaired code (fixes/C10-1..4.patch). Modelled: new_section, ensure/add address table, x86 call/jmp-abs emission, "
            "flatten, code_size, copy_section_data, copy_flattened_data, JitRuntime::_add copy loop, kX64AddressEntry path and "
            "tail of relocate_to_base. Only tested (correspondence): byte patching of relocations, JitRuntime::_add end to end. "
            "Not modelled: malloc/realloc of code buffers, other relocation types, a second relocate_to_base on the same holder.",
}
MODS = ["AsmjitVerif.Props.C10"]
M64 = (1 << 64) - 1
INT_MIN, INT_MAX = -(1 << 31), (1 << 31) - 1
MUTATING = {"sec", "data", "vsize", "addr", "call", "jmp", "flatten", "reloc", "jitadd", "reinit", "reset"}
MAXDST = 1 << 22


# ----------------------------------------------------------------------------------------------
# generator
# ----------------------------------------------------------------------------------------------

def rand_name(rng):
    r = rng.random()
    if r < 0.03:
        return "-"
    if r < 0.10:
        n = rng.choice((35, 36, 37, 60))
    elif r < 0.2:
        n = rng.choice((34, 33, 8))
    else:
        n = rng.randrange(1, 9)
    return "".join(rng.choice(".abcdefgxyz_01") for _ in range(n))


def rand_align(rng):
    r = rng.random()
    if r < 0.06:
        return rng.choice((3, 24, 65537, 6, 12, 48, (1 << 31) + 1, 0xFFFFFFFF))
    if r < 0.10:
        return 0
    if r < 0.55:
        return 1 << rng.randrange(0, 5)
    if r < 0.9:
        return 1 << rng.randrange(5, 13)
    return 1 << rng.randrange(13, 17)


def rand_order(rng, pool):
    if rng.random() < 0.6 and pool:
        return rng.choice(pool)
    return rng.choice((INT_MIN, -1, 0, 1, INT_MAX, INT_MAX - 1, INT_MIN + 1, rng.randrange(-5, 6), rng.randrange(INT_MIN, INT_MAX + 1)))


def rand_bytes(rng, n):
    return "".join("%02x" % rng.choice((0, 0x90, 0xCC, 0xC3, rng.randrange(256))) for _ in range(n))


class Cfg:
    """Builds one configuration and tracks what the generator needs to know (section count, address table id, sizes)."""

    def __init__(self, rng):
        self.rng = rng
        self.ops = ["init"]
        self.count = 1
        self.at = None
        self.relocs = 0
        self.huge = False
        self.orders = []
        self.bufs = {0: 0}
        self.maxalign = 1

    def new_section(self):
        rng = self.rng
        name, al, order = rand_name(rng), rand_align(rng), rand_order(rng, self.orders)
        self.ops.append("sec %s %d %d" % (name, al, order))
        ok = (al & (al - 1)) == 0 and (0 if name == "-" else len(name)) <= 35
        if ok:
            self.orders.append(order)
            self.bufs[self.count] = 0
            self.count += 1
            self.maxalign = max(self.maxalign, al)
            return self.count - 1
        return None

    def user_ids(self):
        return [i for i in range(self.count) if i != self.at]

    def fill(self, sid, kind=None):
        rng = self.rng
        kind = kind or rng.choice(("empty", "code", "code", "virt", "both", "bothsmall"))
        if kind in ("code", "both", "bothsmall"):
            n = rng.choice((1, 1, 2, 3, 5, 8, 15, 16, 17, rng.randrange(1, 40)))
            self.ops.append("data %d %s" % (sid, rand_bytes(rng, n)))
            self.bufs[sid] += n
        if kind == "virt":
            self.ops.append("vsize %d %x" % (sid, rng.choice((1, 2, 7, 8, 16, 33, rng.randrange(1, 300)))))
        if kind == "both":
            self.ops.append("vsize %d %x" % (sid, self.bufs[sid] + rng.choice((1, 3, 8, 64))))
        if kind == "bothsmall":
            self.ops.append("vsize %d %x" % (sid, max(0, self.bufs[sid] - rng.choice((0, 1, 2)))))

    def add_call(self):
        rng = self.rng
        sid = rng.choice(self.user_ids())
        addr = rng.choice((0x1000, 0x10040, 0x7FFF123456789ABC, 0xFFFFFFFFFFFFFFF0, 0x80000000, 0x7FFFFFFF, 0x100000000 + rng.randrange(64),
                           rng.getrandbits(64), rng.getrandbits(33)))
        if self.at is None:
            self.at = self.count
            self.count += 1
            self.orders.append(INT_MAX)
        if rng.random() < 0.2:
            self.ops.append("addr %x" % addr)
        else:
            self.ops.append("%s %d %x" % (rng.choice(("call", "jmp")), sid, addr))
            self.bufs[sid] += 6
            self.relocs += 1

    def huge_vsize(self):
        rng = self.rng
        sid = rng.choice(self.user_ids())
        v = rng.choice(((1 << 63) + rng.randrange(-3, 4), M64 - rng.randrange(0, 40), (1 << 64) - (1 << 16) + rng.randrange(-2, 3),
                        (1 << 62) + rng.randrange(0, 9), M64, (1 << 63) - rng.randrange(0, 70000)))
        self.ops.append("vsize %d %x" % (sid, v & M64))
        self.huge = True

    def copies(self, k):
        """copy ops around every boundary that matters; the real sizes are not known to the generator, so it uses
        guesses from the buffer sizes / alignments plus small numbers; run() adds exact-boundary copies afterwards."""
        rng = self.rng
        for _ in range(k):
            n = rng.choice((0, 1, 2, 15, 16, 17, 31, 32, 33, 64, rng.randrange(0, 200), sum(self.bufs.values()) + rng.randrange(-3, 20)))
            self.ops.append("copy %d %d" % (max(0, n), rng.randrange(4)))
        self.ops.append("@copies")   # replaced in run() by copies at code_size + {-9..9} once the implementation's size is known

    def copysecs(self, k):
        rng = self.rng
        for _ in range(k):
            sid = rng.choice(list(range(self.count)) + [self.count, self.count + 7])
            b = self.bufs.get(sid, 0)
            self.ops.append("copysec %d %d %d" % (sid, max(0, b + rng.choice((-2, -1, 0, 0, 1, 2, 9, 40))), rng.randrange(4)))


def gen_config(rng):
    c = Cfg(rng)
    r = rng.random()
    nsec = rng.choice((0, 1, 1, 2, 2, 3, 3, 4, 5, 6, 8, 11)) if r < 0.9 else rng.randrange(0, 12)
    if rng.random() < 0.8:
        c.fill(0, rng.choice(("code", "code", "code", "empty", "virt", "both")))
    with_at = rng.random() < 0.3
    for _ in range(nsec):
        sid = c.new_section()
        if sid is not None and rng.random() < 0.85:
            c.fill(sid)
        if with_at and rng.random() < 0.4:
            c.add_call()
    if with_at and c.at is None:
        c.add_call()
    if rng.random() < 0.3:
        for _ in range(rng.randrange(1, 4)):
            c.fill(rng.choice(c.user_ids()))
    if rng.random() < 0.08:
        for _ in range(rng.randrange(1, 3)):
            c.huge_vsize()
    if rng.random() < 0.15:
        c.copies(1)
    c.ops.append("flatten")
    c.copies(rng.randrange(1, 4))
    if rng.random() < 0.4:
        c.copysecs(rng.randrange(1, 4))
    if rng.random() < 0.3:
        c.ops += ["names"] + ["find %s" % rng.choice([o.split()[1] for o in c.ops if o.startswith("sec ")] + [".text", ".addrtab", "nope"])]
    r = rng.random()
    if r < 0.35:
        c.ops.append("flatten")          # idempotence
        c.copies(1)
    elif r < 0.55:
        sid = c.new_section()            # grow after a flatten, flatten again
        if sid is not None:
            c.fill(sid)
        c.fill(rng.choice(c.user_ids()))
        c.ops.append("flatten")
        c.copies(1)
    if c.relocs and rng.random() < 0.85:
        base = rng.choice((0x10000, 0x7FFF00000000, 0x1000, 0, 0xFFFFFFFFFFFFFFFF, 0x7FFF123456780000, rng.getrandbits(48)))
        c.ops.append("reloc %x" % base)
        c.copies(1)
    elif not c.relocs and not c.huge and rng.random() < 0.25:
        c.ops.append("jitadd")
        c.copies(1)
    return c.ops


def small_exhaustive(limit=None):
    """all tables of .text + 2 further sections over a small menu of kinds/alignments/orders, flattened twice"""
    kinds = (("empty",), ("data", "90"), ("vsize", "3"), ("data", "cccc", "vsize", "5"))
    out = []
    for tk in kinds:
        for (k1, a1, o1), (k2, a2, o2) in itertools.product(itertools.product(kinds, (1, 16), (0, -1)), itertools.product(kinds, (4, 16), (0,))):
            ops = ["init"]
            for sid, k in ((0, tk),):
                ops += kind_ops(sid, k)
            ops.append("sec a %d %d" % (a1, o1))
            ops += kind_ops(1, k1)
            ops.append("sec b %d %d" % (a2, o2))
            ops += kind_ops(2, k2)
            ops += ["flatten", "@copies", "flatten", "@copies"]
            out.append(ops)
    return out[:limit] if limit else out


REUSE_OPS = ("reinit", "reset soft", "reset hard")


def reuse_family():
    """Deterministic family: a first use that pads `.text` (a following aligned section -> virtual size > buffer size), has an
    address table and a relocation, then reinit / reset soft / reset hard + init, then a smaller second use that is flattened and
    copied at exact sizes: the second use must be what a fresh holder gives (the monitor demands the fresh table right after the
    reuse op, the model continues from `init`)."""
    out = []
    for reuse in REUSE_OPS:
        for t in (1, 7):
            for withat in (False, True):
                ops = ["init", "data 0 %s" % ("90" * t), "sec a 16 0", "data 1 cc", "sec v 64 1", "vsize 2 21"]
                if withat:
                    ops += ["call 0 7fff123456789abc"]
                ops += ["flatten", "@copies"]
                if withat:
                    ops += ["reloc 10000"]
                ops += [reuse, "names", "data 0 9090", "copysec 0 2 1", "sec b 4 0", "data 1 c3", "flatten", "@copies", "names", "find b", "find a",
                        "flatten", "@copies", reuse, "flatten", "@copies", "data 0 c3", "jitadd"]
                out.append(ops)
    return out


def gen_reuse_config(rng):
    """use1 ; reinit | reset soft | reset hard ; use2 (both random configurations)"""
    ops = gen_config(rng)
    for _ in range(rng.choice((1, 1, 2))):
        nxt = gen_config(rng)[1:]
        # relocate_to_base (also inside JitRuntime::add) stores its base in the holder and reinit() keeps it ("same base address
        # as it had"): with a known base x86 call/jmp abs takes the direct rel32 path, which this model does not carry. After a
        # relocation a second use that emits call/jmp abs is therefore started with reset + init (which forgets the base).
        relocated = any(o.split()[0] in ("reloc", "jitadd") for o in ops)
        emits = any(o.split()[0] in ("call", "jmp") for o in nxt)
        ops = ops + [rng.choice(REUSE_OPS[1:] if relocated and emits else REUSE_OPS)] + nxt
    return ops


def pad_family():
    """Deterministic family (quick and thorough): a section with buffer b and virtual size v > b at a NON-ZERO offset; every
    destination size from offset+b-1 to offset+v+1 with all four flag combinations for copy_flattened_data, and every size from
    b-1 to v+1 for copy_section_data: the region where padding has to be clipped to the destination (an unclipped or
    wrongly based memset writes behind the destination exactly here)."""
    out = []
    for t in (1, 16):
        for b in (0, 1, 5):
            for dv in (1, 8, 40):
                for tail in (False, True):
                    v = b + dv
                    ops = ["init", "data 0 %s" % ("90" * t), "sec pad 16 0"]
                    if b:
                        ops.append("data 1 %s" % ("cc" * b))
                    ops.append("vsize 1 %x" % v)
                    if tail:
                        ops += ["sec tail 1 1", "data 2 c3"]
                    ops.append("flatten")
                    off = 16
                    for n in range(max(0, off + b - 1), off + v + 2):
                        for f in range(4):
                            ops.append("copy %d %d" % (n, f))
                    for n in range(max(0, b - 1), v + 2):
                        for f in range(4):
                            ops.append("copysec 1 %d %d" % (n, f))
                    out.append(ops)
    return out


def kind_ops(sid, k):
    ops = []
    for i in range(0, len(k) - 1, 2):
        ops.append("%s %d %s" % (k[i], sid, k[i + 1]))
    return ops


# ----------------------------------------------------------------------------------------------
# running
# ----------------------------------------------------------------------------------------------

def with_states(ops):
    out = []
    for o in ops:
        out.append(o)
        if o.split()[0] in MUTATING:
            out.append("state")
    return out


def copies_for(st, salt):
    """copy ops at code_size + {-9..9} and at every section boundary +-1 for the state line `st` of the implementation
    (inputs only: the destination size is an input of the property)"""
    try:
        cs = int(st.split()[0][3:], 16)
    except (ValueError, IndexError):
        return []
    sizes = set()
    if cs <= MAXDST - 16:
        sizes |= {max(0, cs + d) for d in (-9, -2, -1, 0, 1, 2, 9)}
    for part in st.split(" | ")[1:]:
        f = part.split(":")
        off, vs, buf = int(f[3], 16), int(f[4], 16), (0 if f[5] == "-" else len(f[5]) // 2)
        for e in (off, off + buf, off + vs):
            if e <= MAXDST - 2:
                sizes |= {max(0, e - 1), e, e + 1}
    sizes = sorted(sizes)
    seed = sum(map(ord, st)) + salt
    if len(sizes) > 10:
        sizes = sizes[:3] + [sizes[(seed + j * 7) % len(sizes)] for j in range(5)] + sizes[-3:]
    return ["copy %d %d" % (n, (seed + j) % 4) for j, n in enumerate(sizes)]


def expand_all(cfgs, harness):
    """Replace the '@copies' markers using the sizes the implementation reports at that point (one bulk run)."""
    lines, marks = [], []
    for ci, c in enumerate(cfgs):
        for oi, o in enumerate(c):
            if o == "@copies":
                marks.append((ci, oi, len(lines)))
                lines.append("state")
            elif o.split()[0] not in ("copy", "copysec", "names", "find"):
                lines.append(o)
    ans, rc, err = vlib.run_lines([str(harness)], lines)
    if rc != 0 or len(ans) != len(lines):
        return [[o for o in c if o != "@copies"] for c in cfgs]   # the main run will find and report the crash
    rep = {(ci, oi): copies_for(ans[li], oi) for ci, oi, li in marks}
    out = []
    for ci, c in enumerate(cfgs):
        n = []
        for oi, o in enumerate(c):
            n += rep[(ci, oi)] if o == "@copies" else [o]
        out.append(n)
    return out


def run_cfgs(harness, cfgs, want_model=True):
    """cfgs: list of op lists (without state lines). Returns per-config records."""
    lines, spans = [], []
    for c in cfgs:
        w = with_states(c)
        spans.append((len(lines), len(lines) + len(w)))
        lines += w
    impl, rc, err = vlib.run_lines([str(harness)], lines)
    if rc != 0 or len(impl) != len(lines):
        return None, lines, spans, (rc, err)
    model = None
    if want_model:
        model, rc2, err2 = vlib.run_model("C10", lines)
        if rc2 != 0 or len(model) != len(lines):
            raise vlib.BuildError("driver protocol failure rc=%d lines %d/%d %s" % (rc2, len(model), len(lines), err2[-500:]))
    mon, rc3, err3 = vlib.run_model("C10", ["mon %s => %s" % (o, r) for o, r in zip(lines, impl)])
    if rc3 != 0 or len(mon) != len(lines):
        raise vlib.BuildError("monitor protocol failure rc=%d lines %d/%d %s" % (rc3, len(mon), len(lines), err3[-500:]))
    return (impl, model, mon), lines, spans, None


def monitor_verdicts(harness, cfg):
    """(list of (line, answer, verdict)) or 'crash' for one configuration"""
    res, lines, spans, crash = run_cfgs(harness, [cfg], want_model=False)
    if crash:
        return "crash", crash
    impl, _, mon = res
    return list(zip(lines, impl, mon)), None


def bad_class(v):
    w = v.split()
    return w[1] if len(w) > 1 and w[0] == "BAD" else None


def shrink(harness, cfg, cls):
    def fails(cand):
        if not cand or cand[0] != "init":
            cand = ["init"] + [o for o in cand if o != "init"]
        r, crash = monitor_verdicts(harness, cand)
        if r == "crash":
            return cls == "crash"
        return any(bad_class(v) == cls for _, _, v in r)
    body = [o for o in cfg if o != "init"]
    small = vlib.ddmin(body, lambda c: fails(["init"] + c), max_tests=100)
    return ["init"] + small


def run_part(harness, part):
    """Runs one chunk of configurations. A harness abort never hides the rest: the aborting configuration is located
    (vlib.locate_abort, confirmed alone), recorded, removed, and the chunk is run again.
    Returns (configs evaluated, (results, lines, spans) or None, [(config, (rc, stderr))], unresolved crash or None)."""
    cur, crashes = list(part), []
    for _ in range(6):
        r, lines, spans, crash = run_cfgs(harness, cur)
        if not crash:
            return cur, (r, lines, spans), crashes, None
        found = None
        try:
            idx, _err = vlib.locate_abort([str(harness)], lines)
            ci = next((k for k, (a, b) in enumerate(spans) if a <= idx < b), None)
            cands = ([cur[ci]] if ci is not None else []) + cur
        except Exception:
            cands = cur
        for c in cands:
            v, cr = monitor_verdicts(harness, c)
            if v == "crash":
                found = (c, cr)
                break
        if not found:
            return cur, None, crashes, (crash, lines)
        crashes.append(found)
        cur = [c for c in cur if c is not found[0]]
    return cur, None, crashes, (crash, lines)


def chunks(seq, n):
    k = max(1, (len(seq) + n - 1) // n)
    return [seq[i:i + k] for i in range(0, len(seq), k)]


def run(res):
    rng = vlib.rng_for(res.seed, PID)
    res.assumptions += [
        "size_t is 64 bits (harness built for x86-64 only); memcpy/memset = list update of the same range",
        "the by-id and by-order vectors of CodeHolder share Section objects: one list in the model",
        "malloc/realloc of code buffers never fails in the explored runs (capacity is invisible)",
        "relocate_to_base is run at most once per CodeHolder (a second run re-counts address-table slots from zero: outside the property)",
        "model follows the repaired code: fixes/C10-1.patch (flatten), C10-2.patch (code_size), C10-3.patch (section name terminator), "
        "C10-4.patch (JitRuntime::_add refuses an empty final image instead of shrinking the span to 0 bytes)",
        "estimate_ge_final is proved for build histories (no set_virtual_size on .addrtab itself, < 2^60 operations) relocated once",
        "harness built with -fno-sanitize=nonnull-attribute (copy_flattened_data calls memcpy(dst, nullptr, 0) for buffer-less sections)",
    ]
    broken = []
    ok, out = vlib.lean_stage(res, PID, MODS)
    if not ok and not res.violations:
        for ft in getattr(res, "build_failures", []) or [{"decl": "?", "msg": out[-800:]}]:
            broken.append("theorem %s (%s:%s) no longer checks: %s" % (ft.get("decl"), ft.get("file"), ft.get("line"), ft.get("msg")))
        vlib.lake_build(["vdriver"])
    if not vlib.driver_path().exists():
        res.violation("Lean driver does not build", {"log": out[-3000:]}, found_input=False, key="driver")
        return
    h = vlib.build_harness("c10")

    ncfg = 1500 if res.tier == "quick" else 25000
    cfgs = [WITNESS_17, WITNESS_CS, WITNESS_NAME, WITNESS_JIT0] + pad_family() + reuse_family() + small_exhaustive(None if res.tier == "thorough" else 120) + [(gen_reuse_config(rng) if rng.random() < 0.2 else gen_config(rng)) for _ in range(ncfg)]
    with ThreadPoolExecutor(4) as ex:
        cfgs = [c for part in ex.map(lambda p: expand_all(p, h), chunks(cfgs, 4)) for c in part]

    parts = chunks(cfgs, 4 if res.tier == "quick" else 8)
    with ThreadPoolExecutor(4) as ex:
        results = list(ex.map(lambda p: run_part(h, p), parts))

    kinds, evals, nontriv, samples = {}, 0, set(), []
    bad, diffs, crashes, unresolved = [], [], [], []
    for part0, (part, rr, pcrashes, unres) in zip(parts, results):
        crashes += pcrashes
        if unres:
            unresolved.append(unres)
            continue
        r, lines, spans = rr
        impl, model, mon = r
        evals += len(lines)
        for ci, (a, b) in enumerate(spans):
            for i in range(a, b):
                k = lines[i].split()[0] + ":" + " ".join(impl[i].split()[:2] if impl[i].startswith("err") else impl[i].split()[:1])
                if lines[i].startswith("state"):
                    k = "state"
                elif lines[i].startswith("names"):
                    k = "names"
                elif lines[i].startswith("find"):
                    k = "find:" + ("none" if impl[i] == "none" else "hit")
                kinds[k] = kinds.get(k, 0) + 1
                if lines[i].split()[0] in ("flatten", "copy", "copysec", "reloc", "jitadd") and impl[i].startswith("ok"):
                    nontriv.add((lines[i], impl[i], impl[i - 1] if i > a else ""))
                cls = bad_class(mon[i])
                if cls:
                    bad.append((part[ci], cls, lines[i], impl[i], mon[i]))
                if impl[i] != model[i]:
                    diffs.append((part[ci], lines[i], impl[i], model[i]))
        if len(samples) < 6 and spans:
            a, b = spans[len(spans) // 2]
            j = next((i for i in range(a, b) if lines[i].startswith("copy") and impl[i].startswith("ok")), a)
            samples.append({"op": lines[j], "impl": impl[j][:300], "model": model[j][:300], "monitor": mon[j], "state_before": impl[j - 1][:300] if j > a else ""})

    res.coverage["evaluations"] = evals
    res.coverage["distinct_nontrivial"] = len(nontriv)
    res.coverage["rule"] = ("configurations = .text + 0..11 sections (names of length 0..60, alignments 0, 2^0..2^16 and invalid ones, orders from "
                            "{INT_MIN,-1,0,1,INT_MAX, equal runs, random}, empty/code/virtual-only/both, virtual sizes near 2^62..2^64, with/without "
                            ".addrtab via call/jmp abs), flatten (also twice, also after growth), copies at code_size+{-9..9}, at every section boundary "
                            "+-1, at 0 and small sizes with all four flag combinations, copy_section_data, one relocation, JitRuntime::add; plus an "
                            "REUSED holders (use1; reinit | reset soft | reset hard + init; use2 - 20 % of the random configurations and a deterministic "
                            "family of 12) whose table must be the fresh one; an exhaustive menu of 3-section tables and the deterministic padding family (36 tables x every destination size from "
                            "offset+buffer-1 to offset+virtual+1 x 4 flag sets, for copy_flattened_data and copy_section_data); non-trivial = distinct (op, accepted answer, state before) of flatten/copy/copysec/reloc/jitadd")
    res.coverage["exhaustive"] = False
    res.coverage["input_distribution"] = dict(sorted(kinds.items()))
    res.coverage["configurations"] = len(cfgs)
    res.add_samples(samples)
    res.coverage["traces_validated_against_impl"] = evals

    seen = set()
    for c, cr in crashes[:2]:
        small = shrink(h, c, "crash")
        res.violation("harness aborted (sanitizer or crash) rc=%s: %s" % (cr[0], cr[1][-1200:]), {"ops": with_states(small), "stderr": cr[1][-3000:]},
                      True, key="harness-abort")
    for c, cls, line, ans, verdict in bad:
        if cls in seen:
            continue
        seen.add(cls)
        small = shrink(h, c, cls)
        v, _ = monitor_verdicts(h, small)
        trace = [{"op": o, "impl": a[:400], "monitor": m} for o, a, m in v] if v != "crash" else []
        n_same = sum(1 for b in bad if b[1] == cls)
        res.violation("property C10 fails on the real code [%s]: %s   (at %r -> %s; %d such answers in this run)" % (cls, verdict, line, ans[:200], n_same),
                      {"ops": with_states(small), "trace": trace, "monitor": verdict,
                       "how": "python3 tools/check.py replay <this file>  (harness .build/<tree>/asan/h_c10_*, judged by `vdriver C10` mon lines)"},
                      True, key="mon:" + cls)
    for (rc_err, ulines) in unresolved[:1]:
        res.violation("harness aborted (rc=%s) and the abort could not be attributed to a single configuration; %d op lines of that chunk "
                      "were not evaluated: %s" % (rc_err[0], len(ulines), rc_err[1][-800:]), {"ops": ulines[:400], "stderr": rc_err[1][-3000:]},
                      True, key="harness-abort")
    # a correspondence difference is reported unless a monitor violation of the SAME configuration already explains it
    bad_cfgs = {id(b[0]) for b in bad}
    open_diffs = [d for d in diffs if id(d[0]) not in bad_cfgs]
    if open_diffs:
        c, line, a, b = open_diffs[0]
        res.violation("correspondence model/implementation differs at %r: impl=%s model=%s (%d differing answers in configurations where the "
                      "property monitors hold)" % (line, a[:300], b[:300], len(open_diffs)),
                      {"ops": with_states(c), "impl": a, "model": b, "unchecked": "correspondence Model/Sections.lean ~ codeholder.cpp"},
                      False, key="corr")
    if broken:
        res.violation("proof obligation no longer checks: " + " | ".join(broken)[:1500], {"unchecked": broken}, False, key="obligation")
    if evals == 0 and not res.violations:
        res.violation("empty run: no operation line was executed", {"configurations": len(cfgs)}, False, key="empty")


# witnesses of the defects found with this check (kept as regression inputs; see notes/C10.md)
WITNESS_17 = ["init", "data 0 90", "sec .a 16 0", "sec .b 16 0", "data 2 cc", "flatten", "copy 17 3", "flatten", "copy 17 3"]
WITNESS_CS = ["init", "data 0 90", "sec .a 1 0", "vsize 1 fffffffffffffff6", "sec .b 16 0", "data 2 cc", "flatten"]
WITNESS_NAME = ["init", "sec .a 16 0", "sec bb 1 0", "names", "find .a", "find bb", "find b"]
WITNESS_JIT0 = ["init", "addr 1234", "jitadd"]


def replay(data):
    ops = data["replay"].get("ops", [])
    h = vlib.build_harness("c10")
    impl, rc, err = vlib.run_lines([str(h)], ops)
    mon, _, _ = vlib.run_model("C10", ["mon %s => %s" % (o, r) for o, r in zip(ops, impl)])
    rcode = 0
    for o, r, m in zip(ops, impl, mon + [""] * len(ops)):
        print(o, "->", r[:400], "   [%s]" % m)
        if m.startswith("BAD"):
            rcode = 1
    if rc != 0:
        print("harness rc=%d\n%s" % (rc, err[-2000:]))
        rcode = 1
    return rcode
