"""C11 — thread safety of the JIT memory manager and of independent code generation (DESIGN.md section 6, C11)."""
import re
import subprocess
import time
import vlib
import ast_locks
import gen_globals
import gen_statics
import ast_statics

PID = "C11"
MODS = ["AsmjitVerif.Props.C11", "AsmjitVerif.Props.C11Static"]
MANIFEST = {
    "technique": "Lean 4: lock-discipline / no-mutable-globals / static-reference theorems by kernel evaluation over data regenerated from the "
                 "clang AST, nm and objdump of the current tree; C09's sequential allocator model instantiated as the critical section of a "
                 "generic thread model (every schedule = a sequential history accepted by C09's monitor); threaded ASan/TSan runs whose "
                 "lock-order history (hook H2) is replayed by C09's model and judged by C09's monitor",
    "text": "(a) For every allocator/runtime operation documented thread-safe, Lean evaluates (decide +kernel) a lock-discipline analysis over the "
            "function bodies regenerated from clang's AST of the current jitallocator.cpp/jitruntime.cpp: every access to a mutable field of the "
            "shared records happens under the allocator's LockGuard through all callees, the lock is never taken twice, fields treated as immutable "
            "are assigned only by constructors. (b) No shared mutable state behind the API: every object in a writable data section of every "
            "translation unit (objdump symbol tables: local, global, weak and unique symbols) is on a reviewed init-once list, there are no "
            "thread-locals, and every relocation from machine code into a writable data section comes from a reviewed init-once accessor of "
            "cpuinfo.cpp / virtmem.cpp or names a verification hook variable - so CodeHolder, emitters, Builder, Compiler, register allocator and "
            "formatter code references const tables only (all_writable_statics_reviewed, only_reviewed_accessors_touch_statics, "
            "codegen_units_share_nothing); from clang's AST every such object is a std::atomic, a host-information record published by an atomic "
            "flag inside its init-once accessor (write only in the `if (!flag.load())` block, before the store) or a hook variable "
            "(writable_statics_are_atomic_or_published, init_once_publish_discipline); the lock is a pthread mutex held for LockGuard's scope "
            "(lock_is_a_pthread_mutex); both JitAllocator::write overloads, the scoped writes and WriteScope reach the bookkeeping only under "
            "the lock (write_paths_disciplined); JitAllocator::_impl / JitRuntime::_allocator are assigned by constructors only; the anchored "
            "table units own no writable object; the VirtMem protect/flush helpers keep no static state. (c) Generic theorems: operations that are atomic critical sections make every interleaving of any "
            "number of threads a sequential history in per-thread program order (atomic_ops_linearise, program_order, invariant_under_every_"
            "schedule[_wf]); instantiated with C09's actual step function as the critical section and alloc's lock-free prefix (alignment to "
            "the immutable granularity, range check) as pre-phase: after EVERY schedule of ANY number of threads the allocator state is a "
            "sequentially reachable state satisfying C09's invariant (jit_allocator_inv_under_every_schedule, jit_schedule_is_sequential_"
            "history) and the observable trace (operation, answer, statistics read under the lock) is accepted by C09's monitor "
            "(jit_monitor_accepts_every_schedule). (d) Tie/search: 2..16 threads on one allocator/runtime under ASan and TSan with seeded "
            "random yields/sleeps (also inside the critical sections). With hook H2 the harness records every critical section in lock order "
            "= the linearisation; the check feeds that SEQUENTIAL history to C09's monitor (must accept every answer and the statistics), "
            "to C09's model (must give identical answers, statistics and final private block state: model = implementation on the linearised "
            "history) and checks in Lean that each thread's program order, with the results the caller saw, is exactly that thread's "
            "projection of the history. Without the hook the real-time trace monitor (no two spans owned at the same time intersect) is used. "
            "Per-thread x86-64 and AArch64 Assembler/Builder/Compiler output (with logger text) equals the single-threaded output. Threads "
            "with private dual-mapped allocators on a 'kernel without memfd_create' (syscall wrapped to answer ENOSYS) exercise the first use of "
            "the fallback path under TSan (finding C11-1).",
    "note": "Trusted: tools/ast_locks.py (event extraction; the analysis itself is Lean), objdump/nm, the mutex providing mutual exclusion, the "
            "reviewed lists (immutable fields, init-once globals and their accessors, thread-safe entry points) in Props/C11.lean, the hook H2 "
            "call sites being at the end of the critical sections (18 guarded lines, fixes/H2-hook.patch). Races the C++ memory model decides "
            "(init-once statics) are tested with TSan on the explored schedules only, not proved. Lean cannot exhibit a data race: a broken "
            "discipline is reported with the TSan/trace/linearisation witness when one is found, else no-failing-input-found. References "
            "from data to data (a const table holding the address of a writable object) are not followed by gen_statics.py.",
}

#                threads, ops/thread, options, granularity, yield level
CONFIGS_QUICK = [(2, 1500, 0x0, 64, 1), (4, 1200, 0x1, 64, 2), (8, 800, 0x2 | 0x4, 64, 1), (16, 400, 0x8, 128, 3), (6, 800, 0x20, 256, 0),
                 (3, 900, 0x2 | 0x4 | 0x8, 64, 2)]
DEADLINE = [float("inf")]
WRAP = ["-Wl,--wrap=syscall"]     # the harness answers ENOSYS to memfd_create in its `nomemfd` op
TSAN_ENV = {"TSAN_OPTIONS": "halt_on_error=0:exitcode=66:second_deadlock_stack=1:history_size=7"}


def have_hook(plain_lib):
    p = subprocess.run(["nm", str(plain_lib)], capture_output=True, text=True)
    return re.search(r"\b[BbDd] asmjit_verif_jit_event\b", p.stdout) is not None


def split_output(out):
    """harness output -> dict of line groups"""
    g = {"trace": [], "lin": [], "po": [], "hook": None, "problem": None}
    for l in out:
        if l.startswith("L "):
            g["lin"].append(l)
        elif l.startswith("P "):
            g["po"].append(l)
        elif l.startswith("hook "):
            g["hook"] = l.split()[1] == "1"
        elif l.startswith("linproblem "):
            g["problem"] = l[len("linproblem "):]
        else:
            g["trace"].append(l)
    return g


def judge_linearisation(g, res, label):
    """(i) C09 monitor accepts the history, (ii) C09 model answers identically, returns (problem or None, driver lines for (iii))"""
    heads, ops, answers = [], [], []
    for l in g["lin"]:
        head, _, body = l.partition(" | ")
        op, _, ans = body.partition(" => ")
        heads.append(head.split())
        ops.append(op)
        answers.append(ans)
    res.coverage["linearised_ops"] = res.coverage.get("linearised_ops", 0) + len(ops)
    kinds = res.coverage.setdefault("input_distribution", {}).setdefault("linearised_op_kinds", {})
    for o in ops:
        k = o.split()[0]
        kinds[k] = kinds.get(k, 0) + 1
    # (i)
    mon, rc, err = vlib.run_model("C09", ["mon %s => %s" % (o, a) for o, a in zip(ops, answers)], timeout=1500)
    if len(mon) != len(ops):
        return "%s: linearisation: C09 monitor gave %d verdicts for %d operations (rc=%s %s)" % (label, len(mon), len(ops), rc, err[-200:]), []
    for i, m in enumerate(mon):
        if m != "good":
            return ("%s: linearisation: C09 monitor rejects critical section #%d (thread %s) `%s => %s`: %s" %
                    (label, i, heads[i][1], ops[i], answers[i][:160], m)), []
    if g["problem"]:      # the callback could not name the span of an event although the monitor accepted every answer
        return "%s: linearisation: %s" % (label, g["problem"]), []
    # (ii)
    model, rc, err = vlib.run_model("C09", ops, timeout=1500)
    d = vlib.first_diff(answers, model)
    if d is not None:
        return ("%s: linearisation: sequential model and implementation differ at critical section #%d (thread %s) `%s`: implementation `%s`, "
                "model `%s`" % (label, d, heads[d][1] if d < len(heads) else "?", ops[d] if d < len(ops) else "?",
                                (answers[d] if d < len(answers) else "<none>")[:300], (model[d] if d < len(model) else "<none>")[:300])), []
    res.coverage["linearisations_replayed_by_model"] = res.coverage.get("linearisations_replayed_by_model", 0) + 1
    # (iii) is judged by the C11 driver
    drv = ["lin %s %s %s" % (h[1], h[2], h[3]) for h in heads if h[2] != "-"]
    drv += ["po " + l[2:] for l in g["po"]]
    return None, drv


def run_threads(h, runs, res, label, env=None):
    """returns list of problems [(run line, message)]"""
    problems = []
    for (n, ops, opts, gran, yl, seed) in runs:
        if time.time() > DEADLINE[0]:      # wall-clock budget of the tier (machine load varies): the rest is counted, not run
            res.coverage["runs_skipped_for_time"] = res.coverage.get("runs_skipped_for_time", 0) + 1
            continue
        line = "run %d %d %d %x %d %d" % (n, ops, seed, opts, gran, yl)
        out, rc, err = vlib.run_lines([str(h)], [line], timeout=900, env=env or TSAN_ENV)
        if "ThreadSanitizer" in err:
            m = re.search(r"WARNING: ThreadSanitizer: ([^\n]*)\n((?:.*\n){0,12})", err)
            problems.append((line, "%s: ThreadSanitizer: %s" % (label, (m.group(1) + " | " + " ".join(m.group(2).split())[:600]) if m else err[-600:])))
            continue
        if rc != 0:
            problems.append((line, "%s: harness aborted rc=%d: %s" % (label, rc, err[-800:])))
            continue
        g = split_output(out)
        drv = []
        if g["hook"]:
            p, drv = judge_linearisation(g, res, label)
            if p:
                problems.append((line, p))
                continue
        mon, rc2, _ = vlib.run_model("C11", ["cfg %d" % gran] + g["trace"][:-1] + drv + g["trace"][-1:])
        res.coverage["evaluations"] += len([l for l in g["trace"] if l.startswith("span")]) + len(g["lin"])
        res.coverage["traces_validated_against_impl"] = res.coverage.get("traces_validated_against_impl", 0) + 1
        res.coverage["code_generations_compared"] = res.coverage.get("code_generations_compared", 0) + \
            sum(int(m.group(1)) for m in (re.search(r"runs=(\d+)", l) for l in g["trace"] if l.startswith("code")) if m)
        if len(res.coverage["samples"]) < 4:
            res.add_samples([{"run": line, "flavour": label, "first_trace_lines": g["trace"][:2], "first_linearised": g["lin"][1:4],
                              "end": g["trace"][-1:], "monitor": mon}])
        bad = [m for m in mon if not m.startswith("good")]
        if bad or not mon:
            problems.append((line, "%s: %s" % (label, (bad or ["monitor gave no verdict"])[0])))
    return problems


def generate():
    funcs, fields = ast_locks.collect(vlib.REPO)
    vlib.gen_write("AsmjitVerif/Gen/LockMap.lean", ast_locks.render(funcs, fields))
    d, plain = vlib.ensure_lib("plain")
    vlib.gen_write("AsmjitVerif/Gen/Globals.lean", gen_globals.render(gen_globals.collect(plain)))
    w, t, r = gen_statics.collect(d / "obj")
    vlib.gen_write("AsmjitVerif/Gen/StaticRefs.lean", gen_statics.render(w, t, r))
    vlib.gen_write("AsmjitVerif/Gen/StaticDecls.lean", ast_statics.render(ast_statics.decl_types(vlib.REPO, w), ast_statics.publish_events(vlib.REPO),
                                                                          ast_statics.lock_calls(vlib.REPO)))


def run(res):
    rng = vlib.rng_for(res.seed, PID)
    broken = []
    try:
        funcs, fields = ast_locks.collect(vlib.REPO)
        vlib.gen_write("AsmjitVerif/Gen/LockMap.lean", ast_locks.render(funcs, fields))
        res.coverage["functions_in_lock_map"] = len(funcs)
    except Exception as e:
        broken.append("translator ast_locks: %s" % e)
    hook = False
    try:
        d, plain = vlib.ensure_lib("plain")
        hook = have_hook(plain)
        names = gen_globals.collect(plain)
        vlib.gen_write("AsmjitVerif/Gen/Globals.lean", gen_globals.render(names))
        res.coverage["mutable_globals"] = names
        try:
            w, t, r = gen_statics.collect(d / "obj")
            vlib.gen_write("AsmjitVerif/Gen/StaticRefs.lean", gen_statics.render(w, t, r))
            res.coverage["static_refs"] = {"writable_objects": len(w), "thread_locals": len(t), "code_references_into_writable_sections": len(r),
                                           "functions_referencing": sorted({x[1].split("(")[0] for x in r if not x[2].startswith("asmjit_verif_")})}
            try:
                decls, pubs, locks = ast_statics.decl_types(vlib.REPO, w), ast_statics.publish_events(vlib.REPO), ast_statics.lock_calls(vlib.REPO)
                vlib.gen_write("AsmjitVerif/Gen/StaticDecls.lean", ast_statics.render(decls, pubs, locks))
                res.coverage["static_decl_types"] = {d[1]: d[2] for d in decls}
            except Exception as e:
                broken.append("translator ast_statics: %s" % e)
        except Exception as e:
            broken.append("translator gen_statics: %s" % e)
    except vlib.BuildError:
        raise
    except Exception as e:
        broken.append("translator gen_globals: %s" % e)

    ok, out = vlib.lean_stage(res, PID, MODS)
    if not ok and not res.violations:
        for ft in getattr(res, "build_failures", []) or [{"decl": "?", "msg": out[-800:]}]:
            broken.append("theorem %s (%s:%s) no longer checks: %s" % (ft.get("decl"), ft.get("file"), ft.get("line"), ft.get("msg")))
        vlib.lake_build(["vdriver"])
    res.assumptions += ["the mutex (pthread) provides mutual exclusion", "clang-14 AST faithfully lists member accesses and calls in source order",
                        "host information = CpuInfo::host() and VirtMem::info(): both are initialised by constructing any JitRuntime/JitAllocator on one thread; "
                        "their first-use double initialisation (two threads both finding the atomic flag clear write the record) is the race the "
                        "property excludes ('once the host information has been initialised'); every other process-wide cache must be a std::atomic",
                        "objdump lists every relocation of the code sections; data-to-data references are not followed"]
    res.coverage["linearisation"] = ("hook H2 present: every critical section recorded in lock order; history replayed by C09's model and judged by "
                                     "C09's monitor; program order checked by the Lean driver") if hook else \
        ("hook H2 (asmjit_verif_jit_event) is NOT in the library: fell back to the real-time trace monitor (overlap of lifetimes/addresses); "
         "the refinement to C09 on the linearised history was not run")
    if not hook:
        vlib.log("[C11] hook H2 absent in this tree: falling back to the real-time trace monitor")

    quick = res.tier == "quick"
    DEADLINE[0] = time.time() + (170 if quick else 13 * 60)      # threaded part only; build and Lean come before
    cfgs = list(CONFIGS_QUICK)
    if not quick:
        cfgs = [(n, ops * 2, o, g, y) for (n, ops, o, g, y) in CONFIGS_QUICK] + \
            [(rng.choice((2, 3, 5, 7, 12, 16)), 2000, rng.randrange(64) & ~0x10, rng.choice((64, 128, 256)), rng.randrange(4)) for _ in range(8)]
    runs = [(n, ops, o, g, y, rng.randrange(1 << 30)) for (n, ops, o, g, y) in cfgs]
    if broken:   # a broken obligation: search harder for a witness
        runs = runs + [(16, 1200 if quick else 3000, o, g, 2, rng.randrange(1 << 30)) for (_, _, o, g, _) in CONFIGS_QUICK[:3 if quick else 5]]
    res.coverage["rule"] = ("threads x ops x allocator options x granularity x yield level from a fixed list plus seeded random ones; an evaluation = "
                            "one allocation record of the real-time trace or one critical section of the linearised history judged by a Lean "
                            "monitor; non-trivial = run with >= 2 threads whose trace has spans from every thread; runs are repeated under "
                            "ThreadSanitizer (history_size=7) with other seeds, thread counts 2..16 and random yields")
    flags = ["-DC11_H2"] if hook else []
    h_asan = vlib.build_harness("c11", "asan", extra_flags=flags, link_flags=WRAP)
    problems = run_threads(h_asan, runs, res, "asan")
    h_tsan = vlib.build_harness("c11", "tsan", extra_flags=flags, link_flags=WRAP)
    # schedule diversity under TSan: other seeds, every thread count 2..16 over the tiers, all yield levels
    if quick:
        tcfg = [(2, 1200, 0x8, 64, 2), (5, 900, 0x2 | 0x4, 64, 1), (16, 300, 0x8, 128, 3), (rng.randrange(3, 16), 600, 0x1, 64, rng.randrange(4))]
    else:
        tcfg = [(n, 300, rng.choice((0x0, 0x1, 0x2 | 0x4, 0x8, 0x2 | 0x8, 0x4 | 0x20)), rng.choice((64, 128, 256)), rng.randrange(4)) for n in range(2, 17)]
        tcfg += [(n, ops // 2, o, g, y) for (n, ops, o, g, y) in CONFIGS_QUICK]
    truns = [(n, ops, o, g, y, rng.randrange(1 << 30)) for (n, ops, o, g, y) in tcfg]
    if broken:
        truns += [(n, 700 if quick else 1200, o, g, y, rng.randrange(1 << 30)) for (n, y, (_, _, o, g, _)) in
                  zip((16, 8, 4, 12), (2, 1, 3, 0), CONFIGS_QUICK[:3 if quick else 4])]
    problems += run_threads(h_tsan, truns, res, "tsan")
    if hook and not problems:
        # the hook callback must not hide anything from TSan: the same binary's sibling without the hook (plain trace mode)
        h_tsan0 = vlib.build_harness("c11", "tsan", link_flags=WRAP)
        problems += run_threads(h_tsan0, truns[:2] if quick else truns[:5], res, "tsan-nohook")
    # first use of the dual-mapping fallback (no memfd_create) by several private allocators at once: finding C11-1
    for (hh, label) in ((h_tsan, "tsan"), (h_asan, "asan")):
        lines = ["nomemfd %d %d" % (n, 3) for n in ((16, 4, 12, 8, 2, 16, 4, 8, 3, 12, 8, 6, 16, 4, 12, 8) if quick else (16, 4, 12, 8, 2, 16, 4, 8, 3, 12, 8, 6, 16, 4, 12, 8) * 3)]
        for line in (lines if label == "tsan" else lines[:2]):
            if any("memfd-flag" in m for _, m in problems):
                break      # one witness is enough (each process can show the first-use race once)
            out, rc, err = vlib.run_lines([str(hh)], [line], timeout=600, env=TSAN_ENV)
            res.coverage["nomemfd_runs"] = res.coverage.get("nomemfd_runs", 0) + 1
            if "ThreadSanitizer" in err:
                m = re.search(r"WARNING: ThreadSanitizer: ([^\n]*)\n((?:.*\n){0,12})", err)
                what = (m.group(1) + " | " + " ".join(m.group(2).split())[:600]) if m else err[-600:]
                tag = "memfd-flag" if ("AnonymousMemory" in err or "memfd" in err) else "nomemfd"
                problems.append((line, "%s-%s: ThreadSanitizer: %s" % (label, tag, what)))
            elif rc != 0 or not out or not out[-1].startswith("nomemfd errors=0 "):
                problems.append((line, "%s-nomemfd: private dual-mapped allocators without memfd_create: rc=%d %s %s" % (label, rc, out[-1:] , err[-400:])))
    res.coverage["distinct_nontrivial"] = len(set(runs)) + len(set(truns))
    res.coverage.setdefault("input_distribution", {}).update(
        {"runs": len(runs) + len(truns), "threads": sorted({r[0] for r in runs + truns}), "options": sorted({r[2] for r in runs + truns}),
         "yield_levels": sorted({r[4] for r in runs + truns}), "tsan_runs": len(truns), "hook_H2": hook})

    if problems:
        line, msg = problems[0]
        res.violation("concurrent use breaks the property on the real code: %s (%d failing runs)%s" % (
            msg, len(problems), ("; also: " + " | ".join(broken)) if broken else ""),
            {"ops": [line], "how": "harness c11 (asan or tsan flavour%s) on this line; schedules are not replayable, repeat the run" %
             (", built with -DC11_H2" if hook else ""), "unchecked": broken, "all": [m for _, m in problems][:8]}, True, key="race:" + msg.split(":")[0])
    elif broken:
        res.violation("proof obligation no longer checks: " + " | ".join(broken)[:1500] +
                      " -- no race, overlapping span, rejected or diverging linearisation was observed in %d threaded runs (ASan+TSan)" % (len(runs) + len(truns)),
                      {"unchecked": broken}, False, key="obligation")


def replay(data):
    _, plain = vlib.ensure_lib("plain")
    flags = ["-DC11_H2"] if have_hook(plain) else []
    h = vlib.build_harness("c11", "tsan", extra_flags=flags, link_flags=WRAP)
    for line in data["replay"].get("ops", []):
        out, rc, err = vlib.run_lines([str(h)], [line], env=TSAN_ENV)
        print(line, "->", out[-1:] if out else None, rc, err[-800:])
    return 0
