"""C11 — thread safety of the JIT memory manager and of independent code generation (DESIGN.md section 6, C11)."""
import re
import vlib
import ast_locks
import gen_globals

PID = "C11"
MODS = ["AsmjitVerif.Props.C11"]
MANIFEST = {
    "technique": "Lean 4: lock-discipline and no-mutable-globals theorems by kernel evaluation over event trees / symbol lists regenerated "
                 "from the clang AST and nm of the current tree + a generic linearisation theorem; threaded ASan/TSan runs judged by a Lean trace monitor",
    "text": "(a) For every allocator/runtime operation documented thread-safe, Lean evaluates (decide +kernel) a lock-discipline analysis over the "
            "function bodies regenerated from clang's AST of the current jitallocator.cpp/jitruntime.cpp: every access to a mutable field of the "
            "shared records happens under the allocator's LockGuard through all callees, the lock is never taken twice, fields treated as immutable "
            "are assigned only by constructors, and the library has no writable global outside a reviewed init-once list (nm of the current build). "
            "(b) A generic theorem proves that operations that are atomic critical sections make every interleaving of any number of threads "
            "equal to a sequential history with per-thread program order, so sequential invariants (C09) hold under every schedule. "
            "(c) Tie/search: 2..16 threads on one allocator/runtime under ASan and TSan; the real-time trace is judged by the Lean monitor "
            "(no two spans owned at the same time intersect; aligned; contents intact) and per-thread generated code equals single-threaded code.",
    "note": "Trusted: tools/ast_locks.py (event extraction; the analysis itself is Lean), nm, the mutex providing mutual exclusion, the reviewed lists "
            "(immutable fields, init-once globals, thread-safe entry points) in Props/C11.lean. Races the C++ memory model decides (init-once statics) "
            "are tested with TSan on the explored schedules only, not proved. Lean cannot exhibit a data race: a broken discipline is reported with "
            "the TSan/trace witness when one is found, else no-failing-input-found.",
}

CONFIGS_QUICK = [(2, 1500, 0x0, 64), (4, 1200, 0x1, 64), (8, 800, 0x2 | 0x4, 64), (16, 400, 0x8, 128), (6, 800, 0x20, 256)]


def run_threads(h, runs, res, label):
    """returns list of problems [(run line, message)]"""
    problems = []
    for (n, ops, opts, gran, seed) in runs:
        line = "run %d %d %d %x %d" % (n, ops, seed, opts, gran)
        out, rc, err = vlib.run_lines([str(h)], [line], timeout=900, env={"TSAN_OPTIONS": "halt_on_error=0:exitcode=66:second_deadlock_stack=1"})
        if "ThreadSanitizer" in err:
            m = re.search(r"WARNING: ThreadSanitizer: ([^\n]*)\n((?:.*\n){0,12})", err)
            problems.append((line, "%s: ThreadSanitizer: %s" % (label, (m.group(1) + " | " + " ".join(m.group(2).split())[:600]) if m else err[-600:])))
            continue
        if rc != 0:
            problems.append((line, "%s: harness aborted rc=%d: %s" % (label, rc, err[-800:])))
            continue
        mon, rc2, _ = vlib.run_model("C11", ["cfg %d" % gran] + out)
        res.coverage["evaluations"] += len([l for l in out if l.startswith("span")])
        res.coverage["traces_validated_against_impl"] = res.coverage.get("traces_validated_against_impl", 0) + 1
        if len(res.coverage["samples"]) < 4:
            res.add_samples([{"run": line, "first_trace_lines": out[:3], "end": out[-1:], "monitor": mon}])
        bad = [m for m in mon if not m.startswith("good")]
        if bad or not mon:
            problems.append((line, "%s: %s" % (label, (bad or ["monitor gave no verdict"])[0])))
    return problems


def generate():
    funcs, fields = ast_locks.collect(vlib.REPO)
    vlib.gen_write("AsmjitVerif/Gen/LockMap.lean", ast_locks.render(funcs, fields))
    _, plain = vlib.ensure_lib("plain")
    vlib.gen_write("AsmjitVerif/Gen/Globals.lean", gen_globals.render(gen_globals.collect(plain)))


def run(res):
    rng = vlib.rng_for(res.seed, PID)
    broken = []
    try:
        funcs, fields = ast_locks.collect(vlib.REPO)
        vlib.gen_write("AsmjitVerif/Gen/LockMap.lean", ast_locks.render(funcs, fields))
        res.coverage["functions_in_lock_map"] = len(funcs)
    except Exception as e:
        broken.append("translator ast_locks: %s" % e)
    try:
        _, plain = vlib.ensure_lib("plain")
        names = gen_globals.collect(plain)
        vlib.gen_write("AsmjitVerif/Gen/Globals.lean", gen_globals.render(names))
        res.coverage["mutable_globals"] = names
    except vlib.BuildError:
        raise
    except Exception as e:
        broken.append("translator gen_globals: %s" % e)

    ok, out = vlib.lean_stage(res, PID, MODS)
    if not ok and not res.violations:
        for ft in getattr(res, "build_failures", []) or [{"decl": "?", "msg": out[-800:]}]:
            broken.append("theorem %s (%s:%s) no longer checks: %s" % (ft.get("decl"), ft.get("file"), ft.get("line"), ft.get("msg")))
        vlib.lake_build(["vdriver"])
    res.assumptions += ["the mutex (pthread) provides mutual exclusion", "clang-14 AST faithfully lists member accesses and calls in source order",
                        "init-once statics are benign (atomic flags); the property itself is stated 'once the host information has been initialised'"]

    quick = res.tier == "quick"
    cfgs = CONFIGS_QUICK if quick else [(n, ops * 4, o, g) for (n, ops, o, g) in CONFIGS_QUICK] + \
        [(rng.choice((2, 3, 5, 12, 16)), 3000, rng.randrange(64) & ~0x10, rng.choice((64, 128, 256))) for _ in range(12)]
    runs = [(n, ops, o, g, rng.randrange(1 << 30)) for (n, ops, o, g) in cfgs]
    if broken:   # a broken obligation: search harder for a witness
        runs = runs + [(16, 4000, o, g, rng.randrange(1 << 30)) for (_, _, o, g) in CONFIGS_QUICK]
    res.coverage["rule"] = ("threads x ops x allocator options x granularity from a fixed list plus seeded random ones; an evaluation = one allocation "
                            "record of the real-time trace judged by the Lean monitor; non-trivial = run with >= 2 threads whose trace has spans from "
                            "every thread; the same runs are repeated under ThreadSanitizer")
    h_asan = vlib.build_harness("c11", "asan")
    problems = run_threads(h_asan, runs, res, "asan")
    h_tsan = vlib.build_harness("c11", "tsan")
    problems += run_threads(h_tsan, runs if not quick else runs[:3], res, "tsan")
    res.coverage["distinct_nontrivial"] = len(set(runs))
    res.coverage["input_distribution"] = {"runs": len(runs), "threads": sorted({r[0] for r in runs}), "options": sorted({r[2] for r in runs})}

    if problems:
        line, msg = problems[0]
        res.violation("concurrent use breaks the property on the real code: %s (%d failing runs)%s" % (
            msg, len(problems), ("; also: " + " | ".join(broken)) if broken else ""),
            {"ops": [line], "how": "harness c11 (asan or tsan flavour) on this line; schedules are not replayable, repeat the run",
             "unchecked": broken}, True, key="race:" + msg.split(":")[0])
    elif broken:
        res.violation("proof obligation no longer checks: " + " | ".join(broken)[:1500] +
                      " -- no race or overlapping span was observed in %d threaded runs (ASan+TSan)" % len(runs),
                      {"unchecked": broken}, False, key="obligation")


def replay(data):
    h = vlib.build_harness("c11", "tsan")
    for line in data["replay"].get("ops", []):
        out, rc, err = vlib.run_lines([str(h)], [line])
        print(line, "->", out[-1:] if out else None, rc, err[-800:])
    return 0
