"""C08 - Builder/Compiler serialization is byte-identical to direct assembling (DESIGN.md section 6, C08)."""
import os
import vlib

PID = "C08"
MANIFEST = {
    "technique": "Lean 4 theorems over a hand model of BaseBuilder (node list with cursor, cached section links, instruction capture, "
                 "serialize_to) refined to a gap-buffer specification, for all operation histories; C++/Lean correspondence on node-list "
                 "dumps and recorded serialize_to calls; byte differential Builder/Compiler vs Assembler judged by the Lean monitor",
    "text": "Lean proves for every history of emitter calls and node-list edits (add_node, add_after, add_before, remove_node, remove_nodes, "
            "set_cursor, section): the Builder model (cursor node, recursive list surgery, cached _next_section links with dirty flag and "
            "update_section_links) refines the gap-buffer document of Spec/Builder.lean and keeps its representation invariant, hence what "
            "serialize_to walks is the specification's linearisation of the edited document (edit_semantics); an instruction node replays "
            "exactly the call that created it (0..6 operands, every option word, extra register, comment); serialize_to against any "
            "destination issues all calls or stops at the first rejected call with that call's error and state; serialize_replays: every "
            "edit-free program without section re-entry (instructions, labels and refused double binds, typed data, label addresses/deltas, "
            "new sections) is serialised as section 0 followed by exactly the calls an Assembler accepts for the same operations "
            "(Spec/BuilderCalls.lean, written from the Assembler's call-time rules); serialize_groups: with section re-entry every section "
            "receives exactly its projection of the directly issued call sequence, so any per-section-local assembler abstraction gives equal "
            "results (sections_equal_of_local); that locality hypothesis is discharged against the CodeHolder model of C03/C04 for "
            "label-reference-free code (codeholder_data_local) and refuted for cross-section label deltas (label_delta_witness, open finding "
            "C08-K2). The model is tied to /repo by running the real x86/x64/a64 Builder and Compiler on the same lines (node list dumped "
            "forward and backward after every op, serialize_to recorded through a BaseEmitter subclass); the final CodeHolder (section bytes, "
            "labels, relocations, error) and the image after flatten/resolve/relocate_to_base are compared with a direct Assembler run on the "
            "original call sequence (programs without edits) and on the specification's linearisation (all programs); the Lean monitor judges "
            "every program. Compiler programs with function nodes are compared with Assembler + emit_prolog/emit_epilog (differential only). "
            "A Compiler's finalize (GlobalConstPoolPass links the pending global constant pool behind the last node whatever the cursor is, "
            "then serialize_to) equals the specification's finalize for every history (finalize_semantics, finalize_appends_pool). "
            "embed_const_pool is covered by both theorems (align + bind + data when accepted, nothing when refused). Not proved: the byte "
            "equality itself (rests on the assembler).",
    "note": "Trusted: Lean kernel; Spec/Builder.lean as the meaning of 'edited sequence'; harness/driver/diff. Not modelled: the assembler "
            "itself (C01-C03), ConstPool layout (C19), passes of the Compiler (the RA pass runs on an empty function list), prev/next pointers "
            "(abstracted to a list; tied by the forward/backward dumps), data type ids 44..199. Byte equality is differential (tested), the "
            "call-sequence equality behind it is proved.",
}
MODS = ["AsmjitVerif.Props.C08"]

EDIT_KINDS = ("cursor", "remove", "removerange", "addnode", "addafter", "addbefore")
CREATE_KINDS = ("newlabel", "newsection")


class Program:
    def __init__(self, arch, emitter, enc, ops, cls):
        self.arch, self.emitter, self.enc, self.ops, self.cls = arch, emitter, enc, ops, cls

    def lines(self, emitter=None, ops=None):
        return ["begin %s %s %x" % (self.arch, emitter or self.emitter, self.enc)] + list(self.ops if ops is None else ops) + ["finalize", "end"]

    def has_edits(self):
        return any(o.split()[0] in EDIT_KINDS for o in self.ops)


# ------------------------------------------------------------------------------------------------------------
# generator
# ------------------------------------------------------------------------------------------------------------

def load_menus(h):
    menus = {}
    for arch in ("x86", "x64", "a64"):
        out, rc, err = vlib.run_lines([str(h)], ["menu " + arch])
        insts, extras = [], {"k": [], "rep": []}
        for l in out:
            w = l.split()
            if w[:2] == ["M", "end"]:
                break
            if w[1] == "%extra":
                extras[w[2]] += w[3:]
            else:
                insts.append((w[1], int(w[2]), w[3:]))
        if rc != 0 or not insts:
            raise vlib.BuildError("harness c08 gives no menu for %s: %s" % (arch, err[-500:]))
        menus[arch] = (insts, extras)
    return menus


TYPE_IDS = [32, 33, 34, 35, 36, 37, 38, 39, 40, 41, 42, 43]
TYPE_SIZE = {34: 1, 35: 1, 36: 2, 37: 2, 38: 4, 39: 4, 42: 4, 40: 8, 41: 8, 43: 8}


def type_size(arch, t):
    if t in (32, 33):
        return 4 if arch == "x86" else 8
    return TYPE_SIZE[t]


def rand_hex(rng, n):
    return "".join("%02x" % rng.getrandbits(8) for _ in range(n)) if n else "-"


class Gen:
    """One random program. Keeps a rough mirror (label homes, node count) only to make most lines meaningful; both sides
    answer `pre` for lines outside the API's preconditions."""

    def __init__(self, rng, menus, arch, cls):
        self.rng, self.arch, self.cls = rng, arch, cls
        self.insts, self.extras = menus[arch]
        self.ops = []
        self.nlabels = 0
        self.nsections = 1
        self.cur_section = 0
        self.label_home = {}       # label -> section it is used in (section-local labels avoid defect #18)
        self.bound = set()
        self.nnodes = 1
        self.multi = cls in ("sections", "edits+sections", "xsec")
        # labels used across sections in half of the multi-section programs (defect #18 is repaired: new_fixup routes such references
        # to the cross-section list), section-local in the others
        self.local_labels = cls != "xsec" and rng.random() < 0.5
        self.emitter = "builder"
        self.pool_label = None
        self.pool_isz = None
        # how often a program contains calls the assembler is likely to refuse (finalize stops at the first one):
        # one third of the programs are noisy, the others mostly clean so that whole programs reach the byte comparison
        self.noise = 1.0 if rng.random() < 0.33 else 8.0

    def emit(self, line, nodes=0):
        self.ops.append(line)
        self.nnodes += nodes

    def new_label(self):
        self.emit("newlabel", 1)
        self.label_home[self.nlabels] = self.cur_section
        self.nlabels += 1
        return self.nlabels - 1

    def gen_gconst(self):
        """a constant for the Compiler's global pool (one item size per program); the pool's label can be referenced but never bound"""
        rng = self.rng
        if self.pool_label is None:
            self.pool_isz = rng.choice((4, 8, 8, 16))
            self.pool_label = self.nlabels
            self.label_home[self.nlabels] = self.cur_section
            self.nlabels += 1
            self.nnodes += 1
        v = rng.choice((1, 2, 3, 3, 200 + rng.randrange(50)))
        self.emit("gconst %d %s" % (self.pool_isz, ("%02x" % v) * self.pool_isz))

    def pick_label(self, for_bind=False, allow_invalid=True):
        rng = self.rng
        if allow_invalid and rng.random() < 0.02:
            return 1000 + rng.randrange(0, 3)                  # a label id that never exists (an id that is created *later* is
                                                               # valid at finalize time but not at call time: outside the property)
        cands = [l for l in range(self.nlabels) if (not self.local_labels or self.label_home[l] == self.cur_section)]
        if for_bind:
            cands = [l for l in cands if l != self.pool_label]     # GlobalConstPoolPass links the pool node itself
        if for_bind and rng.random() < 0.93:
            cands = [l for l in cands if l not in self.bound]
        if not cands or rng.random() < 0.15:
            return self.new_label()
        return rng.choice(cands)

    def gen_inst(self):
        rng = self.rng
        name, iid, toks = rng.choice(self.insts)
        if name in ("bad", "gap", "badreg", "jecxz") and rng.random() * self.noise > 0.5:
            name, iid, toks = rng.choice(self.insts)
        toks = list(toks)
        for i, t in enumerate(toks):
            if t in ("L0", "M0", "N0"):
                # an invalid label id inside a memory operand crashes the x86-32 assembler itself (defect #4, property C14)
                toks[i] = t[0] + str(self.pick_label(allow_invalid=(t == "L0")))
        r = rng.random() * self.noise
        if r < 0.06 and len(toks) < 6:                          # extra trailing operands (4th..6th slot)
            for _ in range(rng.randrange(1, 7 - len(toks))):
                toks.append(rng.choice(["I%d" % rng.randrange(-5, 300)] + [t for _, _, ts in self.insts for t in ts if ":" in t][:40]))
        elif r < 0.09 and len(toks) >= 2:                       # a hole in the operand list
            toks[rng.randrange(len(toks))] = "-"
        toks += ["-"] * (6 - len(toks))
        # one-shot state
        r = rng.random() * self.noise
        if r < 0.10:
            self.emit("opts %x" % (1 << rng.randrange(32)))
        elif r < 0.12:
            self.emit("opts %x" % rng.getrandbits(32))
        elif r < 0.14:
            self.emit("opts %x" % (1 << rng.randrange(32)))
            self.emit("opts %x" % (1 << rng.randrange(32)))     # add_inst_options accumulates
        if self.arch != "a64":
            if name in ("movsb", "stosd") and rng.random() < 0.6:
                self.emit("opts %x" % 0x4000)                   # kX86_Rep (menu-independent guess is fine: any bit is a test)
                self.emit("extra " + rng.choice(self.extras["rep"]))
            elif name.startswith("vaddps") and rng.random() < 0.5:
                self.emit("extra " + rng.choice(self.extras["k"]))
            elif rng.random() * self.noise < 0.03:
                self.emit("extra " + rng.choice(self.extras["k"] + self.extras["rep"]))
        elif rng.random() * self.noise < 0.02:
            self.emit("extra 8000031:3")
        if rng.random() < 0.2:
            self.emit("icomment c%d" % rng.randrange(1000))
        self.emit("inst %d %s" % (iid, " ".join(toks)), 1)

    def gen_call(self):
        rng = self.rng
        r = rng.random()
        if r < 0.50:
            self.gen_inst()
        elif r < 0.62:
            l = self.pick_label(for_bind=True)
            self.emit("bind L%d" % l, 0)
            self.bound.add(l)
        elif r < 0.68:
            if rng.random() * self.noise < 0.15:
                self.emit("align %d %d" % (rng.choice((0, 1, 2, 3)), rng.choice((3, 128, 8, 16))), 1)
            else:
                self.emit("align %d %d" % (rng.choice((0, 0, 1, 2, 2)), rng.choice((0, 1, 2, 4, 8, 16, 32, 64))), 1)
        elif r < 0.73:
            self.emit("embed " + rand_hex(rng, rng.choice((0, 1, 2, 3, 5, 8, 17))), 1)
        elif r < 0.79:
            if rng.random() < 0.08:
                self.emit("data %d %d %d -" % (rng.choice((0, 1, 31, 200, 255)), rng.randrange(0, 4), rng.randrange(0, 3)), 0)
            else:
                t = rng.choice(TYPE_IDS)
                n = rng.choice((0, 1, 1, 2, 3, 5))
                self.emit("data %d %d %d %s" % (t, n, rng.choice((0, 1, 1, 1, 2, 3)), rand_hex(rng, n * type_size(self.arch, t))), 1)
        elif r < 0.84:
            self.emit("elabel L%d %d" % (self.pick_label(), rng.choice((0, 0, 4, 8, 8, 1, 2, 3, 16))), 1)
        elif r < 0.88:
            self.emit("edelta L%d L%d %d" % (self.pick_label(), self.pick_label(), rng.choice((0, 4, 8, 8, 1, 2, 5))), 1)
        elif r < 0.92:
            self.emit("comment t%d" % rng.randrange(1000), 1)
        elif r < 0.95:
            isz = rng.choice((1, 2, 4, 8, 16))
            items = rng.sample(range(1, 250), rng.randrange(1, 5))
            hexs = "".join(("%02x" % v) * isz for v in items)
            l = self.pick_label(for_bind=True)
            self.emit("cpool L%d %d %s" % (l, isz, hexs), 2)
            self.bound.add(l)
        elif self.multi:
            self.gen_section()
        else:
            self.new_label()

    def gen_section(self):
        rng = self.rng
        if self.nsections < 4 and (self.nsections == 1 or rng.random() < 0.3):
            self.emit("newsection")
            self.nsections += 1
        s = rng.randrange(self.nsections + (1 if rng.random() < 0.03 else 0))
        self.emit("section S%d" % s, 1)
        if s < self.nsections:
            self.cur_section = s

    def node(self):
        return self.rng.randrange(max(1, self.nnodes + (1 if self.rng.random() < 0.05 else 0)))

    def gen_edit(self):
        rng = self.rng
        r = rng.random()
        if r < 0.25:
            self.emit("cursor " + ("-" if rng.random() < 0.12 else str(self.node())))
        elif r < 0.45:
            self.emit("remove %d" % self.node())
        elif r < 0.55:
            a = self.node()
            b = a + rng.randrange(0, 5) if rng.random() < 0.8 else self.node()
            self.emit("removerange %d %d" % (a, b))
        elif r < 0.65:
            n = self.node()
            self.emit("remove %d" % n)
            self.emit("addnode %d" % n)
        elif r < 0.85:                                           # move a node
            n, ref = self.node(), self.node()
            self.emit("remove %d" % n)
            self.emit("%s %d %d" % (rng.choice(("addafter", "addbefore")), n, ref))
        else:
            self.emit("%s %d %d" % (rng.choice(("addafter", "addbefore")), self.node(), self.node()))
        if self.local_labels:
            self.scrambled = True

    def program(self, emitter, nops):
        rng = self.rng
        self.emitter = emitter
        for _ in range(rng.randrange(1, 4)):
            self.new_label()
        edits = self.cls.startswith("edits")
        pool = emitter == "compiler" and rng.random() < 0.6
        for _ in range(nops):
            if edits and rng.random() < 0.22:
                self.gen_edit()
            elif pool and rng.random() < 0.10:
                self.gen_gconst()
            else:
                self.gen_call()
        if pool and edits and rng.random() < 0.7:
            # the cursor is NOT on the last node when finalize runs: the global pool must still go behind the last node
            self.emit("cursor %d" % self.node())
            if rng.random() < 0.5:
                self.gen_inst()
        enc = rng.choice((0, 0, 0, 1, 2, 3))
        return Program(self.arch, emitter, enc, self.ops, self.cls)


class Mirror:
    """generator-side copy of the node-list semantics (only to PROPOSE meaningful ranges; the Lean monitor judges)"""

    def __init__(self):
        self.lst, self.cur, self.kind, self.n, self.secnode, self.nsec = [0], 0, {0: "sec"}, 1, {0: 0}, 1

    def new(self, kind):
        o = self.n
        self.n += 1
        self.kind[o] = kind
        return o

    def add(self, o):
        if self.cur is None:
            self.lst.insert(0, o)
        else:
            self.lst.insert(self.lst.index(self.cur) + 1, o)
        self.cur = o

    def remove(self, o):
        if o in self.lst:
            i = self.lst.index(o)
            prev = self.lst[i - 1] if i else None
            self.lst.pop(i)
            if self.cur == o:
                self.cur = prev

    def removerange(self, a, b):
        if a == b:
            return self.remove(a)
        if a in self.lst:
            i, j = self.lst.index(a), self.lst.index(b)
            prev = self.lst[i - 1] if i else None
            seg = self.lst[i:j + 1]
            del self.lst[i:j + 1]
            if self.cur in seg:
                self.cur = prev

    def section(self, s):
        fresh = s not in self.secnode
        if fresh:
            self.secnode[s] = self.new("sec")
        node = self.secnode[s]
        if node not in self.lst:
            self.lst.append(node)
            self.cur = node
        else:
            i = self.lst.index(node)
            nxt = [k for k in range(i + 1, len(self.lst)) if self.kind[self.lst[k]] == "sec"]
            self.cur = self.lst[nxt[0] - 1] if nxt else self.lst[-1]


def gen_range_program(rng, arch, menus, nops):
    """node editing across sections: remove_nodes ranges that start on, contain and end on section / label / align / embed nodes,
    followed by section switches and further emission (exact generator-side mirror, so that every range is valid)"""
    m, ops, nlabels = Mirror(), [], 0
    clean = [x for x in menus[arch][0] if x[0] in ("mov", "add", "nop", "inc", "movaps", "vaddps", "sub", "madd")]
    removed = []

    def emit():
        nonlocal nlabels
        r = rng.random()
        if r < 0.35:
            ops.append("embed " + rand_hex(rng, rng.choice((1, 2, 4))))
            m.add(m.new("data"))
        elif r < 0.5:
            ops.append("align 2 %d" % rng.choice((2, 4, 8)))
            m.add(m.new("align"))
        elif r < 0.6:
            ops.append("comment t%d" % rng.randrange(100))
            m.add(m.new("comment"))
        elif r < 0.8 and clean:
            n, iid, toks = rng.choice(clean)
            ops.append("inst %d %s" % (iid, " ".join(list(toks) + ["-"] * (6 - len(toks)))))
            m.add(m.new("inst"))
        else:
            ops.append("newlabel")
            o = m.new("label")
            ops.append("bind L%d" % nlabels)
            nlabels += 1
            m.add(o)

    def switch():
        if m.nsec < 4 and rng.random() < 0.4:
            ops.append("newsection")
            m.nsec += 1
        sid = rng.randrange(m.nsec)
        ops.append("section S%d" % sid)
        m.section(sid)

    for _ in range(3):
        emit()
    switch()
    for _ in range(nops):
        r = rng.random()
        if r < 0.45:
            emit()
        elif r < 0.62:
            switch()
        elif r < 0.80 and len(m.lst) >= 3:
            special = [k for k, o in enumerate(m.lst) if m.kind[o] in ("sec", "label", "align")]
            i = rng.choice(special) if special and rng.random() < 0.5 else rng.randrange(len(m.lst))
            j = rng.choice(special) if special and rng.random() < 0.6 else rng.randrange(len(m.lst))
            i, j = min(i, j), max(i, j)
            if rng.random() < 0.2:
                j = min(len(m.lst) - 1, j + 1)
            a, b = m.lst[i], m.lst[j]
            removed.extend(m.lst[i:j + 1])
            ops.append("removerange %d %d" % (a, b))
            m.removerange(a, b)
            if rng.random() < 0.7:                     # ... then a section switch and more code
                switch()
                emit()
        elif r < 0.86 and len(m.lst) >= 2:
            o = rng.choice(m.lst)
            removed.append(o)
            ops.append("remove %d" % o)
            m.remove(o)
        elif r < 0.93 and removed:
            o = removed.pop(rng.randrange(len(removed)))
            if o not in m.lst:
                if m.lst and rng.random() < 0.6:
                    ref = rng.choice(m.lst)
                    how = rng.choice(("addafter", "addbefore"))
                    ops.append("%s %d %d" % (how, o, ref))
                    m.lst.insert(m.lst.index(ref) + (1 if how == "addafter" else 0), o)
                else:
                    ops.append("addnode %d" % o)
                    m.add(o)
        elif m.lst:
            o = rng.choice(m.lst)
            ops.append("cursor %d" % o)
            m.cur = o
    return Program(arch, "compiler" if rng.random() < 0.2 else "builder", 0, ops, "ranges")


def gen_fn_programs(rng, tier, menus):
    """Compiler with function nodes and physical registers only: 1..3 functions of label-free instructions and data"""
    progs = []
    for _ in range(40 if tier == "quick" else 600):
        arch = rng.choice(("x64", "x64", "x86", "a64"))
        g = Gen(rng, menus, arch, "plain")
        g.noise = 1000.0                                    # no deliberately refused calls: the RA pass would report them first
        g.insts = [m for m in g.insts if m[0] not in ("bad", "gap", "badreg", "ret", "jmpr", "push", "movsb", "stosd", "cmpxchg8b", "cmpxchg16b")
                   and not any(t[0] in "LMN" for t in m[2])]
        ops = []
        for _f in range(rng.randrange(1, 4)):
            g.ops = []
            for _i in range(rng.randrange(0, 8)):
                r = rng.random()
                if r < 0.8:
                    g.gen_inst()
                elif r < 0.9:
                    g.emit("embed " + rand_hex(rng, rng.choice((1, 2, 4, 8))))
                else:
                    g.emit("comment t%d" % rng.randrange(100))
            ops += ["func"] + [o for o in g.ops if not o.startswith("extra") and not o.startswith("opts")] + ["fret", "endfunc"]
        progs.append(Program(arch, "compilerfn", rng.choice((0, 0, 1)), ops, "func"))
    return progs


def pipeline_fn(h, progs):
    drv = [str(vlib.driver_path()), "C08"]
    res = run_batch([str(h)], [p.lines() for p in progs])
    results, mon, idx = [dict(verdict=None, corr=None, kind=None) for _ in progs], [], []
    for i, (p, b) in enumerate(zip(progs, res)):
        if isinstance(b, tuple) or b is None:
            results[i]["verdict"] = "CRASH " + ((b[1] if b else "no output") or "")
            results[i]["kind"] = "crash"
            continue
        results[i]["b"] = b
        ml = ["mbegin %s %s" % (p.arch, p.emitter)]
        for l in b:
            if l.startswith("F "):
                ml.append("mFB " + l[2:])
            elif l.startswith("D "):
                ml.append("mDB " + l)
            elif l.startswith("X F "):
                ml.append("mFA " + l[4:])
            elif l.startswith("X D "):
                ml.append("mDA " + l[2:])
        ml.append("mjudgecode")
        mon.append(ml)
        idx.append(i)
    out, rc, err = vlib.run_lines(drv, [l for m in mon for l in m])
    for k, i in enumerate(idx):
        v = out[k] if k < len(out) else "DRIVER monitor protocol " + err[-200:]
        results[i]["verdict"] = v
        if v != "good":
            results[i]["kind"] = "func-" + classify(v)
    return results


def gen_programs(rng, tier, menus):
    n = 420 if tier == "quick" else 7000
    progs = []
    # a few fixed corner programs first
    for arch in ("x64", "x86", "a64"):
        progs.append(Program(arch, "builder", 0, ["remove 0", "finalize"][:1], "corner"))                    # empty node list
        progs.append(Program(arch, "builder", 0, ["newsection", "remove 0", "section S1", "embed 0102"], "corner"))  # section() on an empty list
        progs.append(Program(arch, "builder", 0, ["newlabel", "bind L0", "embed 01", "embed 02", "bind L0", "embed 03"], "corner"))
        progs.append(Program(arch, "builder", 0, ["newlabel", "elabel L0 3", "edelta L0 L0 3", "elabel L7 3", "elabel L7 8"], "corner"))
        progs.append(Program(arch, "builder", 0, ["newsection", "section S1", "embed 01", "section S0", "embed 02", "section S1", "embed 03",
                                                  "remove 1", "section S0", "embed 04", "addbefore 1 0", "section S1", "embed 05"], "corner"))
    # shapes that must stay in the quick tier (each caught an independently seeded change):
    #  * a 6-operand instruction followed by 4- and 5-operand ones (stale op4/op5 scratch in serialize_to)
    #  * the last section node removed, then re-entry into the section in front of it (stale _next_section of the new last section)
    #  * remove_nodes over a range that contains the cursor, then an emit
    def mi(arch, name):
        for n, iid, toks in menus[arch][0]:
            if n == name:
                return "inst %d %s" % (iid, " ".join(list(toks) + ["-"] * (6 - len(toks))))
        raise vlib.BuildError("menu of %s has no %s" % (arch, name))
    for arch in ("x64", "x86"):
        progs.append(Program(arch, "builder", 0, [mi(arch, "pcmpestri"), mi(arch, "vblendvps"), mi(arch, "vpermil2ps"), mi(arch, "vblendvps"),
                                                  mi(arch, "pcmpestrm"), mi(arch, "mov"), mi(arch, "vfmaddps")], "corner"))
    progs.append(Program("a64", "builder", 0, [mi("a64", "casp"), mi("a64", "madd"), mi("a64", "add"), mi("a64", "ext"), mi("a64", "casp"),
                                               mi("a64", "ccmp")], "corner"))
    for arch in ("x64", "a64"):
        progs.append(Program(arch, "builder", 0, ["newsection", "newsection", "embed 01", "section S1", "embed 02", "section S2", "embed 03",
                                                  "remove 4", "section S1", "embed 04", "section S0", "embed 05", "section S1", "embed 06",
                                                  "addnode 4", "section S0", "embed 07", "section S1", "embed 08"], "corner"))
        progs.append(Program(arch, "builder", 0, ["embed 01", "embed 02", "embed 03", "embed 04", "cursor 3", "removerange 2 3", "embed 05",
                                                  "cursor 4", "removerange 1 4", "embed 06", "cursor 6", "removerange 5 6", "embed 07"], "corner"))
    # a refused embed_const_pool (pending 1-byte reference cannot reach the pool): the Assembler leaves nothing, the Builder's align node
    # has been serialized when the bind fails - same first error, the accepted node-level prefix is compared (edited sequence)
    progs.append(Program("a64", "compiler", 3, ["newlabel", "elabel L0 1", mi("a64", "tbz"), "cpool L0 4 9d9d9d9d", "newlabel"],
                         "corner"))
    progs.append(Program("a64", "builder", 0, ["newlabel", "elabel L0 1", "embed 01", "cpool L0 8 0102030405060708", "embed 02"], "corner"))
    # FAMILY 1 (independently seeded change, missed once): remove_nodes whose range ENDS on / starts on / contains a SectionNode after the
    # section links have been cached by a switch back to a linked section; then a switch to the section in front of the removed one and
    # more code. nodes: 0 S0 | 1 data | 2 S1 | 3 data | 4 S2 | 5 data | 6 data(S0, re-entry caches the links)
    base = ["newsection", "newsection", "embed 01", "section S1", "embed 02", "section S2", "embed 03", "section S0", "embed 04"]
    for arch in ("x64", "x86", "a64"):
        i1, i2 = mi(arch, "mov"), mi(arch, "add")
        progs.append(Program(arch, "builder", 0, base + ["removerange 3 4", "section S1", i1, "embed 05", "section S0", i2], "family1"))
        progs.append(Program(arch, "builder", 0, base + ["removerange 2 4", "section S0", i1, "section S1", "embed 05", "section S2", i2], "family1"))
        progs.append(Program(arch, "builder", 0, base + ["removerange 6 2", "section S0", i1, "section S2", "embed 05", "section S1", i2], "family1"))
        progs.append(Program(arch, "builder", 0, base + ["removerange 1 4", "section S0", i1, "embed 06", "section S2", i2, "addafter 2 0", "section S1", "embed 07"], "family1"))
        progs.append(Program(arch, "compiler", 0, base + ["newlabel", "bind L0", "align 2 8", "section S1", "removerange 7 2", "section S0", i1,
                                                          "section S1", i2, "section S0", "embed 08"], "family1"))
        progs.append(Program(arch, "builder", 0, base + ["section S1", "removerange 4 5", "section S1", i1, "section S0", i2, "section S2", "embed 09"], "family1"))
    # FAMILY 2 (independently seeded change, missed once): a Compiler's GLOBAL constant pool with the cursor NOT on the last node at finalize:
    # GlobalConstPoolPass must link the pool behind the LAST node
    for arch in ("x64", "x86", "a64"):
        i1, i2, i3 = mi(arch, "mov"), mi(arch, "add"), mi(arch, "nop")
        ref = mi(arch, "ldrlit" if arch == "a64" else "lea").replace("M0", "M0")
        g1, g2 = "gconst 8 1122334455667788", "gconst 8 0102030405060708"
        progs.append(Program(arch, "compiler", 0, [i1, g1, ref.replace("M0", "M0"), i2, g2, g1, "cursor 1", i3], "family2"))
        progs.append(Program(arch, "compiler", 0, [g1, i1, i2, "cursor -", i3, g2], "family2"))
        progs.append(Program(arch, "compiler", 0, [i1, i2, g1, "cursor 0", i3, "cursor 2"], "family2"))
        progs.append(Program(arch, "compiler", 0, ["newsection", i1, g1, "section S1", "embed 0102", "section S0", i2, "cursor 1", i3], "family2"))
        progs.append(Program(arch, "compiler", 0, ["newlabel", g1, i1, "bind L0", g2, i2, "remove 3", "cursor 2", i3, "elabel L1 8"], "family2"))
        progs.append(Program(arch, "compiler", 0, [i1, g1, g2, i2], "family2"))                      # no cursor move: verbatim comparison too
    for k in range(12 if tier == "quick" else 900):
        progs.append(gen_range_program(rng, rng.choice(("x64", "x64", "x86", "a64")), menus, rng.randrange(8, 30 if tier == "quick" else 50)))
    # witness of the open finding C08-K2 (cross-section label delta under section re-entry)
    progs.append(Program("x64", "builder", 0, ["newlabel", "newlabel", "newsection", "section S1", "edelta L1 L0 8", "section S0",
                                               "bind L0", "embed 0102", "bind L1"], "corner"))
    classes = ["plain"] * 4 + ["sections"] * 3 + ["edits"] * 3 + ["edits+sections"] * 3 + ["xsec"]
    for i in range(n):
        arch = rng.choice(("x64", "x64", "x86", "a64"))
        cls = rng.choice(classes)
        emitter = "compiler" if rng.random() < 0.25 else "builder"
        g = Gen(rng, menus, arch, cls)
        progs.append(g.program(emitter, rng.randrange(3, 40 if tier == "quick" else 60)))
    return progs


# ------------------------------------------------------------------------------------------------------------
# running
# ------------------------------------------------------------------------------------------------------------

def split_programs(out):
    chunks, cur = [], []
    for l in out:
        cur.append(l)
        if l == "R end":
            chunks.append(cur)
            cur = []
    return chunks, cur


def run_batch(cmd, progs_lines, timeout=1800):
    """Runs every program; a crash (sanitizer report) only loses the program it happens in. Returns per program either the list of
    output lines or ('CRASH', stderr tail)."""
    results = [None] * len(progs_lines)
    start = 0
    while start < len(progs_lines):
        flat = [l for p in progs_lines[start:] for l in p]
        out, rc, err = vlib.run_lines(cmd, flat, timeout)
        chunks, rest = split_programs(out)
        for k, c in enumerate(chunks):
            results[start + k] = c
        done = start + len(chunks)
        if done >= len(progs_lines):
            break
        results[done] = ("CRASH", (err or "")[-3000:], rest)
        start = done + 1
    return results


def has_reentry(p):
    """a `section` call that goes back to a section entered before: the Builder then groups the nodes by section, i.e. the
    call is a cursor move and the node order is no longer the call order"""
    seen = {0}
    for o in p.ops:
        w = o.split()
        if w[0] == "section":
            if w[1] in seen or w[1] == "S0":
                return True
            seen.add(w[1])
    return False


def gconst_info(p):
    """(label id of the global pool, item size, distinct items in order) of a Compiler program, or None"""
    nl, pool, isz, items = 0, None, None, []
    for o in p.ops:
        w = o.split()
        if w[0] == "newlabel":
            nl += 1
        elif w[0] == "gconst":
            if pool is None:
                pool, isz = nl, w[1]
                nl += 1
            if w[1] == isz and w[2] not in items:
                items.append(w[2])
    return None if pool is None else (pool, isz, items)


def verbatim_ops(p, b_out, s_lines=()):
    """the original calls; calls the Builder rejected at call time are marked `~` = must fail there as well, without stopping.
    A Compiler's global constants have no Assembler call of their own: the first `gconst` becomes the creation of the pool label, the
    others nothing, and the sequence ENDS with embed_const_pool(pool) in the section the document ends in."""
    ops, seen = [], False
    for o, r in zip(p.ops, b_out[1:1 + len(p.ops)]):
        if o.split()[0] == "gconst":
            ops.append("comment _gconst" if seen or not r.startswith("R ok") else "newlabel")
            seen = seen or r.startswith("R ok")
            continue
        ops.append(("~" + o) if r.startswith("R err") else o)
    gi = gconst_info(p)
    if gi and seen:
        secs = [l.split()[1] for l in s_lines if l.startswith("section ")]
        if secs:
            ops.append("section " + secs[-1])
        ops.append("cpool L%d %s %s" % (gi[0], gi[1], "".join(gi[2])))
    return ops


def linearised_ops(p, s_lines):
    """the label/section creations followed by the specification's linearisation of the edited document"""
    ops, seen = [], False
    for o in p.ops:
        k = o.split()[0]
        if k in CREATE_KINDS:
            ops.append(o)
        elif k == "gconst" and not seen and p.emitter == "compiler":
            ops.append("newlabel")                   # new_const_pool_node registers the pool's label
            seen = True
    for l in s_lines:
        w = l.split()
        if w[0] == "inst":
            iid, opts, extra, cmt = w[1], w[2], w[3], w[4]
            if int(opts, 16):
                ops.append("opts " + opts)
            if extra != "-":
                ops.append("extra " + extra)
            if cmt != "-":
                ops.append("icomment " + cmt)
            ops.append("inst %s %s" % (iid, " ".join(w[5:])))
        else:
            ops.append(l)
    return ops


def pipeline(h, progs):
    """-> per program dict(verdict='good'|'BAD ..'|'CRASH ..', corr=None|str, impl=…, model=…)"""
    drv = [str(vlib.driver_path()), "C08"]
    blines = [p.lines() for p in progs]
    b_res = run_batch([str(h)], blines)
    m_res = run_batch(drv, blines)
    results = [dict(verdict=None, corr=None, kind=None) for _ in progs]
    asm_progs, asm_idx = [], []
    for i, p in enumerate(progs):
        b, m = b_res[i], m_res[i]
        if isinstance(b, tuple) or b is None:
            results[i]["verdict"] = "CRASH " + ((b[1] if b else "no output") or "")
            results[i]["kind"] = "crash"
            continue
        if isinstance(m, tuple) or m is None:
            results[i]["verdict"] = "DRIVER " + str(m)[:300]
            results[i]["kind"] = "protocol"
            continue
        s_lines = [l[2:] for l in m if l.startswith("S ") and l != "S end"]
        m_cmp = [l for l in m if not l.startswith("S ")]
        b_cmp = [l for l in b if l[0] in "RC"]
        if m_cmp != b_cmp:
            k = vlib.first_diff(b_cmp, m_cmp)
            results[i]["corr"] = "line %d: impl=%r model=%r" % (k, b_cmp[k] if k < len(b_cmp) else None, m_cmp[k] if k < len(m_cmp) else None)
        results[i]["b"] = b
        results[i]["s"] = s_lines
        # (1) always: the Assembler is given the specification's linearisation of the edited document
        asm_progs.append(p.lines("asm", linearised_ops(p, s_lines)))
        asm_idx.append((i, "edited-sequence"))
        # (2) no edits: the Assembler is given the original calls verbatim
        if not p.has_edits():
            asm_progs.append(p.lines("asm", verbatim_ops(p, b, s_lines)))
            asm_idx.append((i, "verbatim"))
    a_res = run_batch([str(h)], asm_progs)
    mon_progs, mon_idx = [], []
    for k, (i, how) in enumerate(asm_idx):
        a = a_res[k]
        p = progs[i]
        if isinstance(a, tuple) or a is None:
            results[i]["verdict"] = "CRASH(asm) " + ((a[1] if a else "") or "")
            results[i]["kind"] = "crash-asm"
            continue
        b = results[i]["b"]
        fb = [l for l in b if l.startswith("F ")]
        fa = [l for l in a if l.startswith("F ")]
        if how == "verbatim" and has_reentry(p) and (fb != ["F ok"] or fa != ["F ok"]):
            # section re-entry regroups the nodes, so with a failing call "the first error" is not the same call in both orders;
            # this program is judged on its edited sequence only
            continue
        ml = ["mbegin %s %s" % (p.arch, p.emitter)]
        rl = [l for l in b if l.startswith("R ")]
        # A refused embed_const_pool: the directly driven Assembler validates first and leaves NOTHING behind (/repo fixes C14-12/14),
        # whereas the Builder holds the call as align + label + data nodes, so serialize_to emits the padding and then fails at the
        # bind. Same first error, different residue of the failing call. The comparable thing for a failing finalize is the accepted
        # prefix at node level = the edited-sequence comparison (always made, exact); the verbatim run of such a program is judged on
        # its first error only.
        error_only = False
        if how == "verbatim" and fa != ["F ok"]:
            ar0 = [l for l in a if l.startswith("R ")][1:1 + len(p.ops)]
            for o, rb, ra in zip(p.ops, rl[1:1 + len(p.ops)], ar0):
                if ra.startswith("R err") and not rb.startswith("R err"):
                    error_only = o.split()[0] == "cpool"
                    break
        results[i]["error_only"] = results[i].get("error_only") or error_only
        for o, r in zip(p.ops, rl[1:1 + len(p.ops)]):
            ml.append("mop " + o)
            ml.append("mR " + r[2:])
        if len(rl) > 1 + len(p.ops) and rl[1 + len(p.ops)] != "R end":
            ml.append("mpasses")                      # the node list after run_passes (GlobalConstPoolPass)
            ml.append("mR " + rl[1 + len(p.ops)][2:])
        for l in b:
            if l.startswith("C ") and not l.startswith("C end"):
                ml.append("mC " + l[2:])
            elif l.startswith("F "):
                ml.append("mFB " + l[2:])
            elif (l.startswith("D ") or l.startswith("I ")) and not error_only:
                ml.append("mDB " + l)
        for l in a:
            if l.startswith("F "):
                ml.append("mFA " + l[2:])
            elif (l.startswith("D ") or l.startswith("I ")) and not error_only:
                ml.append("mDA " + l)
        # call-time errors: what the Builder refused at call time the Assembler must refuse with the same code (`~` lines)
        if how == "verbatim":
            ar = [l for l in a if l.startswith("R ")][1:1 + len(p.ops)]
            for o, rb, ra in zip(p.ops, rl[1:1 + len(p.ops)], ar):
                if rb.startswith("R err") and ra != "R skipped" and ra.split()[:3] != rb.split()[:3]:
                    ml.append("mFB calltime %s: %s" % (o, " ".join(rb.split()[1:3])))
                    ml.append("mFA calltime %s: %s" % (o, " ".join(ra.split()[1:3])))
                    break
        ml.append("mjudge")
        results[i].setdefault("a", {})[how] = a
        mon_progs.append(ml)
        mon_idx.append((i, how))
    flat = [l for p in mon_progs for l in p]
    out, rc, err = vlib.run_lines(drv, flat)
    if len(out) != len(mon_progs):
        for i, how in mon_idx:
            results[i]["verdict"] = "DRIVER monitor protocol (%d answers for %d programs) %s" % (len(out), len(mon_progs), err[-300:])
            results[i]["kind"] = "protocol"
    else:
        for k, (i, how) in enumerate(mon_idx):
            if results[i]["verdict"] not in (None, "good"):
                continue
            results[i]["verdict"] = out[k] if out[k] == "good" else out[k] + " [assembler given the %s]" % how
            if out[k] != "good":
                results[i]["kind"] = classify(out[k])
                a = results[i]["a"][how]
                b = results[i]["b"]
                results[i]["image_equal"] = [l for l in a if l.startswith("I ")] == [l for l in b if l.startswith("I ")]
                results[i]["how"] = how
    return results


def classify(verdict):
    if "finalize error differs" in verdict:
        return "error"
    if "code differs" in verdict:
        return "code"
    if "not the edited sequence" in verdict:
        return "calls"
    if "doubly linked" in verdict or "CYCLE" in verdict:
        return "dll"
    if "node list/cursor differ" in verdict:
        return "list"
    if "answer " in verdict:
        return "answer"
    return "other"


def has_cross_section_delta(s_lines):
    """finding C08-K2: an embed_label_delta issued in one section whose two labels are bound together in another section. Issued before the
    binds the Assembler records a relocation expression, issued after them it stores the value at once; the Builder's section grouping
    changes which of the two happens, so section bytes / relocation records differ although the relocated image is the same."""
    cur = 0
    bound_in, deltas = {}, []
    for o in s_lines:
        w = o.split()
        if w[0] == "section" and w[1][1:].isdigit():
            cur = int(w[1][1:])
        elif w[0] == "bind":
            bound_in[w[1]] = cur
        elif w[0] == "edelta":
            deltas.append((w[1], w[2], cur))
    return any(a in bound_in and b in bound_in and bound_in[a] == bound_in[b] != s for a, b, s in deltas)


def cross_section_delta_sections(s_lines):
    """sections in which such an embed_label_delta was issued"""
    cur = 0
    bound_in, deltas = {}, []
    for o in s_lines:
        w = o.split()
        if w[0] == "section" and w[1][1:].isdigit():
            cur = int(w[1][1:])
        elif w[0] == "bind":
            bound_in[w[1]] = cur
        elif w[0] == "edelta":
            deltas.append((w[1], w[2], cur))
    return {s for a, b, s in deltas if a in bound_in and b in bound_in and bound_in[a] == bound_in[b] != s}


def is_k2(r):
    """finding C08-K2 and nothing else: assembler given the verbatim calls, relocated image identical, same finalize error, and the
    dumps differ only in the section bytes / expression relocation records of sections in which a cross-section label delta was issued"""
    if r.get("kind") != "code" or r.get("how") != "verbatim" or not r.get("image_equal"):
        return False
    secs = cross_section_delta_sections(r.get("s", []))
    if not secs:
        return False
    a = [l for l in r["a"]["verbatim"] if l.startswith("D ")]
    b = [l for l in r["b"] if l.startswith("D ")]
    if [l for l in r["a"]["verbatim"] if l.startswith("F ")] != [l for l in r["b"] if l.startswith("F ")]:
        return False
    diff = set(a) ^ set(b)
    for l in diff:
        w = l.split()
        if w[1] == "sec" and int(w[2]) in secs:
            continue
        if w[1] == "reloc" and w[2] == "t1" and int(w[3][4:].split("+")[0]) in secs and " expr " in l + " ":
            continue
        return False
    return True


def run(res):
    rng = vlib.rng_for(res.seed, PID)
    res.assumptions += [
        "prev/next pointers of the node list are abstracted to a list of node ordinals; tied by the forward and backward dump after every op",
        "the assembler (instruction encoding, fixups, relocations) is a black box here: byte equality Builder vs Assembler is differential",
        "Compiler without function nodes goes through model, monitor and differential like the Builder; Compiler WITH function nodes "
        "(func / ret / end_func, physical registers only, label-free bodies) is differential only: its code must equal an Assembler given "
        "bind(func) + emit_prolog(frame) + the same calls + bind(exit) + emit_epilog(frame); the RA pass itself is not modelled",
        "ConstPool layout taken from the real ConstPool (distinct equal-sized items); data type ids 44..199 not generated",
        "API preconditions (add_* of an unlinked node next to a linked reference, remove_nodes with `last` reachable from `first`, "
        "set_cursor of a linked node) are respected: lines violating them are answered `pre` by both sides",
        "label ids used in operands / bind / embed_label either exist at call time or never exist (an id created later is valid when the "
        "Builder serializes but not when the Assembler is called directly - inherent to deferred emission, excluded)",
        "a finalize that fails is compared with the Assembler at NODE level (the serialized calls up to the failing node - the "
        "edited-sequence run, exact, same first error); the verbatim run of a program whose first refused call is an embed_const_pool is "
        "judged on the first error only, because the directly driven Assembler validates the whole pool embed first and leaves nothing "
        "(/repo C14-12/14) while the Builder's align node has already been serialized when the bind fails",
        "model follows /repo with fixes/C08-1..4 and C14-12 (embed_const_pool refuses a bound label before aligning) applied"]
    broken = []
    ok, out = vlib.lean_stage(res, PID, MODS)
    if not ok and not res.violations:
        for ft in getattr(res, "build_failures", []) or [{"decl": "?", "msg": out[-800:]}]:
            broken.append("theorem %s (%s:%s) no longer checks: %s" % (ft.get("decl"), ft.get("file"), ft.get("line"), ft.get("msg")))
        vlib.lake_build(["vdriver"])
    if not vlib.driver_path().exists():
        res.violation("Lean driver does not build", {"log": out[-3000:]}, found_input=False, key="driver")
        return
    h = vlib.build_harness("c08")
    menus = load_menus(h)
    progs = gen_programs(rng, res.tier, menus)
    results = pipeline(h, progs)
    fprogs = gen_fn_programs(rng, res.tier, menus)
    progs = progs + fprogs
    results = results + pipeline_fn(h, fprogs)

    kinds, nontriv, nops, bad, corr = {}, set(), 0, [], []
    for p, r in zip(progs, results):
        nops += len(p.ops)
        key = "%s/%s/%s:%s" % (p.arch, p.emitter, p.cls, "good" if r["verdict"] == "good" else (r["kind"] or "?"))
        kinds[key] = kinds.get(key, 0) + 1
        for o in p.ops:
            kinds["op:" + o.split()[0]] = kinds.get("op:" + o.split()[0], 0) + 1
        for l in r.get("b", []):
            if l.startswith("R err") or l.startswith("R pre") or l.startswith("F "):
                k2 = "answer:" + " ".join(l.split()[:(2 if l.startswith("R pre") else 3)])
                kinds[k2] = kinds.get(k2, 0) + 1
        if r["verdict"] == "good" and any(l.startswith("D sec") and not l.endswith(" -") for l in r.get("b", [])):
            nontriv.add("\n".join(p.ops))
        if r.get("error_only"):
            kinds["verbatim judged on the first error only (refused embed_const_pool)"] = \
                kinds.get("verbatim judged on the first error only (refused embed_const_pool)", 0) + 1
        if r["verdict"] != "good":
            bad.append((p, r))
    res.coverage["evaluations"] = nops
    res.coverage["programs"] = len(progs)
    res.coverage["distinct_nontrivial"] = len(nontriv)
    res.coverage["rule"] = ("random programs of 3..60 emitter calls (instructions from a 25-40 entry menu per architecture with random option "
                            "words, {k}/rep extra registers, inline comments, 0..6 operands incl. holes and surplus operands; labels, align, raw/typed "
                            "data, label addresses/deltas, comments, const pools, 1..4 sections with re-entry) interleaved with cursor moves, removals, "
                            "range removals and re-insertions, on x86/x64/a64 Builder and Compiler; non-trivial = distinct program judged good that "
                            "produced a non-empty section")
    res.coverage["exhaustive"] = False
    res.coverage["input_distribution"] = kinds
    res.coverage["traces_validated_against_impl"] = len(progs)
    good = [(p, r) for p, r in zip(progs, results) if r["verdict"] == "good"]
    res.add_samples([{"program": p.lines(), "finalize": [l for l in r["b"] if l[0] in "FD"][:6]} for p, r in good[5:8]])

    # (4) an empty run is never a pass
    judged = sum(1 for r in results if r["verdict"] is not None and (r["verdict"] == "good" or r["verdict"].startswith("BAD")))
    if not progs or nops == 0 or judged == 0:
        res.violation("nothing was executed / judged (%d programs, %d ops, %d verdicts)" % (len(progs), nops, judged),
                      {"programs": len(progs)}, False, key="empty")

    open_keys = {e.get("key") for e in vlib.load_known_findings(PID) if e.get("status") == "open"}
    reported = set()
    unknown_bad = set()       # ids of programs with a violation that is NOT an open known finding
    for p, r in bad:
        kind = r["kind"] or "other"
        key = "xsection-label-delta" if is_k2(r) else kind
        if key not in open_keys:
            unknown_bad.add(id(p))
        if key in reported:
            continue
        reported.add(key)
        ops = shrink(h, p, r)
        sp = Program(p.arch, p.emitter, p.enc, ops, p.cls)
        v = (pipeline_fn if p.emitter == "compilerfn" else pipeline)(h, [sp])[0]["verdict"]
        res.violation("%s %s %s: %s" % (p.arch, p.emitter, kind, v[:600]),
                      {"ops": sp.lines(), "verdict": v, "how": "tools/check.py replay <this file>"},
                      found_input=(kind != "protocol"), key=key)
    # (1) a correspondence difference is reported unless an unknown violation already explains the same program;
    #     open known findings never hide it
    corr = [(p, r) for p, r in zip(progs, results) if r.get("corr") and id(p) not in unknown_bad]
    if corr:
        p, r = corr[0]
        res.violation("correspondence model/implementation differs (%d programs), first: %s" % (len(corr), r["corr"]),
                      {"ops": p.lines(), "unchecked": "correspondence Model/Builder.lean ~ builder.cpp"}, False, key="corr")
    if broken:
        res.violation("proof obligation no longer checks: " + " | ".join(broken)[:1500], {"unchecked": broken}, False, key="obligation")


def shrink(h, p, r):
    kind = r["kind"]

    def fails(ops):
        q = Program(p.arch, p.emitter, p.enc, ops, p.cls)
        rr = (pipeline_fn if p.emitter == "compilerfn" else pipeline)(h, [q])[0]
        return rr["verdict"] != "good" and rr["kind"] == kind

    if os.environ.get("VERIF_NO_SHRINK"):
        return p.ops
    # label / section creations stay (dropping one would turn a valid label id into one that is created later or never)
    keep = [i for i, o in enumerate(p.ops) if o.split()[0] in CREATE_KINDS]
    rest = [i for i, o in enumerate(p.ops) if o.split()[0] not in CREATE_KINDS]

    def fails_idx(idx):
        return fails([p.ops[i] for i in sorted(keep + list(idx))])

    small = vlib.ddmin(rest, fails_idx, max_tests=120)
    return [p.ops[i] for i in sorted(keep + list(small))]


def replay(data):
    lines = data["replay"].get("ops", [])
    h = vlib.build_harness("c08")
    ops = [l for l in lines if l.split()[0] not in ("begin", "finalize", "end")]
    w = lines[0].split()
    p = Program(w[1], w[2], int(w[3], 16), ops, "replay")
    r = (pipeline_fn if p.emitter == "compilerfn" else pipeline)(h, [p])[0]
    for l in r.get("b", []):
        print("builder  ", l)
    for how, a in r.get("a", {}).items():
        for l in a:
            if l[0] in "FDI":
                print("assembler (%s)" % how, l)
    print("verdict:", r["verdict"])
    return 0 if r["verdict"] == "good" else 1
