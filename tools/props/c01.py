"""C01 — x86/x64 assembler emits a correct encoding of every instruction it accepts (DESIGN.md section 6, C01)."""
import collections

import vlib
import gen_c01
import c01_forms

PID = "C01"
MANIFEST = {
    "technique": "Lean 4: independent ISA decoder + monitor (Spec/X86Decode.lean) run on the real assembler's bytes for a generated sweep of "
                 "all database forms; hand model of the shared emitters and of the most populated encoding classes of x86assembler.cpp "
                 "(Model/X86Backend.lean, Model/X86Front.lean) with bv_decide round-trip theorems for all field values; C++/Lean correspondence",
    "text": "Every form of db/isa_x86.json (read through the repository's reader, APX excluded) is instantiated with operands aimed at every "
            "extension bit, addressing form, disp8/disp32/disp8*N limit, boundary immediate, {k}{z}{er}{sae}{1toN} and option, emitted by the real "
            "x86::Assembler with strict validation; for every accepted call the Lean monitor decides `some database form of that instruction, "
            "instantiated by exactly those operands, decodes (SDM instruction format) from exactly these bytes, nothing left over'. "
            "The backend emitters (REX, ModRM/SIB/disp incl. compressed disp8, VEX2/VEX3/XOP/EVEX prefix synthesis, immediates) are transcribed "
            "to Lean and proved for ALL field values to round-trip through the SDM field layout; the transcription and the front-end classes are "
            "tied to the real encoder by byte-for-byte correspondence on the same sweep.",
    "note": "Proved (all inputs): backend round trips in Props/C01.lean; front_cls_correct_* (Props/C01Front.lean + C01Rows.lean: symbolic layer + "
            "decide over the regenerated rows) for the register forms of VexRvm/VexRm/VexRvmi/VexRmi and their _Lx classes in 64-bit mode. Tested (sweep judged by the Lean decoder, not proved): the front-end "
            "dispatch of encoding classes without a class theorem, the opcode tables. Trusted: Lean kernel + bv_decide certificates; "
            "Spec/X86Decode.lean as the reading of the SDM; db/x86.js + tools/gen_c01.py (with its listed database errata); harness/driver/diff.",
}
MODS = ["AsmjitVerif.Props.C01", "AsmjitVerif.Props.C01Front", "AsmjitVerif.Props.C01Rows", "AsmjitVerif.Props.C01Front32", "AsmjitVerif.Props.C01Rows32", "AsmjitVerif.Props.C01FrontMem", "AsmjitVerif.Props.C01FrontMemG", "AsmjitVerif.Props.C01FrontMemV", "AsmjitVerif.Props.C01FrontMemX", "AsmjitVerif.Props.C01RowsMem", "AsmjitVerif.Props.C01FrontDec", "AsmjitVerif.Props.C01FrontMemB", "AsmjitVerif.Props.C01RowsMemB", "AsmjitVerif.Props.C01FrontLeg32", "AsmjitVerif.Props.C01FrontArith", "AsmjitVerif.Props.C01RowsArith", "AsmjitVerif.Props.C01FrontOpReg", "AsmjitVerif.Props.C01FrontLegMem", "AsmjitVerif.Props.C01RowsLegMem", "AsmjitVerif.Props.C01RowsMov", "AsmjitVerif.Props.C01FrontMr", "AsmjitVerif.Props.C01RowsMr", "AsmjitVerif.Props.C01FrontRel", "AsmjitVerif.Props.C01FrontAbs", "AsmjitVerif.Props.C01FrontOpt", "AsmjitVerif.Props.C01FrontDec32"]
BASE = c01_forms.BASE_ADDR

# classes of known, not (yet) repaired findings -> stable keys (known_findings.json)
KEY_GROUPS = [
    (("rdmsr", "wrmsrns", "wrmsr"), "msr-imm-form-ignored"),
    (("maskmovq", "maskmovdqu", "vmaskmovdqu"), "implicit-mem-override-dropped"),
    (("tileloadd", "tileloaddt1", "tilestored", "tileloaddrs", "tileloaddrst1"), "amx-rip-relative"),
    (("kmovb", "kmovw", "kmovd", "kmovq"), "kmov-modmr"),
]


def key_of(name, reason, form=None):
    if form and "AH with an absolute address" in str(form.get("opcodeString", "")):
        return "mov-ah-moffs"
    if "gather/scatter without a mask register" in reason:
        return "evex-gather-scatter-without-mask"
    if "{z} with a memory destination" in reason:
        return "evex-z-memory-destination"
    if form and ("address-size prefix 67" in reason or "segment prefixes" in reason) and \
            any(o.get("implicit") and o.get("mem") and not o.get("reg") for o in form.get("operands", [])):
        return "implicit-mem-override-dropped"
    # the name groups of (former) known findings apply only to the failure they describe; any other failure of the same
    # instructions gets the generic key and is therefore never swallowed by a known-finding entry
    pats = {"msr-imm-form-ignored": "prefix expected", "amx-rip-relative": "ModRM.rm 5", "kmov-modmr": "opcode byte",
            "implicit-mem-override-dropped": "prefix"}
    for names, k in KEY_GROUPS:
        if name in names and pats.get(k, "") in reason:
            return k
    return "enc:" + name


def instruction_rows(h, kept):
    """rows of the compiled instruction tables (harness `row`): {name: [id, encoding, main opcode, alt opcode, inst flags, avx512 flags]}"""
    names = sorted({f["name"] for f, _ in kept})
    out, rc, err = vlib.run_lines([str(h)], ["row " + n for n in names])
    return {n: r.split()[1:] for n, r in zip(names, out) if r.startswith("row ") and r != "row none"}


def generate():
    """Gen/X86ClassRows.lean: (row of the compiled instruction tables, database form) pairs of the register forms of the VEX-family
    classes; Props/C01Rows.lean re-proves the table layer over them on every run (`decide +kernel`)."""
    db = gen_c01.load_db()
    flines, kept, skipped = gen_c01.form_lines(db)
    h = vlib.build_harness("c01")
    rows = instruction_rows(h, kept)
    src, counts = gen_c01.class_rows_lean(kept, rows)
    vlib.gen_write("AsmjitVerif/Gen/X86ClassRows.lean", src)
    return counts


def run_resilient(cmd, lines):
    """run the harness; a sanitizer abort costs only the line it happened in. -> (answers, [(line, message)])"""
    out, aborts, start = [], [], 0
    while start < len(lines):
        o, rc, err = vlib.run_lines(cmd, lines[start:], env={"VH_FLUSH": "1"} if aborts else None)
        if rc == 0 and len(o) == len(lines) - start:
            out += o
            break
        if not aborts:
            # first abort: re-run this stretch with per-line flushing to locate it
            aborts.append(None)
            continue
        k = len(o)
        if k and not o[-1].split()[0] in ("ok", "err", "bad-op", "row", "consts", "err-cursor", "err-filler-modified"):
            k -= 1
        first = [l for l in err.splitlines() if "runtime error" in l or "ERROR: AddressSanitizer" in l][:1]
        aborts.append((lines[start + k] if start + k < len(lines) else "?", first[0] if first else err[-300:]))
        out += o[:k] + ["abort"]
        start += k + 1
        if len(aborts) > 1500:
            out += ["abort"] * (len(lines) - len(out))
            break
    return out, [a for a in aborts if a]


# ---- which sweep calls fall inside the domain (WF predicate) of some class theorem ------------------------------------------------
# An approximation in Python of the hypotheses of the `front_cls_correct_*` theorems + their dispatch lemmas (Props/C01*.lean): encoding
# class of the row, operand signature, the instruction has an entry in the chunk the theorem ranges over, mode, options, address form.
VEX_SHAPE = {0x72: "rvm", 0x75: "rvm", 0x73: "rvm", 0x76: "rvm", 0x68: "rm", 0x6B: "rm", 0x7A: "rvmi", 0x7C: "rvmi", 0x7B: "rvmi", 0x7D: "rvmi",
             0x6F: "rmi", 0x71: "rmi",
             0x62: "mr", 0x64: "mri", 0x65: "mri"}
VEX_SIG = {"rvm": "RRX", "rm": "RX", "rvmi": "RRXI", "rmi": "RXI", "mr": "XR", "mri": "XRI"}
GP = ("gpb", "gpbhi", "gpw", "gpd", "gpq")


def encoding_names():
    """encoding class id -> enum name, read from x86instdb_p.h (used for the statistic's labels only)"""
    import re
    try:
        src = (vlib.REPO / "asmjit/x86/x86instdb_p.h").read_text()
        body = src[src.index("enum EncodingId"):]
        body = body[:body.index("kEncodingCount")]
        names = re.findall(r"^\s*kEncoding(\w+)", body, re.M)
        return {i: n for i, n in enumerate(names)}
    except Exception:
        return {}


def _addr_form_ok(m, mode, vex):
    """memory operand `M:size:bt:bid:it:iid:shift:disp:seg:bcst:at` inside an AddrForm / AddrFormL instance (64-bit mode)"""
    _, size, bt, bid, it, iid, shift, disp, seg, bc, at = m.split(":")
    if mode != 64:
        return None
    d = int(disp, 16)
    if bt in ("gpq", "gpd") and it == "none":
        return "base"
    if bt in ("gpq", "gpd") and it == bt and int(iid) != 4:
        return "index"
    if bt == "rip" and it == "none":
        return "rip"
    if bt == "none" and it == "none" and at in ("0", "1") and bc == "0" and (d < 2 ** 31 or d >= 2 ** 64 - 2 ** 31):
        return "abs"
    return None       # label, index without base, 16-bit, VSIB, 64-bit / zero-extended absolute, relative


def theorem_family(ew, enc, names, iflags=0x400000):
    """ew: fields of the emit line; enc: encoding class of the instruction row; names: gen_c01.COVER_NAMES -> family name or None"""
    mode, name, opts, k, ops = int(ew[0]), ew[3], ew[4], ew[5], ew[6:]
    optl = [] if opts == "-" else opts.split(",")
    sig = "".join(o[0] for o in ops)
    regs = [o.split(":")[1] if o[0] == "R" else None for o in ops]
    mems = [o for o in ops if o[0] == "M"]
    imms = [int(o[2:], 16) for o in ops if o[0] == "I"]
    def s64(v):
        return v - 2 ** 64 if v >= 2 ** 63 else v
    def inn(shape):
        return name in names.get(shape, ())
    af = _addr_form_ok(mems[0], mode, False) if mems else None
    if mems and len(mems) == 1 and af is None and mode == 64 and opts == "-" and k == "-" and enc in (0x2C, 0x2D) and sig in ("RM", "MR"):
        f = mems[0].split(":")
        accop = (ops[0] if sig == "RM" else ops[1]).split(":")
        if f[2] == "none" and f[4] == "none" and f[8] == "0" and accop[1] in ("gpb", "gpw", "gpd", "gpq") and accop[2] == "0" and \
                (enc == 0x2D or (int(f[7], 16) > 0xFFFFFFFF and int(f[7], 16) < 2 ** 64 - 2 ** 31 and f[10] != "2")):
            return "mov_moffs"
    if mems and (len(mems) > 1 or af is None):
        return None
    bc = mems[0].split(":")[9] != "0" if mems else False
    # --- alternative encodings selected by mod_mr() / mod_rm()
    if enc in (0x85, 0x88) and mode == 64 and optl == ["modmr"] and k == "-" and sig == "RRR" and inn("xrvm"):
        return "xop_rvm_modmr"
    if mode == 64 and optl == ["long"] and k == "-":          # dispatch_long / dispatch_long_mi + legacy_emit_lowopt
        if enc == 0x19 and sig == "RI" and regs[0] in ("gpw", "gpd", "gpq") and (regs[0] != "gpq" or -2 ** 31 <= s64(imms[0]) < 2 ** 31):
            return "arith_imm_long"
        if enc == 0x19 and sig == "MI" and af and int(mems[0].split(":")[1]) in (1, 2, 4, 8) and \
                (int(mems[0].split(":")[1]) != 8 or -2 ** 31 <= s64(imms[0]) < 2 ** 31):
            return "arith_mi_long"
        if enc == 0x2C and sig == "RI" and regs[0] == "gpq":
            return "mov_ri_long"
    if enc in (0x19, 0x2C) and mode == 64 and optl == ["modrm"] and k == "-" and sig == "RR" and regs[0] == regs[1] and regs[0] in ("gpw", "gpd", "gpq"):
        return "rr_modrm"
    # --- VEX / EVEX classes
    if enc in VEX_SHAPE or enc in (0x83, 0x84):
        sh = VEX_SHAPE[enc] if enc in VEX_SHAPE else ("mr" if sig == "MR" else "rm")      # VexRmMr: loads in `rm`, stores in `mr`
        want = VEX_SIG[sh]
        if len(sig) != len(want) or any(w != "X" and w != s for w, s in zip(want, sig)) or not inn(sh):
            return None
        xi = want.index("X")
        if sig[xi] == "R" and k == "-" and optl in (["evex"], ["vex3"], ["vex"]) and sh in ("rvm", "rm", "rvmi", "rmi"):
            return "vex_reg" + ("32" if mode == 32 else "") + "_opt_" + optl[0]          # Props/C01FrontOpt.lean
        if sig[xi] == "R":
            if "evex" in optl and sh in ("rvm", "rm", "rvmi", "rmi") and (k != "-" or any(o in ("z", "er", "sae") for o in optl)):
                optl = [o for o in optl if o != "evex"]          # emitVexEvexR_evex_dec: neutral next to a decoration
                if not optl and k == "-":
                    return None
            if any(o not in ("z", "er", "sae", "rn", "rd", "ru", "rz") for o in optl):
                return None
            if mode == 32:
                if sh not in ("rvm", "rm", "rvmi", "rmi"):
                    return None
                return "vex_reg32" if not optl and k == "-" else "vex_reg32_dec"          # Props/C01FrontDec32.lean
            if sh in ("mr", "mri") and (optl or k != "-"):
                return None
            return "vex_reg" + ("_dec" if optl or k != "-" else "")
        if sig[xi] == "M" and mode == 64:
            if optl == ["vex"]:
                optl = []                       # emitVexEvexM_vexopt: neutral
            elif "evex" in optl and all(o in ("evex", "z") for o in optl) and sh in ("rvm", "rm", "rvmi", "rmi") and not bc:      # .._mem_evexopt
                optl = [o for o in optl if o != "evex"]
            elif optl == ["evex"] and not iflags & 0x400000:
                optl = []                       # emitVexEvexM_evexopt_evexonly: EVEX-only instruction, the option changes no byte
            if any(o != "z" for o in optl):
                return None
            if bc and (sh in ("mr", "mri") or af == "abs"):
                return None
            return "vex_mem_" + af + ("_bcst" if bc else "")
        return None
    if mode == 32:
        if not optl and k == "-" and not mems and ((enc in (0x4A, 0x4D, 0x14, 0x16) and sig == "RR" and inn("lrm")) or
                                               (enc in (0x17, 0x18) and sig == "RR" and inn("lmr")) or (enc in (0x52, 0x53) and sig == "RRI" and inn("lrmi"))):
            return "leg_reg32"
        return None
    if k != "-":
        return None
    if optl and not (optl == ["modmr"] and enc == 0x56 and sig == "RR"):
        return None
    plain = lambda r: r not in ("gpb", "gpbhi", "sreg")
    wide = lambda r: r in ("gpw", "gpd", "gpq")
    if enc in (0x4A, 0x4D, 0x14, 0x16, 0x56) and sig in ("RR", "RM") and inn("lrm") and plain(regs[0]) and (sig == "RM" or plain(regs[1])):
        return "leg_rm" + ("_mem_" + af if mems else "")
    if enc in (0x17, 0x18, 0x56) and sig in ("RR", "MR") and inn("lmr") and plain(regs[1]) and (sig == "MR" or plain(regs[0])):
        return "leg_mr" + ("_mem_" + af if mems else "")
    if enc in (0x52, 0x53) and sig in ("RRI", "RMI") and inn("lrmi") and plain(regs[0]):
        return "leg_rmi" + ("_mem_" + af if mems else "")
    if enc == 0x01 and sig == "" and inn("lop"):
        return "x86op"
    if enc == 0x21:
        if sig == "RR" and wide(regs[0]) and inn("lrm"):
            return "imul_rr"
        if sig == "RM" and wide(regs[0]) and inn("lrm"):
            return "imul_rm_" + af
        return None
    if enc in (0x19, 0x3D):
        if sig == "RR" and all(r in GP for r in regs):
            return "arith_rr"
        if sig in ("RM", "MR") and wide(regs[0] or regs[1]) and (enc == 0x19 or sig == "MR"):
            return "arith_mem_" + af
        if sig == "RI":
            rid = int(ops[0].split(":")[2])
            acc = rid == 0 and regs[0] != "gpbhi"
            v = imms[0]
            if regs[0] in ("gpb", "gpbhi"):
                return "acc_imm" if acc else ("arith_r8_imm8" if enc == 0x19 else None)
            if not wide(regs[0]):
                return None
            if enc == 0x3D:
                return "acc_imm" if acc else None
            vv = s64(v)
            if regs[0] == "gpd":
                vv = s64(v) & 0xFFFFFFFF
                vv = vv - 2 ** 32 if vv >= 2 ** 31 else vv
            if -128 <= vv <= 127:
                return "arith_imm8s"
            if regs[0] == "gpq" and not -2 ** 31 <= vv < 2 ** 31:
                return None          # `and r64, immu32` path / refused
            return "acc_imm" if acc else "arith_imm"
        if sig == "MI":
            size = int(mems[0].split(":")[1])
            if size in (1, 2, 4, 8) and (size != 8 or -2 ** 31 <= s64(imms[0]) < 2 ** 31):
                return ("arith_mi_" if enc == 0x19 else "test_mi_") + af
        return None
    if enc == 0x37:
        if sig == "RI" and regs[0] in GP:
            return "rot_1" if imms[0] & 0xFF == 1 else "rot_imm"
        if sig == "RR" and regs[0] in GP and ops[1] == "R:gpb:1":
            return "rot_cl"
        if sig == "MI" and int(mems[0].split(":")[1]) in (1, 2, 4, 8):
            return ("rot_mi_" if imms[0] & 0xFF != 1 else "rot_m1_") + af
        if sig == "MR" and ops[1] == "R:gpb:1" and int(mems[0].split(":")[1]) in (1, 2, 4, 8):
            return "rot_mcl_" + af
        return None
    if enc in (0x33, 0x35) and sig == "R" and regs[0] in ("gpw", "gpq"):
        return "pushpop_reg"
    if enc == 0x2B and sig == "RM" and wide(regs[0]):
        return "lea_" + af
    if enc == 0x2C:
        if sig == "RR":
            if all(r in GP for r in regs) and (regs[0] == regs[1] or all(r in ("gpb", "gpbhi") for r in regs)):
                return "mov_rr"
            if sorted(regs) in (["creg", "gpq"], ["dreg", "gpq"]):
                return "mov_crdr"
            if "sreg" in regs and any(wide(r) for r in regs):
                return "mov_sreg"
            return None
        if sig in ("RM", "MR"):
            r = regs[0] or regs[1]
            rid = int((ops[0] if sig == "RM" else ops[1]).split(":")[2])
            if wide(r) and not (rid == 0 and af == "abs"):
                return "mov_mem_" + af
            return None
        if sig == "RI" and wide(regs[0]):
            if regs[0] == "gpq" and -2 ** 31 <= s64(imms[0]) < 2 ** 31:
                return "mov_r64_imm32"
            return "mov_ri"
        if sig == "MI" and int(mems[0].split(":")[1]) in (1, 2, 4, 8) and (int(mems[0].split(":")[1]) != 8 or -2 ** 31 <= s64(imms[0]) < 2 ** 31):
            return "mov_mi_" + af
        return None
    if enc in (0x26, 0x28, 0x1C) and sig == "L":
        return "rel_bound_label"
    if enc == 0x0E and sig == "M" and inn("lm") and name != "fstcw":
        return "m_only_" + af
    if enc == 0x38 and inn("lm"):
        if sig == "M":
            return "set_m_" + af
        if sig == "R" and regs[0] in ("gpb", "gpbhi"):
            return "set_r"
    return None


# encoding classes whose reg-reg path tests InstOptions::kX86_ModMR / kX86_ModRM (x86assembler.cpp) - the alternative encoding re-packs operands
MODMR_CLASSES = ("X86Arith", "X86Mov", "X86Bndmov", "ExtMov", "ExtMovq", "VexRvmRmv", "VexRvmRmvRmi", "Fma4", "Fma4_Lx", "VexKmov")


def option_pass(kept, rng, tier, enc_of):
    """deterministic pass over the ENCODING-CHOICE options: every form gets every option its class honours at least once per mode
    (mod_mr / mod_rm on all-register instantiations with pairwise different register ids, so that swapped operands cannot hide;
    vex3 / vex / evex on VEX-family forms; long_form on immediate / rel forms, short_form on rel forms)"""
    emits, meta = [], []
    reps = 1 if tier == "quick" else 3
    encn = encoding_names()
    for (f, roles) in kept:
        cls = encn.get(enc_of.get(f["name"], -1), "")
        nreg = sum(1 for o in f["operands"] if o["reg"] and not o["implicit"])
        opts = []
        if nreg >= 2 and (cls in MODMR_CLASSES or rng.random() < 0.05):
            opts += [("modmr", False), ("modrm", False)]
        if f["prefix"] == "VEX":
            opts += [("vex3", None), ("vex", None)]
        if f["prefix"] == "EVEX":
            opts += [("evex", None)]
        if any(o["rel"] for o in f["operands"]):
            opts += [("long", None), ("short", None)]
        elif any(o["imm"] and not o["implicit"] for o in f["operands"]):
            opts += [("long", None)]
        for mode in (64, 32):
            for (opt, wm) in opts:
                for v in range(reps):
                    want_mem = (v % 2 == 1) if wm is None else wm
                    if wm is None and reps == 1:
                        want_mem = rng.random() < 0.5
                    r = None
                    for _try in range(8):
                        r = c01_forms.instantiate(f, roles, mode, rng, want_mem=want_mem, force_opt=opt)
                        if r is None or opt not in ("modmr", "modrm"):
                            break
                        regs = [t.split(":")[1:] for t in r[0].split()[3:] if t.startswith("R:")]
                        if len({tuple(t) for t in regs}) == len(regs):
                            break
                    if r is None:
                        continue
                    if opt in ("modmr", "modrm") and " M:" in r[0]:
                        continue
                    tail, off = r
                    if f["name"] == "xchg" and " M:" not in tail:
                        continue
                    emits.append("%d %x %d %s" % (mode, BASE, off, tail))
                    meta.append(f)
    return emits, meta


def build_sweep(kept, rng, tier, enc_of=None):
    """emit lines (without the leading 'emit') + the form each came from"""
    emits, meta = [], []
    nvar = 4 if tier == "quick" else 60
    for (f, roles) in kept:
        for mode in (64, 32):
            for v in range(nvar):
                r = c01_forms.instantiate(f, roles, mode, rng, want_mem=(v % 2 == 1))
                if r is None:
                    continue
                tail, off = r
                if f["name"] == "xchg" and tail.count(":0") >= 2 and " M:" not in tail and all(x.endswith(":0") for x in tail.split()[3:]):
                    continue   # xchg acc, acc is emitted as nop (90): same meaning, no database form of xchg
                if f["name"] == "lea" and " M:" in tail and ":none:0:none:0:" in tail:
                    continue   # lea of a bare absolute address: the value, not the address, matters (REX.W removal); model-only
                emits.append("%d %x %d %s" % (mode, BASE, off, tail))
                meta.append(f)
    if enc_of is not None:
        e2, m2 = option_pass(kept, rng, tier, enc_of)
        emits += e2
        meta += m2
    # hand-written probes of option paths the generator does not reach
    for m in (64, 32):
        for kk in ("kmovw", "kmovd", "kmovq", "kmovb"):
            emits.append("%d %x 16 %s modmr - R:k:1 R:k:2" % (m, BASE, kk))
            meta.append({"name": kk, "opcodeString": "probe"})
        # AH shares the register id of AL: the accumulator-only moffs forms must not be chosen for it
        for tail in ("mov - - R:gpbhi:0 M:1:none:0:none:0:0:1000:0:0:0", "mov - - M:1:none:0:none:0:0:1000:0:0:0 R:gpbhi:0",
                     "mov - - R:gpbhi:0 M:1:none:0:none:0:0:1000:5:0:1", "mov - - R:gpbhi:1 M:1:none:0:none:0:0:1000:0:0:0") + \
                (("mov - - R:gpbhi:0 M:1:none:0:none:0:0:123456789a:0:0:0", "mov - - M:1:none:0:none:0:0:123456789a:0:0:0 R:gpbhi:0",
                  "movabs - - R:gpbhi:0 M:1:none:0:none:0:0:123456789a:0:0:0", "movabs - - M:1:none:0:none:0:0:123456789a:0:0:0 R:gpbhi:0")
                 if m == 64 else ()):
            emits.append("%d %x 16 %s" % (m, BASE, tail))
            meta.append({"name": tail.split()[0], "opcodeString": "probe (AH with an absolute address)"})
    return emits, meta


def run(res):
    rng = vlib.rng_for(res.seed, PID)
    res.assumptions += [
        "Spec/X86Decode.lean is our reading of SDM vol.2 ch.2 (instruction format) — cross-checked against llvm-mc in the thorough tier",
        "db/isa_x86.json read through db/x86.js; 14 database errata re-spelled in tools/gen_c01.py (ERRATA_*), APX forms excluded",
        "relocation / unbound-label paths are not judged here (C03/C04/C17)",
        "immediates are generated inside the range of their field (truncation of oversized immediates is not examined)"]
    broken = []

    # -- L2a translator ------------------------------------------------------------------------------
    try:
        db = gen_c01.load_db()
        flines, kept, skipped = gen_c01.form_lines(db)
    except gen_c01.TranslateError as e:
        res.violation("translator gen_c01 no longer understands the database: %s" % e, {"unchecked": str(e)}, False, key="obligation")
        return
    try:
        res.coverage["class_row_entries"] = generate()
    except Exception as e:
        broken.append("translator gen_c01.class_rows_lean: %s" % e)
    res.coverage["db_forms"] = len(db["forms"])
    res.coverage["db_forms_translated"] = len(kept)
    res.coverage["db_forms_skipped"] = collections.Counter(s[2][:40] for s in skipped)

    # -- L1 proofs -------------------------------------------------------------------------------------
    ok, out = vlib.lean_stage(res, PID, MODS)
    if not ok and not res.violations:
        for ft in getattr(res, "build_failures", []) or [{"decl": "?", "msg": out[-800:]}]:
            broken.append("theorem %s (%s:%s) no longer checks: %s" % (ft.get("decl"), ft.get("file"), ft.get("line"), ft.get("msg")))
        vlib.lake_build(["vdriver"])
    if not vlib.driver_path().exists():
        res.violation("Lean driver does not build", {"log": out[-3000:]}, found_input=False, key="driver")
        return

    # -- L2b/L3: sweep, monitor, correspondence ----------------------------------------------------------
    h = vlib.build_harness("c01")
    rows0 = instruction_rows(h, kept)
    emits, meta = build_sweep(kept, rng, res.tier, {n: int(r[1]) for n, r in rows0.items()})
    impl, aborts = run_resilient([str(h)], ["emit " + e for e in emits])
    if len(impl) != len(emits):
        res.violation("harness protocol failure: %d answers for %d lines" % (len(impl), len(emits)), {}, False, key="protocol")
        return
    for line, msg in aborts[:8]:
        res.violation("real assembler aborts under ASan/UBSan on `%s`: %s" % (line, msg), {"ops": [line], "stderr": msg}, True,
                      key="abort:" + msg.split("runtime error:")[-1].strip()[:40])

    # instruction rows for the model
    names = sorted({e.split()[3] for e in emits})
    rows_out, rc, err = vlib.run_lines([str(h)], ["row " + n for n in names])
    rows = {n: r.split()[1:] for n, r in zip(names, rows_out) if r.startswith("row ") and r != "row none"}

    # instruction ids the model refers to by number (Model/X86Front.lean: Row.ctx isLea, emitInst erSaeBan)
    for nm, want in (("lea", 375), ("vcvtsi2sd", 882), ("vcvtusi2sd", 915), ("vcmpsd", 832), ("vcmpss", 834)):
        idr, _, _ = vlib.run_lines([str(h)], ["row " + nm])
        if idr and idr[0].startswith("row ") and idr[0] != "row none" and int(idr[0].split()[1]) != want:
            broken.append("instruction id of %s is %s, the model assumes %d (Model/X86Front.lean)" % (nm, idr[0].split()[1], want))
    chk, cidx, enc, eidx = [], [], [], []
    state_bad = []
    for i, (e, o) in enumerate(zip(emits, impl)):
        w = o.split()
        if "state-kept" in w or (w[0] == "err" and "partial" in w) or w[0] in ("err-cursor", "err-filler-modified"):
            state_bad.append((e, o))
        if w[0] == "ok" and len(w) == 2:
            chk.append("chk %s = %s" % (e, w[1]))
            cidx.append(i)
        ew = e.split()
        if ew[3] in rows and w[0] in ("ok", "err") and not any(x.startswith("reloc") for x in w):
            enc.append("enc %s %s %s" % (" ".join(ew[:3]), " ".join(rows[ew[3]]), " ".join(ew[4:])))
            eidx.append(i)
    for e, o in state_bad[:5]:
        res.violation("one-shot state / buffer cursor contract broken: `emit %s` -> %s" % (e, o), {"ops": ["emit " + e]}, True, key="state")

    mon, rc2, err2 = vlib.run_model("C01", flines + chk)
    if rc2 != 0 or len(mon) != len(chk):
        res.violation("monitor protocol failure rc=%d, %d answers for %d lines: %s" % (rc2, len(mon), len(chk), (mon[:1] or [err2[-300:]])[0]),
                      {}, False, key="protocol")
        return
    bad = [(cidx[k], m) for k, m in enumerate(mon) if not m.startswith("good")]

    model, rc3, err3 = vlib.run_model("C01", enc)
    diffs, modelled = [], 0
    if rc3 != 0 or len(model) != len(enc):
        broken.append("model driver protocol failure rc=%d (%d/%d) %s" % (rc3, len(model), len(enc), err3[-300:]))
    else:
        for k, mo in enumerate(model):
            if mo == "unmodelled":
                continue
            io = impl[eidx[k]].split()
            if io[0] != "ok":
                continue          # refused by strict validation (C13's subject) or by the encoder: only accepted calls are compared
            modelled += 1
            want = "ok " + io[1]
            if mo != want:
                diffs.append((eidx[k], mo, want))

    # coverage
    acc = [i for i, o in enumerate(impl) if o.startswith("ok")]
    res.coverage["evaluations"] = len(emits)
    res.coverage["distinct_nontrivial"] = len({emits[i] for i in acc})
    res.coverage["rule"] = ("every translated database form x {64,32}-bit mode x %d seeded instantiations (register ids at every extension-bit "
                            "boundary, all addressing shapes, disp8/disp32/disp8*N limits, boundary immediates, decorations, options); "
                            "non-trivial = distinct call the assembler accepted (its bytes are judged by the Lean monitor)") % (4 if res.tier == "quick" else 60)
    res.coverage["exhaustive"] = False
    res.coverage["monitored_answers"] = len(chk)
    res.coverage["modelled_calls_compared"] = modelled
    # fraction of the accepted calls that lie inside the domain of some class theorem (see theorem_family)
    try:
        if not gen_c01.COVER_NAMES:
            gen_c01.class_rows_lean(kept, instruction_rows(h, kept))
        fam = collections.Counter()
        outside = collections.Counter()
        encn = encoding_names()
        cov_mode = collections.Counter()
        for i in acc:
            ew = emits[i].split()
            if ew[3] not in rows:
                continue
            encid = int(rows[ew[3]][1])
            t = theorem_family(ew, encid, gen_c01.COVER_NAMES, int(rows[ew[3]][4], 16))
            if t:
                fam[t.split("_mem_")[0] + ("_mem" if "_mem_" in t else "")] += 1
                cov_mode[ew[0]] += 1
            else:
                outside["(32-bit mode, any class)" if ew[0] == "32" else encn.get(encid, "enc_%02x" % encid)] += 1
        ncov = sum(fam.values())
        res.coverage["class_theorem_domain"] = {
            "accepted_calls": len(acc), "inside_some_theorem": ncov, "fraction": round(ncov / max(1, len(acc)), 4),
            "fraction_64bit": round(cov_mode["64"] / max(1, sum(1 for i in acc if emits[i].startswith("64 "))), 4),
            "fraction_32bit": round(cov_mode["32"] / max(1, sum(1 for i in acc if emits[i].startswith("32 "))), 4),
            "by_family": dict(fam.most_common()), "outside_by_encoding_class": dict(outside.most_common()),
            "note": "Python approximation of the hypotheses of the front_cls_correct_* theorems and their dispatch lemmas"}
    except Exception as ex:
        res.notes.append("class-theorem domain statistic not computed: %r" % ex)
    res.coverage["traces_validated_against_impl"] = modelled
    kinds = collections.Counter()
    for e, o in zip(emits, impl):
        kinds["mode%s:%s" % (e.split()[0], " ".join(o.split()[:2]) if o.startswith("err") else o.split()[0])] += 1
    shapes = collections.Counter()
    for i in acc:
        e = emits[i]
        shapes["mem" if " M:" in e else "reg"] += 1
        for tag, pat in (("evex-id>=16", None), ("rip", ":rip:"), ("label", ":label:"), ("a16", ":gpw:"), ("seg", None), ("bcst", None)):
            if pat and pat in e:
                shapes[tag] += 1
        ew = e.split()
        if ew[4] != "-":
            for o_ in ew[4].split(","):
                shapes["opt:" + o_] += 1
        if ew[5] != "-":
            shapes["{k}"] += 1
    res.coverage["input_distribution"] = {"answers": dict(kinds.most_common(12)), "accepted_shapes": dict(shapes.most_common(30)),
                                          "encoding_space": dict(collections.Counter(meta[i].get("prefix", "?") or "legacy" for i in acc))}
    res.add_samples([{"op": "emit " + emits[i], "impl": impl[i]} for i in (acc[:1] + acc[len(acc) // 3:len(acc) // 3 + 1] + acc[len(acc) // 2:len(acc) // 2 + 1] + acc[-1:])])
    if res.tier == "thorough":
        try:
            oracle_crosscheck(res, emits, impl, mon, cidx)
        except Exception as e:   # the oracle is support, never a verdict
            res.notes.append("oracle cross-check not run: %s" % e)

    # classification
    if bad:
        groups = collections.OrderedDict()
        for i, m in bad:
            k = key_of(emits[i].split()[3], m, meta[i])
            groups.setdefault(k, []).append((i, m))
        for k, items in list(groups.items())[:12]:
            i, m = min(items, key=lambda t: len(emits[t[0]]))
            res.violation("bytes do not decode to the call: `emit %s` -> %s ; monitor: %s (%d such calls, db form %s)" % (
                emits[i], impl[i], m, len(items), meta[i].get("opcodeString")), {"ops": ["emit " + emits[i]], "impl": impl[i], "monitor": m}, True, key=k)
    # a correspondence difference is reported unless a violation that is NOT an open known finding already explains the same call
    known_keys = {e.get("key") for e in vlib.load_known_findings(PID) if e.get("status") == "open"}
    explained = {i for i, m in bad if key_of(emits[i].split()[3], m, meta[i]) not in known_keys}
    diffs = [d for d in diffs if d[0] not in explained]
    if not emits or not acc:
        res.violation("empty run: %d calls generated, %d accepted by the assembler" % (len(emits), len(acc)), {}, False, key="empty")
    if True:
        if diffs:
            i, mo, want = diffs[0]
            res.violation("correspondence model/implementation differs at `emit %s`: impl=%s model=%s (%d differing calls); the monitor accepts every "
                          "explored encoding" % (emits[i], want, mo, len(diffs)),
                          {"ops": ["emit " + emits[i]], "impl": want, "model": mo, "unchecked": "correspondence Model/X86Front.lean+X86Backend.lean ~ x86assembler.cpp"},
                          False, key="corr")
        if broken:
            res.violation("proof obligation no longer checks: " + " | ".join(broken)[:1500], {"unchecked": broken}, False, key="obligation")


def oracle_crosscheck(res, emits, impl, mon, cidx):
    """thorough tier: llvm-mc-14 as an oracle independent of AsmJit and of our spec, on the accepted 64-bit encodings: the decoded length must
    equal the number of bytes emitted. A disagreement is reported as SPEC-SUSPECT in the evidence, never as a violation."""
    import shutil
    import subprocess
    mc = shutil.which("llvm-mc-14") or shutil.which("llvm-mc")
    if not mc:
        res.notes.append("llvm-mc not available: oracle cross-check skipped")
        return
    sample = [i for i in cidx if emits[i].startswith("64 ")][:4000]
    text = "\n".join(" ".join("0x" + impl[i].split()[1][j:j + 2] for j in range(0, len(impl[i].split()[1]), 2)) + " 0x90 0x90 0x90 0x90 0x90 0x90 0x90 0x90" for i in sample)
    p = subprocess.run([mc, "--disassemble", "-triple=x86_64", "-mattr=+avx512f,+avx512vl,+avx512bw,+avx512dq,+avx512vbmi,+avx512vnni", "-output-asm-variant=1"],
                       input=text, capture_output=True, text=True, timeout=600)
    warn = p.stderr.count("invalid instruction encoding")
    res.coverage["oracle"] = {"tool": mc, "encodings": len(sample), "invalid_by_oracle": warn}
    if warn:
        res.notes.append("SPEC-SUSPECT: llvm-mc-14 rejects %d of %d encodings the Lean monitor accepted (triaged in notes/C01.md round 3: ISA extensions newer than LLVM 14 / 67+VEX2 decoder limitation; the real ones became KF5-KF7)" % (warn, len(sample)))


def replay(data):
    ops = data["replay"].get("ops", [])
    h = vlib.build_harness("c01")
    impl, rc, err = vlib.run_lines([str(h)], ops)
    db = gen_c01.load_db()
    flines, kept, skipped = gen_c01.form_lines(db)
    chk = ["chk " + o[5:] + " = " + r.split()[1] for o, r in zip(ops, impl) if r.startswith("ok ")]
    mon, _, _ = vlib.run_model("C01", flines + chk)
    k = 0
    for o, r in zip(ops, impl + ["(aborted) " + err[-300:]] * len(ops)):
        line = "%s -> %s" % (o, r)
        if r.startswith("ok ") and k < len(mon):
            line += "   monitor: " + mon[k]
            k += 1
        print(line)
    return 0
