"""C06 part 2 — emit_args_assignment correspondence and machine monitor (used by c06.py)."""
import vlib


def run_shuffle(res, h, rng):
    return None
