"""C06 part 2 — emit_args_assignment (used by c06.py).

(1) correspondence: Model/ArgShuffle.lean (init_work_data + emit_args_assignment + emit_arg_move/emit_reg_move/emit_reg_swap) must
emit exactly the instruction list the real code emits into a Builder, given the frame facts the real FuncFrame reports;
(2) monitor: every schedule the real code emits is executed on Spec/Machine.lean and must leave every destination holding its
argument, extended as required."""
import itertools

import vlib

GP64 = {"x64l": [7, 6, 2, 1, 8, 9], "a64l": [0, 1, 2, 3, 4, 5, 6, 7]}
SP = {"x64l": 4, "a64l": 31}


def sh_line(env, args, dsts, ff=0, sa="-", cc=0):
    return "sh %s %d 255 0 %d %s %x %s %s" % (env, cc, len(args), " ".join(map(str, args)), ff, sa, " ".join(dsts))


def gen_sh(rng, tier):
    ops = []
    maxperm = 4 if tier == "quick" else 5
    for env in ("x64l", "a64l"):
        regs = GP64[env]
        # every assignment of k integer arguments to k of the first k+1 argument registers (all permutations, cycles, one free register)
        for k in range(1, maxperm + 1):
            pool = regs[:k + 1]
            for dst in itertools.permutations(pool, k):
                ops.append(sh_line(env, [40] * k, ["r6.%d" % d for d in dst]))
        # vector registers: all permutations of up to 3 (quick) / 4
        for k in range(1, maxperm):
            for dst in itertools.permutations(range(k + 1), k):
                ops.append(sh_line(env, [79] * k, ["r11.%d" % d for d in dst]))
                ops.append(sh_line(env, [43] * k, ["r11.%d" % d for d in dst]))
        # widening: self moves, swaps and chains with destination types wider than the source types
        small = [34, 35, 36, 37, 38, 39, 40, 41]
        for st in small:
            for dt in (38, 39, 40, 41):
                ops.append(sh_line(env, [st], ["r6.%d.%d" % (regs[0], dt)]))
                ops.append(sh_line(env, [st], ["r6.%d.%d" % (regs[3], dt)]))
                ops.append(sh_line(env, [40, st], ["r6.%d.40" % regs[1], "r6.%d.%d" % (regs[0], dt)]))
                ops.append(sh_line(env, [st, st], ["r6.%d.%d" % (regs[1], dt), "r6.%d.%d" % (regs[0], dt)]))
        # stack sources (arguments beyond the registers) into registers / stack, register sources to the stack
        nreg = len(regs)
        for st, dt in ((40, 40), (38, 40), (34, 38), (35, 39), (37, 41)):
            base = [40] * nreg
            ops.append(sh_line(env, base + [st], ["-"] * nreg + ["r6.%d.%d" % (regs[0], dt)]))
            ops.append(sh_line(env, base + [st, st], ["r6.%d" % regs[1]] + ["-"] * (nreg - 1) + ["r6.%d.%d" % (regs[0], dt), "r6.%d.%d" % (regs[2], dt)]))
        ops.append(sh_line(env, [40, 40, 43], ["s0", "s8", "s16"]))
        ops.append(sh_line(env, [40] * nreg + [40, 38], ["-"] * nreg + ["s0", "s8"]))
        # mixed groups
        ops.append(sh_line(env, [40, 43, 40, 43], ["r6.%d" % regs[1], "r11.1", "r6.%d" % regs[0], "r11.0"]))
        ops.append(sh_line(env, [40, 40], ["r6.%d" % regs[1], "r11.7"]))
        nrand = 300 if tier == "quick" else 6000
        for _ in range(nrand):
            k = rng.randrange(1, 7 if env == "x64l" else 9)
            types = [rng.choice([40, 40, 38, 34, 39, 36]) for _ in range(k)]
            pool = regs + ([0, 3, 10, 11] if env == "x64l" else [9, 10, 11, 12])
            pick = rng.sample(pool, k)
            dsts = []
            for i in range(k):
                r = rng.random()
                if r < 0.1:
                    dsts.append("-")
                elif r < 0.18:
                    dsts.append("s%d" % (8 * i))
                else:
                    dt = rng.choice([0, 0, 40, 41, 38])
                    dsts.append("r6.%d" % pick[i] + (".%d" % dt if dt else ""))
            nv = rng.randrange(0, 4)
            vt = [rng.choice([43, 79, 42]) for _ in range(nv)]
            vp = rng.sample(range(0, 8), nv)
            ops.append(sh_line(env, types + vt, dsts + ["r11.%d" % p for p in vp]))
    ops += gen_sh_model_only(rng, tier)
    return ops


def gen_sh_model_only(rng, tier):
    """lines aimed at the model/implementation correspondence: frame flags (preserved FP, AVX, AVX-512, dynamic alignment), SA register
    requests, 32-bit targets, light-call (mask / mmx / vector argument registers), conversions between groups and types"""
    ops = []
    nrand = 150 if tier == "quick" else 4000
    ffs = [0, 1, 2, 4, 0x2000, 0x2001, 0x4002]
    for ff in ffs:
        for env in ("x64l", "a64l", "x86l", "x86w"):
            cc = 7 if env.startswith("x86") else 0
            regs = {"x64l": [7, 6, 2, 1, 8, 9], "a64l": [0, 1, 2, 3, 4, 5, 6, 7], "x86l": [0, 2, 1], "x86w": [0, 2, 1]}[env]
            t = 38 if env.startswith("x86") else 40
            rt = 5 if env.startswith("x86") else 6
            n = len(regs)
            ops.append(sh_line(env, [t] * (n + 2), ["r%d.%d" % (rt, regs[1]), "r%d.%d" % (rt, regs[0])] + ["-"] * (n - 2) + ["r%d.%d" % (rt, 3), "s0"], ff, "-", cc))
            ops.append(sh_line(env, [t] * (n + 1), ["-"] * n + ["r%d.%d" % (rt, regs[0])], ff, str(regs[1]), cc))
            ops.append(sh_line(env, [t] * (n + 2), ["-"] * n + ["r%d.%d" % (rt, regs[0]), "r%d.%d" % (rt, regs[2])], ff, "-", cc))
            ops.append(sh_line(env, [43, 79, 42], ["r11.2", "r11.0", "r11.1"], ff, "-", cc))
            ops.append(sh_line(env, [79] * 10, ["-"] * 8 + ["r11.0", "s16"], ff, "-", cc))
    # 2-cycles between GP arguments of different widths, both orders, 32/64-bit destination views (the exchange must be as wide as
    # the wider value; the machine tracks how many bytes an xchg really exchanges)
    for env, regs in (("x64l", [7, 6, 2, 1]), ("x64w", [1, 2, 8, 9])):
        for ta, tb in ((38, 40), (40, 38), (39, 41), (41, 39), (34, 40), (40, 36), (38, 39), (36, 38), (38, 36)):
            for rta in (5, 6):
                for rtb in (5, 6):
                    ops.append(sh_line(env, [ta, tb], ["r%d.%d" % (rta, regs[1]), "r%d.%d" % (rtb, regs[0])]))
                    ops.append(sh_line(env, [ta, tb, 40], ["r%d.%d" % (rta, regs[1]), "r%d.%d" % (rtb, regs[0]), "r6.%d" % regs[3]]))
    # stack-arguments base pointer (SA): dynamically aligned frame without frame pointer, stack arguments loaded into registers, and the
    # SA register moving during the shuffle (requested SA register occupied by an incoming argument; an argument assigned to the
    # register picked for SA; SA requested while arguments chain through it)
    for env, cc, t, rt, nreg, pool in (("x64l", 0, 40, 6, 6, [7, 6, 2, 1, 8, 9, 0, 3, 10, 11]), ("a64l", 0, 40, 6, 8, [0, 1, 2, 3, 9, 10, 11, 12]),
                                       ("x86l", 7, 38, 5, 3, [0, 2, 1, 3, 6, 7]), ("x64w", 0, 40, 6, 4, [1, 2, 8, 9, 0, 3, 10, 11])):
        nst = 2
        for ff in (0x2000, 0x4000, 0x2002):
            for sa in ["-"] + [str(r) for r in pool[:4]]:
                for first_dst in pool[:6]:
                    dsts = ["r%d.%d" % (rt, first_dst)] + ["-"] * (nreg - 1)
                    st_dsts = [r for r in pool[4:] + pool[:4] if r != first_dst and str(r) != sa][:nst]
                    ops.append(sh_line(env, [t] * (nreg + nst), dsts + ["r%d.%d" % (rt, r) for r in st_dsts], ff, sa, cc))
                # two register arguments exchanged + stack loads
                dsts = ["r%d.%d" % (rt, pool[1]), "r%d.%d" % (rt, pool[0])] + ["-"] * (nreg - 2)
                ops.append(sh_line(env, [t] * (nreg + nst), dsts + ["r%d.%d" % (rt, r) for r in pool[4:4 + nst]], ff, sa, cc))
    # requested SA register that is no allocable GP register: the stack pointer, a preserved frame pointer, ids beyond the register file
    for env, cc, t, rt, nreg, spid, fpid in (("x64l", 0, 40, 6, 6, 4, 5), ("x86l", 7, 38, 5, 3, 4, 5), ("a64l", 0, 40, 6, 8, 31, 29)):
        for ff, sa in ((0x2000, spid), (0, spid), (0x2001, fpid), (0x2000, 40), (0x2000, 200)):
            ops.append(sh_line(env, [t] * (nreg + 1), ["-"] * nreg + ["r%d.%d" % (rt, 3)], ff, str(sa), cc))
            ops.append(sh_line(env, [t] * (nreg + 1), ["r%d.%d" % (rt, 3)] + ["-"] * nreg, ff, str(sa), cc))
    # destination register = source register with a different type (conversion in place)
    for env in ("x64l", "a64l"):
        for st, dt in ((42, 43), (42, 80), (43, 79), (42, 70), (59, 80), (69, 80), (79, 80), (79, 79), (42, 42), (43, 42)):
            ops.append(sh_line(env, [st], ["r11.0.%d" % dt]))
            ops.append(sh_line(env, [40, st, st], ["r6.%d" % (6 if env == "x64l" else 1), "r11.0.%d" % dt, "r11.2.%d" % dt]))
    # light-call: mask / mmx / vector registers, conversions
    for cc in (16, 18):
        for env in ("x64l", "x86l"):
            ops.append(sh_line(env, [45, 46, 47, 48], ["r16.1", "r16.0", "r16.3", "r16.2"], 0, "-", cc))
            ops.append(sh_line(env, [49, 50, 50], ["r28.1", "r28.0", "r28.5"], 0, "-", cc))
            ops.append(sh_line(env, [47, 48, 38], ["r5.3.39", "r16.5", "r16.6.47"], 0, "-", cc))
            ops.append(sh_line(env, [50, 79, 38], ["r11.5", "r28.3", "r28.4"], 0, "-", cc))
            ops.append(sh_line(env, [79, 89, 99, 65, 55], ["r11.5", "r12.6", "r13.7", "r11.1.65", "r11.0.55"], 2, "-", cc))
            ops.append(sh_line(env, [69, 79, 80, 43], ["r11.4.80", "r11.5.70", "r11.6.79", "r11.7.79"], 0, "-", cc))
    for _ in range(nrand):
        env = rng.choice(["x64l", "x64l", "a64l", "x86l", "x86w", "x64w"])
        cc = rng.choice({"x64l": [0, 0, 16, 33], "a64l": [0], "x86l": [0, 2, 7, 16], "x86w": [0, 2, 4, 7], "x64w": [0, 3]}[env])
        k = rng.randrange(1, 9)
        ipool = [38, 34, 36, 39] if env.startswith("x86") else [40, 38, 34, 41, 37]
        pool = ipool * 3 + [43, 42, 79, 79] + ([89, 45, 48, 50] if cc == 16 else [])
        types = [rng.choice(pool) for _ in range(k)]
        nreg = 8 if env.startswith("x86") else (16 if env.startswith("x64") else 31)
        dsts = []
        used = set()
        for t in types:
            r = rng.random()
            if r < 0.12:
                dsts.append("-")
                continue
            if r < 0.22:
                dsts.append("s%d" % (16 * len(dsts)) + rng.choice(["", ".%d" % t]))
                continue
            isint = t in (34, 35, 36, 37, 38, 39, 40, 41)
            if t in (45, 48):
                rt, lim = 16, 8
            elif t == 50:
                rt, lim = 28, 8
            elif isint:
                rt, lim = rng.choice([5, 6] if not env.startswith("x86") else [5]), nreg
            else:
                rt, lim = (12 if t == 89 else 11), (8 if env.startswith("x86") else 16)
            conv = rng.random() < 0.04
            if conv:
                rt = rng.choice([5, 6, 11])          # conversion between groups
            for _try in range(8):
                rid = rng.randrange(0, lim)
                if (rt if rt in (16, 28) else (0 if rt <= 6 else 1), rid) not in used:
                    break
            used.add((rt if rt in (16, 28) else (0 if rt <= 6 else 1), rid))
            dt = ""
            if rng.random() < 0.3 and isint and not conv:
                dt = ".%d" % rng.choice([38, 39] + ([] if env.startswith("x86") else [40, 41]))
            dsts.append("r%d.%d%s" % (rt, rid, dt))
        ff = rng.choice([0, 0, 0, 1, 2, 4, 0x2000, 0x2001])
        sa = "-" if rng.random() < 0.85 else str(rng.randrange(0, nreg))
        ops.append(sh_line(env, types, dsts, ff, sa, cc))
    return ops


def scalar_of(t):
    if 32 <= t <= 44:
        return t
    for lo in (51, 61, 71, 81, 91):
        if lo <= t <= lo + 9:
            return t - lo + 34
    return 0


def tsize(t):
    return {34: 1, 35: 1, 36: 2, 37: 2, 38: 4, 39: 4, 40: 8, 41: 8, 42: 4, 43: 8}.get(t, 0)


def bad_args_widen(types, dsts, m):
    """every destination the monitor rejects belongs to a variable whose destination type is wider than its source type (K3)"""
    if "[" not in m:
        return False
    bad = [int(x) for x in m[m.index("[") + 1:m.index("]")].split(",") if x.strip()]
    if not bad:
        return False
    for ai in bad:
        if ai >= len(dsts) or not dsts[ai].startswith("r"):
            return False
        f = dsts[ai].split(".")
        dsz = tsize(int(f[2])) if len(f) == 3 else {5: 4, 6: 8}.get(int(f[0][1:]), 0)
        if not (tsize(types[ai]) and dsz > tsize(types[ai])):
            return False
    return True


def sh_key(op, m, ans=""):
    """stable key of the failing class; the three known classes are recognised by what the real code emitted"""
    w = op.split()
    env = w[1]
    n = int(w[5])
    types = [int(x) for x in w[6:6 + n]]
    dsts = w[8 + n:]
    insts = [i.strip() for i in ans.split("|")[-1].split(";") if i.strip()]
    small = any(t in (34, 35, 36, 37, 38, 39) for t in types)
    def grp(rt):
        return 0 if 2 <= rt <= 6 else 1 if 7 <= rt <= 15 else 2 if rt == 16 else 3 if rt == 28 else 15
    groups = {grp(int(d.split(".")[0][1:])) for d in dsts if d.startswith("r")}
    has_xchg = any(i.startswith("xchg") for i in insts)
    if "dest-of-arg" in m:
        if env.startswith("a64") and small:
            return "shuffle:a64-no-extension"
        if has_xchg and len(groups) > 1:
            return "shuffle:cross-group-swap"
        if has_xchg and small and bad_args_widen(types, dsts, m):
            return "shuffle:swap-without-extension"
        if has_xchg:
            return "shuffle:swap-corrupts-value:" + env
        # a vector register argument whose destination is the same register with another scalar type: no instruction writes it
        bad_args = [int(x) for x in m[m.index("[") + 1:m.index("]")].split(",") if x.strip()] if "[" in m else []
        written = {i.split()[1] for i in insts if len(i.split()) > 1}
        k7 = []
        for ai in bad_args:
            if ai < len(dsts):
                f = dsts[ai].split(".")
                if dsts[ai].startswith("r") and len(f) == 3 and 9 <= int(f[0][1:]) <= 13 and \
                        {scalar_of(types[ai]), scalar_of(int(f[2]))} == {42, 43} and ("r%s.%s" % (f[0][1:], f[1])) not in written \
                        and not any(w.startswith("r") and w[1:].split(".")[1] == f[1] and 7 <= int(w[1:].split(".")[0]) <= 15 for w in written):
                    k7.append(ai)
        if bad_args and len(k7) == len(bad_args):
            return "shuffle:same-register-conversion-skipped"
        if env.startswith("a64") and bad_args and all(
                ai < len(dsts) and dsts[ai].count(".") == 2 and {scalar_of(types[ai]), scalar_of(int(dsts[ai].split(".")[2]))} == {42, 43}
                for ai in bad_args):
            return "shuffle:a64-no-extension"      # a64 emit_arg_move has no float<->double conversion either (K5)
        if any(i.lstrip("v").startswith("cvt") for i in insts):
            return "shuffle:float-conversion-inverted"
        return "shuffle:wrong-or-unextended-value:" + env
    return "shuffle:" + " ".join(m.split()[:2])


def run_shuffle(res, h, rng):
    ops = gen_sh(rng, res.tier)
    impl, rc, err = vlib.run_lines([str(h)], ops)
    crashed = []
    if rc != 0 or len(impl) != len(ops):
        # isolate crashing / hanging lines (a sanitizer report or the alarm ends the process): chunks of 64 first, then line by line
        impl = []
        for c0 in range(0, len(ops), 64):
            chunk = ops[c0:c0 + 64]
            r, rc1, e1 = vlib.run_lines([str(h)], chunk)
            if rc1 == 0 and len(r) == len(chunk):
                impl += r
                continue
            for o in chunk:
                r, rc1, e1 = vlib.run_lines([str(h)], [o])
                if rc1 != 0 or len(r) != 1:
                    crashed.append((o, e1))
                    impl.append("crash")
                else:
                    impl.append(r[0])
    mon_ops, idx = [], []
    for i, (o, r) in enumerate(zip(ops, impl)):
        if r != "crash" and not r.startswith("bad-op"):
            mon_ops.append("mon" + o + " | " + r)
            idx.append(i)
    mon, rc3, err3 = vlib.run_model("C06", mon_ops)
    if len(mon) != len(mon_ops):
        res.violation("shuffle monitor protocol failure %d/%d %s" % (len(mon), len(mon_ops), err3[-300:]), {}, False, key="protocol")
        return None
    kinds = {}
    bad = {}
    for k, m in enumerate(mon):
        kk = "sh:" + ops[idx[k]].split()[1] + ":" + " ".join(m.split()[:1])
        kinds[kk] = kinds.get(kk, 0) + 1
        if m.startswith("BAD") or m.startswith("bad-op"):
            bad.setdefault(sh_key(ops[idx[k]], m, impl[idx[k]]), []).append((idx[k], m))
        elif m == "refused":
            e = impl[idx[k]].split("|")[0].strip()
            kinds["sh-refused:" + e.split(" sa=")[0]] = kinds.get("sh-refused:" + e.split(" sa=")[0], 0) + 1
    # ---- correspondence: the Lean model of init_work_data + emit_args_assignment on the same lines, frame facts taken from the header
    mops, midx = [], []
    for i, (o, r) in enumerate(zip(ops, impl)):
        if r == "crash" or " fr=" not in r:
            continue
        fr = r.split(" fr=")[1].split()[0].split(".")
        mops.append("shm" + o[2:] + " # " + " ".join(fr))
        midx.append(i)
    mres, rc4, err4 = vlib.run_model("C06", mops)
    corr = []
    if len(mres) != len(mops):
        res.violation("shuffle model protocol failure %d/%d %s" % (len(mres), len(mops), err4[-300:]), {}, False, key="protocol")
    else:
        for k, mr in enumerate(mres):
            r = impl[midx[k]]
            head, _, insts = r.partition(" | ")
            canon = head.split(" sa=")[0] + " | " + insts.strip()
            if canon.strip() != mr.strip():
                corr.append((ops[midx[k]], canon, mr))
        kinds["sh-model-compared"] = len(mres)
    res.coverage["sh_model_vs_impl_compared"] = len(mres)
    # ---- runtime guard of the hypothesis of shuffle_correct_regs: every register-only initial context of the sweep satisfies WF
    wres, _, errw = vlib.run_model("C06", ["wf0" + m[3:] for m in mops])
    if len(wres) != len(mops):
        res.violation("wf0 protocol failure %d/%d %s" % (len(wres), len(mops), errw[-300:]), {}, False, key="protocol")
    else:
        nwf = sum(1 for w in wres if w == "good")
        badwf = [(mops[k], w) for k, w in enumerate(wres) if w.startswith("BAD") or w.startswith("bad-op")]
        res.coverage["sh_initial_contexts_checked_WF"] = nwf
        kinds["sh-wf0-good"] = nwf
        kinds["sh-wf0-skip"] = sum(1 for w in wres if w.startswith("skip"))
        if badwf:
            o, w = min(badwf, key=lambda c: len(c[0]))
            res.violation("the initial context init_work_data builds does not satisfy the invariant WF that shuffle_correct_regs starts from "
                          "(%d lines), e.g. %s -> %s" % (len(badwf), o, w), {"ops": [o], "unchecked": "initWorkData_wf"}, False, key="wf0")
    res.coverage.setdefault("input_distribution", {}).update(kinds)
    res.coverage["sh_evaluations"] = len(ops)
    res.coverage["sh_nontrivial"] = len({o for o, r in zip(ops, impl) if r.startswith("ok") and r.split("|")[-1].strip()})
    res.coverage["sh_judged_by_machine_monitor"] = sum(1 for m in mon if m == "good" or m.startswith("BAD"))
    res.add_samples([{"op": ops[i], "impl": impl[i]} for i in (len(ops) // 2, len(ops) - 1)], limit=6)
    hangs = [c for c in crashed if "TIMEOUT" in c[1]]
    crashes = [c for c in crashed if "TIMEOUT" not in c[1]]
    res.coverage["sh_hangs"] = len(hangs)
    hk = {}
    for o, e1 in hangs:
        w = o.split()
        nn = int(w[5])
        noswap = w[1].startswith("a64")
        key = "shuffle:hang:no-swap-destination-held-by-sa" if noswap and (int(w[6 + nn], 16) >> 8 or w[7 + nn] != "-") else "shuffle:hang:" + w[1]
        hk.setdefault(key, []).append((o, e1))
    for key, lst in sorted(hk.items()):
        o, e1 = min(lst, key=lambda c: len(c[0]))
        res.violation("emit_args_assignment does not return (harness alarm after 5 s) on %r (%s, %d inputs)" % (o, key, len(lst)),
                      {"ops": [o], "stderr": e1[-500:]}, True, key=key)
    if crashes:
        o, e1 = min(crashes, key=lambda c: len(c[0]))
        key = "crash:vec-signature-ctz" if "ctz" in e1 else "crash:sh"
        res.violation("emit_args_assignment: sanitizer report / crash on %r (%d inputs): %s" % (o, len(crashes), e1.strip().splitlines()[0][:300] if e1.strip() else "?"),
                      {"ops": [o], "stderr": e1[-2000:]}, True, key=key)
    for key, lst in sorted(bad.items()):
        i, m = min(lst, key=lambda x: len(ops[x[0]]))
        res.violation("argument shuffle leaves a destination without its (extended) argument (%s, %d inputs): %s -> %s ; monitor: %s"
                      % (key, len(lst), ops[i], impl[i], m), {"ops": [ops[i]], "impl": impl[i], "monitor": m}, True, key=key)
    res.coverage["sh_model_vs_impl_differences"] = len(corr)
    if corr:
        vlib.log("  [sh corr] %d differences, e.g. %r" % (len(corr), min(corr, key=lambda c: len(c[0]))))
        o, a, b = min(corr, key=lambda c: len(c[0]))
        return (o, a, b, len(corr))
    return None
