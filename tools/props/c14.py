"""C14 — invalid input is rejected with an error and leaves the emitter state untouched (DESIGN.md section 6, C14)."""
import re

import vlib
import gen_c14
from props import c14_builder, c14_a64oracle

PID = "C14"
MANIFEST = {
    "technique": "Lean 4 theorems over a hand model of the assemblers' commit discipline (all states, operations and histories) + generated "
                 "commit-discipline/table-bound facts of the current sources + C++/Lean correspondence and a Lean monitor judging every "
                 "public-API call of the real code against a shadow emitter that only saw the accepted calls (ASan+UBSan)",
    "text": "Model/Emitter.lean transcribes BaseEmitter::_report_error/reset_state, log_instruction_failed, CodeWriter, BaseAssembler::bind/"
            "embed*/section/new_*label, CodeHolder::bind_label/new_named_label_id/new_section argument checks, x86/a64 Assembler::align and the "
            "frame of Assembler::_emit (EmitDone / Failed) around an encoder whose outcome is a parameter. Lean proves for every state, call and "
            "history: a failed call leaves the state identical apart from the cleared one-shot state (failed_call_atomic_partial), the one-shot "
            "state is cleared after every instruction call, a failure is reported exactly once and a success never, an instruction naming a "
            "non-existent label id is never accepted, the final state of any history equals the state of an emitter fed the accepted calls only "
            "(fresh_after_failure_partial), and each model step satisfies the monitor that judges the real code (model_step_satisfies_monitor). "
            "Generated from the current sources and checked by decide: no failure exit follows a state-creating call inside _emit except that "
            "call's own allocation failure, every label_entry_of is dominated by an is_label_valid test, operand-indexed tables are large "
            "enough. The tie runs the real emitters (x86-32/64 with strict validation, AArch64; Assembler, Builder, Compiler; returning, "
            "recording, throwing and absent handlers) on mutated database forms, uniform random tuples and valid/invalid "
            "bind/align/embed/section/label arguments; every answer is judged by the Lean monitor and, for Assemblers, compared with the model.",
    "note": "Partial: the encoder's accept/reject decision and bytes are a parameter of the model (C01/C02/C13), so 'emits a correct instruction' "
            "is only judged through necessary conditions (labels exist, AArch64 register ids fit their fields); undefined behaviour is witnessed "
            "by ASan/UBSan on the explored inputs, not proved; allocation failure is C15. The Builder is tied to C08's Model/Builder.lean (Props/C14Builder.lean: a refused Builder call is the "
            "identity, a refused instruction clears the one-shot state, a session equals the session of its accepted calls, a failed "
            "serialize/finalize leaves exactly the accepted prefix) by replaying every Builder session on the model and by comparing every "
            "finalize() with direct assembling of the serialized calls; the Compiler is covered by the monitor and the shadow differential only. "
            "Finding C14-K1 is closed by fixes C14-13/C14-14 (bind_label and embed_const_pool validate pending fixups before they change "
            "anything): every theorem is stated at full strength. "
            "Trusted: Lean kernel, Spec/Emitter.lean as the meaning of the property, tools/gen_c14.py (regex based, heuristic block scan), the "
            "harness snapshot (content digest of sections, labels, fixups, relocations, nodes).",
}
MODS = ["AsmjitVerif.Props.C14", "AsmjitVerif.Props.C14Builder"]
A64_PCREL = set()    # instruction ids that have a Label form
A64_NAMES = {}      # instruction id -> name (filled from the typed overloads of a64emitter.h on every run)
INVALID = 0xFFFFFFFF


def generate():
    """(re)write every Gen/ file the C14 Lean modules import, from the current /repo tree"""
    R = vlib.REPO
    vlib.gen_write("AsmjitVerif/Gen/ErrorCodes.lean", gen_c14.render_error_codes(gen_c14.error_enum(R)))
    vlib.gen_write("AsmjitVerif/Gen/EmitSites.lean", gen_c14.render_emit_sites(gen_c14.emit_sites(R)))
    vlib.gen_write("AsmjitVerif/Gen/TableBounds.lean", gen_c14.render_tables(gen_c14.tables(R)))


# ------------------------------------------------------------------------------------------------------------------
# operand generation

X86_GP_TYPES = (2, 4, 5, 6)          # gp8lo, gp16, gp32, gp64
X86_VEC_TYPES = (11, 12, 13)


class Gen:
    def __init__(self, rng, arch, forms, ninst, corpus=None):
        self.rng, self.arch, self.forms, self.ninst = rng, arch, forms, ninst
        self.corpus = corpus          # [(inst, kinds, ops, ctx)] of calls the real encoder accepted in the probe pass
        self.last_meta = None
        self.a64 = arch == "a64"
        self.byelem = sorted({f[0] for f in forms if f[1] in A64_BY_ELEMENT_H_RM4 and f[2] == ("Vec", "Vec", "Vec")}) if self.a64 else []
        self.labels = 0
        self.sections = 1

    # ---- ids ----
    def label_id(self, valid_bias=0.7):
        r = self.rng
        if self.labels and r.random() < valid_bias:
            return r.randrange(self.labels)
        return r.choice((self.labels, self.labels + 1, INVALID, self.labels + r.randrange(2, 300), 0x7FFFFFFF, 0))

    def reg_id(self, wild):
        r = self.rng
        if not wild:
            return r.randrange(8) if self.arch == "x86" else r.randrange(16 if not self.a64 else 31)
        # physical ids in and out of every register file, and virtual ids (>= 256: only a Compiler may accept them)
        return r.choice((r.randrange(32), r.randrange(256), 31, 32, 33, 40, 63, 64, 15, 16, 7, 8, 255, 254, 127, 128,
                         256, 257, 258, 300, 511, 65535, 0xFFFFFFFE))

    # ---- x86 ----
    def x86_mem(self, wild, size=None):
        r = self.rng
        k = r.random()
        size = size if size is not None else r.choice((0, 0, 1, 2, 4, 8, 16, 32, 64))
        it, ii, shift = 0, 0, 0
        if r.random() < 0.3:
            it = r.choice((6, 5)) if not wild else r.randrange(32)
            ii = self.reg_id(wild)
            shift = r.randrange(4)
        off = r.choice((0, 0, 8, -8, 127, 128, -129, 0x7FFFFFFF, -0x80000000, r.randrange(-70000, 70000)))
        seg = r.choice((0, 0, 0, 0, 1, 4, 5, 6, 7)) if not wild else r.randrange(8)
        bc = 0 if r.random() < 0.9 else r.randrange(8)
        addr = r.choice((0, 0, 0, 1, 2))
        if k < 0.25 or (wild and k < 0.5):
            kind, a, b = "l", self.label_id(0.5 if wild else 0.85), 0
            if r.random() < 0.7:
                it, ii, shift = 0, 0, 0
        elif k < 0.35:
            kind, a, b = "a", 0, 0
            off = r.choice((0, 0x1000, -1, 0xFFFFFFFF, 0x7FFFFFFF, 0x123456789, -0x80000000, r.getrandbits(63)))
        else:
            kind = "r"
            a = (6 if self.arch == "x64" else 5) if not wild else r.choice((6, 5, 4, 2, 31, 11, 16, r.randrange(32)))
            b = self.reg_id(wild)
        return "m%s%d,%d,%d,%d,%d,%d,%d,%d,%d,%d,0" % (kind, a, b, it, ii, shift, off, size, seg, bc, addr)

    def x86_operand(self, kind, ctx, wild):
        r = self.rng
        if kind == "Gp":
            return "r%d.%d" % (ctx["gp"], self.reg_id(wild))
        if kind.startswith("Gp_"):
            fixed = {"AL": (2, 0), "AH": (3, 0), "CL": (2, 1), "AX": (4, 0), "DX": (4, 2), "EAX": (5, 0), "EBX": (5, 3), "ECX": (5, 1),
                     "EDX": (5, 2), "RAX": (6, 0), "RBX": (6, 3), "RCX": (6, 1), "RDX": (6, 2)}
            nm = kind[3:]
            if nm in fixed:
                t, i = fixed[nm]
            else:   # ZAX ZCX ZDX: native size
                t, i = (6 if self.arch == "x64" else 5), {"ZAX": 0, "ZCX": 1, "ZDX": 2, "ZBX": 3}.get(nm, 0)
            return "r%d.%d" % (t, i if not wild else self.reg_id(True))
        if kind == "Vec":
            return "r%d.%d" % (ctx["vec"], self.reg_id(wild))
        if kind == "XMM0":
            return "r11.%d" % (0 if not wild else self.reg_id(True))
        if kind == "Mem":
            return self.x86_mem(wild, ctx.get("msize"))
        if kind in ("DS_ZSI", "DS_ZDI", "ES_ZDI", "DS_ZAX"):
            base = {"DS_ZSI": 6, "DS_ZDI": 7, "ES_ZDI": 7, "DS_ZAX": 0}[kind]
            t = 6 if self.arch == "x64" else 5
            seg = 1 if kind.startswith("ES") else 0
            return "mr%d,%d,0,0,0,0,%d,%d,0,0,0" % (t, base if not wild else self.reg_id(True), ctx.get("msize", 0) or 0, seg)
        if kind == "Imm":
            return "i%d" % r.choice((0, 1, -1, 3, 8, 127, 128, 255, 256, -129, 0x7FFFFFFF, 0x80000000, 0xFFFFFFFF, -0x80000000, r.getrandbits(64) - (1 << 63),
                                      r.randrange(-200, 200)))
        if kind == "Label":
            return "l%d" % self.label_id(0.85 if not wild else 0.4)
        t = {"Mm": 28, "KReg": 16, "St": 29, "Tmm": 17, "Bnd": 30, "SReg": 25, "CReg": 26, "DReg": 27}.get(kind)
        if t is not None:
            return "r%d.%d" % (t, r.randrange(8) if not wild else self.reg_id(True))
        return "-"

    # ---- a64 ----
    def a64_reg(self, kind, ctx, wild):
        r = self.rng
        if kind == "Gp":
            i = r.choice((r.randrange(31), r.randrange(31), 31, 63)) if not wild else self.reg_id(True)
            return "r%d.%d" % (ctx["gp"], i)
        et = ctx["et"]
        idx = -1
        if r.random() < 0.15:
            idx = r.randrange(16) if not wild else r.randrange(64)
        return "v%d.%d.%d.%d" % (ctx["vec"], r.randrange(32) if not wild else self.reg_id(True), et if not wild else r.randrange(8), idx)

    def a64_mem(self, wild):
        r = self.rng
        k = r.random()
        bt = 6 if not wild else r.choice((6, 5, 11, 31, r.randrange(32)))
        bid = r.choice((r.randrange(31), 31)) if not wild else self.reg_id(True)
        it, ii, sop, sh = 0, 0, 0, 0
        off = r.choice((0, 0, 8, 16, -8, 255, 256, -256, -257, 4095, 4096, 32760, 1 << 20, -(1 << 20), r.randrange(-5000, 5000)))
        mode = r.choice((0, 0, 0, 1, 2))
        if k < 0.2 or (wild and k < 0.45):
            return "Ml%d,0,0,0,0,0,%d,%d" % (self.label_id(0.85 if not wild else 0.4), off, mode if wild else 0)
        if k < 0.25:
            return "Ma0,0,0,0,0,0,%d,0" % r.choice((0, 0x1000, 1 << 33, -4))
        if r.random() < 0.3:
            it = r.choice((6, 5)) if not wild else r.randrange(32)
            ii = r.randrange(31) if not wild else self.reg_id(True)
            sop = r.choice((0, 0, 6, 7, 8, 9, 10, 11, 12, 13)) if not wild else r.randrange(16)
            sh = r.randrange(5) if not wild else r.randrange(64)
        return "Mr%d,%d,%d,%d,%d,%d,%d,%d" % (bt, bid, it, ii, sop, sh, off, mode)

    def a64_operand(self, kind, ctx, wild):
        r = self.rng
        if kind in ("Gp", "Vec"):
            return self.a64_reg(kind, ctx, wild)
        if kind == "Mem":
            return self.a64_mem(wild)
        if kind == "Imm":
            return "i%d" % r.choice((0, 1, 2, 3, 4, 7, 8, 12, 15, 16, 31, 32, 63, 64, 255, 256, 4095, 4096, 0xFFFF, 0x10000, -1, -256, 1 << 32,
                                      0xFF00FF00FF00FF00 - (1 << 64), r.getrandbits(64) - (1 << 63), r.randrange(-70000, 70000)))
        if kind == "Label":
            return "l%d" % self.label_id(0.85 if not wild else 0.4)
        return "-"

    # ---- instruction calls ----
    def ctx(self):
        r = self.rng
        if self.a64:
            return {"gp": r.choice((5, 6, 6)), "vec": r.choice((11, 11, 10, 9, 8, 7)), "et": r.choice((0, 0, 1, 2, 3, 4))}
        gp = r.choice((5, 5, 6, 4, 2)) if self.arch == "x64" else r.choice((5, 5, 4, 2))
        return {"gp": gp, "vec": r.choice(X86_VEC_TYPES if r.random() < 0.5 else (11,)),
                "msize": r.choice((None, None, 0, {2: 1, 4: 2, 5: 4, 6: 8}[gp]))}

    def emit(self, emitter, stream=None):
        r = self.rng
        self.last_meta = None
        stream = r.random() if stream is None else stream
        opts, extra, cmt = 0, "-", 0
        if r.random() < 0.25:
            bits = (0x2, 0x4, 0x10, 0x20, 0x40, 0x80, 0x100, 0x200, 0x400, 0x800, 0x1000, 0x2000, 0x4000, 0x8000, 0x10000, 0x20000, 0x40000,
                    0x80000, 0x200000, 0x400000, 0x1000000, 0x8000000)
            for _ in range(r.choice((1, 1, 2, 3))):
                opts |= r.choice(bits)
        if r.random() < 0.15:
            extra = r.choice(("16.%d" % r.randrange(8), "16.%d" % r.randrange(8), "6.1", "5.1", "%d.%d" % (r.randrange(32), r.randrange(40))))
        if r.random() < 0.2:
            cmt = 1
        if self.a64 and self.corpus and r.random() < 0.15:
            # position sweep: an accepted form with ONE register position replaced by SP/WSP (id 31), ZR (63), the first id outside the
            # file (32), a virtual id, or the register of the other size - every operand position of every encoding class gets its turn;
            # no decoration, so that C02's encoder model judges the outcome
            inst, kinds, ops, ctx = r.choice(self.corpus)
            ops = list(ops)
            regpos = [i for i, t in enumerate(ops) if t[0] in "rv"]
            if regpos:
                i = r.choice(regpos)
                t = ops[i]
                if t[0] == "r":
                    ty, _ = t[1:].split(".")
                    v = r.choice(("31", "31", "63", "32", "256", "size"))
                    ops[i] = "r%s.%s" % (("5" if ty == "6" else "6"), t[1:].split(".")[1]) if v == "size" else "r%s.%s" % (ty, v)
                else:
                    p = t[1:].split(".")
                    v = r.choice(("31", "32", "63", "size"))
                    if v == "size":
                        p[0] = str(r.choice([x for x in (7, 8, 9, 10, 11) if str(x) != p[0]]))
                    else:
                        p[1] = v
                    ops[i] = "v" + ".".join(p)
            return "emit %d 0 - 0 %s" % (inst, " ".join(ops))
        if self.a64 and self.byelem and r.random() < 0.12:
            # vector x indexed-element forms with half-precision/halfword elements: the indexed register only has a 4-bit field
            inst = r.choice(self.byelem)
            t = r.choice((11, 11, 10))
            idx = r.randrange(8) if r.random() < 0.9 else r.randrange(16)
            ops = ["v%d.%d.2.-1" % (t, r.randrange(32)), "v%d.%d.2.-1" % (t, r.randrange(32)),
                   "v11.%d.%d.%d" % (r.randrange(32), 2 if r.random() < 0.85 else 3, idx)]
            if r.random() < 0.3:     # widening forms: 4s destination
                ops[0] = "v11.%d.3.-1" % r.randrange(32)
        elif stream < 0.2 and self.a64:
            # AArch64 has no operand validator: operand kinds (and register types) are kept, every other field is perturbed
            inst, name, kinds = r.choice(self.forms)
            ctx = self.ctx()
            ops = [self.operand(k, ctx, True) for k in kinds]
            if r.random() < 0.2:
                inst = r.choice((0, self.ninst, inst | (r.randrange(1, 16) << 27)))
        elif stream < 0.2:   # stream B: uniform (x86: strict validation judges arbitrary kinds)
            inst = r.choice((r.randrange(self.ninst + 3), r.randrange(self.ninst), 0, self.ninst, self.ninst + 1, INVALID, r.getrandbits(32)))
            n = r.randrange(7)
            ctx = self.ctx()
            kinds = ("Gp", "Vec", "Mem", "Imm", "Label", "KReg", "Mm", "SReg", "St") if not self.a64 else ("Gp", "Vec", "Mem", "Imm", "Label")
            ops = []
            for _ in range(n):
                if r.random() < 0.1:
                    ops.append("-")
                elif r.random() < 0.25:
                    ops.append("r%d.%d" % (r.randrange(32), self.reg_id(True)))
                else:
                    ops.append(self.operand(r.choice(kinds), ctx, r.random() < 0.5))
        else:              # streams A / V: database forms, mutated in 0..3 places
            nmut = 0 if stream < 0.5 else r.choice((1, 1, 2, 3))
            if self.corpus and r.random() < 0.85:
                inst, kinds, ops, ctx = r.choice(self.corpus)
                kinds, ops, ctx = list(kinds), list(ops), dict(ctx)
            else:
                inst, name, kinds = r.choice(self.forms)
                kinds = list(kinds)
                ctx = self.ctx()
                ops = [self.operand(k, ctx, False) for k in kinds]
            if nmut == 0:
                self.last_meta = (inst, tuple(kinds), tuple(ops), dict(ctx))
            for _ in range(nmut):
                m = r.random()
                if ops and m < 0.45:        # id / field perturbation, kind kept
                    i = r.randrange(len(ops))
                    ops[i] = self.operand(kinds[i], self.ctx() if r.random() < 0.3 else ctx, True)
                elif ops and m < 0.6 and not self.a64:   # kind replaced (x86 only: the typed overloads are bypassed by the raw call)
                    i = r.randrange(len(ops))
                    kinds[i] = r.choice(("Gp", "Vec", "Mem", "Imm", "Label", "KReg"))
                    ops[i] = self.operand(kinds[i], self.ctx(), r.random() < 0.3)
                elif len(ops) >= 2 and m < 0.7 and not self.a64:
                    i, j = r.sample(range(len(ops)), 2)
                    ops[i], ops[j] = ops[j], ops[i]
                    kinds[i], kinds[j] = kinds[j], kinds[i]
                elif m < 0.8 and not self.a64:
                    if ops and r.random() < 0.5:
                        ops.pop()
                        kinds.pop()
                    elif len(ops) < 6:
                        kinds.append(r.choice(("Gp", "Imm", "Vec")))
                        ops.append(self.operand(kinds[-1], ctx, False))
                elif m < 0.9:
                    opts |= r.choice((0x10, 0x20, 0x2000, 0x4000, 0x8000, 0x10000, 0x20000, 0x40000, 0x80000, 0x1000, 0x800, 0x400))
                else:
                    inst = r.choice((0, self.ninst, inst + 1, inst | 0x10000, INVALID)) if not self.a64 else \
                        r.choice((0, self.ninst, inst | (r.randrange(1, 16) << 27), inst | 0x10000))
        return "emit %d %x %s %d %s" % (inst & 0xFFFFFFFF, opts, extra, cmt, " ".join(ops))

    def operand(self, kind, ctx, wild):
        return self.a64_operand(kind, ctx, wild) if self.a64 else self.x86_operand(kind, ctx, wild)

    # ---- other calls ----
    def other(self):
        r = self.rng
        k = r.random()
        if k < 0.2:
            self.labels += 1
            return "label"
        if k < 0.27:
            t = r.choice((0, 1, 2, 2, 3, 4, 9))
            name = r.choice(("", "a", "L1", "L1", "main", "x" * 30, "y" * 2048, "z" * 2049)).encode().hex() or "-"
            parent = r.choice((INVALID, INVALID, 0, self.labels, self.labels + 5))
            self.labels += 1     # optimistic; a refused one makes later "valid" ids invalid, which is fine
            return "nlabel %s %d %d" % (name, t, parent)
        if k < 0.47:
            return "bind %d" % self.label_id(0.75)
        if k < 0.6:
            return "align %d %d" % (r.choice((0, 0, 1, 2, 3, 255)), r.choice((0, 1, 2, 4, 8, 16, 32, 64, 128, 3, 5, 48, 1 << 31, INVALID)))
        if k < 0.7:
            n = r.choice((0, 1, 1, 2, 3, 4, 5, 8, 17))
            return "embed %s" % (bytes(r.getrandbits(8) for _ in range(n)).hex() or "-")
        if k < 0.75:
            t = r.choice((35, 35, 34, 37, 39, 41, 40, 42, 43, 32, 33, 0, 1, 31, 255, 200))
            item = bytes(r.getrandbits(8) for _ in range(r.choice((0, 1, 2, 4)))).hex() or "-"
            return "embedarr %d %s %d %d" % (t, item, r.choice((0, 1, 2, 3, 7)), r.choice((0, 1, 1, 2, 3)))
        if k < 0.77:
            return "cpool %d %d %d" % (self.label_id(0.8), r.choice((1, 2, 4, 8, 8, 16)), r.choice((0, 1, 2, 3)))
        if k < 0.82:
            return "elabel %d %d" % (self.label_id(0.7), r.choice((0, 4, 8, 1, 2, 3, 16, 5)))
        if k < 0.87:
            return "edelta %d %d %d" % (self.label_id(0.75), self.label_id(0.75), r.choice((0, 4, 8, 1, 2, 3, 16)))
        if k < 0.92:
            name = r.choice((".data", ".rodata", "s", "n" * 35, "n" * 36, "")).encode().hex() or "-"
            self.sections += 1
            return "newsec %s %d %d" % (name, r.choice((0, 1, 2)), r.choice((0, 1, 8, 16, 64, 3, 12, 4096)))
        return "section %s" % r.choice(("0", "0", "1", "1", "2", "foreign", "7", str(self.sections)))

    def short_jump_overflow(self):
        """valid calls around the unreachable displacement: a short forward jump, 126..200 bytes, then bind (refused atomically since fix
        C14-13) or embed_const_pool (finding C14-K1: refused after the padding)"""
        r = self.rng
        lab = self.labels
        self.labels += 1
        inst = next(f[0] for f in self.forms if f[1] == "jmp" and f[2] == ("Label",))
        pad = r.choice((126, 127, 128, 129, 200))
        last = "bind %d" % lab if r.random() < 0.6 else "cpool %d 8 1" % lab      # the latter: what is left of finding C14-K1
        return ["label", "emit %d 10 - 0 l%d" % (inst, lab), "embed %s" % ("90" * pad), last]


def probe_corpus(h, rng, tier, forms_by_arch):
    """pass 1: unmutated typed forms with plausible operands are offered to the real assemblers; the accepted calls are the corpus the
    sessions replay and mutate (a naive generator is rejected ~85% of the time, which would leave the accepting paths unexplored)"""
    corpus = {}
    per_arch = 25 if tier == "quick" else 120
    for arch in ("x64", "x86", "a64"):
        forms, ninst = forms_by_arch["a64" if arch == "a64" else "x86"]
        lines, metas = [], []
        for _ in range(per_arch):
            g = Gen(rng, arch, forms, ninst)
            g.labels = 2
            lines += ["new %s asm rec 1" % arch, "label", "label", "bind 0"]
            metas += [None] * 4
            for _ in range(250):
                line = g.emit("asm", stream=0.3)
                if " 0 - 0 " not in line:        # keep only calls without one-shot decoration
                    line = re.sub(r"^(emit \d+) \S+ \S+ \S+", r"\1 0 - 0", line)
                lines.append(line)
                metas.append(g.last_meta)
        impl, rc, err = vlib.run_lines([str(h)], lines, timeout=3000)
        acc = []
        if rc == 0 and len(impl) == len(lines):
            for a, m in zip(impl, metas):
                if m is not None and a.startswith("0 "):
                    acc.append(m)
        corpus[arch] = acc
    return corpus


def gen_sessions(rng, tier, forms_by_arch, corpus=None):
    n = 700 if tier == "quick" else 20000
    sessions = []
    for k in range(n):
        arch = rng.choice(("x64", "x64", "x86", "a64", "a64"))
        emitter = rng.choice(("asm", "asm", "asm", "asm", "bld", "bld", "cmp"))
        handler = rng.choice(("ret", "rec", "thr", "thr", "none"))
        validate = 1 if arch != "a64" else rng.randrange(2)
        fa = "a64" if arch == "a64" else "x86"
        forms, ninst = forms_by_arch[fa]
        g = Gen(rng, arch, forms, ninst, (corpus or {}).get(arch))
        ops = ["new %s %s %s %d" % (arch, emitter, handler, validate)]
        for _ in range(rng.randrange(2, 4)):
            ops.append("label")
            g.labels += 1
        for _ in range(rng.randrange(15, 45)):
            if rng.random() < 0.5:
                ops.append(g.emit(emitter))
            else:
                call = g.other()
                if rng.random() < 0.3 and not call.startswith("cpool"):
                    # one-shot state pending while a non-instruction call is made (a.k(k1) / set_inline_comment, then bind/align/...)
                    call = "@%x,%s,%d %s" % (rng.choice((0, 0, 0x2000, 0x4000, 0x10, 0x1000)),
                                              rng.choice(("-", "-", "16.%d" % rng.randrange(8), "6.1")), rng.choice((1, 1, 0)), call)
                ops.append(call)
        if arch != "a64" and emitter == "asm" and rng.random() < 0.08:
            ops += g.short_jump_overflow()
            ops.append(g.emit(emitter))
        if emitter == "bld" and rng.random() < 0.5:
            ops.append("finalize")
        sessions.append(ops)
    return sessions


# ------------------------------------------------------------------------------------------------------------------
# answers of the harness

ANS_RE = re.compile(r"^(\d+) H (\S+) T ([01]) O (\S+) (\S+) (\S+) ([01]) P (\S+) (\S+) (\S+) ([01]) B (.*?) A (.*?) S (.*?) X (.*)$")


def parse_answer(a):
    m = ANS_RE.match(a)
    if not m:
        return None
    d = {"ret": int(m.group(1)), "handled": m.group(2), "thrown": m.group(3), "os": m.group(4, 5, 6, 7), "pre": m.group(8, 9, 10, 11),
         "B": m.group(12), "A": m.group(13), "S": m.group(14), "X": m.group(15)}
    for k in ("B", "A", "S"):
        d[k + "kv"] = dict(w.split("=", 1) for w in d[k].split())
    return d


def label_refs(op_words, a64):
    refs = []
    for t in op_words[5:]:
        if t.startswith("l"):
            refs.append(int(t[1:]))
        elif t.startswith("ml") or t.startswith("Ml"):
            refs.append(int(t[2:].split(",")[0]))
    return refs


# Arm ARM, "vector x indexed element" encodings whose element size is H: the index is H:L:M, so the M bit is not available for the
# register number and <Vm> is restricted to V0-V15 (FCMLA by element and the dot products keep the full 5-bit M:Rm)
A64_BY_ELEMENT_H_RM4 = {"fmla", "fmls", "fmul", "fmulx", "mla", "mls", "mul", "sqdmulh", "sqrdmulh", "sqrdmlah", "sqrdmlsh",
                        "smlal", "smlal2", "smlsl", "smlsl2", "smull", "smull2", "umlal", "umlal2", "umlsl", "umlsl2", "umull", "umull2",
                        "sqdmlal", "sqdmlal2", "sqdmlsl", "sqdmlsl2", "sqdmull", "sqdmull2", "fmlal", "fmlal2", "fmlsl", "fmlsl2"}


def phys_ids(op_words, inst_name=None):
    """AArch64: (register id as encoded, largest id the field holds) of every register named by the operands; zr (63) is encoded as 31;
    the indexed H operand of the by-element multiplies has a 4-bit register field"""
    out = []
    toks = op_words[5:]
    if inst_name in A64_BY_ELEMENT_H_RM4 and len(toks) == 3 and all(t[0] == "v" for t in toks):
        p = toks[2][1:].split(".")
        if int(p[2]) == 2 and int(p[3]) >= 0:
            out.append((int(p[1]), 15))

    def add(t, i):
        if t in (5, 6):
            out.append((31 if i == 63 else i, 31))
        elif 7 <= t <= 15:
            out.append((i, 31))

    for tok in op_words[5:]:
        if tok[0] == "r":
            t, i = tok[1:].split(".")
            add(int(t), int(i))
        elif tok[0] == "v":
            p = tok[1:].split(".")
            add(int(p[0]), int(p[1]))
        elif tok.startswith("Mr"):
            p = [int(x) for x in tok[2:].split(",")]
            add(p[0], p[1])
            if p[2]:
                add(p[2], p[3])
    return out


def opw(op):
    """words of a call without the optional one-shot prefix `@opts,extra,comment`"""
    w = op.split()
    return w[1:] if w and w[0].startswith("@") else w


def pre_of(op):
    w = op.split()
    return w[0] if w and w[0].startswith("@") else None


DEFINED_REG_TYPES = set()   # RegType values with register traits (read from core/operand.h on every run); any other type makes
#                             Reg::from_type_and_id an operand without a register


def x86_phys_ids(op_words, emitter):
    """x86 under strict validation: no register file has more than 32 registers, so an accepted operand (register, extra register, memory
    base / index) names an id <= 31 - or, in a Compiler only, a virtual id (>= 256)."""
    out = []

    def add(t, i):
        if t not in DEFINED_REG_TYPES or (emitter == "cmp" and i >= 256):
            return
        out.append((i, 31))

    if op_words[3] != "-" and int(op_words[3].split(".")[0]) in (2, 3, 4, 5, 6, 16):   # {k} / rep counter
        add(int(op_words[3].split(".")[0]), int(op_words[3].split(".")[1]))
    for tok in op_words[5:]:
        if tok[0] == "r":
            t, i = tok[1:].split(".")
            add(int(t), int(i))
        elif tok[0] == "m":
            p = tok[2:].split(",")
            if tok[1] == "r" and int(p[0]) != 31:      # rip has no id of its own
                add(int(p[0]), int(p[1]))
            if int(p[2]) != 0:
                add(int(p[2]), int(p[3]))
    return out


def monitor_line(sess_hdr, op, d):
    w = opw(op)
    arch, emitter, handler = sess_hdr[1], sess_hdr[2], sess_hdr[3]
    kind = "emit" if w[0] == "emit" else "holder" if w[0] == "newsec" else "finalize" if w[0] == "finalize" else \
        "bind" if w[0] == "bind" and emitter == "asm" else "call"
    refs, phys = [], []
    if w[0] == "emit":
        refs = label_refs(w, arch == "a64")
        if arch == "a64" and emitter == "asm":
            phys = phys_ids(w, A64_NAMES.get(int(w[1]) & 0xFFFF))
        elif arch != "a64" and sess_hdr[4] == "1":
            phys = x86_phys_ids(w, emitter)
    return "mon %s %d %s %d %s %s %s %s %s %s %s %s %s %s ; %s ; %s ; %s ; %s ; %s" % (
        kind, 1 if emitter == "asm" else 0, handler, d["ret"], d["handled"], d["thrown"], d["os"][0], d["os"][1], d["os"][2], d["os"][3],
        d["pre"][0], d["pre"][1], d["pre"][2], d["pre"][3], d["B"], d["A"], d["S"], ",".join(map(str, refs)) or "-", ",".join("%d:%d" % p for p in phys) or "-")


def model_line(sess_hdr, op, d):
    """the op as the model driver reads it: the encoder's outcome of an `emit` is taken from the implementation"""
    w = opw(op)
    pre = pre_of(op)
    if pre is not None:
        o, x, c = pre[1:].split(",")
        return "@%s,%d,%s %s" % (o, 0 if x == "-" else 1, c, model_line(sess_hdr, " ".join(w), d))
    if w[0] == "cpool":
        # the pool the harness builds: `count` distinct constants of one size, laid out in insertion order; alignment = the item size
        isz, cnt = int(w[2]), min(int(w[3]), 16)
        data = bytes((0xA0 + i + k) & 0xFF for i in range(cnt) for k in range(isz))
        return "cpool %s %d %s" % (w[1], isz if cnt else 0, data.hex() or "-")
    if w[0] != "emit":
        return " ".join(w)
    refs = label_refs(w, sess_hdr[1] == "a64")
    pre = "%s %d %s" % (w[2], 0 if w[3] == "-" else 1, w[4])
    head = "emit %s %s" % (",".join(map(str, refs)) or "-", pre)
    if d["ret"] != 0:
        return "%s rej %d" % (head, d["ret"])
    x = dict(kv.split("=", 1) for kv in d["X"].split() if "=" in kv)
    nrel = int(d["Akv"]["rel"]) - int(d["Bkv"]["rel"])
    nf = "-"
    if "nf" in x:
        p = x["nf"].split(":")
        p[7] = str(int(p[7]) - int(d["Bkv"]["off"]))       # offset inside this instruction
        nf = ":".join(p)
    nsec = len(d["Akv"]["sec"].split(",")) - len(d["Bkv"]["sec"].split(","))
    return "%s acc %s %d %s %d" % (head, x.get("bytes", "-"), nrel, nf, nsec)


def model_expect(d, unknown_code=False):
    """what the model answer must equal, taken from the implementation's answer"""
    a = d["Akv"]
    if unknown_code and d["ret"] != 0:
        return "E O %s %s %s %s sec=%s lab=%s bnd=%s rel=%s fix=%s cur=%s off=%s bh=%s" % (
            d["os"][0], "0" if d["os"][1] == "0" else "1", "0", d["os"][3], a["sec"], a["lab"], a["bnd"], a["rel"], a["fix"], a["cur"], a["off"], a["bh"])
    # extra register: the model keeps "present / absent" only
    return "%d O %s %s %s %s sec=%s lab=%s bnd=%s rel=%s fix=%s cur=%s off=%s bh=%s" % (
        d["ret"], d["os"][0], "0" if d["os"][1] == "0" else "1", "0", d["os"][3], a["sec"], a["lab"], a["bnd"], a["rel"], a["fix"], a["cur"], a["off"], a["bh"])


def model_got(m, unknown_code=False):
    m = re.sub(r" rep=[01]", "", m)
    if unknown_code and not m.startswith("0 "):
        m = "E " + m.split(" ", 1)[1]
    return m


# ------------------------------------------------------------------------------------------------------------------

def errname(names, code):
    for k, v in names.items():
        if v == code:
            return k[1:]
    return str(code)


def run_session_lines(h, lines):
    return vlib.run_lines([str(h)], lines, timeout=3000)


MAX_ABORTS = 8
WALL_SKIPS = []     # sessions not judged because a python-side wall-clock timeout fired (never a violation)


def run_harness(h, sessions):
    """the sessions go through the harness in chunks; a session in which the real code aborts (sanitizer report, crash, no return) is
    recorded and dropped and the run continues with the sessions after it, so that one run can exhibit several distinct aborts.
    Returns ({session index: answers}, [(session index, op index, stderr tail)])."""
    answers, aborts = {}, []
    pending = list(range(len(sessions)))
    CH = 400
    while pending and len(aborts) < MAX_ABORTS:
        chunk, pending = pending[:CH], pending[CH:]
        while chunk and len(aborts) < MAX_ABORTS:
            flat = [op for si in chunk for op in sessions[si]]
            out, rc, err = run_session_lines(h, flat)
            if rc == -9 and err == "timeout":
                # wall-clock timeout of the python side (50 min for a chunk that needs seconds): machine load, not a verdict.
                # A call that really does not return is stopped by the harness's own CPU-time limit and shows up as an abort.
                WALL_SKIPS.append(len(chunk))
                break
            if rc == 0 and len(out) == len(flat):
                k = 0
                for si in chunk:
                    answers[si] = out[k:k + len(sessions[si])]
                    k += len(sessions[si])
                break
            out, rc, err = vlib.run_lines([str(h)], flat, timeout=3000, env={"VH_FLUSH": "1"})
            at = min(len(out), len(flat) - 1)
            k = 0
            for pos, si in enumerate(chunk):
                n = len(sessions[si])
                if at < k + n:
                    aborts.append((si, at - k, err[-3000:]))
                    chunk = chunk[pos + 1:]
                    break
                answers[si] = out[k:k + n]
                k += n
            else:
                chunk = []
    return answers, aborts


def judge(h, sessions, names):
    """runs harness, monitor and model over the sessions.  Returns dict(aborts, bad, diffs, stats)."""
    answers, aborts = run_harness(h, sessions)
    flat, owner, impl = [], [], []
    for si, s in enumerate(sessions):
        if si not in answers:
            continue
        for oi, op in enumerate(s):
            flat.append(op)
            owner.append((si, oi))
        impl += answers[si]
    res = {"abort": aborts[0] if aborts else None, "aborts": aborts, "bad": [], "diffs": [], "impl": impl, "flat": flat, "owner": owner,
           "protocol": None, "mon_n": 0, "mod_n": 0, "tainted": 0}
    mon_lines, mon_idx, mod_lines, mod_idx, mod_exp, mod_unk = [], [], [], [], [], []
    tainted = set()
    hdr = None
    for i, (op, a) in enumerate(zip(flat, impl)):
        w = opw(op)
        if w[0] == "new":
            hdr = w
            if w[2] == "asm":
                mod_lines.append("new %s %s" % (w[1], w[3]))
                mod_idx.append(i)
                mod_exp.append("ok")
                mod_unk.append(False)
            continue
        d = parse_answer(a)
        if d is None:
            res["protocol"] = "unparsable harness answer for %r: %r" % (op, a[:200])
            return res
        si = owner[i][0]
        if si in tainted:
            continue
        if d["Akv"].get("taint") == "1":
            # DESIGN.md defect #18 (property C03): a fixup created for a label bound in another section overwrote the label's offset
            # with a heap pointer; everything after it depends on addresses.  Not C14's to judge: the session is cut here.
            tainted.add(si)
            continue
        mon_lines.append(monitor_line(hdr, op, d))
        mon_idx.append(i)
        if hdr[2] == "asm":
            mod_lines.append(model_line(hdr, op, d))
            mod_idx.append(i)
            # new_label()/new_named_label() return a Label: without a handler the error code itself is not observable
            unk = w[0] in ("label", "nlabel") and hdr[3] == "none"
            mod_unk.append(unk)
            mod_exp.append(model_expect(d, unk))
    mon, rc1, e1 = vlib.run_model("C14", mon_lines, timeout=3000)
    mod, rc2, e2 = vlib.run_model("C14", mod_lines, timeout=3000)
    if e1 == "timeout" or e2 == "timeout":
        res["load_skip"] = "the Lean driver did not finish within the wall-clock limit (machine load): this run judged nothing"
        return res
    if rc1 != 0 or rc2 != 0 or len(mon) != len(mon_lines) or len(mod) != len(mod_lines):
        res["protocol"] = "driver protocol failure rc=%d/%d lines %d/%d %d/%d %s" % (rc1, rc2, len(mon), len(mon_lines), len(mod), len(mod_lines),
                                                                                 (e1 + e2)[-300:])
        return res
    seen_sessions = set()
    for k, v in enumerate(mon):
        if v != "good":
            i = mon_idx[k]
            si = owner[i][0]
            if si in seen_sessions:
                continue          # only the first bad call of a session counts (later ones are consequences)
            seen_sessions.add(si)
            res["bad"].append((i, v))
    bad_sessions = {owner[i][0] for i, _ in res["bad"]}
    seen = set()
    for k, got in enumerate(mod):
        i = mod_idx[k]
        si = owner[i][0]
        if si in bad_sessions or si in seen:
            continue
        if model_got(got, mod_unk[k]) != mod_exp[k]:
            seen.add(si)
            res["diffs"].append((i, model_got(got, mod_unk[k]), mod_exp[k]))
    # AArch64 Assembler calls against C02's encoder model
    obad, ostats = c14_a64oracle.judge(sessions, answers, names, opw, parse_answer, errname, A64_PCREL)
    res["a64_oracle"] = ostats
    res["oracle_bad"] = [(si, oi, kind, m, impl) for si, oi, kind, m, impl in obad if si >= 0 and si not in bad_sessions]
    if any(si < 0 for si, *_ in obad):
        res["protocol"] = obad[0][3]
        return res
    # Builder sessions against Model/Builder.lean (driver component C14B) + the finalize tie
    bdiffs, bstats = c14_builder.judge_builder(h, sessions, answers, names, opw, pre_of, parse_answer, errname)
    res["builder"] = bstats
    pos = {o: k for k, o in enumerate(owner)}
    for si, oi, got, exp in bdiffs:
        if si < 0:
            res["protocol"] = got
            return res
        if si in bad_sessions:
            continue
        if exp.startswith("finalize: "):
            res.setdefault("fin_diffs", []).append((pos.get((si, oi), 0), got, exp))
        else:
            res["diffs"].append((pos.get((si, oi), 0), got, exp))
    res["tainted"] = len(tainted)
    res["mon_n"] = len(mon_lines)
    res["mod_n"] = len(mod_lines)
    return res


def bad_key(names, sess_hdr, op, d, verdict):
    w = opw(op)
    clause = verdict.split()[1] if verdict.startswith("BAD ") else verdict
    opname = w[0]
    return "%s:%s:%s" % (clause, opname, errname(names, d["ret"]))


def shrink_session(h, names, session, upto, want_clause):
    """ddmin over the calls of one session (the `new` line and the failing call are kept)"""
    hdr, body, last = session[0], session[1:upto], session[upto]

    def fails(cand):
        ops = [hdr] + cand + [last]
        r = judge(h, [ops], names)
        if r["abort"] or r["protocol"]:
            return want_clause == "abort" and r["abort"] is not None
        return any(i == len(ops) - 1 and v.startswith("BAD " + want_clause) for i, v in r["bad"])

    if not fails(body):
        return session[:upto + 1]
    return [hdr] + vlib.ddmin(body, fails, max_tests=120) + [last] if body else [hdr, last]


def run(res):
    rng = vlib.rng_for(res.seed, PID)
    res.assumptions += [
        "the encoder's accept/reject decision and its bytes are a parameter of the model (judged by C01/C02/C13); the harness feeds the real outcome",
        "allocation never fails (C15)",
        "snapshot = content digest of sections, labels (bound position or fixup chain), global fixups, relocations, address table, nodes",
        "set_offset, comment and logging are not exercised",
        "'without undefined behaviour' = no ASan/UBSan report on the explored calls (tested, not proved)"]
    broken = []
    R = vlib.REPO
    try:
        names = gen_c14.error_enum(R)
        vlib.gen_write("AsmjitVerif/Gen/ErrorCodes.lean", gen_c14.render_error_codes(names))
        forms_by_arch = {a: gen_c14.forms(R, a) for a in ("x86", "a64")}
        A64_NAMES.update({f[0]: f[1] for f in forms_by_arch["a64"][0]})
        A64_PCREL.update(f[0] for f in forms_by_arch["a64"][0] if "Label" in f[2])
        DEFINED_REG_TYPES.update(gen_c14.defined_reg_types(R))
        c14_a64oracle.DEFINED.clear()
        c14_a64oracle.DEFINED.update(DEFINED_REG_TYPES)
    except gen_c14.TranslateError as e:
        res.violation("translator tools/gen_c14.py no longer understands the sources: %s" % e, {"unchecked": str(e)}, False, key="obligation")
        return
    # the two structural translators: when one no longer understands the source the obligation is broken (an empty table makes the
    # Lean non-emptiness theorem fail), but the dynamic stage below still runs and looks for a concrete failing input
    try:
        vlib.gen_write("AsmjitVerif/Gen/EmitSites.lean", gen_c14.render_emit_sites(gen_c14.emit_sites(R)))
    except gen_c14.TranslateError as e:
        broken.append("translator emit_sites: %s" % e)
        vlib.gen_write("AsmjitVerif/Gen/EmitSites.lean", gen_c14.render_emit_sites([]))
    try:
        vlib.gen_write("AsmjitVerif/Gen/TableBounds.lean", gen_c14.render_tables(gen_c14.tables(R)))
    except gen_c14.TranslateError as e:
        broken.append("translator tables: %s" % e)
        vlib.gen_write("AsmjitVerif/Gen/TableBounds.lean", gen_c14.render_tables([("untranslatable", 0, 0)]))

    ok, out = vlib.lean_stage(res, PID, MODS)
    if not ok and not res.violations:
        for ft in getattr(res, "build_failures", []) or [{"decl": "?", "msg": out[-800:]}]:
            broken.append("theorem %s (%s:%s) no longer checks: %s" % (ft.get("decl"), ft.get("file"), ft.get("line"), ft.get("msg")))
        vlib.lake_build(["vdriver"])
        # obligations are still counted when some of them fail (the evidence names the ones that no longer check)
        thms = vlib.theorems_in(vlib.LEAN / "AsmjitVerif/Props/C14.lean")
        failed = {ft.get("decl") for ft in getattr(res, "build_failures", []) or []}
        res.coverage["obligations"] = len(thms)
        res.coverage["discharged"] = len([t for t in thms if t.split(".")[-1] not in failed]) if failed else 0
    if not vlib.driver_path().exists():
        res.violation("Lean driver does not build", {"log": out[-3000:]}, found_input=False, key="driver")
        return

    h = vlib.build_harness("c14")
    corpus = probe_corpus(h, rng, res.tier, forms_by_arch)
    res.coverage["probe_corpus_accepted_forms"] = {a: len(c) for a, c in corpus.items()}
    sessions = gen_sessions(rng, res.tier, forms_by_arch, corpus)
    # targeted sessions first (the classes the property names), so that they are always present
    x86_forms = forms_by_arch["x86"][0]
    mov = next(f[0] for f in x86_forms if f[1] == "mov" and f[2] == ("Gp", "Mem"))
    vaddps = next(f[0] for f in x86_forms if f[1] == "vaddps" and f[2] == ("Vec", "Vec", "Vec"))
    mov_rr = next(f[0] for f in x86_forms if f[1] == "mov" and f[2] == ("Gp", "Gp"))
    a64_forms = forms_by_arch["a64"][0]
    add3 = next(f[0] for f in a64_forms if f[1] == "add" and f[2] == ("Vec", "Vec", "Vec"))
    cmp2 = next(f[0] for f in a64_forms if f[1] == "cmp" and f[2] == ("Gp", "Gp"))
    targeted = [
        ["new x86 asm rec 1", "label", "emit %d 0 - 0 r5.0 ml7,0,0,0,0,0,4,0,0,0,0" % mov, "emit %d 0 - 0 r5.0 ml%d,0,0,0,0,0,4,0,0,0,0" % (mov, INVALID)],
        ["new x64 asm thr 1", "label", "emit %d 0 - 0 r6.0 ml7,0,0,0,0,0,8,0,0,0,0" % mov],
        ["new a64 asm rec 0", "emit %d 0 - 0 v11.0.3.-1 v11.1.3.-1 v11.40.3.-1" % add3, "emit %d 0 - 0 r6.1 r6.40" % cmp2],
        ["new a64 asm thr 0", "embed 01", "align 0 8", "align 1 8"],
        ["new x64 asm thr 1", "label", "@0,-,1 bind 0", "@2000,16.2,1 bind 0", "@0,-,1 bind 9", "@0,-,1 align 0 3", "@10,-,1 elabel 7 4", "@0,6.1,1 section foreign"],
        ["new x64 asm rec 1", "label", "emit %d 10 - 0 l0" % next(f[0] for f in x86_forms if f[1] == "jmp" and f[2] == ("Label",)),
         "embed " + "90" * 130, "cpool 0 8 1", "bind 0", "embed 90", "align 0 16"],
        ["new a64 asm rec 0", "label", "@0,-,1 bind 3", "@0,-,1 bind 0", "@0,-,1 bind 0", "@0,-,1 embed 01", "@0,-,1 align 0 8"],
        # validator holes closed by fix C14-15: {k36} / a virtual {k} outside a Compiler / instruction id 0 with arbitrary operands
        ["new x64 asm rec 1", "emit %d 0 16.3 0 r13.1 r13.2 r13.3" % vaddps, "emit %d 0 16.36 0 r13.1 r13.2 r13.3" % vaddps,
         "emit %d 0 16.300 0 r13.1 r13.2 r13.3" % vaddps],
        ["new x64 bld thr 1", "emit %d 0 16.36 0 r13.1 r13.2 r13.3" % vaddps, "emit %d 0 16.300 0 r13.1 r13.2 r13.3" % vaddps,
         "emit 0 0 - 0 r13.255 r6.300", "emit %d 0 - 0 r6.300 r6.2" % mov_rr, "emit %d 0 - 0 r6.1 mr6,300,0,0,0,0,8,0,0,0,0" % mov],
        ["new x64 cmp rec 1", "emit 0 0 - 0 r13.255 r6.40", "emit %d 0 16.36 0 r13.1 r13.2 r13.3" % vaddps],
        ["new a64 bld rec 0", "label", "bind 5", "bind 0", "bind 0"],
        ["new x64 asm rec 1", "label", "label", "embed 01", "bind 0", "cpool 0 8 2", "cpool 7 8 2", "cpool 1 8 2", "cpool 1 4 1"],
        ["new a64 bld thr 0", "label", "label", "embed 01", "bind 0", "cpool 0 8 2", "cpool 1 8 2"],
        ["new x64 bld thr 1", "label", "bind 0", "bind 0", "bind 9"],
    ]
    sessions = targeted + sessions
    r = judge(h, sessions, names)
    flat, owner, impl = r["flat"], r["owner"], r["impl"]

    seen_abort = set()
    for si, oi, tail in r["aborts"]:
        first = [l.strip() for l in tail.splitlines() if "runtime error" in l or "ERROR: AddressSanitizer" in l or "SUMMARY" in l][:2]
        loc = re.search(r"([\w./-]+\.(?:cpp|h)):(\d+)", first[0]) if first else None
        where = "%s:%s" % (loc.group(1).split("/")[-1], loc.group(2)) if loc else "?"
        ops = sessions[si][:oi + 1]
        w = ops[-1].split()
        key = "abort:%s:%s:%s" % (ops[0].split()[1], w[0], where)
        if key in seen_abort:
            continue
        seen_abort.add(key)

        def crashes(cand):
            rr = judge(h, [[ops[0]] + cand + [ops[-1]]], names)
            return rr["abort"] is not None

        if len(ops) > 2 and crashes(ops[1:-1]):
            ops = [ops[0]] + vlib.ddmin(ops[1:-1], crashes, max_tests=60) + [ops[-1]]
        res.violation("real code aborts under ASan/UBSan (or does not return) in session %r at call %r: %s" % (ops[0], ops[-1], " | ".join(first)[:400] or tail[-300:]),
                      {"ops": ops, "stderr": tail[-2500:]}, found_input=True, key=key)
    if r["aborts"]:
        res.notes.append("%d sessions aborted and were dropped; the rest of the run was judged" % len(r["aborts"]))
    if WALL_SKIPS:
        res.notes.append("%d sessions were not judged: python-side wall-clock timeout (machine load), not a verdict" % sum(WALL_SKIPS))
    if r.get("load_skip"):
        res.notes.append(r["load_skip"])
        return
    if r["protocol"]:
        res.violation(r["protocol"], {}, found_input=False, key="protocol")
        return

    # ---- coverage ----
    kinds, accepted, rejected = {}, 0, 0
    hdr = None
    distinct = set()
    for op, a in zip(flat, impl):
        w = opw(op)
        if w[0] == "new":
            hdr = w
            continue
        d = parse_answer(a)
        k = "%s/%s/%s:%s" % (hdr[1], hdr[2], w[0], errname(names, d["ret"]))
        kinds[k] = kinds.get(k, 0) + 1
        if w[0] == "emit":
            if d["ret"] == 0:
                accepted += 1
            else:
                rejected += 1
        if d["ret"] != 0:
            distinct.add((hdr[1], hdr[2], op))
    top = dict(sorted(kinds.items(), key=lambda kv: -kv[1])[:60])
    watched = {k: v for k, v in kinds.items() if k.endswith(":InvalidDisplacement") and k.split("/")[2].split(":")[0] in ("bind", "cpool", "edelta")}
    res.coverage["evaluations"] = len(flat)
    res.coverage["distinct_nontrivial"] = len(distinct)
    res.coverage["rule"] = ("sessions of 20-50 public-API calls on x86/x64 (strict validation) and AArch64 Assembler/Builder/Compiler with returning/"
                            "recording/throwing/absent handlers: typed database forms unmutated, mutated in 1-3 places (ids, element types/indices, "
                            "shifts, offsets, immediates, label ids, kinds on x86, options, instruction id), uniform random tuples; "
                            "label/bind/align/embed/section calls with valid and invalid arguments; non-trivial = distinct rejected call")
    res.coverage["exhaustive"] = False
    res.coverage["input_distribution"] = {"calls_by_arch/emitter/op:result (top 60)": top, "emit_accepted": accepted, "emit_rejected": rejected,
                                          "refused_unreachable_displacement (former finding K1 and defect #5)": watched,
                                          "sessions": len(sessions)}
    res.coverage["monitored_answers"] = r["mon_n"]
    res.coverage["sessions_cut_at_defect_18_C03"] = r["tainted"]
    res.coverage["builder_model_correspondence"] = r.get("builder", {})
    res.coverage["a64_encoder_model_C02_as_oracle"] = r.get("a64_oracle", {})
    res.coverage["traces_validated_against_impl"] = r["mod_n"]
    idxs = [i for i in (5, len(flat) // 3, len(flat) // 2, len(flat) - 2) if 0 <= i < len(flat) and flat[i].split()[0] != "new"]
    res.add_samples([{"op": flat[i], "impl": impl[i][:300]} for i in idxs])

    # ---- classify ----
    reported = set()
    for i, v in r["bad"]:
        si, oi = owner[i]
        sess = sessions[si]
        d = parse_answer(impl[i])
        key = bad_key(names, sess[0].split(), flat[i], d, v)
        if key in reported:
            continue
        reported.add(key)
        clause = v.split()[1]
        ops = shrink_session(h, names, sess, oi, clause)
        res.violation("property violated by the real code: session %r, call %r -> return %s, handler heard %s, monitor says %s "
                      "(clauses: report = error not reported exactly once; atomic = failed call changed state; oneshot = one-shot state "
                      "survives; label = accepted with a non-existent label id; physid = accepted with a register id the field cannot hold; "
                      "fresh = differs from an emitter that only saw the accepted calls)" % (
                          sess[0], flat[i], errname(names, d["ret"]), d["handled"], v),
                      {"ops": ops, "monitor": v, "answer": impl[i][:600]}, found_input=True, key=key)
    seen_o = set()
    for si, oi, kind, m, impl in r.get("oracle_bad", []):
        w = opw(sessions[si][oi])
        name = A64_NAMES.get(int(w[1]) & 0xFFFF, w[1])
        key = "a64:%s:%s" % (kind, m.split()[1] if kind == "refuses" else name)
        if key in seen_o:
            continue
        seen_o.add(key)
        what = {"refuses": "the real assembler ACCEPTS an instruction the encoder model refuses",
                "accepts": "the real assembler refuses an instruction the encoder model encodes",
                "words": "the real assembler appends other words than the encoder model"}[kind]
        res.violation("AArch64 `%s`: %s (C02's Model/A64Asm*.lean, proved against the ISA database): call %r of session %r: model %s, "
                      "implementation %s" % (name, what, sessions[si][oi], sessions[si][0], m, impl),
                      {"ops": [sessions[si][0], sessions[si][oi]] if not any(t[0] in "lM" for t in w[5:]) else sessions[si][:oi + 1],
                       "model": m, "impl": impl}, found_input=True, key=key)
    if r.get("fin_diffs"):
        i, got, exp = r["fin_diffs"][0]
        si, oi = owner[i]
        res.violation("Builder::finalize() does not leave what assembling its serialized calls directly leaves (all of them on success, the "
                      "ones in front of the first refused call - and that call's error - on failure): session %r: %s; %s (%d such sessions)" % (
                          sessions[si][0], exp, got, len(r["fin_diffs"])),
                      {"ops": sessions[si][:oi + 1], "finalize": exp, "direct": got}, found_input=True, key="finalize:prefix")
    if r["diffs"]:
        i, got, exp = r["diffs"][0]
        si, oi = owner[i]
        res.violation("correspondence model/implementation differs at call %r of session %r: model=%s impl=%s (%d differing sessions); the "
                      "monitor is good on every call of these sessions" % (flat[i], sessions[si][0], got, exp, len(r["diffs"])),
                      {"ops": sessions[si][:oi + 1], "model": got, "impl": exp, "unchecked": "correspondence Model/Emitter.lean ~ assembler.cpp/codeholder.cpp"},
                      False, key="corr")
    if broken:
        res.violation("proof obligation no longer checks: " + " | ".join(broken)[:1500], {"unchecked": broken}, False, key="obligation")

def replay(data):
    ops = data["replay"].get("ops", [])
    h = vlib.build_harness("c14")
    names = gen_c14.error_enum(vlib.REPO)
    impl, rc, err = vlib.run_lines([str(h)], ops)
    for o, a in zip(ops, impl):
        d = parse_answer(a)
        print(o, "->", a if d is None else "%s handler=%s thrown=%s | before %s | after %s | shadow %s" % (
            errname(names, d["ret"]), d["handled"], d["thrown"], d["B"], d["A"], d["S"]))
    if rc != 0:
        print("harness exit code %d\n%s" % (rc, err[-1500:]))
    return 0
