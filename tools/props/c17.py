"""C17 — displacement and immediate field codecs (DESIGN.md section 6, C17)."""
import vlib
import gen_formats

PID = "C17"
MANIFEST = {
    "technique": "Lean 4 theorems (bv_decide, all 2^64 displacements per format) over a hand model of codewriter.cpp + regenerated format list + C++/Lean correspondence",
    "text": "For each of the OffsetFormats the sources construct (list regenerated from /repo on every run and proved to be a subset of the "
            "proved formats) Lean proves for every 64-bit displacement: accepted => the patched word decodes (independent spec) to exactly that "
            "displacement and no bit outside the field changes; refused => no field content designates it; hence (Props/C17Decide.lean, "
            "offset_codec_decides) refusal IF AND ONLY IF unrepresentable and accepted displacements are encoded injectively. The model is tied to "
            "CodeWriterUtils::encode_offset32/64 and write_offset by running both on boundary, random and bulk-exhaustive inputs; the Lean "
            "monitor (the theorem's predicate) judges every answer of the real code.",
    "note": "Trusted: Lean kernel + bv_decide certificate axioms; Spec/Offset.lean (incl. the A32/T32 decoders written from the Arm ARM) and "
            "Spec/A64Imm.lean (DecodeBitMasks, VFPExpandImm, move-wide, BFM/SBFM/UBFM pseudo-code, alias rules) as the meaning of the fields; "
            "gen_formats.py; the harness/driver diff. Also proved: signed/unsigned codecs for EVERY (bits, shift, discard) that fits the value "
            "word (symbolic parameters, Props/C17Generic.lean); the Thumb/A32 split formats incl. encode_aarch32_imm (one canonical geometry per "
            "OffsetType; the model follows fixes/C17-1.patch - on the pinned tree kThumb32_B/BLX/BCond store J1 at bit 14 and B<c>.W computes "
            "J1/J2 wrongly: known finding); the AArch64 assembler's direct path EmitOp_DispImm = the patched path for all displacements; "
            "bit-field aliases lsb,width -> immr,imms against executed BFM semantics; encode_lmh.",
}
MODS = ["AsmjitVerif.Props.C17", "AsmjitVerif.Props.C17A64", "AsmjitVerif.Props.C17Generic", "AsmjitVerif.Props.C17Arm32",
        "AsmjitVerif.Props.C17Asm", "AsmjitVerif.Props.C17Bitfield", "AsmjitVerif.Props.C17Decide"]
TYPECODE = {"signed": 0, "unsigned": 1, "a64Adr": 2, "a64Adrp": 3, "thumb32Adr": 4, "thumb32Blx": 5, "thumb32B": 6, "thumb32BCond": 7,
            "a32Adr": 8, "a32U23Signed": 9, "a32U23Split": 10, "a32_1To24": 11}
M64 = (1 << 64) - 1
# the Thumb / A32 formats proved in Props/C17Arm32.lean: (type, size, shift, bits, discard)
ARM32 = [("thumb32Adr", 4, 0, 12, 0), ("thumb32B", 4, 0, 24, 1), ("thumb32Blx", 4, 0, 23, 2), ("thumb32BCond", 4, 0, 20, 1),
         ("a32Adr", 4, 0, 32, 0), ("a32U23Signed", 4, 0, 12, 0), ("a32U23Signed", 4, 0, 8, 2), ("a32U23Split", 4, 0, 8, 0),
         ("a32_1To24", 4, 0, 25, 1)]
SIGNMAG = ("thumb32Adr", "a32Adr", "a32U23Signed", "a32U23Split")     # OffsetFormat::has_sign_bit()
THUMB_BRANCH = ("thumb32Blx", "thumb32B", "thumb32BCond")             # defect of fixes/C17-1.patch
KEY_THUMB = "codec:thumb32-branch-j-bits"
KEY_UB_ROR0 = "ub:a32adr-ror0"
KEY_UB_MIN = "ub:signbit-int64min"
DIRECT = {"b": ("signed", 4, 0, 26, 2), "bl": ("signed", 4, 0, 26, 2), "beq": ("signed", 4, 5, 19, 2), "cbz": ("signed", 4, 5, 19, 2),
          "tbz": ("signed", 4, 5, 14, 2), "adr": ("a64Adr", 4, 5, 21, 0), "adrp": ("a64Adrp", 4, 5, 21, 12)}


def field_mask(f):
    t, sz, shift, bits, dis = f
    fixed = {"a64Adr": 0x60FFFFE0, "a64Adrp": 0x60FFFFE0, "thumb32Adr": 0x04A070FF, "thumb32Blx": 0x07FF2FFF, "thumb32B": 0x07FF2FFF,
             "thumb32BCond": 0x043F2FFF, "a32Adr": 0x00C00FFF, "a32U23Split": 0x00800F0F, "a32_1To24": 0x01FFFFFF}
    if t in fixed:
        return fixed[t]
    m = ((1 << bits) - 1) << shift
    return m | 0x00800000 if t == "a32U23Signed" else m


def fmt_words(f, voff=0):
    t, sz, shift, bits, dis = f
    return "%d %d %d %d %d %d" % (TYPECODE[t], sz, voff, bits, shift, dis)


def boundary_offsets(f, rng, nrand):
    t, sz, shift, bits, dis = f
    vals = set()
    unit = 1 << dis
    for k in (bits - 1, bits, bits + 1, 8 * sz - 1, 8 * sz, 31, 32, 63):
        lim = 1 << min(k + dis, 64)
        for d in (-2, -1, 0, 1, 2):
            for sgn in (1, -1):
                vals.add((sgn * lim + d * unit) & M64)
                vals.add((sgn * lim + d) & M64)
    for v in (0, 1, -1, 2, 3, unit, -unit, unit - 1, 1 << 63, (1 << 63) - 1, (1 << 63) + 1, M64, 0xFFFFFFFF, 0x100000000,
              0x7FFFFFFF, 0x80000000, -0x80000000, -0x80000001):
        vals.add(v & M64)
    span = 1 << min(bits + dis + 1, 64)
    for _ in range(nrand):
        r = rng.random()
        if r < 0.5:
            v = rng.randrange(-span, span)
            if rng.random() < 0.7:
                v &= ~(unit - 1)
        elif r < 0.8:
            v = rng.getrandbits(64)
        else:
            v = (rng.choice((1, -1)) << rng.randrange(0, 64)) + rng.randrange(-3, 4)
        vals.add(v & M64)
    return sorted(vals)


def ror32(v, n):
    n %= 32
    return ((v >> n) | (v << (32 - n))) & 0xFFFFFFFF


def a32_imm_offsets(rng, tier):
    """A32 modified immediates: every rotation of structured 8-bit values, their 1-bit neighbours (mostly not encodable),
    values that make encode_aarch32_imm rotate by 16 first, and the `ror(v, 0)` class."""
    vals = set()
    imm8s = [0, 1, 2, 3, 0x7F, 0x80, 0x81, 0xFF, 0xAA, 0x55, 0xC3] + [rng.getrandbits(8) for _ in range(6 if tier == "quick" else 245)]
    for i8 in imm8s:
        for rot in range(16):
            v = ror32(i8, 2 * rot)
            vals.add(v)
            for b in range(0, 32, 1 if tier != "quick" else 3):
                vals.add(v ^ (1 << b))
            vals.add(ror32(i8, 2 * rot + 1))          # odd rotation
    vals |= {0x10001, 0x01000001, 0x00030000 | 1, 0x101, 0x102, 0xFF00FF, 0xFFFFFFFF, 0x100000000, 0x1FE, 0x3FC, 0xFF000000, 0xF000000F}
    out = set()
    for v in vals:
        out.add(v & M64)
        out.add(-v & M64)
    return sorted(out)


def gen_ops(fmts, rng, tier, light=()):
    """`light`: formats that get the quick-tier amount of random offsets and exhaustive ranges only up to 16 bits even in the
    thorough tier (the random generic geometries: there are hundreds of them)"""
    ops = []
    light = set(light)
    for f in fmts:
        t, sz, shift, bits, dis = f
        nrand = 600 if (tier == "quick" or f in light) else 20000
        for off in boundary_offsets(f, rng, nrand):
            ops.append("enc %s %x" % (fmt_words(f), off))
        if t == "a32Adr":
            for off in a32_imm_offsets(rng, tier):
                ops.append("enc %s %x" % (fmt_words(f), off))
        # exhaustive over the field (+ a band outside it) in bulk mode
        maxbits = 16 if (tier == "quick" or f in light) else (21 if t in TYPECODE and TYPECODE[t] >= 4 else 26)
        if bits <= maxbits:
            unit = 1 << dis
            total = (1 << bits) * 2          # whole signed/unsigned range and as much again outside
            lo = (-(1 << bits) * unit) & M64 if t != "unsigned" else 0
            chunk = 1 << 14
            for c in range(0, total, chunk):
                ops.append("range %s %x %d %x" % (fmt_words(f), (lo + c * unit) & M64, min(chunk, total - c), unit))
            if dis:
                ops.append("range %s %x %d %x" % (fmt_words(f), (lo + 1) & M64, 1 << 12, 1))
        # write_offset on buffers whose field is zero, at several value offsets
        for _ in range(40 if (tier == "quick" or f in light) else 1500):
            voff = rng.randrange(0, 4)
            pos = rng.randrange(0, 3)
            size = pos + voff + sz + rng.randrange(0, 3)
            if rng.random() < 0.08:
                size = max(0, pos + voff + sz - rng.randrange(1, 3))   # region does not fit: both sides refuse
            buf = bytearray(rng.getrandbits(8) for _ in range(size))
            # clear the field bits
            mask = field_mask(f)
            p = pos + voff
            if p + sz <= size:
                word = int.from_bytes(buf[p:p + sz], "little") & ~mask
                buf[p:p + sz] = (word & ((1 << (8 * sz)) - 1)).to_bytes(sz, "little")
            if rng.random() < 0.75:   # mostly representable displacements, so that most writes succeed
                unit = 1 << dis
                if t == "unsigned":
                    off = rng.randrange(0, 1 << bits)
                elif t == "a32Adr":
                    off = rng.choice((1, -1)) * ror32(rng.getrandbits(8), 2 * rng.randrange(16))
                elif t in SIGNMAG:
                    off = rng.randrange(-(1 << bits) + 1, 1 << bits)
                else:
                    off = rng.randrange(-(1 << (bits - 1)), 1 << (bits - 1))
                off = off * unit & M64
            else:
                off = rng.choice(boundary_offsets(f, rng, 8))
            ops.append("write %s %x %d %s" % (fmt_words(f, voff), off, pos, buf.hex() or "-"))
    return ops


def gen_generic_formats(rng, tier):
    """signed / unsigned geometries NO backend uses: the parametric theorems (Props/C17Generic.lean) claim them all"""
    out = set()
    for _ in range(40 if tier == "quick" else 400):
        t = rng.choice(("signed", "unsigned"))
        sz = rng.choice((1, 2, 4, 8))
        bits = rng.randrange(1, 8 * sz + 1)
        shift = rng.randrange(0, 8 * sz - bits + 1)
        dis = rng.choice((0, 0, 1, 2, 3, 4, 12, rng.randrange(0, 33)))
        out.add((t, sz, shift, bits, dis))
    # the corners
    for sz in (1, 2, 4, 8):
        for t in ("signed", "unsigned"):
            out |= {(t, sz, 0, 1, 0), (t, sz, 8 * sz - 1, 1, 32), (t, sz, 0, 8 * sz, 32), (t, sz, 1, 8 * sz - 1, 31)}
    return sorted(out)


def gen_direct_ops(rng, tier):
    ops = []
    for kind, f in sorted(DIRECT.items()):
        for off in boundary_offsets(f, rng, 800 if tier == "quick" else 20000):
            ops.append("direct %s %x" % (kind, off))
    return ops


def gen_bf_ops(rng, tier):
    ops = []
    aliases = ("bfc", "bfi", "sbfiz", "ubfiz", "bfxil", "sbfx", "ubfx")
    raws = ("bfm", "sbfm", "ubfm")
    big = [1 << 32, (1 << 32) + 1, (1 << 32) + 31, 1 << 63, M64, M64 - 31, (1 << 64) - 64, 0x100000020, 0xFFFFFFFF, 0x80000000]
    for x, size in ((0, 32), (1, 64)):
        for kind in aliases + raws:
            step = 1 if (tier != "quick" or kind in ("bfi", "sbfx")) else 3
            for a in list(range(0, size + 2)):
                for b in range(0, size + 3):
                    if step > 1 and (a * 7 + b) % step and not (a + b in (size - 1, size, size + 1) or a in (0, size - 1, size) or b in (0, 1, size)):
                        continue
                    ops.append("bf %s %d %x %x" % (kind, x, a, b))
            for v in big:
                for w_ in (0, 1, size, v):
                    ops.append("bf %s %d %x %x" % (kind, x, v, w_))
                    ops.append("bf %s %d %x %x" % (kind, x, w_, v))
    return ops


def decode_bit_masks(n, imms, immr):
    """generator-side copy of DecodeBitMasks (only used to *propose* inputs; the Lean monitor judges)"""
    x = (n << 6) | (~imms & 0x3F)
    if x == 0:
        return None
    ln = x.bit_length() - 1
    if ln < 1:
        return None
    levels = (1 << ln) - 1
    if imms & levels == levels:
        return None
    S, R, es = imms & levels, immr & levels, 1 << ln
    w = (1 << (S + 1)) - 1
    w = ((w >> R) | (w << (es - R))) & ((1 << es) - 1)
    v = 0
    for i in range(0, 64, es):
        v |= w << i
    return v


def vfp_expand(bits, i):
    e = {16: 5, 32: 8, 64: 11}[bits]
    f = bits - e - 1
    sign, b6 = i >> 7, (i >> 6) & 1
    expo = ((b6 ^ 1) << (e - 1)) | ((((1 << (e - 3)) - 1) if b6 else 0) << 2) | ((i >> 4) & 3)
    return (sign << (bits - 1)) | (expo << f) | ((i & 15) << (f - 4))


def gen_a64_ops(rng, tier):
    ops = []
    quick = tier == "quick"
    # logical immediates: every architecturally valid value, all one-bit neighbours of a sample, structured + random values
    vals64, vals32 = set(), set()
    for n in (0, 1):
        for s_ in range(64):
            for r in range(64):
                v = decode_bit_masks(n, s_, r)
                if v is not None:
                    vals64.add(v)
                    if n == 0:
                        vals32.add(v & 0xFFFFFFFF)
    for width, vals in ((64, sorted(vals64)), (32, sorted(vals32))):
        mask = (1 << width) - 1
        for v in vals:
            ops.append("logimm %x %d" % (v, width))
        neigh = set()
        for v in (vals if not quick else rng.sample(vals, 250)):
            for b in range(width):
                neigh.add(v ^ (1 << b))
        for v in sorted(neigh):
            ops.append("logimm %x %d" % (v, width))
        for _ in range(3000 if quick else 200000):
            k = rng.random()
            if k < 0.3:
                v = rng.getrandbits(width)
            elif k < 0.6:   # repeated random element
                es = rng.choice((2, 4, 8, 16, 32))
                e = rng.getrandbits(es)
                v = 0
                for i in range(0, width, es):
                    v |= e << i
            else:           # two runs
                a, b = rng.randrange(width), rng.randrange(width)
                v = (((1 << a) - 1) ^ ((1 << b) - 1)) ^ (rng.getrandbits(1) * mask)
                if rng.random() < 0.3:
                    v ^= 1 << rng.randrange(width)
            ops.append("logimm %x %d" % (v & mask, width))
        for v in (0, mask, 1, mask - 1, 1 << (width - 1), mask >> 1):
            ops.append("logimm %x %d" % (v, width))
    # fp8: all 256 expansions per format, every one-bit neighbour, random
    for bits in (16, 32, 64):
        seen = set()
        for i in range(256):
            v = vfp_expand(bits, i)
            seen.add(v)
            for b in range(bits):
                seen.add(v ^ (1 << b))
        for _ in range(500 if quick else 50000):
            seen.add(rng.getrandbits(bits))
        for v in sorted(seen):
            ops.append("fp %d %x" % (bits, v))
    # byte masks
    seen = set()
    for i in range(256):
        v = sum(0xFF << (8 * k) for k in range(8) if (i >> k) & 1)
        seen.add(v)
        for b in range(0, 64, 1 if not quick else 5):
            seen.add(v ^ (1 << b))
    for v in sorted(seen):
        ops.append("bytemask %x" % v)
    # add/sub
    for v in sorted({0, 1, 0xFFE, 0xFFF, 0x1000, 0x1001, 0x1FFF, 0x2000, 0xFFF000, 0xFFF001, 0xFFE000, 0x1000000, 0x1001000, 0xFFFFFF,
                     (1 << 64) - 1, 1 << 63, 0x800, 0x800000} | {rng.getrandbits(rng.choice((12, 24, 25, 64))) for _ in range(400)} |
                    {rng.getrandbits(12) << 12 for _ in range(200)}):
        ops.append("addsub %x" % v)
    # move-wide sequences: all {0, FFFF, r}^4 half-word patterns, random
    hw = [0, 0xFFFF, 0x1234, 0x8000, 1]
    for a in hw:
        for b in hw:
            for c in hw:
                for d in hw:
                    imm = a | (b << 16) | (c << 32) | (d << 48)
                    rd = rng.choice((0, 1, 17, 30, 31))
                    ops.append("movseq %x %d 1" % (imm, rd))
                    if imm <= 0xFFFFFFFF:
                        ops.append("movseq %x %d 0" % (imm, rd))
    for _ in range(1500 if quick else 100000):
        imm = 0
        for k in range(4):
            imm |= rng.choice((0, 0xFFFF, rng.getrandbits(16))) << (16 * k)
        ops.append("movseq %x %d 1" % (imm, rng.randrange(32)))
        ops.append("movseq %x %d 0" % (imm & 0xFFFFFFFF, rng.randrange(32)))
    for sz in range(4):
        for idx in range(18):
            ops.append("lmh %d %d" % (sz, idx))
    return ops


def monitor_line(op, ans):
    w = op.split()
    if w[0] == "enc":
        return "mon " + op[4:] + " " + ans
    if w[0] in ("logimm", "fp", "bytemask", "addsub", "movseq", "direct", "bf", "lmh"):
        return "mon_" + op + " " + ans
    return None


def generate():
    """(re)write every Gen/ file this property's Lean modules import, from the current /repo tree"""
    fmts, sites = gen_formats.collect(vlib.REPO)
    vlib.gen_write("AsmjitVerif/Gen/FormatsInUse.lean", gen_formats.render(fmts, sites))
    return fmts


def run(res):
    rng = vlib.rng_for(res.seed, PID)
    res.assumptions += ["Support::loadu/storeu little-endian = byte list semantics",
                        "Thumb/A32 formats: no compiled backend constructs them; one canonical geometry per OffsetType is proved "
                        "(A32 ADR with bit_count 32); a T32 instruction word is hw1:hw2 as in the Arm ARM diagrams; the model follows "
                        "the code repaired by fixes/C17-1.patch",
                        "has_sign_bit formats: INT64_MIN is refused by the model (signed negation overflow in the pinned C++, fixes/C17-2.patch)",
                        "write_offset has no bounds check in C++; harness and model refuse regions outside the buffer",
                        "direct path: exercised through absolute targets with a base address (EmitOp_DispImm is shared with bound labels)",
                        "bit-field aliases: spec = Arm ARM BFM/SBFM/UBFM pseudo-code + alias descriptions (Spec/A64Imm.lean)"]
    broken = []     # descriptions of proof obligations / correspondences that no longer check

    # -- L2a translator: formats constructed by the current sources ---------------------------------
    try:
        fmts = generate()
    except gen_formats.TranslateError as e:
        broken.append("translator gen_formats: " + str(e))
        fmts = []
    res.coverage["formats_in_use"] = ["%s/%d/shift%d/bits%d/discard%d" % f for f in fmts]

    # -- L1 proofs -----------------------------------------------------------------------------------
    ok, out = vlib.lean_stage(res, PID, MODS)
    if not ok and not res.violations:
        for ft in getattr(res, "build_failures", []) or [{"decl": "?", "msg": out[-800:]}]:
            broken.append("theorem %s (%s:%s) no longer checks: %s" % (ft.get("decl"), ft.get("file"), ft.get("line"), ft.get("msg")))
        # the driver may be stale but still exists only if it built before; make sure we have one
        vlib.lake_build(["vdriver"])
    if not vlib.driver_path().exists():
        res.violation("Lean driver does not build", {"log": out[-3000:]}, found_input=False, key="driver")
        return

    if ok and res.tier == "thorough":
        # independent re-check of the compiled proofs: kernel replay of the .olean files (incl. the helper lemma modules)
        replay_mods = MODS + ["AsmjitVerif.Lemmas.OffsetGeneric", "AsmjitVerif.Lemmas.OffsetGeneric64", "AsmjitVerif.Lemmas.OffsetArm32",
                              "AsmjitVerif.Lemmas.A64Logical", "AsmjitVerif.Lemmas.Bytes"]
        with vlib.Lock("lake"):
            for mod in replay_mods:
                p = vlib.sh(["lake", "env", "leanchecker", mod], cwd=vlib.LEAN, timeout=3600)
                if p.returncode != 0:
                    broken.append("leanchecker rejects %s: %s" % (mod, (p.stdout + p.stderr)[-400:]))
        res.coverage["leanchecker"] = "replayed %s" % ", ".join(replay_mods) if not any("leanchecker" in b for b in broken) else "FAILED"
        res.coverage["checker_cmd"] += " && lake env leanchecker " + " ".join(replay_mods)

    # -- L2b correspondence + L3 monitor -----------------------------------------------------------
    h = vlib.build_harness("c17")
    proved = [("signed", s, 0, 8 * s, 0) for s in (1, 2, 4, 8)] + [("unsigned", s, 0, 8 * s, 0) for s in (1, 2, 4, 8)] + \
             [("a64Adr", 4, 5, 21, 0), ("a64Adrp", 4, 5, 21, 12), ("signed", 4, 5, 19, 2), ("signed", 4, 0, 26, 2), ("signed", 4, 5, 14, 2)]
    generic = gen_generic_formats(rng, res.tier)
    allf = sorted(set(fmts) | set(proved) | set(ARM32) | set(generic))
    allf = [f for f in allf if f[0] in TYPECODE]
    res.coverage["formats_exercised"] = {"in_use_or_proved": len(set(fmts) | set(proved)), "thumb_a32": len(ARM32), "generic_geometries": len(generic)}
    ops = gen_ops(allf, rng, res.tier, light=set(generic) - set(fmts) - set(proved)) + gen_a64_ops(rng, res.tier) + gen_direct_ops(rng, res.tier) + gen_bf_ops(rng, res.tier)
    # undefined behaviour of the pinned tree (fixes/C17-2.patch): probe each class in its own process; the main run skips
    # those inputs ("skip-ub") until the tree is repaired
    ub_found = []
    for key, probe, what in ((KEY_UB_ROR0, "enc 8 4 0 32 0 0 10001", "encode_aarch32_imm(0x10001) calls Support::ror(v, 0): shift by the type width"),
                             (KEY_UB_MIN, "enc 9 4 0 12 0 0 8000000000000000", "encode_offset32 negates INT64_MIN for a sign-bit format")):
        pout, prc, perr = vlib.run_lines([str(h)], [probe], env={"VH_C17_UB": "1"})
        if prc != 0:
            first = [l for l in perr.splitlines() if "runtime error" in l][:1]
            ub_found.append((key, probe, what, (first or [perr[-200:]])[0]))
    henv = {} if ub_found else {"VH_C17_UB": "1"}
    res.coverage["ub_inputs_skipped"] = bool(ub_found)
    impl, rc, err = vlib.run_lines([str(h)], ops, env=henv)
    if rc != 0:
        i, tail = vlib.locate_abort([str(h)], ops)
        first = [l for l in tail.splitlines() if "runtime error" in l or "ERROR: AddressSanitizer" in l][:1]
        res.violation("real code aborts under ASan/UBSan on %r: %s" % (ops[i], (first or [tail[-300:]])[0]),
                      {"ops": [ops[i]], "stderr": tail}, found_input=True, key="abort:" + ops[i].split()[0])
        return
    model, rc2, err2 = vlib.run_model("C17", ops)
    if rc2 != 0 or len(model) != len(ops) or len(impl) != len(ops):
        res.violation("driver/harness protocol failure rc=%d/%d lines %d/%d/%d %s" % (rc, rc2, len(ops), len(impl), len(model), err2[-500:]),
                      {}, found_input=False, key="protocol")
        return
    # inputs the harness skipped because the pinned tree has undefined behaviour there: take the model's answer
    skipped = [i for i, r in enumerate(impl) if r == "skip-ub"]
    for i in skipped:
        impl[i] = model[i]
    res.coverage["ub_skipped_ops"] = len(skipped)
    # monitor: the property predicate on every answer of the implementation
    mon_ops, idx = [], []
    skipset = set(skipped)
    for i, (o, r) in enumerate(zip(ops, impl)):
        if i in skipset:
            continue
        ml = monitor_line(o, r)
        if ml:
            mon_ops.append(ml)
            idx.append(i)
    mon, _, _ = vlib.run_model("C17", mon_ops)
    if len(mon) != len(mon_ops):
        res.violation("monitor protocol failure (%d answers for %d lines)" % (len(mon), len(mon_ops)), {}, False, key="protocol")
        return
    bad = [(idx[k], m) for k, m in enumerate(mon) if m != "good"]
    res.coverage["monitored_answers"] = len(mon_ops)
    diffs = [i for i in range(len(ops)) if impl[i] != model[i]]
    # bisect range mismatches down to single offsets so that the monitor can judge them
    extra = []
    for i in diffs:
        w = ops[i].split()
        if w[0] == "range":
            lo, cnt, st = int(w[7], 16), int(w[8]), int(w[9], 16)
            for j in range(cnt):
                extra.append("enc %s %x" % (" ".join(w[1:7]), (lo + j * st) & M64))
    if extra:
        ei, _, _ = vlib.run_lines([str(h)], extra, env=henv)
        em, _, _ = vlib.run_model("C17", extra)
        emon, _, _ = vlib.run_model("C17", ["mon " + o[4:] + " " + r for o, r in zip(extra, ei)])
        for o, a, b, m in zip(extra, ei, em, emon):
            if a == "skip-ub":
                continue
            if m != "good":
                bad.append((o, m))
    nontriv = len({o for o, r in zip(ops, impl) if r.startswith("ok") or r.startswith("hash")})
    res.coverage["evaluations"] = len(ops) + sum(int(o.split()[8]) for o in ops if o.startswith("range"))
    res.coverage["distinct_nontrivial"] = nontriv
    res.coverage["rule"] = ("per format in use: boundary offsets around every power of two that matters, seeded random offsets, "
                            "bulk exhaustive ranges over the whole field (<=16 bits quick, <=26 bits thorough) and a band outside it, "
                            "write_offset on random buffers; non-trivial = distinct op whose answer is an accepted encoding or a range hash")
    res.coverage["exhaustive"] = False
    kinds = {}
    for o, r in zip(ops, impl):
        k = o.split()[0] + ":" + r.split()[0]
        kinds[k] = kinds.get(k, 0) + 1
    res.coverage["input_distribution"] = kinds
    res.add_samples([{"op": ops[i], "impl": impl[i], "model": model[i]} for i in (0, len(ops) // 3, len(ops) // 2, len(ops) - 1)])
    res.coverage["traces_validated_against_impl"] = len(ops)

    def op_of(i):
        return ops[i] if isinstance(i, int) else i

    def is_thumb_branch(op):
        w = op.split()
        return w[0] in ("enc", "range", "write") and len(w) > 1 and w[1] in (str(TYPECODE[t]) for t in THUMB_BRANCH)

    def key_of(op):
        return KEY_THUMB if is_thumb_branch(op) else "codec:" + op.split()[0]

    for key, probe, what, line in ub_found:
        res.violation("undefined behaviour in the real code: %s (%s); witness `%s` with VH_C17_UB=1" % (what, line, probe),
                      {"ops": [probe], "env": {"VH_C17_UB": "1"}}, True, key=key)
    by_key = {}
    for i, m in bad:
        by_key.setdefault(key_of(op_of(i)), []).append((op_of(i), m))
    for key, items in sorted(by_key.items()):
        op, m = items[0]
        res.violation("codec not exact on the real code: %s -> monitor says %s (%d such inputs)" % (op, m, len(items)),
                      {"ops": [op], "monitor": m, "how": "echo '<op>' | .build/<tree>/asan/h_c17 ; vdriver C17 mon"}, True, key=key)
    # correspondence differences that the findings above do not explain
    explained = KEY_THUMB in by_key
    diffs = [i for i in diffs if not (explained and is_thumb_branch(ops[i]))]
    if diffs and not [k for k in by_key if k != KEY_THUMB]:
        i = diffs[0]
        res.violation("correspondence model/implementation differs at %r: impl=%s model=%s (%d differing ops); the property predicate "
                      "holds on every explored input" % (ops[i], impl[i], model[i], len(diffs)),
                      {"ops": [ops[i]], "impl": impl[i], "model": model[i], "unchecked": "correspondence Model/Offset.lean ~ codewriter.cpp"},
                      False, key="corr")
    if broken:
        res.violation("proof obligation no longer checks: " + " | ".join(broken)[:1500],
                      {"unchecked": broken}, False, key="obligation")


def replay(data):
    ops = data["replay"].get("ops", [])
    h = vlib.build_harness("c17")
    impl, rc, err = vlib.run_lines([str(h)], ops, env=data["replay"].get("env"))
    for o, r in zip(ops, impl):
        print(o, "->", r)
    if rc != 0:
        print(err[-1500:])
    return 0
