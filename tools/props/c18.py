"""C18 — arena-backed containers and strings behave like their abstract data types (DESIGN.md section 6, C18)."""
import re
from concurrent.futures import ThreadPoolExecutor

import vlib
import gen_primes

PID = "C18"
MANIFEST = {
    "technique": "Lean 4 theorems (induction over all operation sequences, all 2^32 hash codes per regenerated prime-table row) over hand "
                 "models of Arena/ArenaVector/ArenaHash/ArenaTree/ArenaList/ArenaPool/ArenaBitSet/String + C++/Lean correspondence on "
                 "interleaved operation sequences sharing one arena + Lean monitor (textbook ADTs, red-black/BST/hash-reachability/"
                 "region-disjointness predicates) judging every answer of the real code",
    "text": "Proved in Lean for all inputs/histories: _calc_mod equals hash % prime for every row of the prime table regenerated from "
            "arenahash.cpp and every 32-bit hash; arena safety (live regions aligned, in bounds, pairwise disjoint, reset returns all) over "
            "all alloc/free/reset sequences; ArenaVector, ArenaBitSet and String refine the textbook list / bit list / byte string over "
            "all operation sequences interleaved with an allocation oracle that may fail or grant anything at any point (no write outside "
            "the allocation, capacity >= size, failure leaves the container unchanged, null termination, append_uint parses back, the "
            "non-format part of _op_vformat); ArenaHash refines a finite map with every node reachable from bucket hash % bucket_count; "
            "ArenaPool is a LIFO of released blocks; Arena::dup and ArenaString<N>::set_data store exactly the bytes, null terminated; ArenaTree: tree_refines_set for every mixed insert/remove history (ordered-set "
            "refinement, BST order and red-black balance - root black, no red-red, equal black height - preserved, fuel never exhausted "
            "below 2^64 nodes); ArenaList: list_refines_list for all seven operations with both link directions consistent; the "
            "word-level bit primitives equal the List Bool specification. The models are tied to the real classes by running both on the "
            "same seeded operation lines (adversarial sizes/keys, several containers on one arena, soft/hard resets, static-buffer "
            "arenas, huge untouched allocations on a non-sanitized build, an allocator that refuses 16 MB) and the monitor judges every "
            "answer of the implementation.",
    "note": "Assumptions of the theorems: hash map and list sequence theorems assume the get-before-insert protocol / fresh values (no "
            "duplicate keys or values); vector item size < 2^32; histories shorter than 2^64 operations. vsnprintf itself is an oracle "
            "(only the buffer handling of String::_op_vformat is modelled and tested, with the format \"%s\" / \"%*s\"). Multi-GiB "
            "scenarios and the allocation-failure scenario are judged by the monitor only (no model correspondence). Raw memory safety is "
            "what ASan/UBSan/LSan see on the explored histories. Trusted: Lean kernel, Spec/C18*.lean as the meaning of the ADTs, "
            "gen_primes.py, harness/driver/diff, malloc returning fresh blocks.",
}
MODS = ["AsmjitVerif.Props.C18"]
U64 = (1 << 64) - 1
HUGE = [0xFFFFFFFF, 0x100000005, 1 << 63, U64, U64 - 7, (1 << 62) + 3]


# ------------------------------------------------------------------------------------------------
# scenario generators (every scenario starts with `A new` and is replayable on its own)
# ------------------------------------------------------------------------------------------------

def arena_new(rng):
    mb = rng.choice([1024, 1024, 2048, 4096, 8192, 1500, 65536])
    st = rng.choice([0, 0, 0, 64, 100, 256, 1000, 4096, 8000])
    return "A new %d %d" % (mb, st)


def sc_arena(rng, n):
    ops = [arena_new(rng)]
    live, nh = [], 0
    for _ in range(n):
        r = rng.random()
        if r < 0.30:
            ops.append("A one %d" % (8 * rng.choice([1, 1, 2, 3, 4, 8, 16, 31, 32, 33, 64, 100, 125, 128, 250, 256, 300, 512, 700, 1000, 2500, 9000])))
        elif r < 0.62:
            nh += 1
            sz = rng.choice([1, 7, 15, 16, 17, 24, 31, 32, 33, 63, 64, 65, 100, 127, 128, 129, 255, 256, 257, 500, 512, 513, 1000, 1024,
                             1025, 2000, 2047, 2048, 2049, 2100, 3000, 5000, 20000, rng.randrange(1, 2200)])
            ops.append("A get %d %d" % (nh, sz))
            live.append(nh)
        elif r < 0.85 and live:
            h = live.pop(rng.randrange(len(live)))
            ops.append("A put %d" % h)
        elif r < 0.92:
            ops.append("A reset %s" % rng.choice(["soft", "soft", "hard"]))
            live = []
        else:
            ops.append("A stats")
    ops.append("A stats")
    return ops


def sc_arena_reuse(rng, n):
    """soft reset followed by requests of growing size: exercises the spare-block loop of _alloc_oneshot (defect #19)"""
    ops = ["A new %d %d" % (rng.choice([1024, 2048, 4096, 8192]), rng.choice([0, 0, 256]))]
    for rnd in range(rng.randrange(2, 5)):
        for _ in range(rng.randrange(5, 40)):
            ops.append("A one %d" % (8 * rng.choice([32, 64, 100, 125, 128, 200, 500])))
        ops.append("A stats")
        ops.append("A reset soft")
        for _ in range(rng.randrange(1, 6)):
            ops.append("A one %d" % (8 * rng.choice([16, 200, 400, 600, 1000, 1500, 2500, 4000, 10000])))
            if rng.random() < 0.5:
                ops.append("A get %d %d" % (1000 + len(ops), rng.choice([100, 2000, 3000, 9000])))
        ops.append("A stats")
        if rng.random() < 0.3:
            ops.append("A reset hard")
    ops.append("A stats")
    return ops[:n + 30]


def sc_dyn_only(rng, n):
    """an arena that only ever hands out dynamic blocks, then is reset / destroyed (leak check at exit)"""
    ops = ["A new %d 0" % rng.choice([1024, 4096])]
    for i in range(rng.randrange(1, 4)):
        ops.append("A get %d %d" % (i + 1, rng.choice([2049, 3000, 5000, 70000])))
    ops.append(rng.choice(["A reset hard", "A reset soft", "A stats"]))
    ops.append("A stats")
    return ops


def vec_ops(rng, ids, n, sizes):
    ops = []
    for _ in range(n):
        v = rng.choice(ids)
        s = sizes.get(v, 0)
        r = rng.random()
        x = rng.choice([0, 1, 2, 3, 5, 7, 7, 9, rng.randrange(0, 1 << 32)])
        if r < 0.28:
            ops.append("V %d append %d" % (v, x)); sizes[v] = s + 1
        elif r < 0.36:
            ops.append("V %d prepend %d" % (v, x)); sizes[v] = s + 1
        elif r < 0.46:
            ops.append("V %d insert %d %d" % (v, rng.randrange(0, s + 2), x)); sizes[v] = s + 1
        elif r < 0.54:
            ops.append("V %d remove_at %d" % (v, rng.randrange(0, s + 1))); sizes[v] = max(0, s - 1)
        elif r < 0.58:
            ops.append("V %d pop" % v); sizes[v] = max(0, s - 1)
        elif r < 0.60:
            ops.append("V %d clear" % v); sizes[v] = 0
        elif r < 0.64:
            t = rng.randrange(0, s + 3); ops.append("V %d truncate %d" % (v, t)); sizes[v] = min(s, t)
        elif r < 0.76:
            k = rng.choice(["reserve_fit", "reserve_grow", "reserve_add", "resize_fit", "resize_grow"])
            nn = rng.choice([0, 1, 3, 4, 5, 15, 16, 17, 31, 33, 63, 64, 65, 128, 129, 170, 171, 500, 512, 513, 700, 2000, 6000]
                            if rng.random() < 0.85 else HUGE)
            ops.append("V %d %s %d" % (v, k, nn))
            if k.startswith("resize") and nn < (1 << 31):
                sizes[v] = nn
        elif r < 0.82 and len(ids) > 1:
            o = rng.choice([i for i in ids if i != v])
            k = rng.choice(["concat", "swap"])
            ops.append("V %d %s %d" % (v, k, o))
            if k == "swap":
                sizes[v], sizes[o] = sizes.get(o, 0), s
            else:
                sizes[v] = s + sizes.get(o, 0)
        elif r < 0.85:
            ops.append("V %d release" % v); sizes[v] = 0
        else:
            ops.append("V %d %s %d" % (v, rng.choice(["index_of", "last_index_of", "contains"]), x))
    return ops


def sc_vector(rng, n):
    ops = [arena_new(rng)]
    item = rng.choice([4, 12])
    ids = [1, 2, 3]
    for i in ids:
        ops.append("V new %d %d" % (i, item))
    ops.append("V new 4 %d" % (16 - item))
    ops += vec_ops(rng, ids + ([4] if rng.random() < 0.3 else []), n, {})
    ops.append("A stats")
    return [o for o in ops if not (o.startswith("V 4 concat") or o.startswith("V 4 swap") or re.match(r"V \d (concat|swap) 4", o))]


def hkey(rng, mode, k):
    if mode == 0:
        return k
    if mode == 1:
        return k % 7
    if mode == 2:
        return (k * 2654435761) & 0xFFFFFFFF
    if mode == 3:
        return 12345
    return (k * 29 * 59) & 0xFFFFFFFF       # collides modulo the primes 29 and 59 of the table


def hash_ops(rng, h, n, mode, keys):
    ops = []
    for i in range(n):
        r = rng.random()
        k = rng.randrange(0, 400) if rng.random() < 0.8 else rng.randrange(0, 1 << 32)
        if r < 0.55:
            ops.append("H %d insert %d %d" % (h, k, hkey(rng, mode, k))); keys.append(k)
        elif r < 0.75 and keys:
            k = rng.choice(keys) if rng.random() < 0.8 else k
            ops.append("H %d remove %d %d" % (h, k, hkey(rng, mode, k)))
            if k in keys:
                keys.remove(k)
        elif r < 0.92:
            k = rng.choice(keys) if keys and rng.random() < 0.6 else k
            ops.append("H %d get %d %d" % (h, k, hkey(rng, mode, k)))
        else:
            ops.append("H %d dump" % h)
    ops.append("H %d dump" % h)
    return ops


def both_dump(prefix, ids):
    return ["%s %d dump" % (prefix, i) for i in ids]


def sc_empty(rng, n):
    """binary / whole-object operations (swap, move, copy, release, reset, compare) on EMPTY and embedded-storage objects,
    each followed by insertions into BOTH objects and dumps of BOTH (aliasing between the two objects shows up there)"""
    ops = [arena_new(rng)]
    # hash tables
    ops += ["H new 1", "H new 2", "H new 3"]
    for rnd in range(rng.randrange(2, 5)):
        a, b = rng.sample([1, 2, 3], 2)
        ops.append(rng.choice(["H %d swap %d" % (a, b), "H %d swap %d" % (b, a), "H %d move_from %d" % (a, b), "H %d release" % a, "H %d reset" % a]))
        ops += both_dump("H", [1, 2, 3])
        for t in rng.sample([1, 2, 3], rng.randrange(1, 4)):
            for _ in range(rng.randrange(1, 4)):
                k = rng.randrange(0, 1000)
                ops.append("H %d insert %d %d" % (t, k + 1000 * t + 10000 * rnd, k))
            ops += both_dump("H", [1, 2, 3])
        gk = rng.randrange(0, 1000) + 1000 * rng.randrange(1, 4) + 10000 * rng.randrange(0, rnd + 1)
        ops.append("H %d get %d %d" % (rng.randrange(1, 4), gk, gk % 1000))     # the hash code is a function of the key (key % 1000)
        if rng.random() < 0.5:
            ops.append("A get %d 16" % (900 + rnd))
    # vectors
    item = rng.choice([4, 12])
    ops += ["V new 1 %d" % item, "V new 2 %d" % item]
    for rnd in range(3):
        a, b = rng.sample([1, 2], 2)
        ops.append(rng.choice(["V %d swap %d", "V %d move_from %d", "V %d move_ctor %d", "V %d concat %d"]) % (a, b))
        ops += ["V 1 info", "V 2 info", "V %d append %d" % (b, rnd + 1), "V %d append %d" % (a, rnd + 10), "V 1 info", "V 2 info"]
        if rng.random() < 0.4:
            ops.append("V %d release" % a)
    # bit sets of different sizes, including empty ones
    ops += ["B new 1", "B new 2", "B new 3"]
    for rnd in range(5):
        a, b = rng.sample([1, 2, 3], 2)
        ops.append(rng.choice(["B %d swap %d", "B %d copy_from %d", "B %d equals %d", "B %d or_ %d", "B %d and %d", "B %d andnot %d"]) % (a, b))
        ops += ["B 1 info", "B 2 info", "B 3 info"]
        ops.append("B %d resize %d %d" % (rng.choice([a, b]), rng.choice([0, 1, 63, 64, 65, 130, 200]), rng.randrange(0, 2)))
        ops.append("B %d append %d" % (rng.choice([1, 2, 3]), rng.randrange(0, 2)))
    # strings
    ops += ["S new 1", "S new 2"]
    for rnd in range(4):
        a, b = rng.sample([1, 2], 2)
        ops.append(rng.choice(["S %d swap %d", "S %d move_from %d", "S %d move_ctor %d"]) % (a, b))
        ops += ["S 1 eq -", "S 2 eq -", "S %d append %s" % (b, rbytes(rng, rng.choice([1, 5, 31, 40]))), "S 1 eq -", "S 2 eq -"]
    # lists and trees
    ops += ["L new 1", "L new 2", "T new 1", "T new 2", "L 1 swap 2", "L 2 append 1", "L 1 dump", "L 2 dump", "L 2 swap 1", "L 2 prepend 2",
            "L 1 dump", "L 2 dump", "T 1 swap 2", "T 2 insert 5", "T 1 get 5", "T 2 get 5", "T 2 swap 1", "T 2 insert 6", "T 1 get 5", "T 1 get 6", "T 2 get 6"]
    ops.append("A stats")
    return ops


def sc_misc(rng, n):
    """ArenaString<N>, Arena::dup, Span adaptors of ArenaVector, ArenaPool counters - interleaved on one arena"""
    ops = [arena_new(rng), "Z new 1 16", "Z new 2 40", "V new 1 4", "V new 2 4", "T new 1"]
    keys = []
    for _ in range(n):
        r = rng.random()
        if r < 0.3:
            z = rng.choice([1, 2])
            ln = rng.choice([0, 1, 3, 10, 11, 12, 13, 34, 35, 36, 37, 60, 200, 1500])
            ops.append(rng.choice(["Z %d set %s" % (z, rbytes(rng, ln)), "Z %d set %s" % (z, rbytes(rng, ln)), "Z %d reset" % z]))
        elif r < 0.45:
            ops.append("A dup %s %d" % (rbytes(rng, rng.choice([0, 1, 6, 7, 8, 9, 15, 16, 17, 100, 1017, 3000])), rng.randrange(0, 2)))
        elif r < 0.7:
            v = rng.choice([1, 2])
            ops.append(rng.choice(["V %d append %d" % (v, rng.randrange(0, 5)), "V %d iter" % v, "V %d riter" % v, "V %d first_last" % v,
                                   "V %d span_eq %d" % (v, 3 - v), "V %d pop" % v, "V %d clear" % v]))
        elif r < 0.95:
            if keys and rng.random() < 0.5:
                k = keys.pop(rng.randrange(len(keys))); ops.append("T 1 remove %d" % k)
            else:
                k = rng.randrange(0, 60); ops.append("T 1 insert %d" % k)
                if k not in keys:
                    keys.append(k)
            ops.append("A pool count")
        elif r < 0.97:
            ops += ["A pool reset", "A pool count"]
        else:
            ops += ["A reset %s" % rng.choice(["soft", "hard"]), "Z new 1 16", "Z new 2 40", "V new 1 4", "V new 2 4", "T new 1"]
            keys = []
    ops.append("A stats")
    return ops


def sc_hash(rng, n):
    ops = [arena_new(rng), "H new 1", "H new 2"]
    if rng.random() < 0.6:
        ops += [rng.choice(["H 1 swap 2", "H 2 swap 1", "H 1 move_from 2", "H 2 reset", "H 1 release"]), "H 1 dump", "H 2 dump"]
    mode = rng.randrange(0, 5)
    k1, k2 = [], []
    ops += hash_ops(rng, 1, n // 2, mode, k1)
    ops += hash_ops(rng, 2, n // 6, mode, k2)
    ops += ["H 1 swap 2", "H 1 dump", "H 2 dump"]
    ops += hash_ops(rng, 2, n // 6, mode, k1)
    ops += [rng.choice(["H 1 release", "H 1 dump"]), "H 1 dump", "H 1 insert 5 5", "H 1 dump", "A stats"]
    return ops


def tree_ops(rng, t, n, pattern, keys):
    ops = []
    nxt = [0, 100000]
    for i in range(n):
        r = rng.random()
        if r < 0.55 or not keys:
            if pattern == 0:
                nxt[0] += rng.choice([1, 1, 2]); k = nxt[0]
            elif pattern == 1:
                nxt[1] -= rng.choice([1, 1, 3]); k = nxt[1]
            elif pattern == 2:
                k = rng.randrange(0, 300)
            else:
                k = rng.randrange(0, 1 << 32)
            ops.append("T %d insert %d" % (t, k))
            if k not in keys:
                keys.append(k)
        elif r < 0.85:
            k = rng.choice(keys) if rng.random() < 0.85 else rng.randrange(0, 300)
            ops.append("T %d remove %d" % (t, k))
            if k in keys:
                keys.remove(k)
        else:
            k = rng.choice(keys) if rng.random() < 0.5 else rng.randrange(0, 300)
            ops.append("T %d get %d" % (t, k))
    return ops


def sc_tree(rng, n):
    ops = [arena_new(rng), "T new 1", "T new 2"]
    k1, k2 = [], []
    ops += tree_ops(rng, 1, n // 2, rng.randrange(0, 4), k1)
    ops += tree_ops(rng, 2, n // 4, rng.randrange(0, 4), k2)
    ops += ["T 1 swap 2"]
    ops += tree_ops(rng, 1, n // 8, 2, k2)
    # drain
    for k in list(k1):
        ops.append("T 2 remove %d" % k)
    return ops


def list_ops(rng, l, n, vals, counter):
    ops = []
    for _ in range(n):
        r = rng.random()
        if r < 0.45 or not vals:
            counter[0] += 1
            v = counter[0]
            k = rng.choice(["append", "prepend", "insert_after", "insert_before"]) if vals else rng.choice(["append", "prepend"])
            if k in ("append", "prepend"):
                ops.append("L %d %s %d" % (l, k, v))
            else:
                ops.append("L %d %s %d %d" % (l, k, rng.choice(vals), v))
            vals.append(v)
        elif r < 0.65:
            v = rng.choice(vals); ops.append("L %d unlink %d" % (l, v)); vals.remove(v)
        elif r < 0.85:
            ops.append("L %d %s" % (l, rng.choice(["pop", "pop_first"])))
            vals[:] = []  # unknown which one went; later refs may hit `precond`, which both sides answer alike
            ops.append("L %d dump" % l)
        else:
            ops.append("L %d unlink %d" % (l, rng.randrange(0, 50)))
    return ops


def sc_list(rng, n):
    ops = [arena_new(rng), "L new 1", "L new 2"]
    c = [0]
    ops += list_ops(rng, 1, n // 2, [], c)
    ops += list_ops(rng, 2, n // 4, [], c)
    ops += ["L 1 swap 2", "L 1 dump", "L 2 dump"]
    ops += list_ops(rng, 1, n // 4, [], c)
    return ops


def bits_ops(rng, ids, n, sizes):
    ops = []
    edge = [0, 1, 5, 7, 31, 63, 64, 65, 70, 100, 127, 128, 129, 130, 191, 192, 200, 255, 256, 257, 300, 1000, 2047, 2048, 2049, 5000]
    for _ in range(n):
        b = rng.choice(ids)
        s = sizes.get(b, 0)
        r = rng.random()
        if r < 0.2:
            nn = rng.choice(edge) if rng.random() < 0.7 else max(0, s + rng.randrange(-70, 70))
            ops.append("B %d resize %d %d" % (b, nn, rng.randrange(0, 2))); sizes[b] = nn
        elif r < 0.35:
            ops.append("B %d append %d" % (b, rng.randrange(0, 2))); sizes[b] = s + 1
        elif r < 0.5:
            ops.append("B %d %s %d %d" % (b, rng.choice(["set", "or", "xor"]), rng.randrange(0, s + 2), rng.randrange(0, 2)))
        elif r < 0.62:
            st = rng.randrange(0, s + 1)
            ops.append("B %d %s %d %d" % (b, rng.choice(["fill", "clear_bits"]), st, rng.randrange(0, s - st + 2)))
        elif r < 0.68:
            t = rng.randrange(0, s + 3); ops.append("B %d truncate %d" % (b, t)); sizes[b] = min(s, t)
        elif r < 0.70:
            ops.append("B %d clear" % b); sizes[b] = 0
        elif r < 0.76:
            ops.append("B %d %s" % (b, rng.choice(["fill_all", "clear_all", "iter", "iter"])))
        elif r < 0.9 and len(ids) > 1:
            o = rng.choice([i for i in ids if i != b])
            k = rng.choice(["and", "or_", "andnot", "copy_from", "equals", "swap"])
            ops.append("B %d %s %d" % (b, k, o))
            if k == "copy_from":
                sizes[b] = sizes.get(o, 0)
            if k == "swap":
                sizes[b], sizes[o] = sizes.get(o, 0), s
        elif r < 0.93:
            ops.append("B %d release" % b); sizes[b] = 0
        else:
            ops.append("B %d %s %d %d" % (b, rng.choice(["get", "index_of", "index_of"]), rng.randrange(0, s + 2), rng.randrange(0, 2)))
    return ops


def sc_bits(rng, n):
    ops = [arena_new(rng), "B new 1", "B new 2", "B new 3"]
    ops += bits_ops(rng, [1, 2, 3], n, {})
    ops += ["B 1 iter", "B 2 iter", "A stats"]
    return ops


def rbytes(rng, n):
    return "".join("%02x" % rng.choice([65, 66, 97, 48, 32, 255, 1, rng.randrange(1, 256)]) for _ in range(n)) or "-"


def str_ops(rng, ids, n):
    ops = []
    lens = [0, 1, 2, 5, 29, 30, 31, 32, 33, 60, 96, 97, 126, 127, 128, 129, 200, 511, 512, 513, 700]
    for _ in range(n):
        s = rng.choice(ids)
        r = rng.random()
        ln = rng.choice(lens) if rng.random() < 0.5 else rng.randrange(0, 40)
        if r < 0.10:
            ops.append("S %d %s %s" % (s, rng.choice(["assign", "assign_span"]), rbytes(rng, ln)))
        elif r < 0.28:
            ops.append("S %d append %s" % (s, rbytes(rng, ln)))
        elif r < 0.36:
            ops.append("S %d %s %d" % (s, rng.choice(["append_char", "append_char", "assign_char"]), rng.randrange(1, 256)))
        elif r < 0.46:
            nn = rng.choice(lens) if rng.random() < 0.9 else rng.choice([1 << 41, 1 << 63, U64, U64 - (1 << 24), U64 - (1 << 24) - 40])
            ops.append("S %d %s %d %d" % (s, rng.choice(["append_chars", "append_chars", "assign_chars"]), rng.randrange(1, 256), nn))
        elif r < 0.66:
            v = rng.choice([0, 1, 7, 8, 9, 10, 15, 16, 255, 256, 1000, (1 << 31), (1 << 32) - 1, (1 << 63) - 1, 1 << 63, (1 << 63) + 1, U64, U64 - 1,
                            rng.getrandbits(64), rng.getrandbits(rng.randrange(1, 65))])
            base = rng.choice([0, 2, 8, 10, 16, 10, 16, 3, 7, 36, 1])
            width = rng.choice([0, 0, 0, 1, 5, 20, 64, 70, 255, 256, 257, 300, 100000])
            flags = rng.choice([0, 0, 0, 1, 2, 4, 5, 6, 3, 7])
            ops.append("S %d %s %d %d %d %d" % (s, rng.choice(["append_uint", "append_uint", "append_int", "assign_uint"]), v, base, width, flags))
        elif r < 0.74:
            ops.append("S %d %s %s %d" % (s, rng.choice(["append_hex", "append_hex", "assign_hex"]), rbytes(rng, rng.randrange(0, 20)), rng.choice([0, 0, 32, 58])))
        elif r < 0.77:
            ops.append("S %d pad_end %d %d" % (s, rng.choice(lens), rng.randrange(1, 128)))
        elif r < 0.80:
            # _op_vformat with "%s": lengths around the in-place threshold (128 free bytes), the 1024-byte stack buffer and
            # "exactly fills the capacity" (the generator cannot know the capacity: pad_end to cap-k is tried via common capacities)
            ops.append("S %d %s %s" % (s, rng.choice(["append_format", "append_format", "assign_format"]),
                                       rbytes(rng, rng.choice([0, 1, 5, 30, 31, 100, 127, 128, 129, 255, 311, 383, 384, 511, 512, 1023, 1024, 1025, 1500]))))
        elif r < 0.88:
            ops.append("S %d truncate %d" % (s, rng.choice(lens + [U64])))
        elif r < 0.91:
            ops.append("S %d clear" % s)
        elif r < 0.93:
            ops.append("S %d reset" % s)
        elif r < 0.97:
            o = rng.choice([i for i in ids if i != s])
            ops.append("S %d swap %d" % (s, o))
        else:
            ops.append("S %d eq %s" % (s, rbytes(rng, rng.randrange(0, 5))))
    return ops


def sc_string(rng, n):
    ops = ["A new 1024 0", "S new 1", "S new 2", "S new 3 tmp 32", "S new 4 tmp 100"]
    ops += str_ops(rng, [1, 2, 3, 4], n)
    return ops


def sc_mixed(rng, n):
    """several containers interleaved on one arena, with resets in between"""
    ops = [arena_new(rng)]
    for rnd in range(rng.randrange(1, 4)):
        item = rng.choice([4, 12])
        ops += ["V new 1 %d" % item, "V new 2 %d" % item, "H new 1", "T new 1", "L new 1", "B new 1", "B new 2", "S new 1", "S new 2"]
        chunks = []
        m = max(4, n // 24)
        vs, bs = {}, {}
        hk, tk, lc = [], [], [rnd * 1000]
        hmode = rng.randrange(0, 5)
        tpat = rng.randrange(0, 4)
        for _ in range(8):
            chunks.append(vec_ops(rng, [1, 2], m, vs))
            chunks.append(hash_ops(rng, 1, m, hmode, hk))
            chunks.append(tree_ops(rng, 1, m, tpat, tk))
            chunks.append(bits_ops(rng, [1, 2], m, bs))
            chunks.append(str_ops(rng, [1, 2], max(2, m // 3)))
            chunks.append(["A get %d %d" % (rnd * 100000 + len(ops) + i * 50 + j, rng.choice([8, 40, 100, 600, 2048, 2049, 4000]))
                           for i, j in [(len(chunks), k) for k in range(2)]])
        rng.shuffle(chunks)
        for c in chunks:
            ops += c
        ops.append("A stats")
        ops.append("A reset %s" % rng.choice(["soft", "hard"]))
        ops.append("A stats")
    return ops


SCENARIOS = [("empty", sc_empty, 3), ("misc", sc_misc, 2), ("arena", sc_arena, 3), ("arena_reuse", sc_arena_reuse, 2), ("dyn_only", sc_dyn_only, 1), ("vector", sc_vector, 3), ("hash", sc_hash, 2),
             ("tree", sc_tree, 3), ("list", sc_list, 1), ("bits", sc_bits, 3), ("string", sc_string, 3), ("mixed", sc_mixed, 3)]

# deterministic witnesses of the defects found while building the check (kept as regression scenarios)
FIXED = [
    ("w_arena19", ["A new 1024 0"] + ["A one 1000"] * 12 + ["A reset soft", "A one 5000", "A stats", "A one 64", "A stats", "A reset hard"]),
    ("w_dynleak", ["A new 4096 0", "A get 1 5000", "A get 2 3000", "A reset hard", "A stats"]),
    ("w_bitresize", ["A new 1024 0", "B new 1", "B 1 resize 5 1", "B 1 resize 7 0", "B 1 resize 70 1", "B 1 resize 130 0", "B 1 resize 131 1"]),
    ("w_lastindex", ["A new 1024 0", "V new 1 4", "V 1 append 5", "V 1 append 6", "V 1 append 5", "V 1 last_index_of 5", "V 1 index_of 5"]),
    ("w_format_fill", ["A new 1024 0", "S new 1", "S 1 append " + "41" * 200, "S 1 append_format " + "42" * 311, "S 1 append 43",
                       "S 1 assign_format " + "44" * 511, "S 1 assign_format " + "45" * 1300, "S 1 append_format -"]),
    ("w_swap_empty", ["A new 1024 0", "H new 1", "H new 2", "H 1 swap 2", "H 2 insert 7 7", "H 1 dump", "H 2 dump", "H 1 get 7 7", "H 2 insert 8 8",
                      "H 1 dump", "H 2 dump", "A get 1 16", "A get 2 16"]),
    ("w_assign0", ["A new 1024 0", "S new 1", "S 1 append 616263", "S 1 assign_chars 120 0", "S 1 append 64", "S 1 assign_span -", "S 1 assign_hex - 0"]),
]


# huge-allocation witnesses (run on a NON-sanitized build so that malloc hands out untouched multi-GiB mappings; judged by the
# monitor only, the Lean driver does not materialise 2^32-element buffers)
HUGE_SCENARIOS = [
    ("huge_vec_capacity", ["A new 4096 0", "V new 1 1", "V 1 reserve_grow 4294967294", "V 1 append 7", "V 1 release", "A stats"]),
    ("huge_vec_release", ["A new 4096 0", "V new 1 4", "V 1 reserve_fit 1073741828", "V 1 release", "A get 1 16", "A get 2 16", "A reset hard"]),
    ("huge_bits_capacity", ["A new 4096 0", "B new 1", "B 1 resize 4294967233 0", "B 1 release"]),
    ("huge_bits_size", ["A new 4096 0", "B new 1", "B 1 resize 4294967301 0", "B 1 release"]),
]


def gen_scenarios(rng, tier):
    reps = 6 if tier == "quick" else 90
    n = 140 if tier == "quick" else 260
    out = list(FIXED)
    for name, fn, wt in SCENARIOS:
        for i in range(reps * wt):
            out.append(("%s_%d" % (name, i), fn(rng, n if name != "hash" else n * 3)))
    return out


def calc_mod(p, r, s, x):
    q = ((x * r) >> s) & 0xFFFFFFFF
    return (x - q * p) & 0xFFFFFFFF


def prime_search(rows):
    """L3 search for the table lemma: for every row that fails the side condition of `calc_mod_eq` look for a hash whose
    `_calc_mod` differs from `% prime`, and when the row is reachable (`_insert` only visits even indices) build a
    scenario that grows a table to that row and uses the hash."""
    out = []
    for i, (p, r, s, g) in enumerate(rows):
        e = r * p - (1 << s)
        ok = 0 < p < (1 << 32) and r < (1 << 32) and s < 64 and e >= 0 and e << 32 <= 2 << s and \
            e * (((1 << 32) // p) * p - 1) < (1 << s) and g == p * 9 // 10
        if ok:
            continue
        cands = []
        for k in list(range(1, 200)) + [((1 << 32) // p) - j for j in range(0, 200)]:
            for d in (0, -1, 1):
                x = k * p + d
                if 0 <= x < (1 << 32):
                    cands.append(x)
        bad = [x for x in cands if calc_mod(p, r, s, x) != x % p]
        if not bad or i % 2 or i > 10:
            continue
        need = rows[i - 2][3] + 2 if i >= 2 else 2
        ops = ["A new 65536 0", "H new 1"]
        ops += ["H 1 insert %d %d" % (k, k) for k in range(1, need + 1)]
        for x in bad[:3]:
            ops += ["H 1 insert %d %d" % (x, x), "H 1 dump", "H 1 get %d %d" % (x, x)]
        out.append(("prime_row_%d" % i, ops))
    return out


# ------------------------------------------------------------------------------------------------
# running
# ------------------------------------------------------------------------------------------------
FLAGS = []      # -D flags decided by the compile probe in run()
ENV = {"ASAN_OPTIONS": "detect_leaks=1:abort_on_error=0:exitcode=99:allocator_may_return_null=1:max_allocation_size_mb=1048576"}


ENV_SMALL_MALLOC = {"ASAN_OPTIONS": ENV["ASAN_OPTIONS"].replace("max_allocation_size_mb=1048576", "max_allocation_size_mb=16")}
# allocation failure inside String::_op_vformat (the allocator refuses 20 MB): judged by the monitor only
FORMAT_OOM = ("oom_format", ["A new 1024 0", "S new 1", "S 1 append " + "41" * 200, "S 1 append_format_w 20000000 4242", "S 1 append 43"])


def run_driver(lines, timeout=1800):
    """the Lean driver under an address-space limit: a monitor/model bug must not be able to exhaust the machine"""
    import shutil
    cmd = [str(vlib.driver_path()), "C18"]
    if shutil.which("prlimit"):
        cmd = ["prlimit", "--as=%d" % (6 << 30)] + cmd
    return vlib.run_lines(cmd, lines, timeout)


def run_impl(h, ops):
    env = ENV_SMALL_MALLOC if any(" append_format_w " in o for o in ops) else ENV
    return vlib.run_lines([str(h)], ops, env=env, timeout=600)


def judge(h, ops):
    """Run one scenario on the real code and through the monitor. Returns dict(kind, key, what, idx, impl)."""
    impl, rc, err = run_impl(h, ops)

    res = {"impl": impl, "rc": rc, "kind": "good"}
    if rc != 0 or len(impl) != len(ops):
        m = re.search(r"(ERROR: \w+Sanitizer: [^\n]*|runtime error: [^\n]*|SUMMARY: [^\n]*)", err)
        res.update(kind="abort", key="abort:" + ("leak" if "LeakSanitizer" in err else "asan" if "AddressSanitizer" in err else "ubsan" if "runtime error" in err else "crash"),
                   what="the real code aborts after op %d (%s): %s" % (len(impl), ops[min(len(impl), len(ops) - 1)], m.group(1) if m else err[-300:]),
                   idx=len(impl), stderr=err[-2500:])
        # still let the monitor judge what was answered before the abort
    n = min(len(impl), len(ops))
    mon, rc2, err2 = run_driver(["M %s | %s" % (o, a) for o, a in zip(ops[:n], impl[:n])])
    res["mon"] = mon
    if rc2 != 0 or len(mon) != n:
        res.update(kind="protocol", key="protocol", what="monitor protocol failure: " + err2[-300:], idx=0)
        return res
    for i, mline in enumerate(mon):
        if mline != "good":
            w = ops[i].split()
            res.update(kind="bad", key="monitor:%s:%s%s" % (w[0], w[2] if len(w) > 2 and w[0] != "A" else w[1], ":oom" if impl[i].startswith("oom") else ""),
                       what="%s -> %s   [%s]" % (ops[i], impl[i], mline), idx=i)
            return res
    return res


def shrink(h, ops, key):
    def fails(c):
        if not c or not c[0].startswith("A new"):
            return False
        j = judge(h, c)
        return j["kind"] in ("bad", "abort") and j.get("key") == key
    return vlib.ddmin(ops, fails, max_tests=120)


def generate():
    vlib.gen_write("AsmjitVerif/Gen/HashPrimes.lean", gen_primes.render(gen_primes.collect(vlib.REPO)))


def run(res):
    rng = vlib.rng_for(res.seed, PID)
    res.assumptions += [
        "malloc returns fresh, 16-byte aligned, non-overlapping blocks and fails for requests above 2^40 bytes (ASan limit); requests between "
        "64 MiB and 2^40 bytes are not generated",
        "hash map / list sequence theorems assume keys / values are inserted only when absent (harness protocol)",
        "String::_op_vformat: vsnprintf is an oracle producing the output bytes; only the buffer handling around it is modelled and proved",
        "multi-GiB witnesses run on a non-sanitized build (malloc hands out untouched mappings) and are judged by the monitor only",
        "raw memory safety (no overrun, no use after free, no leak) = ASan/UBSan/LSan on the explored histories + the models' bounds-checked buffers",
    ]
    broken = []

    # -- L2a translator -----------------------------------------------------------------------------
    rows = []
    try:
        rows = gen_primes.collect(vlib.REPO)
        vlib.gen_write("AsmjitVerif/Gen/HashPrimes.lean", gen_primes.render(rows))
    except gen_primes.TranslateError as e:
        broken.append("translator gen_primes: " + str(e))
    res.coverage["prime_rows"] = len(rows)

    # -- L1 proofs ----------------------------------------------------------------------------------
    ok, out = vlib.lean_stage(res, PID, MODS)
    if not ok and not res.violations:
        for ft in getattr(res, "build_failures", []) or [{"decl": "?", "msg": out[-800:]}]:
            broken.append("theorem %s (%s:%s) no longer checks: %s" % (ft.get("decl"), ft.get("file"), ft.get("line"), ft.get("msg")))
        vlib.lake_build(["vdriver"])
    if not vlib.driver_path().exists():
        res.violation("Lean driver does not build", {"log": out[-3000:]}, found_input=False, key="driver")
        return

    # -- compile probe: the move operations of the containers must be instantiable ------------------
    flags = []
    base = ["g++", "-std=c++17", "-DASMJIT_STATIC", "-fsyntax-only", "-I", str(vlib.REPO), str(vlib.VERIF / "harness" / "c18_move_probe.cpp")]
    pv = vlib.sh(base + ["-DC18_PROBE_VECTOR_ONLY"])
    pa = vlib.sh(base)
    if pv.returncode == 0:
        flags.append("-DC18_HAVE_MOVE_ASSIGN")
    if pa.returncode == 0:
        flags.append("-DC18_HAVE_HASH_MOVE")
    if pa.returncode != 0:
        err = [l for l in (pv.stderr + pa.stderr).splitlines() if "error" in l]
        res.violation("move operations of the arena containers cannot be instantiated (ArenaVector::operator=(ArenaVector&&) / "
                      "ArenaHash(ArenaHash&&)): " + " | ".join(err[:2])[:500],
                      {"source": "harness/c18_move_probe.cpp", "how": " ".join(base), "errors": err[:6]}, True, key="compile:move")
    FLAGS[:] = flags
    res.coverage["real_move_operations"] = flags or ["emulated: move operations do not compile"]

    # -- L2b correspondence + L3 monitor ------------------------------------------------------------
    h = vlib.build_harness("c18", extra_flags=flags)
    pi, _, _ = run_impl(h, ["H primes"])
    pm, _, _ = run_driver(["H primes"])
    if pi != pm:
        broken.append("prime table seen by the compiler (%s) differs from the table the translator generated (%s)" % (pi, pm))

    scenarios = gen_scenarios(rng, res.tier)
    scenarios += prime_search(rows)
    hplain = vlib.build_harness("c18", flavor="plain", extra_flags=flags)

    def one(sc):
        name, ops = sc
        j = judge(h, ops)
        model, rc, err = run_driver(ops)
        j["name"], j["ops"], j["model"], j["model_rc"] = name, ops, model, rc
        return j

    with ThreadPoolExecutor(4) as ex:
        results = list(ex.map(one, scenarios))
    j = judge(h, FORMAT_OOM[1])
    j["name"], j["ops"], j["model"], j["model_rc"] = FORMAT_OOM[0], FORMAT_OOM[1], list(j["impl"]), 0
    results.append(j)
    for name, ops in HUGE_SCENARIOS:
        j = judge(hplain, ops)
        # monitor only: the model side is the answer of the real code (no correspondence for 2^32-element buffers)
        j["name"], j["ops"], j["model"], j["model_rc"] = name, ops, list(j["impl"]), 0
        j["harness"] = "plain"
        results.append(j)

    nev, nontriv = 0, set()
    kinds = {}
    seen_keys = {}
    diffs = []
    for j in results:
        ops, impl, model = j["ops"], j["impl"], j["model"]
        nev += len(impl)
        for o, a in zip(ops, impl):
            w = o.split()
            k = w[0] + ":" + (w[1] if w[0] == "A" or len(w) < 3 or w[1] == "new" else w[2]) + ":" + a.split()[0]
            kinds[k] = kinds.get(k, 0) + 1
            if not a.startswith("bad-op") and not a.startswith("precond"):
                nontriv.add(o + "|" + a)
        if j["kind"] in ("bad", "abort", "protocol"):
            seen_keys.setdefault(j["key"], j)
        # correspondence: judged for EVERY scenario. A difference is explained only by a violation at or before the same
        # operation of the same scenario (the monitor's verdict on that op, or the abort); any earlier difference is reported.
        if j.get("harness") != "plain":
            explained_from = j.get("idx", len(ops)) if j["kind"] in ("bad", "abort") else len(ops) + 1
            if j["model_rc"] != 0 or len(model) != len(ops):
                diffs.append((j["name"], 0, "driver failed or answered %d of %d lines" % (len(model), len(ops)), "", ops[:1]))
            else:
                n = min(len(impl), len(model))
                d = vlib.first_diff(impl[:n], model[:n])
                if d is not None and d < explained_from:
                    diffs.append((j["name"], d, impl[d], model[d], ops[:d + 1]))
    res.coverage["evaluations"] = nev
    res.coverage["distinct_nontrivial"] = len(nontriv)
    res.coverage["rule"] = ("seeded scenarios per container (arena incl. soft-reset reuse and dynamic-only arenas, vector growth steps and "
                            "huge counts, hash collisions modulo table primes, ascending/descending/random tree keys, bit-set sizes around "
                            "word boundaries, string lengths around SSO/128/512 and all number formats) + mixed scenarios sharing one "
                            "arena with resets; non-trivial = distinct (op, answer) pair that is not a rejected precondition")
    res.coverage["exhaustive"] = False
    res.coverage["input_distribution"] = dict(sorted(kinds.items()))
    res.coverage["scenarios"] = len(scenarios)
    res.coverage["traces_validated_against_impl"] = sum(1 for j in results if j["kind"] == "good")
    good = [j for j in results if j["kind"] == "good" and j["ops"]]
    res.add_samples([{"op": j["ops"][len(j["ops"]) // 2], "impl": j["impl"][len(j["ops"]) // 2], "model": j["model"][len(j["ops"]) // 2]}
                     for j in good[:12:2]])

    for key, j in list(seen_keys.items())[:8]:
        if j["kind"] == "protocol":
            res.violation(j["what"], {"ops": j["ops"][:50]}, found_input=False, key="protocol")
            continue
        hh = hplain if j.get("harness") == "plain" else h
        small = shrink(hh, j["ops"][:j["idx"] + (1 if j["kind"] == "bad" else len(j["ops"]))], key)
        jj = judge(hh, small)
        res.violation("property violated on the real code (%s): %s" % (key, jj.get("what", j["what"])),
                      {"ops": small, "scenario": j["name"], "harness": j.get("harness", "asan"), "monitor": jj.get("what", j["what"]), "stderr": jj.get("stderr", ""),
                       "how": "python3 tools/check.py replay <this file>"}, True, key=key)
    if nev == 0 or not results:
        res.violation("empty run: no operation was executed on the real code", {"scenarios": len(results)}, False, key="empty")
    if diffs:
        name, d, a, b = diffs[0][:4]
        ops = diffs[0][4] if len(diffs[0]) > 4 else []
        res.violation("correspondence model/implementation differs in scenario %s at op %d: impl=%s model=%s (%d scenarios differ); the "
                      "monitor accepts the answers of the implementation up to that operation" % (name, d, a, b, len(diffs)),
                      {"ops": ops[-60:], "impl": a, "model": b, "unchecked": "correspondence Model/*.lean ~ asmjit/support/arena*.cpp, core/string.cpp"},
                      False, key="corr")
    if broken:
        res.violation("proof obligation no longer checks: " + " | ".join(broken)[:1500], {"unchecked": broken}, False, key="obligation")


def replay(data):
    ops = data["replay"].get("ops", [])
    h = vlib.build_harness("c18", flavor="plain" if data["replay"].get("harness") == "plain" else "asan")
    j = judge(h, ops)
    for i, o in enumerate(ops):
        a = j["impl"][i] if i < len(j["impl"]) else "<no answer: aborted>"
        m = j["mon"][i] if i < len(j.get("mon", [])) else ""
        print(o, "->", a, ("   [" + m + "]") if m and m != "good" else "")
    if j["kind"] != "good":
        print("RESULT:", j.get("what"))
        if j.get("stderr"):
            print(j["stderr"][-1500:])
        return 1
    print("RESULT: property holds on this input")
    return 0
