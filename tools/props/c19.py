"""C19 — constant pool: aligned, stable, deduplicated offsets with exact contents (DESIGN.md section 6, C19)."""
import itertools
import vlib

PID = "C19"
MANIFEST = {
    "technique": "Lean 4 invariant/refinement theorems over all add/reset/fill/embed histories of a hand model of constpool.cpp "
                 "+ C++/Lean correspondence on outputs and internal state + Lean monitor of the property on the real code's answers",
    "text": "Lean proves, for every history of add(data) (all sizes, valid and invalid), reset, fill and embed_const_pool, that the model of "
            "ConstPool is accepted by an independent observer-level specification: returned offsets are aligned and inside the reported size, "
            "equal constants get equal offsets for ever, placed constants agree wherever they overlap, a refused add changes nothing, every "
            "image has length = size, carries each constant at its offset, is zero elsewhere, and the reported alignment is a multiple of every "
            "constant's size. The model is tied to the real ConstPool by running both on the same histories and comparing every answer and the "
            "complete internal state (gap lists, trees in traversal order); the Lean monitor judges every answer of the real code. "
            "Further theorems: embed_const_pool is refused exactly for invalid/bound labels and otherwise binds the label at a multiple of the alignment "
            "in front of a correct image; every constant a Compiler hands out (local or global scope, any number of functions) is found at label+offset "
            "in the finalized section, aligned to its size.",
    "note": "Trusted: Lean kernel; Spec/ConstPool.lean as the meaning of the property; harness/driver/diff. Abstracted: the red-black tree is an "
            "ordered association list (C18), arena allocation never fails (C15), Node::_offset is Nat not uint32 (pools < 4 GiB). "
            "embed_const_pool (label checks, align, bind, fill; x86/a64 Assembler and Builder) and the Compiler's constants (_new_const, local pool "
            "at end_func, GlobalConstPoolPass, serialisation) are modelled in Model/ConstPoolEmit.lean, tied by the es/cc lines and proved "
            "(compile_const_in_image). Node::_offset uint32: Model/ConstPool32.lean, equal to the Nat model below 4 GiB (proved), diverging witness beyond.",
}
MODS = ["AsmjitVerif.Props.C19"]
VALID = (1, 2, 4, 8, 16, 32, 64)


# ------------------------------------------------------------------------------------------------
# generators
# ------------------------------------------------------------------------------------------------

def patterns(rng, n=6):
    """64-byte base patterns; several have repeated halves/quarters so that sub-constants coincide."""
    pats = []
    for k in range(n):
        r = rng.random()
        if r < 0.35:
            p = bytes(rng.getrandbits(8) for _ in range(64))
        elif r < 0.55:
            q = bytes(rng.getrandbits(8) for _ in range(rng.choice((4, 8, 16, 32))))
            p = (q * 64)[:64]
        elif r < 0.75:
            p = bytes([rng.choice((0, 0xFF, 1, 0x80))]) * 64
        else:
            # few distinct 4-byte words
            ws = [bytes(rng.getrandbits(8) for _ in range(4)) for _ in range(3)]
            p = b"".join(rng.choice(ws) for _ in range(16))
        pats.append(p)
    return pats


def pick_const(rng, pats):
    r = rng.random()
    if r < 0.12:
        size = rng.choice((0, 3, 5, 6, 7, 9, 12, 15, 17, 24, 31, 33, 48, 63, 65, 96, 128, rng.randrange(0, 70)))
        return bytes(rng.getrandbits(8) for _ in range(size))
    size = rng.choice(VALID) if r < 0.8 else rng.choice((1, 2, 4, 8))
    if rng.random() < 0.1:
        return bytes(rng.getrandbits(8) for _ in range(size))
    p = rng.choice(pats)
    pos = rng.randrange(0, 64 // size) * size
    if rng.random() < 0.05 and size < 64:          # unaligned slice of a pattern: looks similar, is different
        pos = min(64 - size, pos + rng.randrange(0, size))
    return p[pos:pos + size]


def hx(b):
    return b.hex() if b else "-"


def gen_history(rng, maxlen):
    pats = patterns(rng, rng.choice((1, 2, 3, 6)))
    n = rng.randrange(1, maxlen + 1)
    ops = ["new"]
    # a bias phase: small constants first (creates misalignment and gaps), or large first (creates sharing)
    mode = rng.choice(("mixed", "small-first", "large-first", "ascending", "mixed"))
    consts = [pick_const(rng, pats) for _ in range(n)]
    if mode == "small-first":
        consts.sort(key=len)
    elif mode == "large-first":
        consts.sort(key=lambda c: -len(c))
    elif mode == "ascending":
        k = len(consts) // 2
        consts = sorted(consts[:k], key=len) + consts[k:]
    for c in consts:
        ops.append("add " + hx(c))
        r = rng.random()
        if r < 0.03:
            ops.append("fill")
        elif r < 0.04:
            ops.append("dump")
        elif r < 0.045:
            ops.append("reset")
        elif r < 0.055:
            ops.append(rand_embed(rng))
    ops += ["fill", "dump", rand_embed(rng)]
    return ops


def rand_es(rng):
    """embed sequence with label checks: n = new label, d: data, b<k> bind, p<k> embed the pool at label k"""
    items, nl = [], 0
    for _ in range(rng.randrange(1, 9)):
        r = rng.random()
        if r < 0.3 or nl == 0 and r < 0.6:
            items.append("n")
            nl += 1
        elif r < 0.5:
            items.append("d:" + hx(bytes(rng.getrandbits(8) for _ in range(rng.choice((1, 2, 3, 5, 8, 13, 16, 33))))))
        elif r < 0.62:
            items.append("b%d" % rng.randrange(0, nl + 2))
        else:
            items.append("p%d" % (rng.randrange(0, nl + 1) if rng.random() < 0.85 else nl + rng.randrange(0, 3)))
    return "es %s %s %s" % (rng.choice(("x86", "a64")), rng.choice(("asm", "bld")), " ".join(items))


def rand_embed(rng):
    if rng.random() < 0.5:
        return rand_es(rng)
    pre = bytes(rng.getrandbits(8) for _ in range(rng.choice((0, 1, 2, 3, 4, 7, 8, 15, 16, 17, 31, 33, 63, 64, 65))))
    return "embed %s %s %s" % (rng.choice(("x86", "a64")), rng.choice(("asm", "bld")), hx(pre))


def exhaustive_histories(rng, length):
    """all sequences of `length` adds over 3 nested patterns x 7 sizes (bounded-exhaustive part)."""
    base = bytes(range(1, 65))
    rep = (bytes([0xAA, 0xBB, 0xCC, 0xDD]) * 16)
    half = bytes(range(1, 33)) * 2
    alphabet = [p[:s] for p in (base, rep, half) for s in VALID]
    alphabet = list(dict.fromkeys(alphabet))
    for seq in itertools.product(alphabet, repeat=length):
        yield ["new"] + ["add " + hx(c) for c in seq] + ["fill", "dump"]


def gen_ops(rng, tier):
    hs = []
    if tier == "quick":
        for L in (1, 2):
            hs += list(exhaustive_histories(rng, L))
        ex3 = list(exhaustive_histories(rng, 3))
        hs += rng.sample(ex3, 2500)
        hs += [gen_history(rng, rng.choice((8, 30, 200))) for _ in range(2000)]
        hs += [gen_history(rng, 1500) for _ in range(3)]
    else:
        for L in (1, 2, 3):
            hs += list(exhaustive_histories(rng, L))
        ex4 = exhaustive_histories(rng, 4)
        hs += [h for h in ex4 if rng.random() < 0.35]
        hs += [gen_history(rng, rng.choice((8, 30, 200, 200))) for _ in range(40000)]
        hs += [gen_history(rng, 2000) for _ in range(40)]
    return hs


# ------------------------------------------------------------------------------------------------
# running
# ------------------------------------------------------------------------------------------------

def mon_lines(ops, impl):
    """[(op index, monitor line)]; an op may need several monitor lines (es) or none (dump)"""
    out = []
    for i, (o, r) in enumerate(zip(ops, impl)):
        w = o.split()
        if w[0] in ("new", "reset"):
            out.append((i, "m-new"))
        elif w[0] == "add":
            out.append((i, "m-add %s %s" % (w[1], r)))
        elif w[0] == "fill":
            out.append((i, "m-fill " + r))
        elif w[0] == "embed":
            out.append((i, "m-embed %s %s %s %s" % (w[1], w[2], w[3], r)))
        elif w[0] == "es":
            out += [(i, l) for l in es_monitor_lines(w, r)]
    return out


def run_monitor(ops, impl):
    """-> list of (op index, BAD text) or None on protocol failure"""
    ml = mon_lines(ops, impl)
    mon, rc, err = vlib.run_model("C19", [l for _, l in ml])
    if rc != 0 or len(mon) != len(ml):
        return None
    return [(ml[k][0], m) for k, m in enumerate(mon) if m != "good"]


def es_monitor_lines(w, r):
    """every successful `p<k>` of an `es` line must have produced a correct image at an aligned label"""
    parts = r.split("||")
    if not r.startswith("es") or len(parts) != 3:
        return ["m-fill malformed " + r[:60].replace(" ", "_")]
    answers = [x.strip() for x in parts[0][2:].split(" | ")] if parts[0][2:].strip() else []
    items = w[3:]
    labs = dict(x.split("=") for x in parts[1].split())
    t = parts[2].split()
    size, align, sec = t[0], t[1], ("" if t[2] == "-" else t[2])
    out = []
    if len(answers) != len(items):
        return ["m-fill malformed " + r[:60].replace(" ", "_")]
    for it, an in zip(items, answers):
        if it[0] == "p" and an == "ok":
            off = labs.get("L" + it[1:], "unbound")
            if off == "unbound":
                out.append("m-fill embedded-pool-label-unbound")
            else:
                end = int(off) + int(size)
                out.append("m-embed es es - emb %s %s %s %s" % (off, size, align, sec[:2 * end] or "-"))
    return out


def judge(h, ops):
    """run the real code and the Lean monitor on one op list -> (impl lines, list of (index, BAD text), crashed?)"""
    impl, rc, err = vlib.run_lines([str(h)], ops)
    if rc != 0 or len(impl) != len(ops):
        head = [l for l in err.splitlines() if "ERROR:" in l or "runtime error" in l][:2]
        return impl, [], "rc=%d %s %s" % (rc, " | ".join(head)[:600], err[-300:])
    bad = run_monitor(ops, impl)
    if bad is None:
        return impl, [], "monitor protocol failure"
    return impl, bad, None


def cc_monitor_lines(case, answer):
    """monitor lines (one group per pool node) for a `cc` line and the implementation's answer; None = malformed answer"""
    if not answer.startswith("cc"):
        return None
    parts = answer[2:].split("||")
    if len(parts) != 3:
        return None
    items = case.split()[2:]
    answers = [x.strip() for x in parts[0].split(" | ")] if parts[0].strip() else []
    if len(answers) != len(items):
        return None
    sec = parts[2].strip()
    secb = "" if sec == "-" else sec
    pools = {}
    for pd in [x.strip() for x in parts[1].split(" | ") if x.strip()]:
        w = pd.split()
        if len(w) != 4:
            return None
        pools[w[0]] = w[1:]
    groups = {}
    for it, an in zip(items, answers):
        if it[0] in "lg" and it[1:2] == ":":
            w = an.split()
            if w[0] == "ok" and len(w) == 6:
                groups.setdefault(w[1], ["m-new"]).append("m-add %s ok %s" % (it[2:], " ".join(w[2:])))
            elif w[0] == "err" and len(w) == 6:
                groups.setdefault(w[2], ["m-new"]).append("m-add %s err %s %s" % (it[2:], w[1], " ".join(w[3:])))
            else:
                return None
    # which pools MUST be in the section after finalize (meaning of the property, not of the implementation): a global pool
    # always; a local pool if an end_func succeeded after the pool came into being
    must = set()
    for k, (it, an) in enumerate(zip(items, answers)):
        w = an.split()
        if it[0] in "lg" and it[1:2] == ":" and len(w) == 6:
            if w[0] != "ok":
                continue                      # a refused constant obliges nobody to emit its pool
            pk = w[1]
            if it[0] == "g" or any(i2 == "E" and a2 == "ok" for i2, a2 in list(zip(items, answers))[k + 1:]):
                must.add(pk)
    out = []
    for pk, lines in groups.items():
        if pk not in pools:
            return None
        off, size, align = pools[pk]
        if off == "unbound" and pk in must:
            lines.append("m-fill pool-never-embedded")
        if off != "unbound":
            end = int(off) + int(size)
            lines.append("m-embed cc cc - emb %s %s %s %s" % (off, size, align, secb[:2 * end] or "-"))
        out.append(lines)
    return out


def judge_compile_all(h, cases):
    """returns (impl answers, model answers, [(case, text)] monitor failures / crashes)"""
    bad = []
    impl, rc, err = vlib.run_lines([str(h)], cases)
    if rc != 0 or len(impl) != len(cases):
        # find the crashing case
        for c in cases:
            r, rc1, err1 = vlib.run_lines([str(h)], [c], timeout=60)
            if rc1 != 0 or len(r) != 1:
                head = [l for l in err1.splitlines() if "ERROR:" in l or "runtime error" in l][:2]
                bad.append((c, "crash rc=%d %s" % (rc1, " | ".join(head)[:500])))
                break
        impl = []
        for c in cases:
            r, rc1, _ = vlib.run_lines([str(h)], [c], timeout=60)
            impl.append(r[0] if rc1 == 0 and len(r) == 1 else "crash")
    model, rc2, err2 = vlib.run_model("C19", cases)
    ml, owner = [], []
    for c, a in zip(cases, impl):
        if a == "crash":
            continue
        g = cc_monitor_lines(c, a)
        if g is None:
            bad.append((c, "malformed-or-failed " + a[:300]))
            continue
        for lines in g:
            ml += lines
            owner += [c] * len(lines)
    if ml:
        mon, _, _ = vlib.run_model("C19", ml)
        seen = set()
        for l, m, c in zip(ml, mon, owner):
            if m != "good" and c not in seen:
                seen.add(c)
                bad.append((c, "monitor %s on %s" % (m, l[:200])))
    return impl, model, bad


def classify(ops, impl, dist):
    seen, placed = set(), []
    size = 0
    for o, r in zip(ops, impl):
        w = o.split()
        if w[0] in ("new", "reset"):
            seen, placed, size = set(), [], 0
            dist["op:" + w[0]] = dist.get("op:" + w[0], 0) + 1
            continue
        if w[0] != "add":
            dist["op:" + w[0]] = dist.get("op:" + w[0], 0) + 1
            continue
        a = r.split()
        if a[0] != "ok":
            k = "add:refused-invalid-size"
        else:
            off, nsize = int(a[1]), int(a[2])
            n = 0 if w[1] == "-" else len(w[1]) // 2
            if w[1] in seen:
                k = "add:hit-same-constant"
            elif nsize == size:
                k = "add:hit-shared-sub-constant" if any(po <= off and off + n <= po + pn for po, pn in placed) else "add:gap-reuse"
            elif nsize == size + n:
                k = "add:append-aligned"
            else:
                k = "add:append-with-new-gap"
            seen.add(w[1])
            placed.append((off, n))
            size = nsize
        dist[k] = dist.get(k, 0) + 1


def shrink(h, hist, is_bad):
    keep_new = hist[:1]
    body = hist[1:]
    small = vlib.ddmin(body, lambda c: is_bad(keep_new + c), max_tests=300)
    return keep_new + small


def run(res):
    rng = vlib.rng_for(res.seed, PID)
    res.assumptions += [
        "ConstPool::Tree (red-black tree) = association list in memcmp order (balance and memory safety: C18)",
        "arena allocation inside add never fails (C15); Node::_offset is uint32 in C++, Nat in the model (pool < 4 GiB)",
        "Compiler functions are `void f()` without frame: prolog empty, epilog `ret` (x86 c3, a64 c0035fd6) - bytes the model takes as parameters; "
        "nested add_func is not modelled (never generated)",
        "embed_const_pool / bind are modelled for their effect on the section bytes and the label table (x86 pad 0xCC, a64 pad 0x00); "
        "buffer growth failure (C15) is not modelled",
        "Node::_offset uint32 / int32 displacement: add32 = add proved below 4 GiB; sizes beyond are proved on the model only (witness theorems)"]
    broken = []

    ok, out = vlib.lean_stage(res, PID, MODS)
    if not ok and not res.violations:
        for ft in getattr(res, "build_failures", []) or [{"decl": "?", "msg": out[-800:]}]:
            broken.append("theorem %s (%s:%s) no longer checks: %s" % (ft.get("decl"), ft.get("file"), ft.get("line"), ft.get("msg")))
        vlib.lake_build(["vdriver"])
    if not vlib.driver_path().exists():
        res.violation("Lean driver does not build", {"log": out[-3000:]}, found_input=False, key="driver")
        return

    h = vlib.build_harness("c19")
    hists = gen_ops(rng, res.tier)
    cc_cases = gen_compiler_cases(rng, res.tier)
    ops = [o for hh in hists for o in hh]
    starts, p = [], 0
    for hh in hists:
        starts.append(p)
        p += len(hh)

    def hist_of(i):
        import bisect
        k = bisect.bisect_right(starts, i) - 1
        return hists[k]

    impl, rc, err = vlib.run_lines([str(h)], ops)
    if rc != 0 or len(impl) != len(ops):
        # crash / sanitizer: find the history (stdout of an aborted harness is lost, so search by groups)
        bad_h = None
        for g in range(0, len(hists), 200):
            grp = hists[g:g + 200]
            _, rcg, _ = vlib.run_lines([str(h)], [o for hh in grp for o in hh])
            if rcg != 0:
                for hh in grp:
                    if judge(h, hh)[2]:
                        bad_h = hh
                        break
                if bad_h is not None:
                    break
        if bad_h is None:
            res.violation("harness aborted rc=%d but no single history reproduces it: %s" % (rc, err[-1500:]), {"stderr": err[-3000:]},
                          found_input=False, key="harness-abort")
            return
        small = shrink(h, bad_h, lambda c: judge(h, c)[2] is not None)
        res.violation("real ConstPool crashes / sanitizer report: %s" % judge(h, small)[2], {"ops": small}, True, key="crash")
        return
    model, rc2, err2 = vlib.run_model("C19", ops)
    if rc2 != 0 or len(model) != len(ops):
        res.violation("driver protocol failure rc=%d lines %d/%d %s" % (rc2, len(model), len(ops), err2[-500:]), {}, False, key="protocol")
        return

    # monitor over the whole implementation trace (always)
    bad = run_monitor(ops, impl)
    if bad is None:
        res.violation("monitor protocol failure", {}, False, key="protocol")
        return
    diffs = [i for i in range(len(ops)) if impl[i] != model[i]]

    # compiler path (_new_const, end_func, GlobalConstPoolPass, serialisation): correspondence + monitor
    cc_impl, cc_model, cc_bad = judge_compile_all(h, cc_cases)
    cc_diffs = [k for k in range(len(cc_cases)) if k >= len(cc_model) or k >= len(cc_impl) or cc_impl[k] != cc_model[k]]

    dist = {}
    classify(ops, impl, dist)
    dist["cc:cases"] = len(cc_cases)
    for c, a in zip(cc_cases, cc_impl):
        for it, an in zip(c.split()[2:], [x.strip() for x in a[2:].split("||")[0].split(" | ")]):
            k = "cc:%s:%s" % (it[0], " ".join(an.split()[:2]) if an.startswith("err") else "ok")
            dist[k] = dist.get(k, 0) + 1
        if " unbound " in a:
            dist["cc:pool-never-embedded"] = dist.get("cc:pool-never-embedded", 0) + 1
    for o, r in zip(ops, impl):
        if o.startswith("es "):
            for an in [x.strip() for x in r[2:].split("||")[0].split(" | ")]:
                dist["es:" + an] = dist.get("es:" + an, 0) + 1
    n_adds = sum(1 for o in ops if o.startswith("add "))
    res.coverage["evaluations"] = len(ops) + len(cc_cases)
    res.coverage["distinct_nontrivial"] = len({(tuple(hh)) for hh in hists if any(o.startswith("add") for o in hh)}) + len(set(cc_cases))
    res.coverage["rule"] = ("histories = bounded-exhaustive add sequences over 3 nested patterns x 7 sizes (length<=2 all, 3 sampled in quick; <=3 all, 4 "
                            "sampled in thorough) + seeded random histories (length<=200, a few <=2000) over pattern slices (halves/quarters of wider "
                            "constants, repeated halves), invalid sizes, interleaved fill/dump/reset/embed/es (embed sequences with new/bound/invalid "
                            "labels, Assembler and Builder, x86 and a64); cc = Compiler programs (0-3 functions, local/global constants and data inside "
                            "and outside functions, missing/surplus end_func); non-trivial = distinct history with >=1 add or distinct cc program; "
                            "every line compared impl vs model (dump = whole internal state) and judged by the Lean monitor")
    res.coverage["exhaustive"] = False
    res.coverage["input_distribution"] = dist
    n = len(ops)
    if n >= 3:
        res.add_samples([{"op": ops[i][:200], "impl": impl[i][:300], "model": model[i][:300]} for i in (1, n // 3, n // 2, n - 2, n - 1)])
    if cc_cases and cc_impl:
        res.add_samples([{"op": cc_cases[0][:300], "impl": cc_impl[0][:400], "model": (cc_model[0] if cc_model else "")[:400]}], limit=7)
    res.coverage["traces_validated_against_impl"] = len(hists) + len(cc_cases)

    # -- classification (coordinator note: nothing below may hide anything else) ---------------------------------------
    if n_adds == 0 or not cc_cases:
        res.violation("empty run: %d add lines, %d cc programs executed" % (n_adds, len(cc_cases)), {}, False, key="empty-run")
    explained = set()        # histories / cc programs in which the monitor already names a failing input
    if bad:
        i, m = bad[0]
        hh = hist_of(i)
        reason = m.split()[1] if len(m.split()) > 1 else m

        def is_bad(c):
            _, b, crashed = judge(h, c)
            return crashed is not None or any(x[1].split()[1:2] == [reason] for x in b)
        small = shrink(h, hh, is_bad)
        im, b2, _ = judge(h, small)
        res.violation("ConstPool violates C19 on the real code: monitor says %s (%d failing answers in this run); shrunk history: %s -> %s"
                      % (m, len(bad), small, im), {"ops": small, "impl": im, "monitor": [x[1] for x in b2]}, True, key="mon:" + reason)
        import bisect
        explained = {bisect.bisect_right(starts, i) - 1 for i, _ in bad}
    if cc_bad:
        case, a = cc_bad[0]

        def cc_is_bad(items):
            c = " ".join(case.split()[:2] + items)
            return bool(judge_compile_all(h, [c])[2])
        small = vlib.ddmin(case.split()[2:], cc_is_bad, max_tests=200)
        c = " ".join(case.split()[:2] + small)
        ci, cm, cb = judge_compile_all(h, [c])
        res.violation("Compiler constant (_new_const / end_func / GlobalConstPoolPass / serialisation) violates C19: %s; shrunk: %s -> %s (%d failing programs)"
                      % (cb[0][1] if cb else a, c, ci, len(cc_bad)), {"ops": [c], "impl": ci, "verdict": [x[1] for x in cb]}, True,
                      key="cc:" + " ".join(a.split()[:3]))
    import bisect
    unexplained = [i for i in diffs if (bisect.bisect_right(starts, i) - 1) not in explained]
    if unexplained:
        i = unexplained[0]
        hh = hist_of(i)

        def differs(c):
            a, _, _ = vlib.run_lines([str(h)], c)
            b, _, _ = vlib.run_model("C19", c)
            return a != b
        small = shrink(h, hh, differs)
        a, _, _ = vlib.run_lines([str(h)], small)
        b, _, _ = vlib.run_model("C19", small)
        res.violation("correspondence Model/ConstPool.lean ~ constpool.cpp differs (%d lines) at %r: impl=%s model=%s; the property monitor accepts "
                      "the answers of the real code in these histories; shrunk: %s" % (len(unexplained), ops[i][:100], impl[i][:200], model[i][:200], small),
                      {"ops": small, "impl": a, "model": b, "unchecked": "correspondence Model/ConstPool.lean + ConstPoolEmit.lean ~ constpool.cpp / embed_const_pool"},
                      False, key="corr")
    cc_bad_cases = {c for c, _ in cc_bad}
    cc_unexplained = [k for k in cc_diffs if cc_cases[k] not in cc_bad_cases]
    if cc_unexplained:
        k = cc_unexplained[0]
        res.violation("correspondence Model/ConstPoolEmit.lean ~ BaseCompiler differs (%d programs) at %r: impl=%s model=%s; the monitor accepts the real code's answers"
                      % (len(cc_unexplained), cc_cases[k], cc_impl[k][:300] if k < len(cc_impl) else None, cc_model[k][:300] if k < len(cc_model) else None),
                      {"ops": [cc_cases[k]], "impl": cc_impl[k] if k < len(cc_impl) else None, "model": cc_model[k] if k < len(cc_model) else None,
                       "unchecked": "correspondence Model/ConstPoolEmit.lean ~ compiler.cpp"}, False, key="corr-cc")
    if broken:
        res.violation("proof obligation no longer checks: " + " | ".join(broken)[:1500], {"unchecked": broken}, False, key="obligation")


def gen_compiler_cases(rng, tier):
    """`cc` lines: functions (F .. E) with local/global constants and data inside and outside functions, missing / surplus
    end_func; never a nested add_func (not modelled)."""
    cases = []
    n = 400 if tier == "quick" else 12000
    for _ in range(n):
        pats = patterns(rng, rng.choice((1, 3)))
        items = []

        def consts(k, scopes):
            for _ in range(k):
                r = rng.random()
                if r < 0.2:
                    items.append("d:" + hx(bytes(rng.getrandbits(8) for _ in range(rng.choice((1, 2, 3, 4, 7, 8, 9, 16))))))
                else:
                    items.append("%s:%s" % (rng.choice(scopes), hx(pick_const(rng, pats))))
        if rng.random() < 0.2:
            consts(rng.randrange(1, 4), "lgg")        # constants before any function
        for _f in range(rng.choice((0, 1, 1, 2, 3))):
            if rng.random() < 0.05:
                items.append("E")                      # end_func without a function
            items.append("F")
            consts(rng.randrange(0, 10), "llg")
            if rng.random() < 0.93:
                items.append("E")
            else:
                break                                  # function left open: nothing may follow (no nested add_func)
        else:
            if rng.random() < 0.3:
                consts(rng.randrange(1, 4), "gggl")    # after the last function
        cases.append("cc %s %s" % (rng.choice(("x86", "a64")), " ".join(items)))
    return cases


def replay(data):
    ops = data["replay"].get("ops", [])
    h = vlib.build_harness("c19")
    if ops and ops[0].startswith("cc "):
        ci, cm, cb = judge_compile_all(h, ops)
        for o, r, m in zip(ops, ci, cm):
            print(o, "->", r, "\n   model:", m)
        for c, t in cb:
            print("verdict:", t)
        return 1 if cb else 0
    impl, bad, crashed = judge(h, ops)
    for o, r in zip(ops, impl):
        print(o, "->", r)
    for i, m in bad:
        print("monitor:", ops[i], "=>", m)
    if crashed:
        print("crash:", crashed)
    return 1 if (bad or crashed) else 0
